#!/usr/bin/env python3
"""
py2lean_vecproto.py — translate the PARENT-SIDE CALL PROTOCOL of the vectorised PettingZoo environment (property C13)
into Lean 4:

  * REPO/agilerl/vector/pz_async_vec_env.py   `AsyncState` (the Enum), `AsyncPettingZooVecEnv.__init__` (only the initial
        `_state`), `_assert_is_running`, `_poll_pipe_envs`, `_raise_if_errors`, `reset_async` / `reset_wait`,
        `step_async` / `step_wait`, `call_async` / `call_wait`, `set_attr`, the synchronous wrappers `reset`, `call`,
        `get_attr`, `render`, `close_extras`, `__del__`
  * REPO/agilerl/vector/pz_vec_env.py         `PettingZooVecEnv.step` (the synchronous step wrapper), `.close`, the
        class attribute `closed`

    python3 harness/py2lean_vecproto.py [--repo DIR] [--out FILE] [--stdout] [--force]

Reads the *source text* only (Python `ast`; agilerl is never imported) and writes lean/Gen/VecProtoGen.lean (namespace
VecProtoGen, core Lean only).  `Proofs/VecProtoGenEq.lean` instantiates the generated transition functions with the
scripted workers of the hand model `Model/VecProto.lean` and proves them equal to the model's parent-side transitions
(`asyncOp`, `waitOp`, `setAttrOp`, `syncOp`, `closeOp`, for the repaired variant `fixed = true`, `fix2 = true`, which is
what /repo HEAD implements); `Props/C13.lean` restates the C13 theorems over the generated definitions.
py2lean_vecenv.py (property C12) translates the DATA side of the same file (seeds, messages, worker branches) and skips
exactly what is translated here; this translator skips exactly the data side.

Shape of the output
  * `inductive AsyncState` + `AsyncState.value` from the Enum class; `Parent` = the two attributes of `self` the protocol
    reads and writes (`_state`, `closed`), `Parent.init` from `__init__` / the class attribute;
  * everything outside the parent object — pipes, worker processes, the error queue, the clock — is an abstract state
    `W` with an explicit oracle `S : Sys W R Q` (fixed text): `pipe_send i command`, `pipe_recv i`, `pipe_poll i t`,
    `pipe_is_none i`, `pipe_closed i`, `pipe_close i`, `pipe_set_none i`, `proc_is_alive i`, `proc_terminate i`,
    `proc_join i timeout?`, `queue_get`, `now`, `success`, `decode`, `isExc`, `num_envs`.  An oracle call returns the
    new `W` and `Res α = ok a | raise <class> | hang` (hang = the call never returns);
  * one `def` per method: `f S <protocol parameters> (p : Parent) (w : W) : Parent × W × Res τ`; its body is a term over
    the statement combinators of the prelude (`pySeq`, `pyIf`, `pyIfNone`, `pyIfFalsy`, `pyAssign`, `pyRaise`,
    `pyReturn`, `pyBreak`, `pyLet`, `pySys`, `pyCall`, `pyForEach`, `pyTry`, `pyFinally`, `pyDecode`), i.e. a shallow
    embedding of the statement list: statement order, guards, comparisons, constants, the class of every `raise`, the
    classes of every `except` clause and their order, `finally`, `break`, early `return`, loop bounds all flow from the
    AST.  Exceptions are values (`Ctl.raise c`); `pyTry` runs the first handler whose class tuple contains a base class
    of the raised class (`pyCatches` over `ErrClass.mro`: `except Exception` does not catch `KeyboardInterrupt`),
    `pyFinally` runs its second block on every exit but `hang`;
  * locals live in a per-function record `f.L` (fields `a0…` = parameters, `v0…` = locals in order of first binding,
    `c0…` = lists built by a comprehension), results of oracle / method calls, loop variables, handler variables and
    narrowed Optionals are lambda-bound (`r0…`, `i0…`, `e0…`, `n0…`): renaming a local changes only the comments that
    quote the source (doc comments of the fields, the notes on skipped statements), not a definition.
    A record field read before it is definitely assigned is rejected, so the dummy initial value of a field is
    never observed.

Supported subset (anything else raises `Unsupported` naming construct and line — never a guess)
  * statements: docstring; `pass`; `self._state = AsyncState.X`; `self.closed = <bool>`;
    `self.parent_pipes[<index>] = None`; `x = e` for a protocol-typed `e` (see below); `x = []` + `x.append(<bool>)`
    (a list of success flags); `a, b = pipe.recv()` (payload, success flag); `a, b = zip(*[pipe.recv() for pipe in
    self.parent_pipes])` (payload list, success list; a loop that stops at the first failing `recv`);
    `index, exctype, value, trace = self.error_queue.get()` (checked against the 4-tuple `_async_worker` puts);
    `function = getattr(self, f"…{self._state.value}…")` + `function(args)` (dispatch over the Enum members: a member
    whose name has no method raises AttributeError); `pipe.send((<string literal>, data))`; `pipe.close()`;
    `process.terminate()`; `process.join([t])`; `self.m(args)` / `x = self.m(args)` / `return self.m(args)` /
    `if [not] self.m(args):` for a translated method `m` (keywords, defaults and `**kwargs` forwarding resolved from
    the signatures); `if / elif / else`; `if x is None:` / `if not x:` on an Optional local narrow `x` in the other
    branch (and in the rest of the block when the branch cannot complete); `for` over `self.parent_pipes`,
    `self.processes`, `enumerate(…)` / `zip(…, data…)` of them, `range(<int>)`, a payload list or its `enumerate`
    (no `else`); `break`; `raise C(…)` / `raise C` / `raise` / `raise <caught>` / `raise _rebuild_exception(cls, v)`;
    `assert e`; `return [e]`; `try / except (classes) [as x] / else / finally`; `logger.<level>(…)` (skipped);
  * expressions (pure): `True/False/None`, numbers, `self._state`, `self.closed`, `self.num_envs`, `AsyncState.X`,
    locals, `==`/`!=` on states and numbers, `< <= > >=`, `is [not] None` on an Optional or a pipe, `and / or / not`
    (an `x is not None and …` narrows `x` in the right operand), `e1 if c else e2`, `+ -`, `max/min(a, b)`,
    `time.perf_counter()`, `pipe.closed`, `pipe.poll(t)`, `process.is_alive()`, `all(flags)`, `sum(flags)`, `len(…)`,
    `getattr(self, "closed", d)`, `hasattr(self, "_state")`;
  * DATA: a statement that reads and writes only call data (arguments without a protocol type, `self.agents`,
    observations, infos, numpy …) is not part of the protocol: it is listed as a comment and skipped; if it raises
    depending on its arguments only (`if len(values) != self.num_envs: raise ValueError`, `assert len(seed) == …`) that
    is argument validation, also skipped (assumption: well-formed arguments; the data side is C12's VecEnvGen).  A data
    statement that reads a received payload becomes `pyDecode (S.decode "<method>" payload)`: what processing this
    payload raises is the oracle's answer (a stale reply of another command is a KeyError / TypeError /
    AttributeError there).  A method of `self` called from a data statement must not touch the protocol (checked).

Assumptions (external / runtime behaviour: explicit oracle parameters or stated here)
  * pipe `i`, process `i`, worker `i` belong together; `len(parent_pipes) = len(processes) = num_envs ≥ 1` and the
    per-environment argument lists zipped with the pipes have that length;
  * `pipe.recv()` yields a pair (payload, success flag); an error-queue entry is `(index, class, value, trace)`;
    `_rebuild_exception(cls, value)` returns an exception of class `cls` (A8 of the model: marshalling is not modelled);
  * `time.perf_counter()` is `S.now`; `pipe.poll`, `pipe.closed`, `is_alive()` do not change the system state;
  * `logger.*`, building an error message and `deepcopy` of the observations do not raise;
  * the object is fully constructed (`hasattr(self, "_state")`, `getattr(self, "closed", …)` find the attribute);
  * a worker's own exception class `other t` derives from BaseException, from Exception iff `S.isExc t`, and from none
    of the classes named in an `except` clause of the translated code.
"""
from __future__ import annotations

import ast
import hashlib
import sys
from fractions import Fraction
from pathlib import Path

sys.path.insert(0, str(Path(__file__).resolve().parent))
import py2lean_vecenv as _ve  # noqa: E402  (helpers shared with the data-side translator of the same source file)

Unsupported = _ve.Unsupported
is_docstring, dotted, self_attr, lean_str = _ve.is_docstring, _ve.dotted, _ve.self_attr, _ve.lean_str
strip_sha, write_if_changed, repo_dir, SHA_PREFIX = _ve.strip_sha, _ve.write_if_changed, _ve.repo_dir, _ve.SHA_PREFIX

HERE = Path(__file__).resolve().parent
DEFAULT_OUT = HERE.parent / "lean" / "Gen" / "VecProtoGen.lean"
REL_ASYNC = "agilerl/vector/pz_async_vec_env.py"
REL_VEC = "agilerl/vector/pz_vec_env.py"
REL_SOURCES = (REL_ASYNC, REL_VEC)
REL_SOURCE = "agilerl/vector/{pz_async_vec_env,pz_vec_env}.py"   # messages only
CLS, BASE, ENUM = "AsyncPettingZooVecEnv", "PettingZooVecEnv", "AsyncState"

# the methods translated (entry points and what they call), resolved subclass first
METHODS = ["_assert_is_running", "_poll_pipe_envs", "_raise_if_errors", "reset_async", "reset_wait", "step_async",
           "step_wait", "call_async", "call_wait", "set_attr", "reset", "step", "call", "get_attr", "render",
           "close_extras", "close", "__del__"]
LEAN_NAME = {"__del__": "dunder_del"}
PROTO_ATTRS = {"_state", "closed", "parent_pipes", "processes", "error_queue"}

BUILTIN_EXC = ["BaseException", "Exception", "KeyboardInterrupt", "OSError", "BrokenPipeError", "TimeoutError", "EOFError",
               "AttributeError", "LookupError", "KeyError", "IndexError", "TypeError", "ValueError", "AssertionError",
               "RuntimeError", "NotImplementedError"]
IMPORTED_EXC = {("gymnasium.error", "AlreadyPendingCallError"): "AlreadyPendingCallError",
                ("gymnasium.error", "NoAsyncCallError"): "NoAsyncCallError",
                ("gymnasium.error", "ClosedEnvironmentError"): "ClosedEnvironmentError",
                ("multiprocessing", "ProcessError"): "mp_ProcessError",
                ("multiprocessing", "TimeoutError"): "mp_TimeoutError"}

PRELUDE_A = r'''
/-! ### Python semantics used by the translation (fixed text) -/

/-- exception classes: the builtins and imported classes the translated code can name, and `other t` =
    class number `t` raised inside a sub-environment -/
inductive ErrClass where
  | BaseException | Exception | KeyboardInterrupt
  | OSError | BrokenPipeError | TimeoutError | EOFError
  | AttributeError | LookupError | KeyError | IndexError | TypeError | ValueError
  | AssertionError | RuntimeError | NotImplementedError
  | AlreadyPendingCallError | NoAsyncCallError | ClosedEnvironmentError
  | mp_ProcessError | mp_TimeoutError
  | other (t : Nat)
deriving DecidableEq, Repr

/-- the class followed by its base classes (Python's builtin hierarchy; gymnasium.error.* derive from `Exception`,
    multiprocessing.TimeoutError from ProcessError); `isExc t` = worker class `t` derives from `Exception`
    (false for e.g. KeyboardInterrupt) -/
def ErrClass.mro (isExc : Nat → Bool) : ErrClass → List ErrClass
  | .BaseException => [.BaseException]
  | .Exception => [.Exception, .BaseException]
  | .KeyboardInterrupt => [.KeyboardInterrupt, .BaseException]
  | .OSError => [.OSError, .Exception, .BaseException]
  | .BrokenPipeError => [.BrokenPipeError, .OSError, .Exception, .BaseException]
  | .TimeoutError => [.TimeoutError, .OSError, .Exception, .BaseException]
  | .EOFError => [.EOFError, .Exception, .BaseException]
  | .AttributeError => [.AttributeError, .Exception, .BaseException]
  | .LookupError => [.LookupError, .Exception, .BaseException]
  | .KeyError => [.KeyError, .LookupError, .Exception, .BaseException]
  | .IndexError => [.IndexError, .LookupError, .Exception, .BaseException]
  | .TypeError => [.TypeError, .Exception, .BaseException]
  | .ValueError => [.ValueError, .Exception, .BaseException]
  | .AssertionError => [.AssertionError, .Exception, .BaseException]
  | .RuntimeError => [.RuntimeError, .Exception, .BaseException]
  | .NotImplementedError => [.NotImplementedError, .RuntimeError, .Exception, .BaseException]
  | .AlreadyPendingCallError => [.AlreadyPendingCallError, .Exception, .BaseException]
  | .NoAsyncCallError => [.NoAsyncCallError, .Exception, .BaseException]
  | .ClosedEnvironmentError => [.ClosedEnvironmentError, .Exception, .BaseException]
  | .mp_ProcessError => [.mp_ProcessError, .Exception, .BaseException]
  | .mp_TimeoutError => [.mp_TimeoutError, .mp_ProcessError, .Exception, .BaseException]
  | .other t => if isExc t then [.other t, .Exception, .BaseException] else [.other t, .BaseException]

/-- `except (C1, C2, …)` catches an exception of class `e` -/
def pyCatches (isExc : Nat → Bool) (cs : List ErrClass) (e : ErrClass) : Bool :=
  cs.any (fun c => (e.mro isExc).contains c)

/-- result of a call: a value, an exception (its class), or the call never returns -/
inductive Res (α : Type) where
  | ok (a : α)
  | raise (e : ErrClass)
  | hang
deriving DecidableEq, Repr

/-- how a statement ends: falls through, `break`, `return v`, an exception, or it never ends -/
inductive Ctl (ρ : Type) where
  | next
  | brk
  | ret (v : ρ)
  | raise (e : ErrClass)
  | hang
deriving DecidableEq, Repr

/-- truthiness of an `Optional[float]`, of an `Optional[bool]` (`None` is falsy) -/
def pyTruthyTime : Option Rat → Bool
  | none => false
  | some t => t != 0
def pyTruthyOptBool : Option Bool → Bool
  | none => false
  | some b => b

/-- builtin `max(a, b)` / `min(a, b)` (the first argument on ties) -/
def pyMax (a b : Rat) : Rat := if b > a then b else a
def pyMin (a b : Rat) : Rat := if b < a then b else a

/-- `all(flags)`, `sum(flags)` -/
def pyAll (l : List Bool) : Bool := l.all id
def pySumBool (l : List Bool) : Nat := (l.filter id).length

/-- `enumerate(l)` -/
def pyEnumerate {β : Type} (l : List β) : List (Nat × β) := (List.range l.length).zip l
'''

PRELUDE_B = r'''
/-- the attributes of the parent object the call protocol reads and writes -/
structure Parent where
  _state : AsyncState
  closed : Bool
deriving DecidableEq, Repr

/-- everything outside the parent object (pipes, worker processes, error queue, clock) is a state `W`; what the
    parent's calls on it do is this oracle.  `R` = what `pipe.recv()` yields, `Q` = an entry of the error queue. -/
structure Sys (W R Q : Type) where
  num_envs : Nat
  /-- worker exception class `t` derives from `Exception` -/
  isExc : Nat → Bool
  /-- `time.perf_counter()` -/
  now : W → Rat
  /-- `parent_pipes[i].send((command, data))` -/
  pipe_send : Nat → String → W → W × Res Unit
  /-- `parent_pipes[i].recv()` -/
  pipe_recv : Nat → W → W × Res R
  /-- `parent_pipes[i].poll(t)` -/
  pipe_poll : Nat → Rat → W → Bool
  /-- `parent_pipes[i] is None`, `parent_pipes[i].closed` -/
  pipe_is_none : Nat → W → Bool
  pipe_closed : Nat → W → Bool
  /-- `parent_pipes[i].close()`, `parent_pipes[i] = None` -/
  pipe_close : Nat → W → W × Res Unit
  pipe_set_none : Nat → W → W
  /-- `processes[i].is_alive()`, `.terminate()`, `.join(timeout)` -/
  proc_is_alive : Nat → W → Bool
  proc_terminate : Nat → W → W × Res Unit
  proc_join : Nat → Option Rat → W → W × Res Unit
  /-- `error_queue.get()` and the (index, class) of an entry -/
  queue_get : W → W × Res Q
  q_index : Q → Nat
  q_type : Q → ErrClass
  /-- the success flag of a reply -/
  success : R → Bool
  /-- what processing the payload of a reply raises in the named method (`none` = nothing) -/
  decode : String → R → Option ErrClass

/-- state of one method activation: the parent object, the outside world, the locals -/
structure St (W L : Type) where
  par : Parent
  sys : W
  loc : L

abbrev Stmt (W L ρ : Type) := St W L → St W L × Ctl ρ

section
variable {W L ρ α : Type}

/-- `a; b` -/
def pySeq (a b : Stmt W L ρ) : Stmt W L ρ := fun s =>
  match a s with
  | (s1, .next) => b s1
  | r => r

def pySkip : Stmt W L ρ := fun s => (s, .next)
def pyIf (c : St W L → Bool) (a b : Stmt W L ρ) : Stmt W L ρ := fun s => if c s then a s else b s
/-- `if x is None: a else: b` / `if not x: a else: b` with `x` narrowed in `b` -/
def pyIfNone (x : St W L → Option α) (a : Stmt W L ρ) (b : α → Stmt W L ρ) : Stmt W L ρ := fun s =>
  match x s with
  | none => a s
  | some v => b v s
def pyIfFalsy (x : St W L → Option Rat) (a : Stmt W L ρ) (b : Rat → Stmt W L ρ) : Stmt W L ρ := fun s =>
  match x s with
  | none => a s
  | some v => if v != 0 then b v s else a s
def pyAssign (f : St W L → St W L) : Stmt W L ρ := fun s => (f s, .next)
def pyRaise (e : St W L → ErrClass) : Stmt W L ρ := fun s => (s, .raise (e s))
def pyReturn (v : St W L → ρ) : Stmt W L ρ := fun s => (s, .ret (v s))
def pyBreak : Stmt W L ρ := fun s => (s, .brk)
/-- evaluate now, use later -/
def pyLet (e : St W L → α) (k : α → Stmt W L ρ) : Stmt W L ρ := fun s => k (e s) s

/-- an operation of the outside world (may raise / never return); its value is bound in the rest of the block -/
def pySys (op : St W L → W → W × Res α) (k : α → Stmt W L ρ) : Stmt W L ρ := fun s =>
  match op s s.sys with
  | (w1, .ok a) => k a { s with sys := w1 }
  | (w1, .raise e) => ({ s with sys := w1 }, .raise e)
  | (w1, .hang) => ({ s with sys := w1 }, .hang)

/-- a call of a translated method -/
def pyCall (f : St W L → Parent → W → Parent × W × Res α) (k : α → Stmt W L ρ) : Stmt W L ρ := fun s =>
  match f s s.par s.sys with
  | (p1, w1, .ok a) => k a { s with par := p1, sys := w1 }
  | (p1, w1, .raise e) => ({ s with par := p1, sys := w1 }, .raise e)
  | (p1, w1, .hang) => ({ s with par := p1, sys := w1 }, .hang)

/-- `for x in xs: body` (`break` ends the loop, everything else but falling through ends the method) -/
def pyForEach.go (body : α → Stmt W L ρ) : List α → Stmt W L ρ
  | [] => fun s => (s, .next)
  | x :: xs => fun s =>
    match body x s with
    | (s1, .next) => pyForEach.go body xs s1
    | (s1, .brk) => (s1, .next)
    | r => r
def pyForEach (xs : St W L → List α) (body : α → Stmt W L ρ) : Stmt W L ρ := fun s => pyForEach.go body (xs s) s

/-- `try: body  except …: handle  else: orelse` — `handle e` is the first clause that catches class `e` -/
def pyTry (body : Stmt W L ρ) (handle : ErrClass → Option (Stmt W L ρ)) (orelse : Stmt W L ρ) : Stmt W L ρ := fun s =>
  match body s with
  | (s1, .next) => orelse s1
  | (s1, .raise e) =>
    match handle e with
    | some h => h s1
    | none => (s1, .raise e)
  | r => r

/-- `try: body  finally: fin` — `fin` runs on every exit but `hang`; if it falls through, the exit of `body` stands -/
def pyFinally (body fin : Stmt W L ρ) : Stmt W L ρ := fun s =>
  match body s with
  | (s1, .hang) => (s1, .hang)
  | (s1, c) =>
    match fin s1 with
    | (s2, .next) => (s2, c)
    | r => r

/-- a data statement that reads a received payload: it raises what the oracle says -/
def pyDecode (d : St W L → Option ErrClass) : Stmt W L ρ := fun s =>
  match d s with
  | some e => (s, .raise e)
  | none => (s, .next)

/-- a method returning nothing (`break` outside a loop is rejected by the translator) -/
def pyRunUnit (body : Stmt W L Unit) (s : St W L) : Parent × W × Res Unit :=
  match body s with
  | (s1, .next) => (s1.par, s1.sys, .ok ())
  | (s1, .brk) => (s1.par, s1.sys, .ok ())
  | (s1, .ret v) => (s1.par, s1.sys, .ok v)
  | (s1, .raise e) => (s1.par, s1.sys, .raise e)
  | (s1, .hang) => (s1.par, s1.sys, .hang)

/-- a method returning a value: falling off the end returns `None` -/
def pyRunOpt (body : Stmt W L ρ) (s : St W L) : Parent × W × Res (Option ρ) :=
  match body s with
  | (s1, .next) => (s1.par, s1.sys, .ok none)
  | (s1, .brk) => (s1.par, s1.sys, .ok none)
  | (s1, .ret v) => (s1.par, s1.sys, .ok (some v))
  | (s1, .raise e) => (s1.par, s1.sys, .raise e)
  | (s1, .hang) => (s1.par, s1.sys, .hang)
end
'''


# ----------------------------------------------------------------------------------------------- values and types
LEAN_TY = {"bool": "Bool", "time": "Rat", "otime": "Option Rat", "nat": "Nat", "int": "Int", "state": "AsyncState",
           "bools": "List Bool", "replies": "List R", "obool": "Option Bool"}
FLOWS_INTO_DATA = {"reply", "replies", "nat", "int", "bool", "str", "time", "otime", "state", "bools", "errclass", "exc",
                   "numlit", "none", "obool"}


class Val:
    """a translated pure expression: `txt` is a Lean term over the state variable `s` and lambda-bound names"""

    def __init__(self, txt, ty, const=None, deps=(), extra=None):
        self.txt, self.ty, self.const, self.deps, self.extra = txt, ty, const, frozenset(deps), extra


def par(s: str) -> str:
    """parenthesise a Lean term unless it is atomic"""
    if _ve.balanced_outer(s) or not any(c in s for c in " \n"):
        return s
    if s.startswith("[") and s.endswith("]") and s.count("[") == 1:
        return s
    return f"({s})"


def wrap(head: str, lines: list, tail: str = "") -> list:
    """`head (lines) tail` as lines"""
    if len(lines) == 1:
        return [f"{head}({lines[0]}){tail}"]
    return [f"{head}({lines[0]}"] + [" " * (len(head) + 1) + ln for ln in lines[1:-1]] + \
        [" " * (len(head) + 1) + lines[-1] + ")" + tail]


def short(node, n=100) -> str:
    src = " ".join(ast.unparse(node).split()).replace("-/", "- /").replace("/-", "/ -")
    return src if len(src) <= n else src[:n - 1] + "…"


class Sig:
    def __init__(self, name, lean, params, ret, kwargs_of=None):
        self.name, self.lean, self.params, self.ret, self.kwargs_of = name, lean, params, ret, kwargs_of
        # params: [(pyname, ty, default ast | None, kind)]  kind: 'pos' | 'kwonly' | 'vararg' | 'kwarg'

    def proto_params(self):
        return [p for p in self.params if p[1] != "data"]


# ----------------------------------------------------------------------------------------------- one method
class Fn:
    def __init__(self, tr, name: str, node: ast.FunctionDef, rel: str, owner: str, list_types=None):
        self.tr, self.name, self.node, self.rel, self.owner = tr, name, node, rel, owner
        self.fields: list = []                 # [lean field, ty, python name]
        self.list_types = dict(list_types or {})   # python name -> type of a list started with `x = []`
        self.pending_lists: set = set()
        self.kf = {"v": 0, "c": 0, "r": 0, "i": 0, "e": 0, "n": 0}
        self.ret = None                        # None (nothing seen) | "unit" | "bool"
        self.assigned: set = set()             # record fields definitely assigned here
        self.loop_depth = 0
        self.handler_exc: list = []
        self.kwargs_name = None
        self.kwargs_params: list = []

    # ------------------------------------------------------------ helpers
    def fail(self, node, what: str):
        raise Unsupported(f"{self.rel}:{getattr(node, 'lineno', '?')}: unsupported construct in {self.name}: {what}")

    def fresh(self, kind: str) -> str:
        k = self.kf[kind]
        self.kf[kind] = k + 1
        return f"{kind}{k}"

    def new_field(self, pyname: str, ty: str, param=False) -> int:
        if ty not in LEAN_TY:
            raise Unsupported(f"{self.rel}: {self.name}: local `{pyname}` of type {ty}")
        lean = f"a{sum(1 for f in self.fields if f[0].startswith('a'))}" if param else \
            (self.fresh("c") if pyname.startswith("«") else self.fresh("v"))
        self.fields.append([lean, ty, pyname])
        return len(self.fields) - 1

    def loc_txt(self, idx: int) -> str:
        return f"s.loc.{self.fields[idx][0]}"

    def set_loc(self, idx: int, txt: str) -> list:
        return [f"pyAssign fun s => {{ s with loc := {{ s.loc with {self.fields[idx][0]} := {txt} }} }}"]

    def default_of(self, ty: str) -> str:
        return {"bool": "false", "time": "0", "otime": "none", "nat": "0", "int": "0",
                "state": f"AsyncState.{self.tr.enum_members[0][0]}", "bools": "[]", "replies": "[]", "obool": "none"}[ty]

    # ------------------------------------------------------------ types of annotations
    def ann_type(self, a) -> str:
        if a is None:
            return "data"
        src = ast.unparse(a).replace(" ", "")
        if src in ("Optional[float]", "float|None", "None|float", "Union[float,None]", "Optional[Union[int,float]]",
                   "Optional[int|float]", "int|float|None"):
            return "otime"
        if src == "float":
            return "time"
        if src == "bool":
            return "bool"
        if src in ("List[bool]", "list[bool]", "Sequence[bool]", "Tuple[bool,...]"):
            return "bools"
        return "data"

    # ------------------------------------------------------------ exception classes
    def errclass(self, n) -> str:
        d = dotted(n)
        if d is None:
            self.fail(n, f"exception class expression {short(n)}")
        cls = self.tr.resolve_class(self.rel, d)
        if cls is None:
            self.fail(n, f"exception class {d} (not a builtin / imported class known to the prelude)")
        return f"ErrClass.{cls}"

    # ------------------------------------------------------------ expressions
    def bound(self, env, name):
        return env.get(name)

    def name_val(self, n, env) -> Val:
        b = env.get(n.id)
        if b is None:
            return None
        if b[0] == "data":
            return Val("", "data")
        if b[0] == "pending":
            return Val("[]", "emptylist")       # first pass only: the element type is known on the next one
        if b[0] == "loc":
            idx = b[1]
            if idx not in self.assigned:
                self.fail(n, f"local `{n.id}` may be read before it is assigned")
            return Val(self.loc_txt(idx), self.fields[idx][1])
        return b[1]                 # alias / narrow

    def ex(self, n, env) -> Val:
        if isinstance(n, ast.Constant):
            v = n.value
            if type(v) is bool:
                return Val("true" if v else "false", "bool", const=v)
            if v is None:
                return Val("none", "none")
            if type(v) is int:
                return Val(str(v), "numlit", const=v) if v >= 0 else Val(f"({v})", "numlit", const=v)
            if type(v) is float:
                f = Fraction(v)
                return Val(f"(({f.numerator} : Rat) / {f.denominator})", "time", const=f)
            if type(v) is str:
                return Val("", "str", const=v)
            return Val("", "data")
        if isinstance(n, ast.Name):
            v = self.name_val(n, env)
            if v is None:
                if n.id == "self":
                    self.fail(n, "`self` used as a value")
                return Val("", "data")          # module-level / builtin name
            return v
        if isinstance(n, ast.Attribute):
            return self.ex_attr(n, env)
        if isinstance(n, ast.Compare):
            return self.ex_compare(n, env)
        if isinstance(n, ast.BoolOp):
            return self.ex_boolop(n, env)
        if isinstance(n, ast.UnaryOp) and isinstance(n.op, ast.Not):
            v = self.ex(n.operand, env)
            if v.ty == "data":
                return self.data_expr(n, env)
            return Val(f"!{par(self.truthy(n.operand, v))}", "bool")
        if isinstance(n, ast.BinOp) and isinstance(n.op, (ast.Add, ast.Sub)):
            return self.ex_arith(n, env)
        if isinstance(n, ast.IfExp):
            return self.ex_ifexp(n, env)
        if isinstance(n, ast.Call):
            return self.ex_call(n, env)
        if isinstance(n, ast.Subscript):
            base = self.ex(n.value, env)
            if base.ty in ("pipes", "procs"):
                i = self.ex(n.slice, env)
                if i.ty not in ("nat", "numlit"):
                    self.fail(n, f"index of type {i.ty} into {short(n.value)}")
                return Val(i.txt, "pipe" if base.ty == "pipes" else "proc")
            return self.data_expr(n, env)
        if isinstance(n, ast.List) and not n.elts:
            return Val("[]", "emptylist")
        return self.data_expr(n, env)

    def truthy(self, node, v: Val) -> str:
        if v.ty == "bool":
            return v.txt
        if v.ty == "otime":
            return f"pyTruthyTime {par(v.txt)}"
        if v.ty == "obool":
            return f"pyTruthyOptBool {par(v.txt)}"
        if v.ty == "time":
            return f"({v.txt} != 0)"
        if v.ty in ("nat", "int"):
            return f"({v.txt} != 0)"
        if v.ty in ("bools", "replies"):
            return f"!{par(v.txt)}.isEmpty"
        self.fail(node, f"truth value of an expression of type {v.ty}")

    def ex_attr(self, n, env) -> Val:
        if self_attr(n):
            a = n.attr
            if a == "_state":
                return Val("s.par._state", "state")
            if a == "closed":
                return Val("s.par.closed", "bool")
            if a == "num_envs":
                return Val("S.num_envs", "nat")
            if a == "parent_pipes":
                return Val("", "pipes")
            if a == "processes":
                return Val("", "procs")
            if a == "error_queue":
                return Val("", "queue")
            if a in self.tr.methods:
                self.fail(n, f"bound method self.{a} used as a value")
            return Val("", "data")
        d = dotted(n)
        if d is not None and d.startswith(ENUM + ".") and d.count(".") == 1:
            m = n.attr
            if m not in [x for x, _ in self.tr.enum_members]:
                self.fail(n, f"{d}: no such member of {ENUM}")
            return Val(f"AsyncState.{m}", "state", const=m)
        base = self.ex(n.value, env)
        if base.ty == "state" and n.attr == "value":
            return Val(f"AsyncState.value {par(base.txt)}", "str", extra=base)
        if base.ty == "pipe" and n.attr == "closed":
            return Val(f"S.pipe_closed {par(base.txt)} s.sys", "bool")
        if base.ty in ("data",):
            return self.data_expr(n, env)
        if base.ty == "reply":
            return self.data_expr(n, env)
        self.fail(n, f"attribute .{n.attr} of a value of type {base.ty}")

    def num(self, node, v: Val, want: str) -> str:
        """coerce a numeric value to `want` ∈ time / int / nat"""
        if want == "time":
            if v.ty == "time":
                return v.txt
            if v.ty == "numlit":
                return f"({v.const} : Rat)"
        if want == "int":
            if v.ty == "int":
                return v.txt
            if v.ty == "nat":
                return f"({v.txt} : Int)"
            if v.ty == "numlit":
                return f"({v.const} : Int)"
        if want == "nat":
            if v.ty == "nat":
                return v.txt
            if v.ty == "numlit" and v.const >= 0:
                return f"({v.const} : Nat)"
        self.fail(node, f"a value of type {v.ty} where {want} is needed")

    def num_kind(self, node, a: Val, b: Val, sub=False) -> str:
        ts = {a.ty, b.ty}
        if "otime" in ts or "none" in ts:
            self.fail(node, "arithmetic / comparison on a value that may be None (narrow it with `is None` first)")
        if not ts <= {"time", "int", "nat", "numlit"}:
            self.fail(node, f"arithmetic / comparison on values of type {a.ty}, {b.ty}")
        if "time" in ts:
            if ts & {"int", "nat"}:
                self.fail(node, f"arithmetic mixing {a.ty} and {b.ty}")
            return "time"
        if "int" in ts or sub:
            return "int"
        if ts == {"numlit"}:
            return "int"
        return "nat"

    def ex_arith(self, n, env) -> Val:
        a, b = self.ex(n.left, env), self.ex(n.right, env)
        if "data" in (a.ty, b.ty):
            return self.data_expr(n, env)
        k = self.num_kind(n, a, b, sub=isinstance(n.op, ast.Sub))
        op = "+" if isinstance(n.op, ast.Add) else "-"
        return Val(f"({self.num(n, a, k)} {op} {self.num(n, b, k)})", k)

    def is_none_test(self, n, env):
        """`x is None` / `x is not None` on a narrowable local → (python name, negated)"""
        if isinstance(n, ast.Compare) and len(n.ops) == 1 and isinstance(n.ops[0], (ast.Is, ast.IsNot)) \
                and isinstance(n.comparators[0], ast.Constant) and n.comparators[0].value is None \
                and isinstance(n.left, ast.Name):
            b = env.get(n.left.id)
            if b is not None and b[0] in ("loc", "alias", "narrow"):
                v = self.name_val(n.left, env)
                if v.ty in ("otime", "obool"):
                    return n.left.id, isinstance(n.ops[0], ast.IsNot), v
        return None

    def narrowed(self, env, name: str, v: Val, var: str) -> dict:
        e2 = dict(env)
        b = env[name]
        inner = {"otime": "time", "obool": "bool"}[v.ty]
        e2[name] = ("narrow", Val(var, inner), b[1] if b[0] == "loc" else (b[2] if b[0] == "narrow" else None))
        return e2

    def ex_compare(self, n, env) -> Val:
        if len(n.ops) != 1:
            vals = [self.ex(x, env) for x in [n.left] + n.comparators]
            if all(v.ty == "data" or v.ty in FLOWS_INTO_DATA for v in vals) and any(v.ty == "data" for v in vals):
                return self.data_expr(n, env)
            self.fail(n, "chained comparison")
        op, l, r = n.ops[0], n.left, n.comparators[0]
        a, b = self.ex(l, env), self.ex(r, env)
        if isinstance(op, (ast.Is, ast.IsNot)):
            neg = isinstance(op, ast.IsNot)
            if b.ty == "none" and a.ty in ("otime", "obool"):
                return Val(f"{par(a.txt)}.{'isSome' if neg else 'isNone'}", "bool")
            if b.ty == "none" and a.ty == "pipe":
                t = f"S.pipe_is_none {par(a.txt)} s.sys"
                return Val(f"!({t})" if neg else t, "bool")
            if b.ty == "none" and a.ty in ("time", "bool", "nat", "int", "state", "bools", "replies"):
                return Val("true" if neg else "false", "bool", const=neg)
            if "data" in (a.ty, b.ty):
                return self.data_expr(n, env)
            self.fail(n, f"`is` on values of type {a.ty}, {b.ty}")
        if "data" in (a.ty, b.ty) or "str" in (a.ty, b.ty):
            return self.data_expr(n, env)
        if isinstance(op, (ast.Eq, ast.NotEq)):
            o = "==" if isinstance(op, ast.Eq) else "!="
            if a.ty == b.ty and a.ty in ("state", "bool"):
                return Val(f"({a.txt} {o} {b.txt})", "bool")
            k = self.num_kind(n, a, b)
            return Val(f"({self.num(l, a, k)} {o} {self.num(r, b, k)})", "bool")
        sym = {ast.Lt: "<", ast.LtE: "≤", ast.Gt: ">", ast.GtE: "≥"}.get(type(op))
        if sym is None:
            self.fail(n, f"comparison {type(op).__name__}")
        k = self.num_kind(n, a, b)
        return Val(f"decide ({self.num(l, a, k)} {sym} {self.num(r, b, k)})", "bool")

    def ex_boolop(self, n, env) -> Val:
        is_or = isinstance(n.op, ast.Or)
        first = self.is_none_test(n.values[0], env)
        if first is not None and len(n.values) >= 2:
            name, neg, v = first
            # `x is not None and B`  /  `x is None or B`: B sees x narrowed
            if neg != is_or:
                var = self.fresh("n")
                e2 = self.narrowed(env, name, v, var)
                rest = n.values[1] if len(n.values) == 2 else ast.BoolOp(op=n.op, values=n.values[1:])
                ast.copy_location(rest, n.values[1])
                b = self.ex(rest, e2)
                if b.ty == "data":
                    self.fail(n, "a condition mixing the protocol state and call data")
                bt = self.truthy(rest, b)
                return Val(f"(match {v.txt} with | none => {'true' if is_or else 'false'} | some {var} => {bt})", "bool")
        vals = [self.ex(x, env) for x in n.values]
        if any(v.ty == "data" for v in vals):
            return self.data_expr(n, env)
        ts = [par(self.truthy(x, v)) for x, v in zip(n.values, vals)]
        if not all(v.ty == "bool" for v in vals):
            self.fail(n, "and / or whose value (not only its truth) is used on non-bool operands")
        return Val("(" + (" || " if is_or else " && ").join(ts) + ")", "bool")

    def unify(self, node, a: Val, b: Val):
        if a.ty == b.ty:
            return a.txt, b.txt, a.ty
        pair = {a.ty, b.ty}
        if pair <= {"none", "otime", "time", "numlit"}:
            def lift(v):
                if v.ty == "none":
                    return "none"
                if v.ty == "otime":
                    return v.txt
                return f"some {par(self.num(node, v, 'time'))}"
            return lift(a), lift(b), "otime"
        if pair <= {"time", "numlit"}:
            return self.num(node, a, "time"), self.num(node, b, "time"), "time"
        if pair <= {"int", "nat", "numlit"}:
            return self.num(node, a, "int"), self.num(node, b, "int"), "int"
        if pair <= {"none", "obool", "bool"}:
            def lift(v):
                return "none" if v.ty == "none" else v.txt if v.ty == "obool" else f"some {par(v.txt)}"
            return lift(a), lift(b), "obool"
        self.fail(node, f"conditional expression with branches of type {a.ty} and {b.ty}")

    def ex_ifexp(self, n, env) -> Val:
        t = self.is_none_test(n.test, env)
        if t is not None:
            name, neg, v = t
            var = self.fresh("n")
            e2 = self.narrowed(env, name, v, var)
            none_br, some_br = (n.orelse, n.body) if neg else (n.body, n.orelse)
            a, b = self.ex(none_br, env), self.ex(some_br, e2)
            if "data" in (a.ty, b.ty):
                self.fail(n, "a conditional expression mixing the protocol state and call data")
            ta, tb, ty = self.unify(n, a, b)
            return Val(f"(match {v.txt} with | none => {ta} | some {var} => {tb})", ty)
        c = self.ex(n.test, env)
        a, b = self.ex(n.body, env), self.ex(n.orelse, env)
        if c.ty == "data" or (a.ty == "data" and b.ty == "data"):
            return self.data_expr(n, env)
        if "data" in (a.ty, b.ty):
            self.fail(n, "a conditional expression mixing the protocol state and call data")
        ta, tb, ty = self.unify(n, a, b)
        return Val(f"(if {self.truthy(n.test, c)} then {ta} else {tb})", ty)

    def plain_args(self, n, k):
        if n.keywords or len(n.args) != k or any(isinstance(a, ast.Starred) for a in n.args):
            self.fail(n, f"arguments of {short(n.func)}")
        return n.args

    def ex_call(self, n, env) -> Val:
        f, name = n.func, dotted(n.func)
        if name in ("time.perf_counter", "perf_counter"):
            if not self.tr.is_time_perf_counter(self.rel, name):
                self.fail(n, f"{name} is not time.perf_counter here")
            self.plain_args(n, 0)
            return Val("S.now s.sys", "time")
        if name in ("max", "min") and len(n.args) == 2 and not n.keywords:
            a, b = self.ex(n.args[0], env), self.ex(n.args[1], env)
            if "data" in (a.ty, b.ty):
                return self.data_expr(n, env)
            k = self.num_kind(n, a, b)
            if k != "time":
                self.fail(n, f"{name} on values of type {a.ty}, {b.ty} (times are supported)")
            return Val(f"py{name.capitalize()} {par(self.num(n, a, k))} {par(self.num(n, b, k))}", "time")
        if name in ("all", "sum", "len") and len(n.args) == 1 and not n.keywords:
            a = self.ex(n.args[0], env)
            if a.ty == "bools":
                return {"all": Val(f"pyAll {par(a.txt)}", "bool"), "sum": Val(f"pySumBool {par(a.txt)}", "nat"),
                        "len": Val(f"{par(a.txt)}.length", "nat")}[name]
            if name == "len" and a.ty == "replies":
                return Val(f"{par(a.txt)}.length", "nat")
            if name == "len" and a.ty in ("pipes", "procs"):
                return Val("S.num_envs", "nat")
            if a.ty == "data":
                return self.data_expr(n, env)
            self.fail(n, f"{name} of a value of type {a.ty}")
        if name == "getattr" and len(n.args) in (2, 3) and isinstance(n.args[0], ast.Name) and n.args[0].id == "self":
            k = n.args[1]
            if isinstance(k, ast.Constant) and k.value in ("closed", "_state"):
                return self.ex_attr(ast.copy_location(ast.Attribute(value=n.args[0], attr=k.value, ctx=ast.Load()), n), env)
            self.fail(n, "getattr(self, …) as a value (supported: `x = getattr(self, f\"…\")` followed by `x(args)`, "
                         "getattr(self, \"closed\" / \"_state\"[, default]))")
        if name == "hasattr" and len(n.args) == 2 and isinstance(n.args[0], ast.Name) and n.args[0].id == "self":
            k = n.args[1]
            if isinstance(k, ast.Constant) and k.value in ("closed", "_state"):
                return Val("true", "bool", const=True)
            return self.data_expr(n, env)
        if isinstance(f, ast.Attribute):
            if self_attr(f) and f.attr in self.tr.methods:
                self.fail(n, f"call of self.{f.attr} inside an expression (supported as a statement, `x = self.m(…)`, "
                             "`return self.m(…)`, `if [not] self.m(…):`)")
            if self_attr(f):
                return self.data_expr(n, env)
            recv = self.ex(f.value, env)
            if recv.ty == "pipe":
                if f.attr == "poll":
                    (a,) = self.plain_args(n, 1)
                    t = self.ex(a, env)
                    return Val(f"S.pipe_poll {par(recv.txt)} {par(self.num(a, t, 'time'))} s.sys", "bool")
                self.fail(n, f"pipe.{f.attr}(…) inside an expression")
            if recv.ty == "proc":
                if f.attr == "is_alive":
                    self.plain_args(n, 0)
                    return Val(f"S.proc_is_alive {par(recv.txt)} s.sys", "bool")
                self.fail(n, f"process.{f.attr}(…) inside an expression")
            if recv.ty in ("pipes", "procs", "queue", "method"):
                self.fail(n, f"{short(n)} inside an expression")
        return self.data_expr(n, env)

    # ------------------------------------------------------------ data expressions
    def data_expr(self, n, env) -> Val:
        """an expression over call data: must not touch the protocol; `deps` = received payloads it reads"""
        deps = set()

        def visit(x, bound):
            if isinstance(x, ast.Name):
                if x.id in bound:
                    return
                b = env.get(x.id)
                if b is None:
                    if x.id == "self":
                        self.fail(x, "`self` passed around in a data expression")
                    return
                if b[0] == "data":
                    return
                v = self.name_val(x, env)
                if v.ty == "reply":
                    deps.add(v.txt)
                    return
                if v.ty in FLOWS_INTO_DATA:
                    return
                self.fail(x, f"`{x.id}` (type {v.ty}) used in a data expression")
            if isinstance(x, ast.Attribute) and self_attr(x):
                if x.attr in ("parent_pipes", "processes", "error_queue"):
                    self.fail(x, f"self.{x.attr} used in a data expression")
                if x.attr in self.tr.methods:
                    self.fail(x, f"self.{x.attr} used in a data expression")
                return
            if isinstance(x, ast.Call):
                if self_attr(x.func):
                    m = x.func.attr
                    if m in self.tr.methods:
                        self.fail(x, f"call of the protocol method self.{m} inside a data expression")
                    self.tr.require_data_method(m, x, self)
                    for a in x.args:
                        visit(a.value if isinstance(a, ast.Starred) else a, bound)
                    for k in x.keywords:
                        visit(k.value, bound)
                    return
                d = dotted(x.func)
                if d in ("getattr", "setattr", "delattr", "vars", "hasattr") and x.args and isinstance(x.args[0], ast.Name) \
                        and x.args[0].id == "self":
                    k = x.args[1] if len(x.args) > 1 else None
                    if d in ("hasattr", "getattr") and isinstance(k, ast.Constant) and isinstance(k.value, str) \
                            and k.value not in PROTO_ATTRS and k.value not in self.tr.methods:
                        for a in x.args[2:]:
                            visit(a, bound)
                        return
                    self.fail(x, f"{d}(self, …) in a data expression")
            if isinstance(x, (ast.ListComp, ast.SetComp, ast.GeneratorExp, ast.DictComp)):
                b2 = set(bound)
                for g in x.generators:
                    visit(g.iter, b2)
                    b2 |= {t.id for t in ast.walk(g.target) if isinstance(t, ast.Name)}
                    for c in g.ifs:
                        visit(c, b2)
                for part in ([x.key, x.value] if isinstance(x, ast.DictComp) else [x.elt]):
                    visit(part, b2)
                return
            if isinstance(x, ast.Lambda):
                b2 = set(bound) | {a.arg for a in x.args.args + x.args.kwonlyargs}
                visit(x.body, b2)
                return
            if isinstance(x, (ast.Await, ast.Yield, ast.YieldFrom, ast.NamedExpr)):
                self.fail(x, f"{type(x).__name__} in a data expression")
            for c in ast.iter_child_nodes(x):
                visit(c, bound)
        visit(n, set())
        return Val("", "data", deps=deps)

    # ------------------------------------------------------------ statements: plumbing
    def chain(self, items) -> list:
        """items: ('stmt', lines) | ('bind', lines ending in `fun x =>`) | ('note', text)"""
        if not items:
            return ["pySkip"]
        kind, body = items[0]
        rest = items[1:]
        if kind == "note":
            return [f"/- {body} -/"] + self.chain(rest)
        if kind == "bind":
            return body + self.chain(rest)
        if not rest:
            return body
        return wrap("pySeq ", body, " <|") + self.chain(rest)

    def completes(self, stmts) -> bool:
        """can control fall off the end of this statement list (syntactic, conservative: True when unsure)"""
        stmts = [s for s in stmts if not is_docstring(s)]
        if not stmts:
            return True
        last = stmts[-1]
        if isinstance(last, (ast.Return, ast.Raise, ast.Break, ast.Continue)):
            return False
        if isinstance(last, ast.If):
            return self.completes(last.body) or self.completes(last.orelse)
        if isinstance(last, ast.Try):
            if last.finalbody and not self.completes(last.finalbody):
                return False
            return (self.completes(last.body) and self.completes(last.orelse)) or \
                any(self.completes(h.body) for h in last.handlers)
        return True

    def sub(self, stmts, env):
        """a nested block: its own alias scope; returns (lines, assigned-after, completes)"""
        saved = set(self.assigned)
        lines = self.block(stmts, env)
        after = self.assigned
        self.assigned = saved
        return lines, after, self.completes(stmts)

    def join(self, before, outs):
        live = [a for a, c in outs if c]
        if not live:
            return set(before)
        r = set(live[0])
        for a in live[1:]:
            r &= a
        return r | set(before)

    def block(self, stmts, env) -> list:
        env = dict(env)
        items = []
        stmts = [s for s in stmts if not is_docstring(s)]
        for k, st in enumerate(stmts):
            got = self.stmt(st, env, stmts[k + 1:])
            if isinstance(got, tuple):           # the statement took the rest of the block into one of its branches
                items += got[1]
                break
            items += got
        return self.chain(items)

    def note(self, st, why: str):
        return ("note", f"{why}: `{short(st)}`")

    # ------------------------------------------------------------ statements
    def stmt(self, st, env, rest):
        if isinstance(st, ast.Pass):
            return []
        if isinstance(st, ast.Assign):
            return self.st_assign(st, env)
        if isinstance(st, ast.AugAssign) and isinstance(st.target, ast.Name) and env.get(st.target.id, ("data",))[0] != "data" \
                and isinstance(st.op, (ast.Add, ast.Sub)):
            new = ast.Assign(targets=[st.target], value=ast.BinOp(left=ast.Name(id=st.target.id, ctx=ast.Load()),
                                                                  op=st.op, right=st.value))
            ast.fix_missing_locations(ast.copy_location(new, st))
            for x in ast.walk(new):
                ast.copy_location(x, st)
            return self.st_assign(new, env)
        if isinstance(st, ast.Expr):
            return self.st_expr(st, env)
        if isinstance(st, ast.If):
            return self.st_if(st, env, rest)
        if isinstance(st, ast.For):
            return self.st_for(st, env)
        if isinstance(st, ast.Try):
            return self.st_try(st, env)
        if isinstance(st, ast.Raise):
            return self.st_raise(st, env)
        if isinstance(st, ast.Return):
            return self.st_return(st, env)
        if isinstance(st, ast.Break):
            if not self.loop_depth:
                self.fail(st, "break outside a loop")
            return [("stmt", ["pyBreak"])]
        if isinstance(st, ast.Assert):
            v = self.ex(st.test, env)
            if v.ty == "data":
                return self.data_stmt(st, env)
            return [("stmt", [f"pyIf (fun s => !{par(self.truthy(st.test, v))})", "  (pyRaise fun s => ErrClass.AssertionError)",
                              "  pySkip"])]
        if isinstance(st, (ast.AugAssign, ast.AnnAssign, ast.Delete)):
            return self.data_stmt(st, env)
        self.fail(st, f"statement {type(st).__name__}")

    # ---- data statements
    def data_stmt(self, st, env):
        deps, new, flags = set(), set(), {"raises": False}

        def tgt(t):
            if isinstance(t, ast.Name):
                b = env.get(t.id)
                if b is not None and b[0] not in ("data", "pending"):
                    self.fail(t, f"a data statement assigns the protocol local `{t.id}`")
                new.add(t.id)
            elif isinstance(t, (ast.Tuple, ast.List)):
                for e in t.elts:
                    tgt(e)
            elif isinstance(t, ast.Starred):
                tgt(t.value)
            elif isinstance(t, ast.Attribute) and self_attr(t):
                if t.attr in PROTO_ATTRS or t.attr in self.tr.methods:
                    self.fail(t, f"assignment to self.{t.attr}")
            elif isinstance(t, (ast.Subscript, ast.Attribute)):
                deps.update(self.data_expr(t, env).deps)
            else:
                self.fail(t, f"assignment target {short(t)}")

        def walk(s, inner):
            if isinstance(s, ast.Assign):
                deps.update(self.data_expr(s.value, env).deps)
                for t in s.targets:
                    tgt(t)
            elif isinstance(s, ast.AugAssign):
                deps.update(self.data_expr(s.value, env).deps)
                tgt(s.target)
            elif isinstance(s, ast.AnnAssign):
                if s.value is not None:
                    deps.update(self.data_expr(s.value, env).deps)
                tgt(s.target)
            elif isinstance(s, ast.Expr):
                deps.update(self.data_expr(s.value, env).deps)
            elif isinstance(s, ast.If):
                deps.update(self.data_expr(s.test, env).deps)
                for x in s.body + s.orelse:
                    walk(x, True)
            elif isinstance(s, ast.For):
                if s.orelse:
                    self.fail(s, "for … else")
                deps.update(self.data_expr(s.iter, env).deps)
                tgt(s.target)
                for x in s.body:
                    walk(x, inner)
            elif isinstance(s, ast.Assert):
                deps.update(self.data_expr(s.test, env).deps)
                flags["raises"] = True
            elif isinstance(s, ast.Raise) and inner:
                flags["raises"] = True
            elif isinstance(s, ast.Delete):
                for t in s.targets:
                    tgt(t)
            elif isinstance(s, ast.Pass) or is_docstring(s):
                pass
            else:
                self.fail(s, f"{type(s).__name__} in a statement that is otherwise about call data only")
        walk(st, False)
        for n in new:
            env[n] = ("data",)
        if deps:
            items = [self.note(st, "payload processing")]
            for d in sorted(deps):
                items.append(("stmt", [f"pyDecode fun s => S.decode {lean_str(self.name)} {par(d)}"]))
            return items
        return [self.note(st, "argument validation (skipped)" if flags["raises"] else "call data (skipped)")]

    # ---- assignments
    def coerce(self, node, v: Val, ty: str) -> str:
        if v.ty == ty:
            return v.txt
        if ty == "otime" and v.ty in ("none", "time", "numlit"):
            return "none" if v.ty == "none" else f"some {par(self.num(node, v, 'time'))}"
        if ty == "obool" and v.ty in ("none", "bool"):
            return "none" if v.ty == "none" else f"some {par(v.txt)}"
        if ty in ("time", "int", "nat") and v.ty in ("numlit", "nat"):
            return self.num(node, v, ty)
        if ty in ("bools", "replies") and v.ty == "emptylist":
            return "[]"
        self.fail(node, f"a value of type {v.ty} where {ty} is expected")

    def assign_local(self, st, name: str, v: Val, env):
        b = env.get(name)
        if b is not None and b[0] in ("alias",):
            self.fail(st, f"`{name}` is bound by a call / loop and assigned again")
        if b is not None and b[0] == "data":
            self.fail(st, f"`{name}` holds call data and is assigned a protocol value of type {v.ty}")
        idx = b[1] if b is not None and b[0] == "loc" else (b[2] if b is not None and b[0] == "narrow" else None)
        if idx is None:
            idx = next((k for k, f in enumerate(self.fields) if f[2] == name), None)
        if idx is None:
            ty = {"numlit": "int", "emptylist": None, "none": None}.get(v.ty, v.ty)
            if ty is None:
                self.fail(st, f"cannot type the local `{name}` from `{short(st.value)}`")
            idx = self.new_field(name, ty)
        txt = self.coerce(st, v, self.fields[idx][1])
        env[name] = ("loc", idx)
        self.assigned.add(idx)
        return [("stmt", self.set_loc(idx, txt))]

    def is_recv(self, c, env):
        if isinstance(c, ast.Call) and isinstance(c.func, ast.Attribute) and c.func.attr == "recv" and not c.args \
                and not c.keywords:
            p = self.ex(c.func.value, env)
            if p.ty == "pipe":
                return p
        return None

    def st_assign(self, st, env):
        if len(st.targets) != 1:
            return self.data_stmt(st, env)
        tg, val = st.targets[0], st.value
        if self_attr(tg):
            if tg.attr == "_state":
                v = self.ex(val, env)
                if v.ty != "state":
                    self.fail(st, f"self._state assigned a value of type {v.ty}")
                return [("stmt", [f"pyAssign fun s => {{ s with par := {{ s.par with _state := {v.txt} }} }}"])]
            if tg.attr == "closed":
                v = self.ex(val, env)
                if v.ty != "bool":
                    self.fail(st, f"self.closed assigned a value of type {v.ty}")
                return [("stmt", [f"pyAssign fun s => {{ s with par := {{ s.par with closed := {v.txt} }} }}"])]
            if tg.attr in PROTO_ATTRS or tg.attr in self.tr.methods:
                self.fail(st, f"assignment to self.{tg.attr}")
            return self.data_stmt(st, env)
        if isinstance(tg, ast.Subscript) and self_attr(tg.value, "parent_pipes"):
            i = self.ex(tg.slice, env)
            if i.ty not in ("nat", "numlit") or not (isinstance(val, ast.Constant) and val.value is None):
                self.fail(st, "assignment into self.parent_pipes other than `self.parent_pipes[<index>] = None`")
            return [("stmt", [f"pyAssign fun s => {{ s with sys := S.pipe_set_none {par(i.txt)} s.sys }}"])]
        if isinstance(tg, ast.Subscript) and self_attr(tg.value) and tg.value.attr in PROTO_ATTRS:
            self.fail(st, f"assignment into self.{tg.value.attr}")
        # effectful right-hand sides
        p = self.is_recv(val, env)
        if p is not None:
            names = self.unpack_names(st, tg, 2, env)
            r = self.fresh("r")
            self.bind_alias(st, env, names[0], Val(r, "reply"))
            self.bind_alias(st, env, names[1], Val(f"S.success {r}", "bool"))
            return [("bind", [f"pySys (fun s => S.pipe_recv {par(p.txt)}) fun {r} =>"])]
        if isinstance(val, ast.Call) and dotted(val.func) == "zip" and len(val.args) == 1 and not val.keywords \
                and isinstance(val.args[0], ast.Starred) and isinstance(val.args[0].value, ast.ListComp):
            return self.recv_all(st, tg, val.args[0].value, env)
        if isinstance(val, ast.Call) and isinstance(val.func, ast.Attribute) and val.func.attr == "get" \
                and self_attr(val.func.value, "error_queue"):
            if val.args or val.keywords:
                self.fail(st, "error_queue.get with arguments")
            names = self.unpack_names(st, tg, self.tr.queue_arity, env)
            r = self.fresh("r")
            self.bind_alias(st, env, names[0], Val(f"S.q_index {r}", "nat"))
            self.bind_alias(st, env, names[1], Val(f"S.q_type {r}", "errclass"))
            for n in names[2:]:
                if n is not None:
                    env[n] = ("data",)
            return [("bind", [f"pySys (fun s => S.queue_get) fun {r} =>"])]
        if isinstance(val, ast.Call) and dotted(val.func) == "getattr" and len(val.args) == 2 and not val.keywords \
                and isinstance(val.args[0], ast.Name) and val.args[0].id == "self" and isinstance(val.args[1], ast.JoinedStr):
            return self.getattr_dispatch(st, tg, val.args[1], env)
        if isinstance(val, ast.Call) and self_attr(val.func) and val.func.attr in self.tr.methods:
            if not isinstance(tg, ast.Name):
                self.fail(st, "unpacking the result of a translated method")
            lines, r, sig = self.method_call(val, env)
            if sig.ret == "bool":
                self.bind_alias(st, env, tg.id, Val(r, "obool"))
            else:
                env[tg.id] = ("data",)
            return [("bind", lines)]
        v = self.ex(val, env)
        if v.ty == "data":
            return self.data_stmt(st, env)
        if not isinstance(tg, ast.Name):
            self.fail(st, f"assignment of a protocol value to {short(tg)}")
        if v.ty == "emptylist":
            ty = self.list_types.get(tg.id)
            if ty is None:
                env[tg.id] = ("pending",)
                self.pending_lists.add(tg.id)
                return [self.note(st, "call data (skipped)")]
            v = Val("[]", ty)
        if v.ty in ("pipe", "proc", "pipes", "procs", "queue", "method", "str", "exc", "errclass", "reply", "qentry"):
            self.fail(st, f"local variable of type {v.ty} (`{short(st)}`)")
        return self.assign_local(st, tg.id, v, env)

    def unpack_names(self, st, tg, k: int, env) -> list:
        if not isinstance(tg, ast.Tuple) or len(tg.elts) != k or not all(isinstance(e, ast.Name) for e in tg.elts):
            self.fail(st, f"the result must be unpacked into {k} names")
        return [None if e.id == "_" else e.id for e in tg.elts]

    def bind_alias(self, st, env, name, v: Val):
        if name is None:
            return
        b = env.get(name)
        if b is not None and b[0] in ("loc", "narrow") or any(f[2] == name for f in self.fields):
            self.fail(st, f"`{name}` is both a plain local and bound by a call / loop")
        env[name] = ("alias", v)

    def recv_all(self, st, tg, comp, env):
        """`a, b = zip(*[pipe.recv() for pipe in self.parent_pipes])`"""
        if len(comp.generators) != 1 or comp.generators[0].ifs or comp.generators[0].is_async:
            self.fail(st, "comprehension with more than one `for` / with `if`")
        g = comp.generators[0]
        e2 = dict(env)
        xs, var, _ = self.loop_iter(st, g.iter, g.target, e2)
        p = self.is_recv(comp.elt, e2)
        if p is None:
            self.fail(st, "zip(*[…]) of something other than `pipe.recv()` for the pipes")
        names = self.unpack_names(st, tg, 2, env)
        acc = self.new_field_once(f"«recv@{st.lineno}»", "replies")
        r = self.fresh("r")
        self.assigned.add(acc)
        items = [("stmt", self.set_loc(acc, "[]")),
                 ("stmt", [f"pyForEach (fun s => {xs}) fun {var} =>",
                           f"  pySys (fun s => S.pipe_recv {par(p.txt)}) fun {r} =>",
                           f"  pyAssign fun s => {{ s with loc := {{ s.loc with {self.fields[acc][0]} := "
                           f"{self.loc_txt(acc)} ++ [{r}] }} }}"])]
        if names[0] is not None:
            items += self.assign_local(st, names[0], Val(self.loc_txt(acc), "replies"), env)
        if names[1] is not None:
            items += self.assign_local(st, names[1], Val(f"{self.loc_txt(acc)}.map S.success", "bools"), env)
        return items

    def new_field_once(self, pyname, ty) -> int:
        for k, f in enumerate(self.fields):
            if f[2] == pyname:
                return k
        return self.new_field(pyname, ty)

    # ---- getattr dispatch over the Enum
    def getattr_dispatch(self, st, tg, js: ast.JoinedStr, env):
        if not isinstance(tg, ast.Name):
            self.fail(st, "getattr(self, f\"…\") must be assigned to a name")
        state = None
        parts = []
        for v in js.values:
            if isinstance(v, ast.Constant) and isinstance(v.value, str):
                parts.append(v.value)
            elif isinstance(v, ast.FormattedValue) and v.conversion == -1 and v.format_spec is None:
                x = self.ex(v.value, env)
                if x.ty != "str" or x.extra is None or state is not None:
                    self.fail(st, "getattr(self, f\"…\"): the name may contain `<AsyncState expr>.value` once")
                state = x.extra
                parts.append(None)
            else:
                self.fail(st, "getattr(self, f\"…\") with a conversion / format spec")
        if state is None:
            self.fail(st, "getattr(self, f\"…\") with a constant name")
        table = {}
        for m, value in self.tr.enum_members:
            name = "".join(value if p is None else p for p in parts)
            table[m] = name if name in self.tr.methods else None
            if name not in self.tr.methods and self.tr.has_attr(name):
                self.fail(st, f"getattr(self, …) can reach `{name}`, which is not a translated method")
        r = self.fresh("r")
        self.bind_alias(st, env, tg.id, Val(r, "method", extra=table))
        items = [("bind", [f"pyLet (fun s => {state.txt}) fun {r} =>"])]
        missing = [m for m, t in table.items() if t is None]
        if missing:
            cond = " || ".join(f"{r} == AsyncState.{m}" for m in missing)
            items.append(("stmt", [f"pyIf (fun s => {cond})", "  (pyRaise fun s => ErrClass.AttributeError)", "  pySkip"]))
        return items

    # ---- calls of translated methods
    def call_args(self, sig: Sig, call, env) -> list:
        pos = [p for p in sig.params if p[3] == "pos"]
        has_var = any(p[3] == "vararg" for p in sig.params)
        has_kw = any(p[3] == "kwarg" for p in sig.params)
        byname = {p[0]: p for p in sig.params if p[3] in ("pos", "kwonly")}
        given = {}
        star = False
        for j, a in enumerate(call.args):
            if isinstance(a, ast.Starred):
                star = True
                if self.ex(a.value, env).ty != "data" or not has_var:
                    self.fail(call, "`*x` argument (supported: call data forwarded to `*args`)")
                continue
            if not star and j < len(pos):
                given[pos[j][0]] = a
            elif has_var:
                if self.ex(a, env).ty not in FLOWS_INTO_DATA | {"data"}:
                    self.fail(call, "a protocol value passed to `*args`")
            else:
                self.fail(call, f"too many arguments for {sig.name}")
        for kw in call.keywords:
            if kw.arg is None:
                if isinstance(kw.value, ast.Name) and kw.value.id == self.kwargs_name and sig.name == self.kwargs_target:
                    for pn, idx in self.kwargs_params:
                        given[pn] = ("own", idx)
                elif self.ex(kw.value, env).ty == "data" and has_kw:
                    pass
                else:
                    self.fail(call, "`**x` argument")
            elif kw.arg in byname:
                if kw.arg in given:
                    self.fail(call, f"argument {kw.arg} given twice")
                given[kw.arg] = kw.value
            elif has_kw:
                if self.ex(kw.value, env).ty not in FLOWS_INTO_DATA | {"data"}:
                    self.fail(call, "a protocol value passed to `**kwargs`")
            else:
                self.fail(call, f"{sig.name} has no parameter {kw.arg}")
        out = []
        for pn, ty, dflt, kind in sig.params:
            if kind in ("vararg", "kwarg"):
                continue
            g = given.get(pn)
            if ty == "data":
                if g is not None and not isinstance(g, tuple) and self.ex(g, env).ty not in FLOWS_INTO_DATA | {"data"}:
                    self.fail(call, f"a value of type {self.ex(g, env).ty} passed as call data `{pn}`")
                if g is None and dflt is None:
                    self.fail(call, f"argument {pn} of {sig.name} missing")
                continue
            if isinstance(g, tuple):
                out.append(self.loc_txt(g[1]))
            elif g is not None:
                out.append(self.coerce(g, self.ex(g, env), ty))
            elif dflt is not None:
                out.append(self.coerce(call, self.ex(dflt, {}), ty))
            else:
                self.fail(call, f"argument {pn} of {sig.name} missing")
        return out

    def method_call(self, call, env, sig=None):
        sig = sig or self.tr.sig_of(call.func.attr, call, self)
        args = "".join(" " + par(a) for a in self.call_args(sig, call, env))
        r = self.fresh("r") if sig.ret == "bool" else "_"
        return [f"pyCall (fun s => {sig.lean} S{args}) fun {r} =>"], r, sig

    # ---- expression statements
    def st_expr(self, st, env):
        c = st.value
        if not isinstance(c, ast.Call):
            return self.data_stmt(st, env)
        f = c.func
        d = dotted(f)
        if d is not None and d.split(".")[0] == "logger" and self.tr.is_gym_logger(self.rel):
            return [self.note(st, "logging (skipped)")]
        if self_attr(f) and f.attr in self.tr.methods:
            lines, _, _ = self.method_call(c, env)
            return [("bind", lines)]
        if isinstance(f, ast.Name) and env.get(f.id, ("",))[0] == "alias" and env[f.id][1].ty == "method":
            m = env[f.id][1]
            arms = []
            for mem, target in m.extra.items():
                if target is None:
                    arms.append(f"    | AsyncState.{mem} => fun p w => (p, w, Res.raise ErrClass.AttributeError)")
                else:
                    sig = self.tr.sig_of(target, c, self)
                    if sig.ret == "bool":
                        self.fail(st, "dispatch to a method that returns a value")
                    fake = ast.copy_location(ast.Call(func=ast.Attribute(value=ast.Name(id="self", ctx=ast.Load()),
                                                                         attr=target, ctx=ast.Load()),
                                                      args=c.args, keywords=c.keywords), c)
                    args = "".join(" " + par(a) for a in self.call_args(sig, fake, env))
                    arms.append(f"    | AsyncState.{mem} => {sig.lean} S{args}")
            return [("bind", [f"pyCall (fun s =>", f"    match {m.txt} with"] + arms[:-1] + [arms[-1] + ") fun _ =>"])]
        if isinstance(f, ast.Attribute):
            if isinstance(f.value, ast.Name) and env.get(f.value.id, ("",))[0] == "pending" and f.attr == "append":
                (a,) = self.plain_args(c, 1)
                v = self.ex(a, env)
                if v.ty == "bool":
                    self.list_types[f.value.id] = "bools"
                    return [self.note(st, "(typed on the next pass)")]
                return self.data_stmt(st, env)
            try:
                recv = self.ex(f.value, env)
            except Unsupported:
                recv = Val("", "data")
            if recv.ty == "pipe":
                if f.attr == "send":
                    (a,) = self.plain_args(c, 1)
                    if not (isinstance(a, ast.Tuple) and len(a.elts) == 2 and isinstance(a.elts[0], ast.Constant)
                            and isinstance(a.elts[0].value, str)):
                        self.fail(st, "pipe.send of something other than `(<string literal>, data)`")
                    if self.ex(a.elts[1], env).ty not in FLOWS_INTO_DATA | {"data"}:
                        self.fail(st, "pipe.send of a protocol value")
                    return [("bind", [f"pySys (fun s => S.pipe_send {par(recv.txt)} {lean_str(a.elts[0].value)}) fun _ =>"])]
                if f.attr == "close":
                    self.plain_args(c, 0)
                    return [("bind", [f"pySys (fun s => S.pipe_close {par(recv.txt)}) fun _ =>"])]
                if f.attr == "recv":
                    self.plain_args(c, 0)
                    return [("bind", [f"pySys (fun s => S.pipe_recv {par(recv.txt)}) fun _ =>"])]
                self.fail(st, f"pipe.{f.attr}(…) as a statement")
            if recv.ty == "proc":
                if f.attr == "terminate":
                    self.plain_args(c, 0)
                    return [("bind", [f"pySys (fun s => S.proc_terminate {par(recv.txt)}) fun _ =>"])]
                if f.attr == "join":
                    if c.keywords or len(c.args) > 1:
                        self.fail(st, "process.join with keywords")
                    t = "none" if not c.args else self.coerce(c.args[0], self.ex(c.args[0], env), "otime")
                    return [("bind", [f"pySys (fun s => S.proc_join {par(recv.txt)} {par(t)}) fun _ =>"])]
                self.fail(st, f"process.{f.attr}(…) as a statement")
            if recv.ty in ("bools",) and f.attr == "append" and isinstance(f.value, ast.Name):
                (a,) = self.plain_args(c, 1)
                v = self.ex(a, env)
                if v.ty != "bool":
                    self.fail(st, f"append of a value of type {v.ty} to a list of flags")
                b = env[f.value.id]
                idx = b[1]
                return [("stmt", self.set_loc(idx, f"{self.loc_txt(idx)} ++ [{v.txt}]"))]
            if recv.ty not in ("data", "reply"):
                self.fail(st, f"{short(st)}: method call on a value of type {recv.ty}")
        return self.data_stmt(st, env)

    # ---- if
    def narrow_stmt_test(self, test, env):
        """`x is None` / `x is not None` / `not x` / `x` on an Optional[float] local → (name, value, none_branch_is_body, falsy)"""
        t = self.is_none_test(test, env)
        if t is not None:
            name, neg, v = t
            return name, v, not neg, False
        neg = False
        x = test
        if isinstance(x, ast.UnaryOp) and isinstance(x.op, ast.Not):
            neg, x = True, x.operand
        if isinstance(x, ast.Name):
            b = env.get(x.id)
            if b is not None and b[0] in ("loc", "alias", "narrow"):
                v = self.name_val(x, env)
                if v.ty == "otime":
                    return x.id, v, neg, True
        return None

    def branches(self, head: str, a: list, b: list, bvar=None) -> list:
        out = [head] + ["  " + ln for ln in wrap("", a)]
        if bvar is None:
            return out + ["  " + ln for ln in wrap("", b)]
        if len(b) == 1:
            return out + [f"  (fun {bvar} => {b[0]})"]
        return out + [f"  (fun {bvar} =>"] + ["    " + ln for ln in b[:-1]] + ["    " + b[-1] + ")"]

    def st_if(self, st, env, rest):
        test = st.test
        neg, t = False, test
        if isinstance(t, ast.UnaryOp) and isinstance(t.op, ast.Not):
            neg, t = True, t.operand
        before = set(self.assigned)
        if isinstance(t, ast.Call) and self_attr(t.func) and t.func.attr in self.tr.methods:
            lines, r, sig = self.method_call(t, env)
            cond = f"pyTruthyOptBool {r}" if sig.ret == "bool" else "false"      # a method returning nothing returns None
            if neg:
                cond = f"!({cond})"
            la, aa, ca = self.sub(st.body, env)
            lb, ab, cb = self.sub(st.orelse, env)
            self.assigned = self.join(before, [(aa, ca), (ab, cb)])
            return [("bind", lines), ("stmt", self.branches(f"pyIf (fun s => {cond})", la, lb))]
        nt = self.narrow_stmt_test(test, env)
        if nt is not None:
            name, v, none_is_body, falsy = nt
            var = self.fresh("n")
            e2 = self.narrowed(env, name, v, var)
            comb = "pyIfFalsy" if falsy else "pyIfNone"
            none_stmts, some_stmts = (st.body, st.orelse) if none_is_body else (st.orelse, st.body)
            la, aa, ca = self.sub(none_stmts, env)
            if not ca and not some_stmts and rest:
                # the None-branch cannot complete: the rest of the block runs with `x` narrowed
                self.assigned = set(before)
                lr = self.block(rest, e2)
                head = [f"{comb} (fun s => {v.txt})"] + ["  " + ln for ln in wrap("", la)]
                head[-1] += f" fun {var} =>"
                return ("rest", [("bind", head), ("stmt", lr)])
            lb, ab, cb = self.sub(some_stmts, e2)
            self.assigned = self.join(before, [(aa, ca), (ab, cb)])
            return [("stmt", self.branches(f"{comb} (fun s => {v.txt})", la, lb, bvar=var))]
        v = self.ex(test, env)
        if v.ty == "data":
            return self.data_stmt(st, env)
        la, aa, ca = self.sub(st.body, env)
        lb, ab, cb = self.sub(st.orelse, env)
        self.assigned = self.join(before, [(aa, ca), (ab, cb)])
        return [("stmt", self.branches(f"pyIf (fun s => {self.truthy(test, v)})", la, lb))]

    # ---- for
    def loop_iter(self, st, it, tg, env):
        """classify `for tg in it`; binds the targets in `env`; returns (list term over s, loop variable, is_protocol)"""
        var = self.fresh("i")

        def bind(t, v: Val):
            if not isinstance(t, ast.Name):
                self.fail(st, f"loop target {short(t)}")
            if t.id == "_":
                return
            if v.ty == "data":
                b = env.get(t.id)
                if b is not None and b[0] not in ("data", "pending"):
                    self.fail(st, f"loop target `{t.id}` is a protocol local")
                env[t.id] = ("data",)
            else:
                self.bind_alias(st, env, t.id, v)

        def kind(x):
            v = self.ex(x, env)
            return v

        name = dotted(it.func) if isinstance(it, ast.Call) else None
        if name == "enumerate" and len(it.args) == 1 and not it.keywords:
            v = kind(it.args[0])
            if not (isinstance(tg, ast.Tuple) and len(tg.elts) == 2):
                self.fail(st, "enumerate(…) must be unpacked into two names")
            if v.ty in ("pipes", "procs"):
                bind(tg.elts[0], Val(var, "nat"))
                bind(tg.elts[1], Val(var, "pipe" if v.ty == "pipes" else "proc"))
                return "List.range S.num_envs", var, True
            if v.ty == "replies":
                bind(tg.elts[0], Val(f"{var}.1", "nat"))
                bind(tg.elts[1], Val(f"{var}.2", "reply"))
                return f"pyEnumerate {par(v.txt)}", var, True
            return None, var, False
        if name == "zip" and it.args and not it.keywords:
            vs = [kind(a) for a in it.args]
            if any(v.ty in ("pipes", "procs") for v in vs):
                if not (isinstance(tg, ast.Tuple) and len(tg.elts) == len(vs)):
                    self.fail(st, "zip(…) must be unpacked into as many names")
                for t, v, a in zip(tg.elts, vs, it.args):
                    if v.ty in ("pipes", "procs"):
                        bind(t, Val(var, "pipe" if v.ty == "pipes" else "proc"))
                    elif v.ty == "data":
                        bind(t, Val("", "data"))
                    else:
                        self.fail(st, f"zip of the pipes with a value of type {v.ty}")
                return "List.range S.num_envs", var, True
            return None, var, False
        if name == "range" and len(it.args) == 1 and not it.keywords:
            v = kind(it.args[0])
            if v.ty == "data":
                return None, var, False
            if v.ty not in ("nat", "int", "numlit"):
                self.fail(st, f"range of a value of type {v.ty}")
            bind(tg, Val(var, "nat"))
            return (f"List.range {par(v.txt)}" if v.ty != "int" else f"List.range {par(v.txt)}.toNat"), var, True
        v = kind(it)
        if v.ty in ("pipes", "procs"):
            bind(tg, Val(var, "pipe" if v.ty == "pipes" else "proc"))
            return "List.range S.num_envs", var, True
        if v.ty == "replies":
            bind(tg, Val(var, "reply"))
            return v.txt, var, True
        if v.ty == "data":
            return None, var, False
        self.fail(st, f"iteration over a value of type {v.ty}")

    def st_for(self, st, env):
        if st.orelse:
            self.fail(st, "for … else")
        e2 = dict(env)
        xs, var, proto = self.loop_iter(st, st.iter, st.target, e2)
        if not proto:
            return self.data_stmt(st, env)
        self.loop_depth += 1
        body, _, _ = self.sub(st.body, e2)
        self.loop_depth -= 1
        return [("stmt", [f"pyForEach (fun s => {xs}) fun {var} =>"] + ["  " + ln for ln in body])]

    # ---- try
    def st_try(self, st, env):
        before = set(self.assigned)
        saved_depth = self.loop_depth
        lb, ab, cb = self.sub(st.body, env)
        outs = []
        arms = []
        for h in st.handlers:
            if h.type is None:
                classes = ["ErrClass.BaseException"]
            elif isinstance(h.type, ast.Tuple):
                classes = [self.errclass(e) for e in h.type.elts]
            else:
                classes = [self.errclass(h.type)]
            ev = self.fresh("e")
            e2 = dict(env)
            if h.name:
                b = env.get(h.name)
                if b is not None and b[0] != "data":
                    self.fail(h, f"`except … as {h.name}` re-uses a protocol local")
                e2[h.name] = ("alias", Val(ev, "exc"))
            self.handler_exc.append(ev)
            lh, ah, ch = self.sub(h.body, e2)
            self.handler_exc.pop()
            outs.append((ah, ch))
            arms.append((classes, ev, lh))
        le, ae, ce = (["pySkip"], ab, True)
        if st.orelse:
            self.assigned = set(ab)
            le, ae, ce = self.sub(st.orelse, env)
            self.assigned = set(before)
        outs.append((ae, cb and ce))
        self.assigned = self.join(before, outs) if st.handlers else (set(ae) if cb and ce else set(before))
        self.loop_depth = saved_depth
        if st.handlers:
            lines = ["pyTry"] + ["  " + ln for ln in wrap("", lb)]
            lines.append("  (fun e =>")
            for k, (classes, ev, lh) in enumerate(arms):
                kw = "if" if k == 0 else "else if"
                lines.append(f"    {kw} pyCatches S.isExc [{', '.join(classes)}] e then some")
                inner = [f"((fun {ev} =>"] + ["   " + ln for ln in lh[:-1]] + ["   " + lh[-1] + ") e)"]
                lines += ["      " + ln for ln in inner]
            lines.append("    else none)")
            lines += ["  " + ln for ln in wrap("", le)]
        else:
            if st.orelse:
                self.fail(st, "try … else without except")
            lines = lb
        if st.finalbody:
            lf = self.block(st.finalbody, env)
            lines = ["pyFinally"] + ["  " + ln for ln in wrap("", lines)] + ["  " + ln for ln in wrap("", lf)]
        return [("stmt", lines)]

    # ---- raise / return
    def st_raise(self, st, env):
        if st.cause is not None:
            self.fail(st, "raise … from …")
        x = st.exc
        if x is None:
            if not self.handler_exc:
                self.fail(st, "bare raise outside an except clause")
            return [("stmt", [f"pyRaise fun s => {self.handler_exc[-1]}"])]
        if isinstance(x, ast.Name) and env.get(x.id, ("",))[0] == "alias" and env[x.id][1].ty == "exc":
            return [("stmt", [f"pyRaise fun s => {env[x.id][1].txt}"])]
        if isinstance(x, ast.Call) and dotted(x.func) == "_rebuild_exception" and len(x.args) == 2 and not x.keywords:
            if "_rebuild_exception" not in self.tr.module_funcs[self.rel]:
                self.fail(st, "_rebuild_exception is not a function of this module")
            c = self.ex(x.args[0], env)
            if c.ty != "errclass":
                self.fail(st, f"_rebuild_exception of a value of type {c.ty} (the class of an error-queue entry is supported)")
            return [("stmt", [f"pyRaise fun s => {c.txt}"])]
        cls = x.func if isinstance(x, ast.Call) else x
        if isinstance(x, ast.Call) and any(isinstance(a, ast.Starred) for a in x.args):
            self.fail(st, "raise C(*args)")
        return [("stmt", [f"pyRaise fun s => {self.errclass(cls)}"])]

    def set_ret(self, st, kind: str):
        if self.ret is not None and self.ret != kind:
            self.fail(st, "a method that returns a protocol value on one path and call data / nothing on another")
        self.ret = kind

    def st_return(self, st, env):
        x = st.value
        if isinstance(x, ast.Call) and self_attr(x.func) and x.func.attr in self.tr.methods:
            lines, r, sig = self.method_call(x, env)
            if sig.ret == "bool":
                self.fail(st, "returning the value of a translated method")
            self.set_ret(st, "unit")
            return [("bind", lines), ("stmt", ["pyReturn fun s => ()"])]
        if x is None or (isinstance(x, ast.Constant) and x.value is None):
            self.set_ret(st, "unit")
            return [("stmt", ["pyReturn fun s => ()"])]
        v = self.ex(x, env)
        if v.ty == "bool":
            self.set_ret(st, "bool")
            return [("stmt", [f"pyReturn fun s => {v.txt}"])]
        if v.ty in ("data", "replies", "reply", "str"):
            self.set_ret(st, "unit")
            return [("stmt", [f"/- returns call data: `{short(x, 60)}` -/ pyReturn fun s => ()"])]
        self.fail(st, f"return of a value of type {v.ty}")

    # ------------------------------------------------------------ the whole method
    def translate(self):
        a = self.node.args
        if a.posonlyargs:
            self.fail(self.node, "positional-only parameters")
        pos = a.args[1:] if a.args and a.args[0].arg == "self" else self.fail(self.node, "a method without self")
        dflts = [None] * (len(pos) - len(a.defaults)) + list(a.defaults) if len(a.defaults) <= len(pos) else \
            list(a.defaults)[-len(pos):] if pos else []
        params = []
        env = {}
        for p, d in zip(pos, dflts):
            params.append((p.arg, self.ann_type(p.annotation), d, "pos"))
        if a.vararg:
            params.append((a.vararg.arg, "data", None, "vararg"))
        for p, d in zip(a.kwonlyargs, a.kw_defaults):
            params.append((p.arg, self.ann_type(p.annotation), d, "kwonly"))
        self.kwargs_target = None
        if a.kwarg:
            self.kwargs_name = a.kwarg.arg
            fw = [c for c in ast.walk(self.node) if isinstance(c, ast.Call) and self_attr(c.func)
                  and any(k.arg is None and isinstance(k.value, ast.Name) and k.value.id == a.kwarg.arg for k in c.keywords)]
            others = [x for x in ast.walk(self.node) if isinstance(x, ast.Name) and x.id == a.kwarg.arg]
            if len(fw) == 1 and len(others) == 1 and fw[0].func.attr in self.tr.methods:
                # `def f(self, **kwargs): … self.g(**kwargs)`: f takes g's parameters
                self.kwargs_target = fw[0].func.attr
                tsig = self.tr.sig_of(self.kwargs_target, fw[0], self)
                for pn, ty, d, kind in tsig.params:
                    if kind in ("pos", "kwonly"):
                        params.append((pn, ty, d, "kwonly"))
            else:
                params.append((a.kwarg.arg, "data", None, "kwarg"))
        for pn, ty, d, kind in params:
            if ty == "data":
                env[pn] = ("data",)
            else:
                idx = self.new_field(pn, ty, param=True)
                self.assigned.add(idx)
                if self.kwargs_target is not None and kind == "kwonly" and pn not in [p.arg for p in a.kwonlyargs]:
                    self.kwargs_params.append((pn, idx))
                else:
                    env[pn] = ("loc", idx)
        body = self.block(self.node.body, env)
        return Sig(self.name, LEAN_NAME.get(self.name, self.name), params, self.ret or "unit"), body


# ----------------------------------------------------------------------------------------------- the two modules
class Translator:
    def __init__(self, sources: dict):
        self.trees = {}
        for rel, src in sources.items():
            try:
                self.trees[rel] = ast.parse(src)
            except SyntaxError as e:
                raise Unsupported(f"{rel}: syntax error: {e}") from e
        self.classes = {}
        self.imports = {}            # rel -> {local name: (module, name | None)}
        self.module_funcs = {}
        for rel, tree in self.trees.items():
            imp = {}
            for st in tree.body:
                if isinstance(st, ast.Import):
                    for al in st.names:
                        imp[al.asname or al.name.split(".")[0]] = (al.name if al.asname else al.name.split(".")[0], None)
                elif isinstance(st, ast.ImportFrom) and st.module and st.level == 0:
                    for al in st.names:
                        imp[al.asname or al.name] = (st.module, al.name)
                elif isinstance(st, ast.ClassDef):
                    self.classes[st.name] = (rel, st)
            self.imports[rel] = imp
            self.module_funcs[rel] = {st.name for st in tree.body if isinstance(st, ast.FunctionDef)}
        for c in (CLS, BASE, ENUM):
            if c not in self.classes:
                raise Unsupported(f"{REL_SOURCE}: class {c} not found")
        rel, cls = self.classes[CLS]
        if [dotted(b) for b in cls.bases] != [BASE]:
            raise Unsupported(f"{rel}:{cls.lineno}: {CLS} must derive from {BASE} only")
        if self.classes[BASE][1].bases:
            raise Unsupported(f"{self.classes[BASE][0]}: {BASE} must not have base classes")
        self.enum_members = self.read_enum()
        # attribute / method resolution: subclass first
        self.all_methods = {}
        for cname in (BASE, CLS):
            r, c = self.classes[cname]
            for st in c.body:
                if isinstance(st, ast.FunctionDef):
                    if st.decorator_list:
                        if st.name in METHODS:
                            raise Unsupported(f"{r}:{st.lineno}: decorated method {st.name}")
                        continue
                    self.all_methods[st.name] = (r, st, cname)
                elif isinstance(st, ast.AsyncFunctionDef) and st.name in METHODS:
                    raise Unsupported(f"{r}:{st.lineno}: async method {st.name}")
        missing = [m for m in METHODS if m not in self.all_methods]
        if missing:
            raise Unsupported(f"{REL_SOURCE}: method(s) {', '.join(missing)} of {CLS} not found")
        self.methods = set(METHODS)
        self.sigs = {}
        self.data_methods = {}
        self.queue_arity = self.read_queue_arity()
        self.init_state, self.init_closed = self.read_init()
        self.out = []

    # ---- small readers
    def read_enum(self):
        rel, cls = self.classes[ENUM]
        if [dotted(b) for b in cls.bases] != ["Enum"] or self.imports[rel].get("Enum") != ("enum", "Enum"):
            raise Unsupported(f"{rel}:{cls.lineno}: {ENUM} must be a plain enum.Enum")
        members = []
        for st in cls.body:
            if is_docstring(st):
                continue
            if isinstance(st, ast.Assign) and len(st.targets) == 1 and isinstance(st.targets[0], ast.Name) \
                    and isinstance(st.value, ast.Constant) and isinstance(st.value.value, str):
                members.append((st.targets[0].id, st.value.value))
            else:
                raise Unsupported(f"{rel}:{st.lineno}: {ENUM}: only `NAME = \"string\"` members are supported")
        if len({v for _, v in members}) != len(members) or not members:
            raise Unsupported(f"{rel}:{cls.lineno}: {ENUM}: duplicate values (aliases) / no members")
        return members

    def read_queue_arity(self) -> int:
        rel = REL_ASYNC
        ar = set()
        for fn in self.trees[rel].body:
            if isinstance(fn, ast.FunctionDef) and fn.name == "_async_worker":
                for c in ast.walk(fn):
                    if isinstance(c, ast.Call) and isinstance(c.func, ast.Attribute) and c.func.attr == "put" \
                            and dotted(c.func.value) == "error_queue":
                        if len(c.args) != 1 or not isinstance(c.args[0], ast.Tuple):
                            raise Unsupported(f"{rel}:{c.lineno}: error_queue.put of something other than a tuple")
                        t = c.args[0]
                        if not (isinstance(t.elts[0], ast.Name) and t.elts[0].id == "index"):
                            raise Unsupported(f"{rel}:{c.lineno}: the first component of an error-queue entry must be the "
                                              "worker's `index`")
                        ar.add(len(t.elts))
        if len(ar) != 1:
            raise Unsupported(f"{rel}: _async_worker must put error-queue entries of one shape (found arities {sorted(ar)})")
        return ar.pop()

    def read_init(self):
        rel, init, _ = self.all_methods.get("__init__", (None, None, None))
        if init is None or self.all_methods["__init__"][2] != CLS:
            raise Unsupported(f"{REL_ASYNC}: {CLS}.__init__ not found")
        sets = [st for st in ast.walk(init) if isinstance(st, ast.Assign) and any(self_attr(t, "_state") for t in st.targets)]
        if len(sets) != 1 or sets[0] is not [s for s in init.body if not is_docstring(s)][-1]:
            raise Unsupported(f"{rel}:{init.lineno}: __init__ must set self._state exactly once, as its last statement")
        d = dotted(sets[0].value)
        names = [m for m, _ in self.enum_members]
        if d is None or not d.startswith(ENUM + ".") or d.split(".", 1)[1] not in names:
            raise Unsupported(f"{rel}:{sets[0].lineno}: initial _state must be a member of {ENUM}")
        closed = None
        brel, base = self.classes[BASE]
        for st in base.body:
            if isinstance(st, ast.AnnAssign) and isinstance(st.target, ast.Name) and st.target.id == "closed":
                if isinstance(st.value, ast.Constant) and type(st.value.value) is bool:
                    closed = st.value.value
            elif isinstance(st, ast.Assign) and any(isinstance(t, ast.Name) and t.id == "closed" for t in st.targets):
                if isinstance(st.value, ast.Constant) and type(st.value.value) is bool:
                    closed = st.value.value
        if closed is None or any(isinstance(x, ast.Attribute) and self_attr(x, "closed") and isinstance(x.ctx, ast.Store)
                                 for x in ast.walk(init)):
            raise Unsupported(f"{brel}: the class attribute `closed: bool = <constant>` of {BASE} not found "
                              "(or __init__ assigns self.closed)")
        return d.split(".", 1)[1], closed

    # ---- name resolution
    def resolve_class(self, rel: str, d: str):
        imp = self.imports[rel]
        parts = d.split(".")
        if len(parts) == 1:
            if d in imp:
                return IMPORTED_EXC.get(imp[d])
            return d if d in BUILTIN_EXC else None
        if len(parts) == 2 and parts[0] in imp and imp[parts[0]][1] is None:
            return IMPORTED_EXC.get((imp[parts[0]][0], parts[1]))
        return None

    def is_time_perf_counter(self, rel: str, name: str) -> bool:
        imp = self.imports[rel]
        if name == "time.perf_counter":
            return imp.get("time") == ("time", None)
        return imp.get("perf_counter") == ("time", "perf_counter")

    def is_gym_logger(self, rel: str) -> bool:
        return self.imports[rel].get("logger") == ("gymnasium", "logger")

    def has_attr(self, name: str) -> bool:
        return name in self.all_methods

    def require_data_method(self, m: str, node, fn: Fn):
        """a method of self called from a data statement must not touch the protocol (transitively)"""
        if m in self.data_methods:
            if not self.data_methods[m]:
                fn.fail(node, f"self.{m} touches the call protocol and is not a translated method")
            return
        if m not in self.all_methods:
            self.data_methods[m] = True            # an attribute holding a callable (spaces etc.): data
            return
        self.data_methods[m] = True                # recursion guard
        _, d, _ = self.all_methods[m]
        ok = True
        for x in ast.walk(d):
            if isinstance(x, ast.Attribute) and self_attr(x) and (x.attr in PROTO_ATTRS or x.attr in self.methods):
                ok = False
            if isinstance(x, ast.Call) and dotted(x.func) in ("getattr", "setattr") and x.args \
                    and isinstance(x.args[0], ast.Name) and x.args[0].id == "self":
                ok = False
        self.data_methods[m] = ok
        if not ok:
            fn.fail(node, f"self.{m} touches the call protocol and is not a translated method")

    def sig_of(self, m: str, node, fn: Fn) -> Sig:
        if m not in self.sigs:
            fn.fail(node, f"self.{m} is called before it is translated (recursion between methods)")
        return self.sigs[m]

    # ---- order
    def order(self) -> list:
        deps = {}
        for m in METHODS:
            _, d, _ = self.all_methods[m]
            s = set()
            for x in ast.walk(d):
                if isinstance(x, ast.Attribute) and self_attr(x) and x.attr in self.methods and x.attr != m:
                    s.add(x.attr)
                if isinstance(x, ast.Call) and dotted(x.func) == "getattr" and len(x.args) >= 2 \
                        and isinstance(x.args[1], ast.JoinedStr):
                    consts = [v.value for v in x.args[1].values if isinstance(v, ast.Constant)]
                    for cand in METHODS:
                        if cand != m and all(c in cand for c in consts):
                            for _, val in self.enum_members:
                                if val in cand:
                                    s.add(cand)
            deps[m] = s
        out, state = [], {}

        def visit(m, path):
            if state.get(m) == 2:
                return
            if state.get(m) == 1:
                raise Unsupported(f"{REL_SOURCE}: recursion between translated methods: {' -> '.join(path + [m])}")
            state[m] = 1
            for d in sorted(deps[m], key=METHODS.index):
                visit(d, path + [m])
            state[m] = 2
            out.append(m)
        for m in METHODS:
            visit(m, [])
        return out

    # ---- emit
    def emit_fn(self, m: str):
        rel, node, owner = self.all_methods[m]
        list_types = {}
        for _ in range(3):
            fn = Fn(self, m, node, rel, owner, list_types)
            sig, body = fn.translate()
            if fn.list_types == list_types:
                break
            list_types = dict(fn.list_types)
        else:
            raise Unsupported(f"{rel}:{node.lineno}: {m}: the element types of its lists do not settle")
        self.sigs[m] = sig
        lean = sig.lean
        o = self.out
        pysig = " ".join(ast.unparse(node.args).split())
        o.append(f"/-- `{owner}.{m}({pysig})` ({rel}) -/")
        o.append(f"structure {lean}.L (R : Type) where")
        for f, ty, py in fn.fields:
            dflt = "" if f.startswith("a") else f" := {fn.default_of(ty)}"
            what = "the replies received by the comprehension" if py.startswith("«") else f"`{py}`"
            o.append(f"  /-- {what} -/")
            o.append(f"  {f} : {LEAN_TY[ty]}{dflt}")
        ps = [(f, ty) for f, ty, _ in fn.fields if f.startswith("a")]
        decl = "".join(f" ({f} : {LEAN_TY[ty]})" for f, ty in ps)
        ret = "Option Bool" if sig.ret == "bool" else "Unit"
        run = "pyRunOpt" if sig.ret == "bool" else "pyRunUnit"
        init = ", ".join(f"{f} := {f}" for f, _ in ps)
        o.append(f"def {lean} (S : Sys W R Q){decl} (p : Parent) (w : W) : Parent × W × Res ({ret}) :=")
        o.append(f"  {run} (L := {lean}.L R)")
        o += ["    " + ln for ln in wrap("", body)]
        o.append(f"    ⟨p, w, {{ {init} }}⟩" if init else "    ⟨p, w, {}⟩")
        o.append("")

    def run(self):
        o = self.out
        rel = self.classes[ENUM][0]
        o += [f"/-- `class {ENUM}(Enum)` ({rel}) -/", "inductive AsyncState where"]
        o += [f"  | {m}" for m, _ in self.enum_members]
        o += ["deriving DecidableEq, Repr", "", "/-- the `.value` of a member -/", "def AsyncState.value : AsyncState → String"]
        o += [f"  | .{m} => {lean_str(v)}" for m, v in self.enum_members]
        o.append(PRELUDE_B)
        o += ["/-- the parent object after `__init__` (its last statement sets `_state`; `closed` is the class attribute of "
              f"`{BASE}`) -/",
              f"def Parent.init : Parent := {{ _state := AsyncState.{self.init_state}, "
              f"closed := {'true' if self.init_closed else 'false'} }}", "",
              "section", "variable {W R Q : Type}", ""]
        for m in self.order():
            self.emit_fn(m)
        o += ["end"]
        return o


# ----------------------------------------------------------------------------------------------- driver
def translate(repo: Path) -> tuple[str, str]:
    """returns (lean text, sha256 over the source files); raises Unsupported"""
    shas, sources = [], {}
    for rel in REL_SOURCES:
        path = repo / rel
        try:
            raw = path.read_bytes()
        except OSError as e:
            raise Unsupported(f"cannot read {path}: {e}") from e
        shas.append((rel, hashlib.sha256(raw).hexdigest()))
        try:
            sources[rel] = raw.decode("utf-8")
        except UnicodeDecodeError as e:
            raise Unsupported(f"{rel}: not utf-8: {e}") from e
    try:
        body = Translator(sources).run()
    except RecursionError as e:
        raise Unsupported(f"{REL_SOURCE}: nesting too deep for the translator") from e
    sha = hashlib.sha256("".join(s for _, s in shas).encode()).hexdigest()
    header = [
        "/-",
        "  Gen/VecProtoGen.lean — GENERATED by harness/py2lean_vecproto.py from",
        f"  {REL_ASYNC} ({ENUM}, the call protocol of {CLS}) and",
        f"  {REL_VEC} ({BASE}.step / .close); do not edit.  Core Lean only.",
        "  `Proofs/VecProtoGenEq.lean` proves these transitions equal to the parent side of `Model/VecProto.lean`.",
        "-/",
    ] + [f"{SHA_PREFIX}{rel}) = {s}" for rel, s in shas] + [
        "set_option linter.unusedVariables false",
        "",
        "namespace VecProtoGen",
    ]
    text = "\n".join(header) + "\n" + PRELUDE_A + "\n" + "\n".join(body).rstrip() + "\n\nend VecProtoGen\n"
    return text, sha


def main(argv: list[str]) -> int:
    import argparse
    ap = argparse.ArgumentParser()
    ap.add_argument("--repo", default=None)
    ap.add_argument("--out", default=str(DEFAULT_OUT))
    ap.add_argument("--stdout", action="store_true")
    ap.add_argument("--force", action="store_true", help="rewrite even if only the sha256 lines differ")
    a = ap.parse_args(argv)
    try:
        text, sha = translate(repo_dir(a.repo))
    except Unsupported as e:
        print(f"py2lean_vecproto: {e}", file=sys.stderr)
        return 1
    if a.stdout:
        sys.stdout.write(text)
        return 0
    changed = write_if_changed(text, Path(a.out), a.force)
    print(f"{a.out}: {'written' if changed else 'unchanged'} (sources sha256 {sha[:16]}…, "
          f"translation sha256 {hashlib.sha256(strip_sha(text).encode()).hexdigest()[:16]}…)")
    return 0


if __name__ == "__main__":
    sys.exit(main(sys.argv[1:]))
