#!/usr/bin/env python3
"""
py2lean_vecrecv.py — translate the shared-memory layout and the parent's receive side of the vectorised PettingZoo
environment (property C12) into Lean 4:

  REPO/agilerl/vector/pz_async_vec_env.py
      `_create_memory_array`, `create_shared_memory`, `write_to_shared_memory`, the worker's calls into it,
      `Observations.__init__ / __getitem__ / __iterate_kv / keys`,
      `AsyncPettingZooVecEnv.step_wait / reset_wait / _add_info`

    python3 harness/py2lean_vecrecv.py [--repo DIR] [--out FILE] [--stdout] [--force]

Reads the *source text* only (Python `ast`; agilerl is never imported) and writes lean/Gen/VecRecvGen.lean (namespace
VecRecvGen, core Lean only).  `Proofs/VecRecvGenEq.lean` proves the generated definitions equal to the slice
arithmetic / gathering of the hand model `Model/VecEnv.lean`; `Props/C12.lean` restates the theorems over the generated
definitions (`C12_source_translation_recv_*`).

How it translates.  The translator is untyped: every function becomes a `do` block in the `Option` monad (`none` = a
Python exception), every Python operation becomes a call of an overloaded Lean function of the fixed prelude
(`pyGetItem`, `pySetItem`, `pyItems`, `pyIter`, `pyShape`, `pyIsInstance`, …: type classes, so Lean's elaborator does
the typing and rejects ill-typed code), every sub-expression that can raise is bound with `(← …)` in Python's
evaluation order.  What flows from the AST: every operator, comparison, constant, subscript, slice bound, branch
condition, class name of an `isinstance`, statement order, loop iterable and loop-carried variable.  Only the types of
the parameters / results (table `FUNCS`) and of a few empty containers (`EMPTY`) are fixed text.

Representation (stated once)
  * an agent is its position in `possible_agents` (`Nat`); a dict keyed by agent is `PyDict β = List (Option β)`
    (iteration order = position order); a key of a `spaces.Dict` is its position `DKey`, an index into a Tuple space
    a `Nat` — `shm[key]` on a tuple or `shm[i]` on a dict is `none`;
  * buffers are flat lists, dtypes are erased (every `dtype=…` argument, `.dtype`, `.astype(…)`, the typecode of
    `context.Array`); a shape is a `List Nat`, `int(np.prod(shape))` the product; an observation space is
    `Space.dict subs | tuple subs | box shape` with plain sub-spaces (a Dict / Tuple nested in a Dict / Tuple is outside);
  * an ndarray is `NdArr = (shape, row-major data)`: `flatten()` is `.data`, `reshape(shape)` checks the size and keeps
    the data (so row `i` of `reshape((num_envs, *shape))` is `data[i*prod : (i+1)*prod]` with shape `shape`);
  * `np.frombuffer(x.get_obj(), …)` is a view: `dest = np.frombuffer(PATH.get_obj(), …)` makes `dest` an alias of the
    l-value `PATH`; `np.copyto(dest[lo:hi], src)` becomes an update of `PATH` with `npCopytoSlice · lo hi src`
    (Python's clamping of the slice bounds; a source of another length is `none` — numpy's broadcasting of a
    shorter source is not modelled).  Each slice `lo:hi` also becomes a stand-alone definition
    `<function>_slice<k> <free variables> : Nat × Nat` that the update uses, so theorems can talk about the offsets;
  * the `Observations` object is the record of its attributes; its `obs_view` is recomputed from the current memory
    (aliasing of the views with the shared memory is the assumption);
  * a parent pipe is the message its worker sent on it (`pipe.recv()`), pipes are received at most once per call;
  * info values are `Info K` (dict / number with its Python class / ndarray / None / other object), the vectorised
    infos `VVal K` (nested dicts of arrays of cells, a cell is `fill` or an assigned value, an array remembers the
    numpy constructor that made it); `f"_{key}"` is the explicit function `underscore : K → K`;
    `_add_info` calls itself: the generated `add_info_F` takes the recursive call as parameter `self_add_info`, the
    fixed glue `add_info` ties the knot with a recursion-depth bound (`none` = RecursionError);
  * `self._assert_is_running()`, statements reading or writing `self._state`, the `_poll_pipe_envs` timeout test are
    the call protocol (property C13): skipped and listed as comments; `self._raise_if_errors(s)` is `pyRaiseIfErrors`
    (raises iff some success flag is false; the error class is C13's); `deepcopy` is the identity.

Supported subset (anything else raises `Unsupported` naming construct and line — never a guess)
  * statements: docstring; `x = e`; `a, b = e`; `a, b, … = (E for _ in range(K))` with K targets; `x[k] = e`;
    `x[k], y[l] = e1, e2`; `self.a = e`, `self.a[k] = e` (in `__init__`); `for T in e:` (fold over the loop-carried
    variables); `for T in e: yield E` as whole body of a generator method (the list of yielded values);
    `if / elif / else` (variables assigned in a branch and used later are joined); `return e`;
    `x.append(e)`, `d[k].append(e)`; `np.copyto(ALIAS[lo:hi], e)`; calls of translated functions;
  * expressions: names, `self.attr`, ints, `True/False/None`, shapes `()`, `(1,)`, `(n, *shape)`, tuples, lists,
    `d[k]`, `t[<int>]`, `+ - *`, `== != < <= > >=`, `is None`, `in` / `not in`, `and / or / not`, `e1 if c else e2`,
    list / dict / generator comprehensions with one `for`, `f"_{key}"`, the calls `int`, `len`, `range`,
    `enumerate`, `list`, `tuple`, `zip(*l)`, `type`, `isinstance`, `issubclass`, `OrderedDict()`, `defaultdict(list)`,
    `deepcopy`, `np.prod`, `np.frombuffer`, `np.asarray`, `np.array`, `np.zeros`, `np.full`, `np.copyto`,
    `context.Array`, methods `.items() .keys() .get(k, d) .get_obj() .flatten() .reshape(s) .astype(t) .recv() .spaces
    .shape`.

Shape of the output: the prelude, then one `def` per function in source-dependency order
(`create_memory_array`, `create_shared_memory`, `write_to_shared_memory_slice<k>`, `write_to_shared_memory`,
`worker_write<k>`, `Observations.init / getitem / iterate_kv / keys`, `add_info_F`, glue `add_info`,
`reset_wait`, `step_wait`).  Parameters keep their names (they are part of the interface), locals are `v0, v1, …` in
order of first binding: renaming a local does not change the text.
"""
from __future__ import annotations

import ast
import hashlib
import os
import sys
from pathlib import Path

HERE = Path(__file__).resolve().parent
DEFAULT_OUT = HERE.parent / "lean" / "Gen" / "VecRecvGen.lean"
REL_SOURCE = "agilerl/vector/pz_async_vec_env.py"
SHA_PREFIX = "-- sha256("


class Unsupported(Exception):
    pass


def bad(node, what):
    raise Unsupported(f"{REL_SOURCE}:{getattr(node, 'lineno', '?')}: {what}")


PRELUDE = r"""
/-! ### Python / numpy semantics used by the translation (fixed text) -/

/-- a dict keyed by agent: position = index of the agent in `possible_agents`, `none` = key absent -/
structure PyDict (β : Type) where
  ents : List (Option β)
deriving Repr, DecidableEq

/-- a key of a `spaces.Dict` / `OrderedDict` keyed like it (position in `.spaces`); not an integer index -/
structure DKey where
  pos : Nat
deriving Repr, DecidableEq

/-- the classes the translated code tests against -/
inductive PyClass
  | int | float | bool | dict | np_number | np_ndarray | np_bool_ | np_float32 | object | spaces_Dict | spaces_Tuple
deriving Repr, DecidableEq

/-- a plain (Box-like) sub-space: its shape; dtypes are erased -/
structure SubSpace where
  shape : List Nat
deriving Repr, DecidableEq

/-- `space.spaces` of a Dict space (key position → sub-space) or of a Tuple space -/
inductive Spaces
  | dict (subs : List SubSpace)
  | tuple (subs : List SubSpace)
deriving Repr, DecidableEq

/-- an agent's observation space; sub-spaces of Dict / Tuple are plain -/
inductive Space
  | dict (subs : List SubSpace)
  | tuple (subs : List SubSpace)
  | box (shape : List Nat)
deriving Repr, DecidableEq

/-- a value shaped like a space: `OrderedDict` by key position, tuple, or a single array -/
inductive Struct (β : Type)
  | dict (l : List β)
  | tuple (l : List β)
  | leaf (x : β)
deriving Repr, DecidableEq

/-- an ndarray: shape and row-major data (`flatten()` = `data`, `reshape` keeps `data`) -/
structure NdArr (α : Type) where
  shape : List Nat
  data : List α
deriving Repr, DecidableEq

/-- shared memory of one agent (flat buffers), also the `np.frombuffer` views of it -/
abbrev Shm (α : Type) := Struct (List α)
/-- an observation of one agent -/
abbrev Obs (α : Type) := Struct (NdArr α)

/-- a parent pipe = the message its worker sent on it (`none` = EOFError) -/
structure Pipe (ρ : Type) where
  msg : Option ρ

/-- a value found in an `info` dict -/
inductive Info (K : Type)
  | dict (items : List (K × Info K))
  | num (ty : PyClass) (v : Int)
  | ndarray (shape : List Nat) (v : List Int)
  | none
  | obj (v : Int)

/-- how a batched info array was created -/
inductive ArrKind
  | zeros (ty : PyClass)
  | zerosShape (shape : List Nat)
  | full (nan : Bool) (ty : PyClass)
deriving Repr, DecidableEq

/-- a cell of a batched info array: still the fill value, or assigned -/
inductive Cell (K : Type)
  | fill
  | val (v : Info K)

/-- the vectorised infos: nested dicts of batched arrays -/
inductive VVal (K : Type)
  | sub (d : List (K × VVal K))
  | arr (kind : ArrKind) (cells : List (Cell K))

class PyShape (σ : Type) where shape : σ → Option (List Nat)
class PyGetItem (C K : Type) (V : outParam Type) where getItem : C → K → Option V
class PySetItem (C K V : Type) where setItem : C → K → V → Option C
class PyModifyItem (C K : Type) (V : outParam Type) where modifyItem : C → K → (V → Option V) → Option C
class PyItems (C : Type) (P : outParam Type) where items : C → Option (List P)
class PyIter (C : Type) (E : outParam Type) where iter : C → Option (List E)
class PyIsInstance (τ : Type) where isInstance : τ → PyClass → Bool
class PyGetObj (C : Type) (V : outParam Type) where
  getObj : C → Option V
  modifyObj : C → (V → Option V) → Option C
class PyAs (σ τ : Type) where cast : σ → τ
class PyLen (C : Type) where len : C → Nat
class PyContains (C K : Type) where contains : C → K → Option Bool

export PyShape (shape)
section
variable {α β ρ K : Type}

def pyShape {σ} [PyShape σ] (x : σ) := PyShape.shape x
def pyGetItem {C K V} [PyGetItem C K V] (c : C) (k : K) := PyGetItem.getItem c k
def pySetItem {C K V} [PySetItem C K V] (c : C) (k : K) (v : V) := PySetItem.setItem c k v
def pyModifyItem {C K V} [PyModifyItem C K V] (c : C) (k : K) (f : V → Option V) := PyModifyItem.modifyItem c k f
def pyItems {C P} [PyItems C P] (c : C) := PyItems.items c
def pyIter {C E} [PyIter C E] (c : C) := PyIter.iter c
def pyIsInstance {τ} [PyIsInstance τ] (x : τ) (c : PyClass) := PyIsInstance.isInstance x c
def pyGetObj {C V} [PyGetObj C V] (c : C) := PyGetObj.getObj c
def pyModifyObj {C V} [PyGetObj C V] (c : C) (f : V → Option V) := PyGetObj.modifyObj c f
def pyAs {σ τ} [PyAs σ τ] (x : σ) : τ := PyAs.cast x
def pyLen {C} [PyLen C] (c : C) := PyLen.len c
def pyContains {C K} [PyContains C K] (c : C) (k : K) := PyContains.contains c k

instance {τ} : PyAs τ τ := ⟨id⟩

/-! #### agent-keyed dicts -/
def PyDict.get (d : PyDict β) (k : Nat) : Option β := (d.ents[k]?).join
def PyDict.set (d : PyDict β) (k : Nat) (v : β) : PyDict β :=
  if k < d.ents.length then ⟨List.set d.ents k (some v)⟩ else ⟨d.ents ++ List.replicate (k - d.ents.length) none ++ [some v]⟩
def PyDict.items (d : PyDict β) : List (Nat × β) := d.ents.zipIdx.filterMap (fun p => p.1.map (fun v => (p.2, v)))
def PyDict.keys (d : PyDict β) : List Nat := (PyDict.items d).map (·.1)
/-- `{}` -/
def pyEmptyDict : PyDict β := ⟨[]⟩
/-- `{k: v for …}` from its pairs in evaluation order -/
def pyDictOfPairs (ps : List (Nat × β)) : PyDict β := ps.foldl (fun d p => PyDict.set d p.1 p.2) ⟨[]⟩
/-- `defaultdict(list)` and `d[k].append(x)` on it -/
def pyDefaultdictList : PyDict (List β) := ⟨[]⟩
def pyAppendAt (d : PyDict (List β)) (k : Nat) (x : β) : PyDict (List β) :=
  PyDict.set d k (((PyDict.get d k).getD []) ++ [x])

instance : PyGetItem (PyDict β) Nat β := ⟨PyDict.get⟩
instance : PySetItem (PyDict β) Nat β := ⟨fun d k v => some (PyDict.set d k v)⟩
instance : PyModifyItem (PyDict β) Nat β := ⟨fun d k f => (PyDict.get d k).bind (fun v => (f v).map (PyDict.set d k))⟩
instance : PyItems (PyDict β) (Nat × β) := ⟨fun d => some (PyDict.items d)⟩
instance : PyIter (PyDict β) Nat := ⟨fun d => some (PyDict.keys d)⟩
instance : PyIter (List β) β := ⟨fun l => some l⟩
instance : PyLen (List β) := ⟨List.length⟩

/-! #### spaces -/
def npProd (shape : List Nat) : Nat := shape.foldl (· * ·) 1
def pyInt (n : Nat) : Nat := n
instance : PyShape SubSpace := ⟨fun s => some s.shape⟩
/-- `.shape` of a Dict / Tuple space is `None`: everything the code does with it raises -/
instance : PyShape Space := ⟨fun | .box sh => some sh | _ => none⟩
instance : PyIsInstance Space := ⟨fun s c => match s, c with
  | .dict _, .spaces_Dict => true
  | .tuple _, .spaces_Tuple => true
  | _, _ => false⟩
/-- `space.spaces` (`none` = AttributeError) -/
def pySpaces : Space → Option Spaces
  | .dict l => some (.dict l)
  | .tuple l => some (.tuple l)
  | .box _ => none
def pyEnumKeys (l : List β) : List (DKey × β) := l.zipIdx.map (fun p => (⟨p.2⟩, p.1))
instance : PyItems Spaces (DKey × SubSpace) := ⟨fun | .dict l => some (pyEnumKeys l) | .tuple _ => none⟩
/-- iterating a Tuple space's `.spaces`; iterating a dict yields keys, nothing the code can use as a space -/
instance : PyIter Spaces SubSpace := ⟨fun | .tuple l => some l | .dict _ => none⟩
instance : PyLen Spaces := ⟨fun | .dict l => l.length | .tuple l => l.length⟩
instance : PyGetItem Spaces Nat SubSpace := ⟨fun s i => match s with | .tuple l => l[i]? | .dict _ => none⟩
instance : PyGetItem Spaces DKey SubSpace := ⟨fun s k => match s with | .dict l => l[k.pos]? | .tuple _ => none⟩

/-! #### structured values -/
instance : PyGetItem (Struct β) DKey β := ⟨fun s k => match s with | .dict l => l[k.pos]? | _ => none⟩
instance : PyGetItem (Struct β) Nat β := ⟨fun s i => match s with | .tuple l => l[i]? | _ => none⟩
/-- `od[key] = v` on an OrderedDict filled in key order (a new key must be the next position) -/
instance : PySetItem (Struct β) DKey β := ⟨fun s k v => match s with
  | .dict l => if k.pos < l.length then some (.dict (l.set k.pos v))
               else if k.pos = l.length then some (.dict (l ++ [v])) else none
  | _ => none⟩
instance : PyModifyItem (Struct β) DKey β := ⟨fun s k f => match s with
  | .dict l => (l[k.pos]?).bind (fun v => (f v).map (fun v' => .dict (l.set k.pos v')))
  | _ => none⟩
instance : PyModifyItem (Struct β) Nat β := ⟨fun s i f => match s with
  | .tuple l => (l[i]?).bind (fun v => (f v).map (fun v' => .tuple (l.set i v')))
  | _ => none⟩
/-- `x.get_obj()` of a RawArray wrapper: the buffer itself -/
instance : PyGetObj (List α) (List α) := ⟨some, fun b f => f b⟩
instance : PyGetObj (Struct (List α)) (List α) :=
  ⟨fun | .leaf b => some b | _ => none, fun s f => match s with | .leaf b => (f b).map .leaf | _ => none⟩
/-- `OrderedDict()`, `tuple(…)`, a bare array, as values of a structured type -/
def pyOrderedDict : Struct β := .dict []
def pyTuple (l : List β) : Struct β := .tuple l
instance : PyAs β (Struct β) := ⟨.leaf⟩

/-! #### numpy -/
/-- `context.Array(typecode, n)`: zero-initialised -/
def ctxArray [Inhabited α] (n : Nat) : List α := List.replicate n default
/-- `np.frombuffer(buf, dtype)`: a view (the translation re-reads it from the current memory) -/
def npFrombuffer (b : List α) : List α := b
/-- `np.asarray(x, dtype)`: an array as it is; of a dict / tuple observation it is not a numeric array (`none`) -/
class NpAsarray (C : Type) (V : outParam Type) where asarray : C → Option V
def npAsarray {C V} [NpAsarray C V] (c : C) := NpAsarray.asarray c
instance : NpAsarray (NdArr α) (NdArr α) := ⟨some⟩
instance : NpAsarray (Struct (NdArr α)) (NdArr α) := ⟨fun | .leaf x => some x | _ => none⟩
def npFlatten (x : NdArr α) : List α := x.data
def npAstype (x : NdArr α) : NdArr α := x
def pyDeepcopy {τ} (x : τ) : τ := x
def npArray (l : List β) : List β := l
/-- `a.reshape(shape)` of a flat array (`none` = ValueError: sizes differ) -/
def npReshapeFlat (b : List α) (shape : List Nat) : Option (NdArr α) :=
  if b.length = npProd shape then some ⟨shape, b⟩ else none
class NpReshape (C : Type) (V : outParam Type) where reshape : C → List Nat → Option V
def npReshape {C V} [NpReshape C V] (c : C) (shape : List Nat) := NpReshape.reshape c shape
instance : NpReshape (List α) (NdArr α) := ⟨npReshapeFlat⟩
instance : NpReshape (Struct (List α)) (NdArr α) := ⟨fun s sh => match s with | .leaf b => npReshapeFlat b sh | _ => none⟩
/-- `np.copyto(dest[lo:hi], src)` with Python's clamping of slice bounds; the source must have exactly
    the slice's length (numpy's broadcasting of a shorter source is not modelled: `none`) -/
def npCopytoSlice (dest : List α) (lo hi : Nat) (src : List α) : Option (List α) :=
  let a := min lo dest.length
  let b := max a (min hi dest.length)
  if src.length = b - a then some (dest.take a ++ src ++ dest.drop b) else none

/-! #### pipes, misc -/
def pyRecv (p : Pipe ρ) : Option ρ := p.msg
def pyEnumerate (l : List β) : List (Nat × β) := l.zipIdx.map (fun p => (p.2, p.1))
/-- `a, b = zip(*l)` (`none` = ValueError on an empty list) -/
def pyUnzip {γ} (l : List (β × γ)) : Option (List β × List γ) := if l.isEmpty then none else some l.unzip
def pyRange (n : Nat) : List Nat := List.range n
/-- `self._raise_if_errors(successes)` (its error classes are property C13's) -/
def pyRaiseIfErrors (successes : List Bool) : Option Unit := if successes.all id then some () else none

/-! #### infos -/
def pyType : Info K → PyClass
  | .dict _ => .dict
  | .num ty _ => ty
  | .ndarray _ _ => .np_ndarray
  | .none => .object
  | .obj _ => .object
def pyIsSubclass (c d : PyClass) : Bool := c == d || (d == .np_number && (c == .np_float32 || c == .np_bool_ && false))
instance : PyIsInstance (Info K) := ⟨fun v c => match v, c with
  | .dict _, .dict => true
  | .ndarray _ _, .np_ndarray => true
  | .num ty _, c => ty == c
  | _, _ => false⟩
def pyIsNone : Info K → Bool
  | .none => true
  | _ => false
instance : PyShape (Info K) := ⟨fun | .ndarray sh _ => some sh | _ => none⟩
instance : PyItems (Info K) (K × Info K) := ⟨fun | .dict l => some l | _ => none⟩
def pyTrue : Info K := .num .bool 1

def assocGet [DecidableEq K] : List (K × β) → K → Option β
  | [], _ => none
  | (k', v) :: r, k => if k' = k then some v else assocGet r k
def assocSet [DecidableEq K] : List (K × β) → K → β → List (K × β)
  | [], k, v => [(k, v)]
  | (k', v') :: r, k, v => if k' = k then (k', v) :: r else (k', v') :: assocSet r k v

/-- `{}` as vectorised infos -/
def pyEmptyInfos : VVal K := .sub []
instance [DecidableEq K] : PyContains (VVal K) K := ⟨fun d k => match d with
  | .sub l => some (assocGet l k).isSome
  | .arr _ _ => none⟩
instance [DecidableEq K] : PyGetItem (VVal K) K (VVal K) := ⟨fun d k => match d with
  | .sub l => assocGet l k
  | .arr _ _ => none⟩
/-- `d.get(k, default)` -/
def pyGetD [DecidableEq K] (d : VVal K) (k : K) (dflt : VVal K) : Option (VVal K) := match d with
  | .sub l => some ((assocGet l k).getD dflt)
  | .arr _ _ => none
instance [DecidableEq K] : PySetItem (VVal K) K (VVal K) := ⟨fun d k v => match d with
  | .sub l => some (.sub (assocSet l k v))
  | .arr _ _ => none⟩
/-- `array[i] = value` (`none` = IndexError / not an array) -/
instance : PySetItem (VVal K) Nat (Info K) := ⟨fun d i v => match d with
  | .arr kind cells => if i < cells.length then some (.arr kind (cells.set i (.val v))) else none
  | .sub _ => none⟩
instance : PySetItem (VVal K) Nat Bool := ⟨fun d i b => PySetItem.setItem d i (Info.num (K := K) .bool (if b then 1 else 0))⟩
def npZeros (n : Nat) (ty : PyClass) : VVal K := .arr (.zeros ty) (List.replicate n .fill)
def npZerosShape (shape : List Nat) : VVal K := .arr (.zerosShape shape.tail) (List.replicate shape.head! .fill)
def npFull (n : Nat) (nan : Bool) (ty : PyClass) : VVal K := .arr (.full nan ty) (List.replicate n .fill)
end

/-! #### objects, replies -/
section
variable {α R K ρ : Type}
/-- the `Observations` object: its attributes -/
structure ObservationsObj (α : Type) where
  num_envs : Nat
  shared_memory : PyDict (Shm α)
  obs_view : PyDict (Shm α)
  agents : List Nat
  obs_spaces : PyDict Space

/-- the attributes of `AsyncPettingZooVecEnv` the receive side reads -/
structure VecEnvObj (α ρ : Type) where
  num_envs : Nat
  agents : List Nat
  parent_pipes : List (Pipe ρ)
  observations : ObservationsObj α
  copy : Bool

/-- what `step_wait` / `reset_wait` hand out as observations: a dict of copies, or the live object -/
inductive ObsOut (α : Type)
  | copied (d : PyDict (Obs α))
  | view (o : ObservationsObj α)
instance : PyAs (PyDict (Obs α)) (ObsOut α) := ⟨.copied⟩
instance : PyAs (ObservationsObj α) (ObsOut α) := ⟨.view⟩

/-- constant tuple indices `t[0]`, `t[1]`, … -/
inductive TIdx.I0 | mk
inductive TIdx.I1 | mk
inductive TIdx.I2 | mk
inductive TIdx.I3 | mk
def TIdx.i0 := TIdx.I0.mk
def TIdx.i1 := TIdx.I1.mk
def TIdx.i2 := TIdx.I2.mk
def TIdx.i3 := TIdx.I3.mk

/-- the tuple a worker sends after a step: (reward, terminated, truncated, info) -/
abbrev StepReply (R K : Type) := PyDict R × PyDict Bool × PyDict Bool × Info K
instance : PyGetItem (StepReply R K) TIdx.I0 (PyDict R) := ⟨fun t _ => some t.1⟩
instance : PyGetItem (StepReply R K) TIdx.I1 (PyDict Bool) := ⟨fun t _ => some t.2.1⟩
instance : PyGetItem (StepReply R K) TIdx.I2 (PyDict Bool) := ⟨fun t _ => some t.2.2.1⟩
instance : PyGetItem (StepReply R K) TIdx.I3 (Info K) := ⟨fun t _ => some t.2.2.2⟩

/-- `a and b` / `a or b`: the right operand is evaluated only when needed -/
def pyAnd (a b : Option Bool) : Option Bool := a.bind (fun x => if x then b else some false)
def pyOr (a b : Option Bool) : Option Bool := a.bind (fun x => if x then some true else b)
end
"""

# ------------------------------------------------------------------------------------------------ tables
# parameter name -> Lean type (None = dropped: runtime handle / protocol argument)
FUNCS = {
    "_create_memory_array": dict(
        lean="create_memory_array", binders="[Inhabited α] {σ : Type} [PyShape σ]",
        params=[("num_envs", "Nat"), ("obs_space", "σ"), ("context", None)], ret="List α", targs=" (α := α)"),
    "create_shared_memory": dict(
        lean="create_shared_memory", binders="[Inhabited α]",
        params=[("num_envs", "Nat"), ("obs_spaces", "PyDict Space"), ("context", None)], ret="PyDict (Shm α)"),
    "write_to_shared_memory": dict(
        lean="write_to_shared_memory", binders="",
        params=[("index", "Nat"), ("observation", "PyDict (Obs α)"), ("shared_memory", "PyDict (Shm α)"),
                ("obs_space", "PyDict Space")], ret="PyDict (Shm α)", returns_param="shared_memory"),
    "Observations.__init__": dict(
        lean="Observations.init", binders="",
        params=[("self", None), ("shared_memory", "PyDict (Shm α)"), ("obs_spaces", "PyDict Space"), ("num_envs", "Nat")],
        ret="ObservationsObj α", fields=["num_envs", "shared_memory", "obs_view", "agents", "obs_spaces"]),
    "Observations.__getitem__": dict(
        lean="Observations.getitem", binders="",
        params=[("self", "ObservationsObj α"), ("agent", "Nat")], ret="Obs α"),
    "Observations.__iterate_kv": dict(
        lean="Observations.iterate_kv", binders="",
        params=[("self", "ObservationsObj α")], ret="List (Nat × Obs α)"),
    "Observations.keys": dict(
        lean="Observations.keys", binders="",
        params=[("self", "ObservationsObj α")], ret="List Nat"),
    "AsyncPettingZooVecEnv._add_info": dict(
        lean="add_info_F", binders="[DecidableEq K] (underscore : K → K) "
                                   "(self_add_info : VVal K → Info K → Nat → Option (VVal K))",
        params=[("self", "VecEnvObj α ρ"), ("vector_infos", "VVal K"), ("env_info", "Info K"), ("env_num", "Nat")],
        ret="VVal K"),
    "AsyncPettingZooVecEnv.reset_wait": dict(
        lean="reset_wait", binders="[DecidableEq K] (underscore : K → K) (depth : Nat)",
        params=[("self", "VecEnvObj α (Info K × Bool)"), ("timeout", None)], ret="ObsOut α × VVal K",
        ifexp="ObsOut α"),
    "AsyncPettingZooVecEnv.step_wait": dict(
        lean="step_wait", binders="[DecidableEq K] (underscore : K → K) (depth : Nat)",
        params=[("self", "VecEnvObj α (StepReply R K × Bool)"), ("timeout", None)],
        ret="ObsOut α × PyDict (List R) × PyDict (List Bool) × PyDict (List Bool) × VVal K", ifexp="ObsOut α"),
}
ORDER = ["_create_memory_array", "create_shared_memory", "write_to_shared_memory", "Observations.__init__",
         "Observations.__getitem__", "Observations.__iterate_kv", "Observations.keys",
         "AsyncPettingZooVecEnv._add_info", "@glue_add_info", "AsyncPettingZooVecEnv.reset_wait",
         "AsyncPettingZooVecEnv.step_wait"]

# empty containers whose element type Lean cannot infer: (function, constructor) -> Lean term
EMPTY = {
    ("create_shared_memory", "{}"): "(pyEmptyDict : PyDict (Shm α))",
    ("create_shared_memory", "OrderedDict()"): "(pyOrderedDict : Shm α)",
    ("Observations.__init__", "{}"): "(pyEmptyDict : PyDict (Shm α))",
    ("Observations.__init__", "OrderedDict()"): "(pyOrderedDict : Shm α)",
    ("Observations.__getitem__", "OrderedDict()"): "(pyOrderedDict : Obs α)",
    ("Observations.__getitem__", "[]"): "([] : List (NdArr α))",
    ("AsyncPettingZooVecEnv.reset_wait", "{}"): "(pyEmptyInfos : VVal K)",
    ("AsyncPettingZooVecEnv.step_wait", "{}"): "(pyEmptyInfos : VVal K)",
    ("AsyncPettingZooVecEnv.step_wait", "[]"): "([] : List Bool)",
    ("AsyncPettingZooVecEnv._add_info", "{}"): "(pyEmptyInfos : VVal K)",
}
# the declared type of a variable joined over `if / elif / else` branches of different Python types
JOINED = {
    ("create_shared_memory", "shm"): "Shm α",
    ("Observations.__init__", "obs_view"): "Shm α",
    ("Observations.__getitem__", "result"): "Obs α",
}
CLASSES = {"int": "int", "float": "float", "bool": "bool", "dict": "dict", "np.number": "np_number",
           "np.ndarray": "np_ndarray", "np.bool_": "np_bool_", "np.float32": "np_float32", "object": "object",
           "spaces.Dict": "spaces_Dict", "spaces.Tuple": "spaces_Tuple"}
PROTOCOL_ATTRS = {"_state", "_assert_is_running", "_poll_pipe_envs"}
SELF_FIELDS = {"num_envs", "shared_memory", "obs_view", "agents", "obs_spaces", "parent_pipes", "observations", "copy"}
BINOPS = {ast.Add: "+", ast.Sub: "-", ast.Mult: "*"}
CMPOPS = {ast.Eq: "==", ast.NotEq: "!=", ast.Lt: "<", ast.LtE: "<=", ast.Gt: ">", ast.GtE: ">="}


def dotted(node) -> str | None:
    if isinstance(node, ast.Name):
        return node.id
    if isinstance(node, ast.Attribute):
        b = dotted(node.value)
        return None if b is None else f"{b}.{node.attr}"
    return None


def patom(s: str) -> str:
    s = s.strip()
    if s and (all(c.isalnum() or c in "_.'" for c in s)):
        return s
    if s.startswith("(") and s.endswith(")"):
        d = 0
        for i, c in enumerate(s):
            d += c == "("
            d -= c == ")"
            if d == 0 and i < len(s) - 1:
                break
        else:
            return s
    if s.startswith("[") and s.endswith("]") and s.count("[") == 1:
        return s
    return f"({s})"


def mentions_protocol(node) -> bool:
    for n in ast.walk(node):
        if isinstance(n, ast.Attribute) and isinstance(n.value, ast.Name) and n.value.id == "self" and n.attr in PROTOCOL_ATTRS:
            return True
    return False


def loads(nodes) -> set[str]:
    """names read anywhere in the statements (self.X counts as `self.X`); a comprehension's own variables excluded"""
    out = set()

    def go(n, hidden):
        if isinstance(n, (ast.ListComp, ast.SetComp, ast.GeneratorExp, ast.DictComp)):
            h = set(hidden)
            for g in n.generators:
                go(g.iter, h)
                h |= {x.id for x in ast.walk(g.target) if isinstance(x, ast.Name)}
                for c in g.ifs:
                    go(c, h)
            for part in ([n.key, n.value] if isinstance(n, ast.DictComp) else [n.elt]):
                go(part, h)
            return
        if isinstance(n, ast.Name) and isinstance(n.ctx, ast.Load) and n.id not in hidden:
            out.add(n.id)
        elif isinstance(n, ast.Attribute) and isinstance(n.value, ast.Name) and n.value.id == "self":
            out.add("self." + n.attr)
        for c in ast.iter_child_nodes(n):
            go(c, hidden)

    for st in nodes:
        go(st, set())
    return out


def root_name(node) -> str | None:
    while isinstance(node, (ast.Subscript, ast.Call)) or (isinstance(node, ast.Attribute) and not (
            isinstance(node.value, ast.Name) and node.value.id == "self")):
        node = node.func if isinstance(node, ast.Call) else node.value
    if isinstance(node, ast.Name):
        return node.id
    if isinstance(node, ast.Attribute):
        return "self." + node.attr
    return None


ERASED = "<erased dtype>"


class Fn:
    """translation of one function body"""

    def __init__(self, tr, qual, node):
        self.tr, self.qual, self.node, self.spec = tr, qual, node, FUNCS[qual]
        self.names: dict[str, str] = {}          # python variable -> lean name
        self.nlocals = 0
        self.alias: dict[str, list] = {}         # view variable -> path
        self.skipped: list[str] = []
        self.is_init = qual.endswith(".__init__")
        # view variable -> root of the l-value it is a view of (static pre-scan, for the loop-carried sets)
        self.view_root: dict[str, str] = {}
        for n in ast.walk(node):
            if (isinstance(n, ast.Assign) and len(n.targets) == 1 and isinstance(n.targets[0], ast.Name)
                    and isinstance(n.value, ast.Call) and dotted(n.value.func) == "np.frombuffer" and n.value.args):
                self.view_root[n.targets[0].id] = root_name(n.value.args[0])

    # ---- names
    def bind(self, py: str) -> str:
        if py == "_":
            return "_"
        if py not in self.names or self.names[py] == ERASED:
            self.names[py] = f"v{self.nlocals}"
            self.nlocals += 1
        return self.names[py]

    def lookup(self, node, py: str) -> str:
        if py not in self.names:
            bad(node, f"name `{py}` is not a parameter or a local bound before")
        if self.names[py] == ERASED:
            bad(node, f"dtype variable `{py}` used as a value")
        return self.names[py]

    # ---- assigned variables of a statement list
    def assigned(self, stmts) -> list[str]:
        out: list[str] = []

        def add(x):
            if x is not None and x != "_" and x not in out:
                out.append(x)

        def tgt(t):
            if isinstance(t, ast.Name):
                add(t.id)
            elif isinstance(t, (ast.Tuple, ast.List)):
                for e in t.elts:
                    tgt(e)
            elif isinstance(t, ast.Subscript):
                add(root_name(t))
            elif isinstance(t, ast.Attribute) and isinstance(t.value, ast.Name) and t.value.id == "self":
                add("self." + t.attr)
            else:
                bad(t, "assignment target")

        for st in stmts:
            for n in ast.walk(st):
                if isinstance(n, ast.Assign):
                    for t in n.targets:
                        tgt(t)
                elif isinstance(n, (ast.AugAssign, ast.AnnAssign)):
                    tgt(n.target)
                elif isinstance(n, ast.For):
                    tgt(n.target)
                elif isinstance(n, ast.Call) and isinstance(n.func, ast.Attribute) and n.func.attr == "append":
                    add(root_name(n.func.value))
                elif isinstance(n, ast.Call) and dotted(n.func) == "np.copyto" and n.args:
                    a = n.args[0]
                    r = root_name(a)
                    add(self.view_root.get(r, r))
        return out

    # ---- expressions: returns Lean text valid inside a `do` block of Option
    def expr(self, e) -> str:
        E = self.expr
        if isinstance(e, ast.Constant):
            if e.value is True:
                return "true"
            if e.value is False:
                return "false"
            if isinstance(e.value, int):
                return str(e.value)
            bad(e, f"constant {e.value!r}")
        if isinstance(e, ast.Name):
            return self.lookup(e, e.id)
        if isinstance(e, ast.Attribute):
            if isinstance(e.value, ast.Name) and e.value.id == "self":
                key = "self." + e.attr
                if key in self.names:
                    return self.names[key]
                if self.is_init:
                    bad(e, f"`self.{e.attr}` read before it is assigned")
                if e.attr not in SELF_FIELDS:
                    bad(e, f"attribute `self.{e.attr}`")
                return f"self.{e.attr}"
            if e.attr == "shape":
                return f"(← pyShape {patom(E(e.value))})"
            if e.attr == "spaces":
                return f"(← pySpaces {patom(E(e.value))})"
            bad(e, f"attribute `.{e.attr}`")
        if isinstance(e, ast.Tuple):
            if not e.elts:
                return "([] : List Nat)"
            if any(isinstance(x, ast.Starred) for x in e.elts):
                if not isinstance(e.elts[-1], ast.Starred) or any(isinstance(x, ast.Starred) for x in e.elts[:-1]):
                    bad(e, "starred element not in last position")
                out = patom(E(e.elts[-1].value))
                for x in reversed(e.elts[:-1]):
                    out = f"({patom(E(x))} :: {out})"
                return out
            if all(isinstance(x, ast.Constant) and isinstance(x.value, int) and not isinstance(x.value, bool) for x in e.elts):
                return "([" + ", ".join(str(x.value) for x in e.elts) + "] : List Nat)"
            return "(" + ", ".join(E(x) for x in e.elts) + ")"
        if isinstance(e, ast.List):
            if not e.elts:
                return self.empty(e, "[]")
            return "[" + ", ".join(E(x) for x in e.elts) + "]"
        if isinstance(e, ast.Dict):
            if e.keys:
                bad(e, "non-empty dict display")
            return self.empty(e, "{}")
        if isinstance(e, ast.Subscript):
            if isinstance(e.slice, ast.Slice):
                bad(e, "slice outside `np.copyto(view[lo:hi], …)`")
            if isinstance(e.slice, ast.Constant) and isinstance(e.slice.value, int) and not isinstance(e.slice.value, bool):
                if not 0 <= e.slice.value <= 5:
                    bad(e, f"constant index {e.slice.value}")
                return f"(← pyGetItem {patom(E(e.value))} TIdx.i{e.slice.value})"
            if dotted(e.value) == "self.observations" and not self.is_init:
                return f"(← {FUNCS['Observations.__getitem__']['lean']} self.observations {patom(E(e.slice))})"
            v = E(e.value)
            return f"(← pyGetItem {patom(v)} {patom(E(e.slice))})"
        if isinstance(e, ast.BinOp):
            if type(e.op) not in BINOPS:
                bad(e, f"operator {type(e.op).__name__}")
            l = E(e.left)
            return f"({patom(l)} {BINOPS[type(e.op)]} {patom(E(e.right))})"
        if isinstance(e, ast.UnaryOp) and isinstance(e.op, ast.Not):
            return f"(!{patom(E(e.operand))})"
        if isinstance(e, ast.BoolOp):
            # short-circuit: the right operands live in their own `do`
            op = "pyAnd" if isinstance(e.op, ast.And) else "pyOr"
            out = f"(do pure {patom(E(e.values[-1]))})"
            for v in reversed(e.values[:-1]):
                out = f"({op} (do pure {patom(E(v))}) {out})"
            return f"(← {out})"
        if isinstance(e, ast.Compare):
            if len(e.ops) != 1:
                bad(e, "chained comparison")
            op, r = e.ops[0], e.comparators[0]
            if isinstance(op, (ast.Is, ast.IsNot)):
                if not (isinstance(r, ast.Constant) and r.value is None):
                    bad(e, "`is` against something else than None")
                t = f"(pyIsNone {patom(E(e.left))})"
                return t if isinstance(op, ast.Is) else f"(!{t})"
            if isinstance(op, (ast.In, ast.NotIn)):
                l = E(e.left)
                if isinstance(r, ast.List) and r.elts and all(dotted(x) in CLASSES for x in r.elts):
                    t = f"(List.elem {patom(l)} [" + ", ".join(self.clsname(x) for x in r.elts) + "])"
                elif isinstance(r, ast.List):
                    t = f"(List.elem {patom(l)} {E(r)})"
                else:
                    t = f"(← pyContains {patom(E(r))} {patom(l)})"
                return t if isinstance(op, ast.In) else f"(!{t})"
            if type(op) not in CMPOPS:
                bad(e, f"comparison {type(op).__name__}")
            l = E(e.left)
            return f"({patom(l)} {CMPOPS[type(op)]} {patom(E(r))})"
        if isinstance(e, ast.IfExp):
            ty = self.spec.get("ifexp")
            c = E(e.test)
            if ty is None:
                return f"(← (if {c} then (do pure {patom(E(e.body))}) else (do pure {patom(E(e.orelse))})))"
            return (f"(← (if {c} then (do pure (pyAs {patom(E(e.body))} : {ty})) "
                    f"else (do pure (pyAs {patom(E(e.orelse))} : {ty}))))")
        if isinstance(e, ast.JoinedStr):
            if (len(e.values) == 2 and isinstance(e.values[0], ast.Constant) and e.values[0].value == "_"
                    and isinstance(e.values[1], ast.FormattedValue) and e.values[1].conversion == -1
                    and e.values[1].format_spec is None):
                return f"(underscore {patom(E(e.values[1].value))})"
            bad(e, "f-string other than f\"_{key}\"")
        if isinstance(e, (ast.ListComp, ast.GeneratorExp, ast.DictComp)):
            return self.comp(e)
        if isinstance(e, ast.Call):
            return self.call(e)
        bad(e, f"expression {type(e).__name__}")

    def empty(self, e, ctor) -> str:
        t = EMPTY.get((self.qual, ctor))
        if t is None:
            bad(e, f"empty container `{ctor}` (no declared type in this function)")
        return t

    def pattern(self, t) -> str:
        if isinstance(t, ast.Name):
            return self.bind(t.id)
        if isinstance(t, ast.Tuple):
            return "(" + ", ".join(self.pattern(x) for x in t.elts) + ")"
        bad(t, "loop target")

    def comp(self, e) -> str:
        if len(e.generators) != 1 or e.generators[0].ifs or e.generators[0].is_async:
            bad(e, "comprehension with several `for` / a filter")
        g = e.generators[0]
        it = self.iterable(g.iter)
        saved = dict(self.names)
        pat = self.pattern(g.target)
        if isinstance(e, ast.DictComp):
            body = f"({self.expr(e.key)}, {self.expr(e.value)})"
        else:
            body = self.expr(e.elt)
        self.names = saved
        lst = f"(← {patom(it)}.mapM (fun {pat} => do pure {patom(body)}))"
        return f"(pyDictOfPairs {lst})" if isinstance(e, ast.DictComp) else lst

    def iterable(self, it) -> str:
        """the list a `for` runs over"""
        if isinstance(it, ast.Call):
            f = dotted(it.func)
            if f == "enumerate" and len(it.args) == 1:
                return f"(pyEnumerate {patom(self.iterable(it.args[0]))})"
            if f == "range" and len(it.args) == 1:
                return f"(pyRange {patom(self.expr(it.args[0]))})"
            if isinstance(it.func, ast.Attribute) and it.func.attr == "items" and not it.args:
                return f"(← pyItems {patom(self.expr(it.func.value))})"
            if isinstance(it.func, ast.Attribute) and it.func.attr == "keys" and not it.args \
                    and dotted(it.func.value) != "self.observations":
                return f"(← pyIter {patom(self.expr(it.func.value))})"
            return self.expr(it)            # a translated generator method: already a list
        return f"(← pyIter {patom(self.expr(it))})"

    def drop_dtype(self, c):
        for k in c.keywords:
            if k.arg != "dtype":
                bad(c, f"keyword `{k.arg}`")

    def clsname(self, node) -> str:
        d = dotted(node)
        if d not in CLASSES:
            bad(node, f"class `{d or ast.dump(node)}`")
        return f"PyClass.{CLASSES[d]}"

    def call(self, c) -> str:
        E = self.expr
        f = dotted(c.func)
        args = c.args
        if any(isinstance(a, ast.Starred) for a in args) and f != "zip":
            bad(c, "starred argument")
        # ---- translated functions / methods
        target = None
        if f in FUNCS:
            target = f
        elif f and f.startswith("self.") and isinstance(c.func.value, ast.Name):
            cls = self.qual.split(".")[0]
            if f"{cls}.{c.func.attr}" in FUNCS:
                target = f"{cls}.{c.func.attr}"
        elif f and f.startswith("self.observations."):
            if f"Observations.{c.func.attr}" in FUNCS:
                target = f"Observations.{c.func.attr}"
        if target is not None:
            spec = FUNCS[target]
            if c.keywords:
                bad(c, "keyword arguments to a translated function")
            params = [p for p in spec["params"]]
            given = list(args)
            out = []
            if params and params[0][0] == "self":
                if f.startswith("self.observations."):
                    out.append("self.observations")
                elif target == self.qual and target.endswith("_add_info"):
                    pass
                else:
                    out.append("self")
                params = params[1:]
            if len(given) > len(params):
                bad(c, f"too many arguments to `{f}`")
            for (pn, pt), a in zip(params, given):
                if pt is not None:
                    out.append(patom(E(a)))
                elif not isinstance(a, ast.Name):
                    bad(c, f"argument for the runtime parameter `{pn}` is not a plain name")
            for pn, pt in params[len(given):]:
                if pt is not None:
                    bad(c, f"missing argument `{pn}` of `{f}`")
            if target == self.qual and target.endswith("_add_info"):
                return f"(← self_add_info {' '.join(out)})"
            if target.endswith("_add_info"):
                return f"(← add_info underscore depth {' '.join(out)})"
            return f"(← {spec['lean']}{spec.get('targs', '')} {' '.join(out)})"
        if f == "self._raise_if_errors" and len(args) == 1:
            return f"(← pyRaiseIfErrors {patom(E(args[0]))})"
        # ---- builtins / numpy
        if f == "int" and len(args) == 1:
            return f"(pyInt {patom(E(args[0]))})"
        if f == "len" and len(args) == 1:
            return f"(pyLen {patom(E(args[0]))})"
        if f == "list" and len(args) == 1:
            return self.iterable(args[0])
        if f == "tuple" and len(args) == 1:
            if isinstance(args[0], ast.GeneratorExp):
                return f"(pyTuple {patom(E(args[0]))})"
            return f"(pyTuple {patom(E(args[0]))})"
        if f == "type" and len(args) == 1:
            return f"(pyType {patom(E(args[0]))})"
        if f == "isinstance" and len(args) == 2:
            return f"(pyIsInstance {patom(E(args[0]))} {self.clsname(args[1])})"
        if f == "issubclass" and len(args) == 2:
            return f"(pyIsSubclass {patom(E(args[0]))} {self.clsname(args[1])})"
        if f == "zip" and len(args) == 1 and isinstance(args[0], ast.Starred):
            return f"(← pyUnzip {patom(E(args[0].value))})"
        if f == "OrderedDict" and not args:
            return self.empty(c, "OrderedDict()")
        if f == "deepcopy" and len(args) == 1:
            return f"(pyDeepcopy {patom(E(args[0]))})"
        if f == "np.prod" and len(args) == 1:
            return f"(npProd {patom(E(args[0]))})"
        if f == "np.frombuffer" and len(args) == 1:
            self.drop_dtype(c)
            return f"(npFrombuffer {patom(E(args[0]))})"
        if f == "np.asarray" and len(args) == 1:
            self.drop_dtype(c)
            return f"(← npAsarray {patom(E(args[0]))})"
        if f == "np.array" and len(args) == 1 and not c.keywords:
            return f"(npArray {patom(E(args[0]))})"
        if f == "np.zeros" and len(args) == 1:
            kw = {k.arg: k.value for k in c.keywords}
            if set(kw) != {"dtype"}:
                bad(c, "np.zeros without exactly the keyword dtype")
            if isinstance(args[0], ast.Tuple):
                return f"(npZerosShape {patom(E(args[0]))})"
            d = kw["dtype"]
            if isinstance(d, ast.Call) and dotted(d.func) == "type" and len(d.args) == 1:
                ty = f"(pyType {patom(E(d.args[0]))})"
            else:
                ty = self.clsname(d)
            return f"(npZeros {patom(E(args[0]))} {ty})"
        if f == "np.full" and len(args) == 1:
            kw = {k.arg: k.value for k in c.keywords}
            if set(kw) != {"fill_value", "dtype"}:
                bad(c, "np.full without exactly the keywords fill_value, dtype")
            fv = kw["fill_value"]
            if dotted(fv) == "np.nan":
                nan = "true"
            elif isinstance(fv, ast.Constant) and fv.value is None:
                nan = "false"
            else:
                bad(c, "fill_value other than np.nan / None")
            return f"(npFull {patom(E(args[0]))} {nan} {self.clsname(kw['dtype'])})"
        if f == "context.Array" and len(args) == 2:
            d = dotted(args[0])
            if d is None or ".dtype" not in d:
                bad(c, "typecode of context.Array is not a dtype attribute")
            return f"(ctxArray {patom(E(args[1]))})"
        # ---- methods
        if isinstance(c.func, ast.Attribute):
            m, recv = c.func.attr, c.func.value
            if m == "get_obj" and not args:
                return f"(← pyGetObj {patom(E(recv))})"
            if m == "flatten" and not args:
                return f"(npFlatten {patom(E(recv))})"
            if m == "astype" and len(args) == 1:
                return f"(npAstype {patom(E(recv))})"
            if m == "reshape" and len(args) == 1:
                r = E(recv)
                return f"(← npReshape {patom(r)} {patom(E(args[0]))})"
            if m == "recv" and not args:
                return f"(← pyRecv {patom(E(recv))})"
            if m == "get" and len(args) == 2:
                r = E(recv)
                k = E(args[0])
                return f"(← pyGetD {patom(r)} {patom(k)} {patom(E(args[1]))})"
            if m in ("items", "keys") and not args:
                return self.iterable(c)
        bad(c, f"call of `{f or ast.dump(c.func)}`")

    # ---- paths (l-values reachable through views)
    def path_of(self, node) -> list:
        """`X[k1][k2].get_obj()` -> [root python name, ('item', k1 text), …, ('obj',)]"""
        steps = []
        while True:
            if isinstance(node, ast.Call) and isinstance(node.func, ast.Attribute) and node.func.attr == "get_obj" and not node.args:
                steps.append(("obj",))
                node = node.func.value
            elif isinstance(node, ast.Subscript) and not isinstance(node.slice, ast.Slice):
                if isinstance(node.slice, ast.Constant):
                    bad(node, "constant index in a view path")
                steps.append(("item", patom(self.expr(node.slice))))
                node = node.value
            elif isinstance(node, ast.Name):
                return [node.id] + list(reversed(steps))
            else:
                bad(node, "view of something that is not `name[…]….get_obj()`")

    def update_path(self, path, leaf_fn: str) -> str:
        """Lean term (Option) for the root with `leaf_fn : V → Option V` applied at the end of the path"""
        root = self.lookup(self.node, path[0])
        steps = path[1:]

        def go(cur, i):
            if i == len(steps):
                return f"{leaf_fn} {cur}"
            st = steps[i]
            x = f"x{i}"
            if st[0] == "obj":
                return f"pyModifyObj {cur} (fun {x} => {go(x, i + 1)})"
            return f"pyModifyItem {cur} {st[1]} (fun {x} => {go(x, i + 1)})"
        return go(root, 0)

    # ---- statements
    def block(self, stmts, after: set[str], ind: str) -> list[str]:
        out: list[str] = []
        self.dead_after = getattr(self, "dead_after", {})
        for i, st in enumerate(stmts):
            # targets of a tuple assignment that the next statement touching them plainly overwrites
            if isinstance(st, ast.Assign) and isinstance(st.targets[0], ast.Tuple):
                dead = set()
                for t in st.targets[0].elts:
                    if not isinstance(t, ast.Name):
                        continue
                    for nx in stmts[i + 1:]:
                        names = {x.id for x in ast.walk(nx) if isinstance(x, ast.Name)}
                        if t.id in names:
                            if (isinstance(nx, ast.Assign) and len(nx.targets) == 1 and isinstance(nx.targets[0], ast.Name)
                                    and nx.targets[0].id == t.id and t.id not in loads([nx.value])):
                                dead.add(t.id)
                            break
                self.dead_after[id(st)] = dead
            later = loads(stmts[i + 1:]) | after
            out += self.stmt(st, later, ind)
        return out

    def assign_name(self, py: str, rhs: str, ind: str, monadic=False) -> list[str]:
        return [f"{ind}let {self.bind(py)} {'←' if monadic else ':='} {rhs}"]

    def stmt(self, st, later: set[str], ind: str) -> list[str]:
        if isinstance(st, ast.Expr) and isinstance(st.value, ast.Constant) and isinstance(st.value.value, str):
            return []
        if mentions_protocol(st):
            if isinstance(st, (ast.For, ast.Return)) or (isinstance(st, ast.If) and not all(
                    isinstance(b, (ast.Raise, ast.Assign)) and (isinstance(b, ast.Raise) or mentions_protocol(b)) for b in st.body)) \
                    or (isinstance(st, ast.If) and st.orelse):
                bad(st, "call-protocol statement of an unexpected form")
            self.skipped.append(f"line {st.lineno}: {ast.unparse(st).splitlines()[0][:100]}")
            return []
        if isinstance(st, ast.Assign):
            if len(st.targets) != 1:
                bad(st, "chained assignment")
            t = st.targets[0]
            v = st.value
            if isinstance(t, ast.Name):
                # a view of shared memory
                if isinstance(v, ast.Call) and dotted(v.func) == "np.frombuffer" and not self.is_init:
                    self.drop_dtype(v)
                    if len(v.args) != 1:
                        bad(v, "np.frombuffer arguments")
                    rhs = self.expr(v)
                    self.alias[t.id] = self.path_of(v.args[0])
                    return self.assign_name(t.id, rhs, ind)
                if isinstance(v, ast.Attribute) and v.attr == "dtype":
                    self.names[t.id] = ERASED            # dtypes are erased; usable only as a `dtype=` argument
                    return []
                rhs = self.expr(v)
                self.alias.pop(t.id, None)
                return self.assign_name(t.id, rhs, ind)
            if isinstance(t, ast.Attribute) and isinstance(t.value, ast.Name) and t.value.id == "self":
                if not self.is_init:
                    bad(st, "assignment to an attribute outside `__init__`")
                rhs = self.expr(v)
                return self.assign_name("self." + t.attr, rhs, ind)
            if isinstance(t, ast.Subscript):
                return self.setitem(t, self.expr(v), ind)
            if isinstance(t, ast.Tuple):
                names = t.elts
                # a, b, … = (E for _ in range(K))
                if isinstance(v, ast.GeneratorExp):
                    g = v.generators[0]
                    if (len(v.generators) == 1 and not g.ifs and isinstance(g.target, ast.Name) and g.target.id == "_"
                            and isinstance(g.iter, ast.Call) and dotted(g.iter.func) == "range" and len(g.iter.args) == 1
                            and isinstance(g.iter.args[0], ast.Constant) and g.iter.args[0].value == len(names)
                            and all(isinstance(n, ast.Name) for n in names)
                            and isinstance(v.elt, ast.Call) and dotted(v.elt.func) == "defaultdict"
                            and len(v.elt.args) == 1 and dotted(v.elt.args[0]) == "list"):
                        out = []
                        for n in names:
                            if n.id in self.dead_after.get(id(st), ()):
                                out.append(f"{ind}-- `{n.id} = defaultdict(list)`: overwritten before it is read, dropped")
                                continue
                            out += self.assign_name(n.id, "pyDefaultdictList", ind)
                        return out
                    bad(st, "unpacking of a generator other than `(defaultdict(list) for _ in range(<#targets>))`")
                if isinstance(v, ast.Tuple) and len(v.elts) == len(names):
                    vals = [self.expr(x) for x in v.elts]          # right-hand side first, in order
                    tmps = [f"t{k}" for k in range(len(vals))]
                    out = [f"{ind}let {tm} := {x}" for tm, x in zip(tmps, vals)]
                    for n, tm in zip(names, tmps):
                        if isinstance(n, ast.Name):
                            out += self.assign_name(n.id, tm, ind)
                        elif isinstance(n, ast.Subscript):
                            out += self.setitem(n, tm, ind)
                        else:
                            bad(st, "tuple assignment target")
                    return out
                if all(isinstance(n, ast.Name) for n in names):
                    rhs = self.expr(v)
                    pat = "(" + ", ".join(self.bind(n.id) for n in names) + ")"
                    return [f"{ind}let {pat} := {rhs}"]
                bad(st, "tuple assignment")
            bad(st, "assignment target")
        if isinstance(st, ast.Expr) and isinstance(st.value, ast.Call):
            c = st.value
            f = dotted(c.func)
            if isinstance(c.func, ast.Attribute) and c.func.attr == "append" and len(c.args) == 1:
                recv = c.func.value
                x = self.expr(c.args[0])
                if isinstance(recv, ast.Name):
                    r = self.lookup(recv, recv.id)
                    return [f"{ind}let {r} := {r} ++ [{x}]"]
                if isinstance(recv, ast.Subscript) and isinstance(recv.value, ast.Name):
                    r = self.lookup(recv, recv.value.id)
                    k = self.expr(recv.slice)
                    return [f"{ind}let {r} := pyAppendAt {r} {patom(k)} {patom(x)}"]
                bad(st, "append on something else than `x` / `d[k]`")
            if f == "np.copyto" and len(c.args) == 2 and not c.keywords:
                d = c.args[0]
                if not (isinstance(d, ast.Subscript) and isinstance(d.slice, ast.Slice) and isinstance(d.value, ast.Name)
                        and d.value.id in self.alias and d.slice.step is None
                        and d.slice.lower is not None and d.slice.upper is not None):
                    bad(st, "np.copyto destination is not `view[lo:hi]` of a view made by np.frombuffer")
                path = self.alias[d.value.id]
                sl = self.tr.slice_def(self, d.slice)
                src = self.expr(c.args[1])
                upd = self.update_path(path, f"(fun b => npCopytoSlice b {sl}.1 {sl}.2 src)")
                root = self.lookup(st, path[0])
                return [f"{ind}let src := {src}", f"{ind}let {root} ← {upd}"]
            if f == "self._raise_if_errors":
                return [f"{ind}let _ := {self.expr(c)}"]
            if f in FUNCS and FUNCS[f].get("returns_param"):
                bad(st, "call of write_to_shared_memory outside the worker")
            bad(st, f"expression statement `{f}`")
        if isinstance(st, ast.For):
            return self.for_(st, later, ind)
        if isinstance(st, ast.If):
            return self.if_(st, later, ind)
        if isinstance(st, ast.Return):
            if st.value is None:
                bad(st, "bare return")
            return [f"{ind}return {self.expr(st.value)}"]
        bad(st, f"statement {type(st).__name__}")

    def setitem(self, t, rhs: str, ind: str) -> list[str]:
        base = t.value
        k = self.expr(t.slice)
        if isinstance(base, ast.Name):
            r = self.lookup(base, base.id)
        elif isinstance(base, ast.Attribute) and isinstance(base.value, ast.Name) and base.value.id == "self" and self.is_init:
            r = self.lookup(base, "self." + base.attr)
        else:
            bad(t, "item assignment on something else than a variable")
        return [f"{ind}let {r} ← pySetItem {r} {patom(k)} {patom(rhs)}"]

    def carried_tuple(self, names) -> str:
        ls = [self.names[n] for n in names]
        return ls[0] if len(ls) == 1 else "(" + ", ".join(ls) + ")"

    def for_(self, st, later, ind) -> list[str]:
        if st.orelse:
            bad(st, "for … else")
        it = self.iterable(st.iter)
        carried = [v for v in self.assigned(st.body) if v in self.names]
        if not carried:
            bad(st, "loop without any effect on a variable bound before it")
        init = self.carried_tuple(carried)
        saved = dict(self.names)
        pat = self.pattern(st.target)
        body = self.block(st.body, later | set(carried), ind + "    ")
        res = self.carried_tuple(carried)
        self.names = {k: v for k, v in self.names.items() if k in saved or True}
        # locals first bound in the body are not visible after the loop
        for k in list(self.names):
            if k not in saved:
                if k in later:
                    bad(st, f"`{k}` is bound inside the loop and used after it")
        new_locals = {k: v for k, v in self.names.items() if k not in saved}
        self.names = dict(saved)
        self._hidden = getattr(self, "_hidden", {})
        self._hidden.update(new_locals)
        lines = [f"{ind}let {init} ← {patom(it)}.foldlM (fun {init} {pat} => do"] + body + \
                [f"{ind}    pure {res}) {init}"]
        return lines

    def if_(self, st, later, ind) -> list[str]:
        branches = [(st.test, st.body)]
        orelse = st.orelse
        while len(orelse) == 1 and isinstance(orelse[0], ast.If):
            branches.append((orelse[0].test, orelse[0].body))
            orelse = orelse[0].orelse
        all_bodies = [b for _, b in branches] + [orelse]
        assigned = []
        for b in all_bodies:
            for v in self.assigned(b):
                if v not in assigned:
                    assigned.append(v)
        joined = [v for v in assigned if v in self.names or v in later]
        for v in joined:
            if v not in self.names:
                for b in all_bodies:
                    if v not in self.assigned(b):
                        bad(st, f"`{v}` may be unbound after this `if`")
        for v in joined:
            self.bind(v)
        saved = dict(self.names)

        def fin(ind2):
            parts = []
            for v in joined:
                ty = JOINED.get((self.qual, v))
                parts.append(f"(pyAs {self.names[v]} : {ty})" if ty else self.names[v])
            return f"{ind2}pure " + (parts[0] if len(parts) == 1 else "(" + ", ".join(parts) + ")")

        if not joined:
            bad(st, "`if` without any effect on a variable used later")
        lines = []
        tup = self.carried_tuple(joined)
        head = f"{ind}let {tup} ← (" if True else ""
        first = True
        for test, body in branches:
            self.names = dict(saved)
            c = self.expr(test)
            lines.append(f"{head if first else ind + '  else '}if {c} then do")
            first = False
            lines += self.block(body, later, ind + "      ")
            lines.append(fin(ind + "      "))
        self.names = dict(saved)
        lines.append(f"{ind}  else do")
        lines += self.block(orelse, later, ind + "      ")
        lines.append(fin(ind + "      ") + ")")
        self.names = dict(saved)
        return lines

    # ---- whole function
    def run(self) -> list[str]:
        spec, node = self.spec, self.node
        a = node.args
        if a.vararg or a.kwarg or a.kwonlyargs or a.posonlyargs:
            bad(node, "parameter kinds")
        got = [x.arg for x in a.args]
        want = [p for p, _ in spec["params"]]
        if got != want:
            bad(node, f"parameters {got} (expected {want})")
        sig = []
        for p, t in spec["params"]:
            if t is not None:
                self.names[p] = p
                sig.append(f"({p} : {t})")
        body = list(node.body)
        lines: list[str] = []
        # generator method: `for T in e: yield E`
        stmts = [s for s in body if not (isinstance(s, ast.Expr) and isinstance(s.value, ast.Constant))]
        if len(stmts) == 1 and isinstance(stmts[0], ast.For) and len(stmts[0].body) == 1 \
                and isinstance(stmts[0].body[0], ast.Expr) and isinstance(stmts[0].body[0].value, ast.Yield):
            f, y = stmts[0], stmts[0].body[0].value
            it = self.iterable(f.iter)
            pat = self.pattern(f.target)
            lines.append(f"  return (← {patom(it)}.mapM (fun {pat} => do pure {patom(self.expr(y.value))}))")
        else:
            for n in ast.walk(node):
                if isinstance(n, (ast.Yield, ast.YieldFrom)):
                    bad(n, "yield outside `for T in e: yield E`")
            lines += self.block(body, set(), "  ")
            if self.is_init:
                fs = []
                for fld in spec["fields"]:
                    if "self." + fld not in self.names:
                        bad(node, f"`__init__` does not assign self.{fld}")
                    fs.append(f"{fld} := {self.names['self.' + fld]}")
                lines.append("  return { " + ", ".join(fs) + " }")
            elif spec.get("returns_param"):
                lines.append(f"  return {self.names[spec['returns_param']]}")
            elif not (body and isinstance(body[-1], ast.Return)):
                bad(node, "function does not end with `return`")
        head = f"def {spec['lean']} {spec['binders']} {' '.join(sig)} : Option ({spec['ret']}) := do"
        out = [f"/-- `{self.qual}` (line {node.lineno}) -/", " ".join(head.split())]
        for s in self.skipped:
            out.append(f"  -- call protocol (C13), skipped: {s}")
        return out + lines + [""]


GLUE_ADD_INFO = '''/-- `self._add_info` with the recursion tied (fixed glue): `depth` bounds the nesting of the info dicts
    (`none` = RecursionError) -/
def add_info [DecidableEq K] (underscore : K → K) : Nat → VecEnvObj α ρ → VVal K → Info K → Nat → Option (VVal K)
  | 0, _, _, _, _ => none
  | d + 1, self, vi, info, i => add_info_F underscore (add_info underscore d self) self vi info i
'''


class Translator:
    def __init__(self, src: str):
        try:
            self.tree = ast.parse(src)
        except SyntaxError as e:
            raise Unsupported(f"{REL_SOURCE}: syntax error: {e}") from e
        self.defs: dict[str, ast.FunctionDef] = {}
        for n in self.tree.body:
            if isinstance(n, ast.FunctionDef):
                self.defs[n.name] = n
            elif isinstance(n, ast.ClassDef):
                for m in n.body:
                    if isinstance(m, ast.FunctionDef):
                        self.defs[f"{n.name}.{m.name}"] = m
        self.slices: list[str] = []
        self.pending: list[str] = []

    def slice_def(self, fn: Fn, sl: ast.Slice) -> str:
        """emit `<fn>_slice<k> vars : Nat × Nat := (lo, hi)`; returns the applied term"""
        free: list[str] = []
        for part in (sl.lower, sl.upper):
            for n in ast.walk(part):
                if isinstance(n, ast.Name) and n.id not in free:
                    free.append(n.id)
                elif not isinstance(n, (ast.Name, ast.BinOp, ast.Constant, ast.Add, ast.Sub, ast.Mult, ast.Load)):
                    bad(n, "slice bound is not integer arithmetic over names")
        k = len(self.slices)
        name = f"{fn.spec['lean']}_slice{k}"
        saved = fn.names
        fn.names = {v: f"s{i}" for i, v in enumerate(free)}
        lo, hi = fn.expr(sl.lower), fn.expr(sl.upper)
        params = " ".join(f"s{i}" for i in range(len(free)))
        fn.names = saved
        self.slices.append(name)
        self.pending += [f"/-- the slice `{ast.unparse(sl.lower)} : {ast.unparse(sl.upper)}` (free variables: {', '.join(free)}) -/",
                         f"def {name} ({params} : Nat) : Nat × Nat := ({lo}, {hi})", ""]
        return "(" + name + " " + " ".join(fn.lookup(sl, v) for v in free) + ")"

    def worker_calls(self) -> list[str]:
        w = self.defs.get("_async_worker")
        if w is None:
            raise Unsupported(f"{REL_SOURCE}: `_async_worker` not found")
        out, k = [], 0
        names = ["index", "observation", "shared_memory", "observation_space"]
        for n in ast.walk(w):
            if isinstance(n, ast.Call) and dotted(n.func) == "write_to_shared_memory":
                if n.keywords or len(n.args) != 4 or not all(isinstance(a, ast.Name) and a.id in names for a in n.args):
                    bad(n, "worker's call of write_to_shared_memory is not four of the names " + ", ".join(names))
                out += [f"/-- `_async_worker`, line {n.lineno}: `{ast.unparse(n)}` -/",
                        f"def worker_write{k} (index : Nat) (observation : PyDict (Obs α)) (shared_memory : PyDict (Shm α)) "
                        f"(observation_space : PyDict Space) : Option (PyDict (Shm α)) :=",
                        "  write_to_shared_memory " + " ".join(a.id for a in n.args), ""]
                k += 1
        if k == 0:
            raise Unsupported(f"{REL_SOURCE}: `_async_worker` never calls write_to_shared_memory")
        # `index` must be the worker's own parameter and never re-assigned
        if "index" not in [a.arg for a in w.args.args]:
            bad(w, "`_async_worker` has no parameter `index`")
        for n in ast.walk(w):
            if isinstance(n, ast.Name) and isinstance(n.ctx, ast.Store) and n.id in ("index", "shared_memory"):
                bad(n, f"`_async_worker` re-assigns `{n.id}`")
        return out

    def run(self) -> list[str]:
        out: list[str] = []
        for q in ORDER:
            if q == "@glue_add_info":
                out += GLUE_ADD_INFO.splitlines() + [""]
                continue
            if q not in self.defs:
                raise Unsupported(f"{REL_SOURCE}: `{q}` not found")
            body = Fn(self, q, self.defs[q]).run()
            out += self.pending + body
            self.pending = []
            if q == "write_to_shared_memory":
                out += self.worker_calls()
        return out


def repo_dir(arg: str | None) -> Path:
    if arg:
        return Path(arg)
    return Path(os.environ.get("VERIF_REPO", "/repo"))


def translate(repo: Path) -> tuple[str, str]:
    """returns (lean text, sha256 of the source file); raises Unsupported"""
    path = repo / REL_SOURCE
    try:
        raw = path.read_bytes()
    except OSError as e:
        raise Unsupported(f"cannot read {path}: {e}") from e
    sha = hashlib.sha256(raw).hexdigest()
    try:
        src = raw.decode("utf-8")
    except UnicodeDecodeError as e:
        raise Unsupported(f"{REL_SOURCE}: not utf-8: {e}") from e
    try:
        body = Translator(src).run()
    except RecursionError as e:
        raise Unsupported(f"{REL_SOURCE}: nesting too deep for the translator") from e
    header = [
        "/-",
        "  Gen/VecRecvGen.lean — GENERATED by harness/py2lean_vecrecv.py from",
        f"  {REL_SOURCE} (_create_memory_array, create_shared_memory, write_to_shared_memory, the worker's calls of it,",
        "  Observations.__init__ / __getitem__ / __iterate_kv / keys, AsyncPettingZooVecEnv.step_wait / reset_wait /",
        "  _add_info); do not edit.  Core Lean only.",
        "  `Proofs/VecRecvGenEq.lean` proves these definitions equal to the slice arithmetic of `Model/VecEnv.lean`.",
        "-/",
        f"{SHA_PREFIX}{REL_SOURCE}) = {sha}",
        "set_option linter.unusedVariables false",
        "",
        "namespace VecRecvGen",
        "",
    ]
    P = PRELUDE
    text = "\n".join(header) + P.strip("\n") + "\n\n/-! ### translated definitions -/\nsection\nvariable {α R K ρ : Type}\n\n" + \
        "\n".join(body).rstrip() + "\n\nend\n\nend VecRecvGen\n"
    return text, sha


def strip_sha(text: str) -> str:
    return "\n".join(ln for ln in text.split("\n") if not ln.startswith(SHA_PREFIX))


def write_if_changed(text: str, out: Path, force: bool = False) -> bool:
    """writes `text` unless the file already holds the same translation (sha lines ignored)"""
    old = out.read_text() if out.exists() else None
    if old is not None and not force and strip_sha(old) == strip_sha(text):
        return False
    if old == text:
        return False
    out.parent.mkdir(parents=True, exist_ok=True)
    tmp = out.with_suffix(".lean.tmp")
    tmp.write_text(text)
    os.replace(tmp, out)
    return True


def main(argv: list[str]) -> int:
    import argparse
    ap = argparse.ArgumentParser()
    ap.add_argument("--repo", default=None)
    ap.add_argument("--out", default=str(DEFAULT_OUT))
    ap.add_argument("--stdout", action="store_true")
    ap.add_argument("--force", action="store_true", help="rewrite even if only the sha256 line differs")
    a = ap.parse_args(argv)
    try:
        text, sha = translate(repo_dir(a.repo))
    except Unsupported as e:
        print(f"py2lean_vecrecv: {e}", file=sys.stderr)
        return 1
    if a.stdout:
        sys.stdout.write(text)
        return 0
    changed = write_if_changed(text, Path(a.out), a.force)
    print(f"{a.out}: {'written' if changed else 'unchanged'} (source sha256 {sha[:16]}…, "
          f"translation sha256 {hashlib.sha256(strip_sha(text).encode()).hexdigest()[:16]}…)")
    return 0


if __name__ == "__main__":
    sys.path.insert(0, str(HERE))
    sys.exit(main(sys.argv[1:]))
