#!/usr/bin/env python3
"""
py2lean_workererr.py — translate the WORKER-SIDE ERROR PATH of the vectorised PettingZoo environment (property C13)
into Lean 4:

  * REPO/agilerl/vector/pz_async_vec_env.py   `_async_worker`: the skeleton `try: … except (classes): … finally: …`
        (the classes of the `except` clause, the statements of the handler, the statements of the `finally` block) and
        `_survives_pickling`

    python3 harness/py2lean_workererr.py [--repo DIR] [--out FILE] [--stdout] [--force]

Reads the *source text* only (Python `ast`; agilerl is never imported) and writes lean/Gen/WorkerErrGen.lean (namespace
WorkerErrGen, core Lean only).  `Proofs/WorkerErrGenEq.lean` proves the generated effect list equal (under the
abstraction `absEff`) to `VecProto.Worker.errorPath` of the hand model `Model/VecProto.lean`; `Props/C13.lean` restates
the theorems over the generated definitions (`C13_source_translation_worker_*`).  py2lean_vecenv.py translates the
"reset" / "step" branches of the same function, py2lean_vecproto.py the parent side; the `try` body is theirs.

Shape of the output
  * `Val` (fixed text) — a symbolic Python value: the worker's `index`, the three things the handler learns about the
    exception (`excType`, `excValue` from `sys.exc_info()`, `trace` from `traceback.format_exc()`), constants, a builtin
    exception class named in the source (`cls "RuntimeError"`), `str(v)`, `v.__name__`, the pieces of an f-string
    (`lit`, `fmt`, `cat`), tuples (`nil` / `cons`);
  * `Eff` (fixed text) — what the worker does to the outside, in order: `queuePut item`, `queueClose`,
    `queueJoinThread`, `pipeSend msg`, `envClose`;
  * `survives_pickling (pickles : Val → Bool) (a0 : Val) : Bool` from `_survives_pickling`: `pickles v` is the oracle
    "`pickle.loads(pickle.dumps(v))` returns"; the two returned constants and the handler classes flow from the AST;
  * `async_worker_catches : List String` — the classes of the `except` clause, in order;
  * `async_worker_except (pickles) : List Eff` — the handler: a `let` per assignment (locals are `v0…` in order of first
    binding, an `if / elif / else` of assignments becomes one conditional expression per assigned variable, evaluated
    in the environment before the `if`), an `Eff.… ::` per effect statement, in statement order;
  * `async_worker_finally : List Eff` — the `finally` block;
  * `async_worker_on_raise (pickles) (caught : Bool)` — fixed glue: Python's `try / except / finally` (handler, then
    `finally`, when the raised class is caught; `finally` alone otherwise).

Supported subset (anything else raises `Unsupported` naming construct and line — never a guess)
  * `_async_worker`: exactly one `try` statement at the top level of the body, with one handler without `as`, no `else`;
    the parameters are taken by position (0 = index, 2 = pipe, 5 = error queue), `env` is the local the first statement
    binds to `env_fn()` (parameter 1);
  * handler / finally statements: `a, b, _ = sys.exc_info()`; `x = e`; `a, b = e1, e2` (right side evaluated first);
    `if / elif / else` whose branches contain only assignments (and `pass`) to names bound before the `if`; `<queue>.put(e)`, `<queue>.close()`,
    `<queue>.join_thread()`, `<pipe>.send(e)`, `<env>.close()` as expression statements; `pass`;
  * expressions: locals, the index parameter, `None / True / False`, int and str constants, tuples, f-strings
    without conversion / format spec, `str(e)`, `e.__name__`, builtin exception class names,
    `traceback.format_exc()`; conditions: `_survives_pickling(e)`, `not`, `and`, `or`;
  * `_survives_pickling(obj)`: `try: pickle.loads(pickle.dumps(obj)); return <bool> except (classes): return <bool>`
    where the classes include `Exception` or `BaseException`.

Assumptions (external / runtime behaviour)
  * `pickle.loads(pickle.dumps(v))` either returns or raises a subclass of `Exception`; it has no other effect;
  * `sys.exc_info()`, `traceback.format_exc()`, `str(v)`, `v.__name__` of a class and building an f-string return
    (a `__str__` that raises inside the handler is outside the model);
  * an `int`, a `str`, `None`, a `bool`, a builtin exception class survive pickling, a tuple does iff its members do;
  * the multiprocessing queue / process semantics are the hand model's (`Model/VecProto.lean`, section WorkerErr).
"""
from __future__ import annotations

import ast
import hashlib
import sys
from pathlib import Path

sys.path.insert(0, str(Path(__file__).resolve().parent))
import py2lean_vecenv as _ve  # noqa: E402  (helpers shared with the other translators of the same source file)

Unsupported = _ve.Unsupported
is_docstring, dotted, lean_str = _ve.is_docstring, _ve.dotted, _ve.lean_str
strip_sha, write_if_changed, repo_dir, SHA_PREFIX = _ve.strip_sha, _ve.write_if_changed, _ve.repo_dir, _ve.SHA_PREFIX

HERE = Path(__file__).resolve().parent
DEFAULT_OUT = HERE.parent / "lean" / "Gen" / "WorkerErrGen.lean"
REL_SOURCE = "agilerl/vector/pz_async_vec_env.py"
WORKER, SURVIVES = "_async_worker", "_survives_pickling"
BUILTIN_EXC = {"BaseException", "Exception", "KeyboardInterrupt", "OSError", "BrokenPipeError", "TimeoutError",
               "EOFError", "AttributeError", "LookupError", "KeyError", "IndexError", "TypeError", "ValueError",
               "AssertionError", "RuntimeError", "NotImplementedError", "SystemExit", "GeneratorExit"}

PRELUDE = r'''
/-! ### symbolic values and effects of the worker's error path (fixed text) -/

/-- a Python value the handler can build from what it knows about the exception -/
inductive Val where
  | index                      -- the worker's `index` parameter (an int)
  | excType                    -- `sys.exc_info()[0]`: the class the sub-environment raised
  | excValue                   -- `sys.exc_info()[1]`: the exception object
  | trace                      -- `traceback.format_exc()` (a str)
  | none
  | bool (b : Bool)
  | int (n : Int)
  | lit (s : String)
  | cls (name : String)        -- a builtin exception class named in the source
  | str (v : Val)              -- `str(v)`
  | nameOf (v : Val)           -- `v.__name__`
  | fmt (v : Val)              -- `{v}` inside an f-string
  | cat (a b : Val)            -- the pieces of an f-string, left to right
  | nil                        -- `()`
  | cons (a rest : Val)        -- a tuple: first member, remaining members
deriving DecidableEq, Repr

/-- what the worker does to the outside world -/
inductive Eff where
  | queuePut (item : Val)      -- `error_queue.put(item)`
  | queueClose                 -- `error_queue.close()`
  | queueJoinThread            -- `error_queue.join_thread()`
  | pipeSend (msg : Val)       -- `pipe.send(msg)`
  | envClose                   -- `env.close()`
deriving DecidableEq, Repr

/-- `try: <round trip>; return onOk  except (classes): return onExc`, where the round trip raises only subclasses of
    `Exception` (`ok = false`): the handler must name `Exception` or `BaseException` (checked by the translator) -/
def pyTryReturn (ok : Bool) (onOk : Bool) (classes : List String) (onExc : Bool) : Bool :=
  if ok then onOk else onExc
'''

GLUE = r'''
/-- Python's `try / except / finally` around the worker loop (fixed text): an exception the `except` clause catches
    runs the handler and then the `finally` block, any other exit runs the `finally` block alone -/
def async_worker_on_raise (pickles : Val → Bool) (caught : Bool) : List Eff :=
  if caught then async_worker_except pickles ++ async_worker_finally else async_worker_finally
'''


def where(n) -> str:
    return f"line {getattr(n, 'lineno', '?')}"


class Handler:
    """translates a statement list of `_async_worker`'s handler / finally block to a Lean term of type `List Eff`"""

    def __init__(self, index: str, pipe: str, queue: str, env: str, locals_: dict[str, str]):
        self.index, self.pipe, self.queue, self.env = index, pipe, queue, env
        self.names = locals_          # python local -> canonical name (shared between handler and finally)
        self.bound: set[str] = set()
        self.docs: list[str] = []
        self.tmp = 0
        self.subst: dict[str, str] = {}

    # ---- expressions
    def canon(self, name: str) -> str:
        if name not in self.names:
            self.names[name] = f"v{len(self.names)}"
            self.docs.append(f"`{self.names[name]}` = `{name}`")
        return self.names[name]

    def expr(self, e) -> str:
        if isinstance(e, ast.Constant):
            v = e.value
            if v is None:
                return "Val.none"
            if isinstance(v, bool):
                return f"(Val.bool {'true' if v else 'false'})"
            if isinstance(v, int):
                return f"(Val.int ({v}))"
            if isinstance(v, str):
                return f"(Val.lit {lean_str(v)})"
            raise Unsupported(f"constant {v!r} ({where(e)})")
        if isinstance(e, ast.Name):
            if e.id == self.index:
                return "Val.index"
            if e.id in self.subst:
                return self.subst[e.id]
            if e.id in self.names:
                if e.id not in self.bound:
                    raise Unsupported(f"`{e.id}` read before it is assigned ({where(e)})")
                return self.names[e.id]
            if e.id in BUILTIN_EXC:
                return f"(Val.cls {lean_str(e.id)})"
            raise Unsupported(f"name `{e.id}` ({where(e)})")
        if isinstance(e, ast.Tuple):
            out = "Val.nil"
            for m in reversed(e.elts):
                if isinstance(m, ast.Starred):
                    raise Unsupported(f"starred tuple member ({where(e)})")
                out = f"(Val.cons {self.expr(m)} {out})"
            return out
        if isinstance(e, ast.JoinedStr):
            parts = []
            for p in e.values:
                if isinstance(p, ast.Constant) and isinstance(p.value, str):
                    parts.append(f"(Val.lit {lean_str(p.value)})")
                elif isinstance(p, ast.FormattedValue):
                    if p.conversion != -1 or p.format_spec is not None:
                        raise Unsupported(f"f-string conversion / format spec ({where(e)})")
                    parts.append(f"(Val.fmt {self.expr(p.value)})")
                else:
                    raise Unsupported(f"f-string part ({where(e)})")
            if not parts:
                return '(Val.lit "")'
            out = parts[-1]
            for p in reversed(parts[:-1]):
                out = f"(Val.cat {p} {out})"
            return out
        if isinstance(e, ast.Attribute) and e.attr == "__name__":
            return f"(Val.nameOf {self.expr(e.value)})"
        if isinstance(e, ast.Call) and not e.keywords:
            f = dotted(e.func)
            if f == "str" and len(e.args) == 1:
                return f"(Val.str {self.expr(e.args[0])})"
            if f == "traceback.format_exc" and not e.args:
                return "Val.trace"
        raise Unsupported(f"expression `{ast.unparse(e)}` ({where(e)})")

    def cond(self, e) -> str:
        if isinstance(e, ast.UnaryOp) and isinstance(e.op, ast.Not):
            return f"(!{self.cond(e.operand)})"
        if isinstance(e, ast.BoolOp):
            op = " && " if isinstance(e.op, ast.And) else " || "
            return "(" + op.join(self.cond(v) for v in e.values) + ")"
        if isinstance(e, ast.Constant) and isinstance(e.value, bool):
            return "true" if e.value else "false"
        if isinstance(e, ast.Call) and dotted(e.func) == SURVIVES and len(e.args) == 1 and not e.keywords:
            return f"(survives_pickling pickles {self.expr(e.args[0])})"
        raise Unsupported(f"condition `{ast.unparse(e)}` ({where(e)})")

    # ---- assignments (pure): list of (python name, lean expr) evaluated in the environment before the statement
    def assign(self, st) -> list[tuple[str, str]]:
        if not isinstance(st, ast.Assign) or len(st.targets) != 1:
            raise Unsupported(f"statement `{ast.unparse(st).splitlines()[0]}` ({where(st)})")
        t, v = st.targets[0], st.value
        if isinstance(t, ast.Name):
            return [(t.id, self.expr(v))]
        if isinstance(t, ast.Tuple) and all(isinstance(x, ast.Name) for x in t.elts):
            names = [x.id for x in t.elts]
            if isinstance(v, ast.Call) and dotted(v.func) == "sys.exc_info" and not v.args and not v.keywords:
                if len(names) != 3:
                    raise Unsupported(f"`sys.exc_info()` unpacked into {len(names)} names ({where(st)})")
                vals = ["Val.excType", "Val.excValue", None]
                if names[2] != "_":
                    raise Unsupported(f"the traceback object of `sys.exc_info()` is bound to `{names[2]}` ({where(st)})")
                return [(n, x) for n, x in zip(names, vals) if x is not None]
            if isinstance(v, ast.Tuple) and len(v.elts) == len(names):
                if len(set(names)) != len(names):
                    raise Unsupported(f"a name assigned twice in one tuple assignment ({where(st)})")
                return [(n, self.expr(x)) for n, x in zip(names, v.elts)]
        raise Unsupported(f"assignment `{ast.unparse(st).splitlines()[0]}` ({where(st)})")

    def effect(self, st) -> str | None:
        if not (isinstance(st, ast.Expr) and isinstance(st.value, ast.Call)):
            return None
        c = st.value
        f = dotted(c.func)
        if c.keywords:
            raise Unsupported(f"keyword arguments in `{ast.unparse(c)}` ({where(st)})")
        table = {f"{self.queue}.put": ("Eff.queuePut", 1), f"{self.queue}.close": ("Eff.queueClose", 0),
                 f"{self.queue}.join_thread": ("Eff.queueJoinThread", 0), f"{self.pipe}.send": ("Eff.pipeSend", 1),
                 f"{self.env}.close": ("Eff.envClose", 0)}
        if f not in table or len(c.args) != table[f][1]:
            raise Unsupported(f"call `{ast.unparse(c)}` in the worker's error path ({where(st)})")
        ctor, n = table[f]
        return f"({ctor} {self.expr(c.args[0])})" if n else ctor

    def if_assign(self, st: ast.If) -> list[tuple[list[tuple[str, str]], str | None]]:
        """[(assignments, condition)] per branch, the last with condition None (= else)"""
        branches = []
        cur = st
        while True:
            cond = self.cond(cur.test)
            asg: list[tuple[str, str]] = []
            env_before = set(self.bound)
            branches.append((self.branch_body(cur.body), cond))
            self.bound = env_before
            if len(cur.orelse) == 1 and isinstance(cur.orelse[0], ast.If):
                cur = cur.orelse[0]
                continue
            branches.append((self.branch_body(cur.orelse), None))
            self.bound = env_before
            return branches

    def branch_body(self, body) -> list[tuple[str, str]]:
        """a branch of assignments as one simultaneous substitution over the environment before the `if`"""
        subst: dict[str, str] = {}
        self.subst = subst            # a later statement of the branch reads what an earlier one assigned
        try:
            for st in body:
                if isinstance(st, ast.Pass):
                    continue
                new = self.assign(st)     # right sides first (tuple assignment), then the bindings
                for n, x in new:
                    if n not in self.names:
                        raise Unsupported(f"`{n}` is assigned in a branch only ({where(st)})")
                    subst[n] = x
        finally:
            self.subst = {}
        return list(subst.items())

    def block(self, body) -> list[str]:
        lines: list[str] = []
        for st in body:
            if is_docstring(st) or isinstance(st, ast.Pass):
                continue
            eff = self.effect(st)
            if eff is not None:
                lines.append(f"{eff} ::")
                continue
            if isinstance(st, ast.If):
                branches = self.if_assign(st)
                assigned: list[str] = []
                for asg, _ in branches:
                    for n, _x in asg:
                        if n not in assigned:
                            assigned.append(n)
                for n in assigned:
                    if n not in self.bound:
                        raise Unsupported(f"`{n}` is assigned in a branch only ({where(st)})")
                tmps = []
                for n in assigned:
                    chain = ""
                    closing = ""
                    for asg, cond in branches:
                        val = dict(asg).get(n, self.names[n])
                        if cond is None:
                            chain += val
                        else:
                            chain += f"if {cond} then {val} else ("
                            closing += ")"
                    t = f"n{self.tmp}"
                    self.tmp += 1
                    tmps.append((n, t))
                    lines.append(f"let {t} : Val := {chain}{closing}")
                for n, t in tmps:
                    lines.append(f"let {self.names[n]} : Val := {t}")
                continue
            asg = self.assign(st)
            if len(asg) == 1:
                n, x = asg[0]
                c = self.canon(n)
                lines.append(f"let {c} : Val := {x}")
                self.bound.add(n)
            else:
                tmps = []
                for n, x in asg:
                    t = f"n{self.tmp}"
                    self.tmp += 1
                    tmps.append((n, t))
                    lines.append(f"let {t} : Val := {x}")
                for n, t in tmps:
                    lines.append(f"let {self.canon(n)} : Val := {t}")
                    self.bound.add(n)
        lines.append("[]")
        return lines


def exc_classes(t, node) -> list[str]:
    if t is None:
        raise Unsupported(f"bare `except:` ({where(node)})")
    elts = t.elts if isinstance(t, ast.Tuple) else [t]
    out = []
    for e in elts:
        n = dotted(e)
        if n not in BUILTIN_EXC:
            raise Unsupported(f"exception class `{ast.unparse(e)}` in an except clause ({where(node)})")
        out.append(n)
    return out


def translate_survives(fn: ast.FunctionDef) -> list[str]:
    if len(fn.args.args) != 1 or fn.args.vararg or fn.args.kwarg or fn.args.kwonlyargs:
        raise Unsupported(f"signature of `{SURVIVES}` ({where(fn)})")
    obj = fn.args.args[0].arg
    body = [s for s in fn.body if not is_docstring(s)]
    if len(body) != 1 or not isinstance(body[0], ast.Try):
        raise Unsupported(f"`{SURVIVES}` is not a single try statement ({where(fn)})")
    tr = body[0]
    if tr.orelse or tr.finalbody or len(tr.handlers) != 1 or tr.handlers[0].name is not None:
        raise Unsupported(f"shape of the try statement of `{SURVIVES}` ({where(tr)})")

    def const_return(st) -> str:
        if isinstance(st, ast.Return) and isinstance(st.value, ast.Constant) and isinstance(st.value.value, bool):
            return "true" if st.value.value else "false"
        raise Unsupported(f"`{ast.unparse(st).splitlines()[0]}` in `{SURVIVES}` ({where(st)})")

    if len(tr.body) != 2 or not isinstance(tr.body[0], ast.Expr):
        raise Unsupported(f"try body of `{SURVIVES}` ({where(tr)})")
    c = tr.body[0].value
    ok = (isinstance(c, ast.Call) and dotted(c.func) == "pickle.loads" and len(c.args) == 1 and not c.keywords
          and isinstance(c.args[0], ast.Call) and dotted(c.args[0].func) == "pickle.dumps"
          and len(c.args[0].args) == 1 and not c.args[0].keywords
          and isinstance(c.args[0].args[0], ast.Name) and c.args[0].args[0].id == obj)
    if not ok:
        raise Unsupported(f"`{ast.unparse(c)}` is not `pickle.loads(pickle.dumps({obj}))` ({where(c)})")
    on_ok = const_return(tr.body[1])
    h = tr.handlers[0]
    classes = exc_classes(h.type, h)
    if "Exception" not in classes and "BaseException" not in classes:
        raise Unsupported(f"`{SURVIVES}` does not catch `Exception` ({where(h)}): a failing round trip would escape")
    if len(h.body) != 1:
        raise Unsupported(f"handler of `{SURVIVES}` ({where(h)})")
    on_exc = const_return(h.body[0])
    cl = "[" + ", ".join(lean_str(x) for x in classes) + "]"
    return [f"/-- `{SURVIVES}({obj})`; `pickles v` = `pickle.loads(pickle.dumps(v))` returns -/",
            "def survives_pickling (pickles : Val → Bool) (a0 : Val) : Bool :=",
            f"  pyTryReturn (pickles a0) {on_ok} {cl} {on_exc}", ""]


def translate_worker(fn: ast.FunctionDef) -> list[str]:
    params = [a.arg for a in fn.args.args]
    if len(params) < 6 or fn.args.vararg or fn.args.kwarg:
        raise Unsupported(f"signature of `{WORKER}` ({where(fn)})")
    index, env_fn, pipe, queue = params[0], params[1], params[2], params[5]
    body = [s for s in fn.body if not is_docstring(s)]
    env = None
    for st in body:
        if (isinstance(st, ast.Assign) and len(st.targets) == 1 and isinstance(st.targets[0], ast.Name)
                and isinstance(st.value, ast.Call) and dotted(st.value.func) == env_fn and not st.value.args):
            env = st.targets[0].id
            break
    if env is None:
        raise Unsupported(f"`{WORKER}` does not bind the sub-environment to `{env_fn}()` ({where(fn)})")
    tries = [s for s in body if isinstance(s, ast.Try)]
    if len(tries) != 1:
        raise Unsupported(f"`{WORKER}` has {len(tries)} top-level try statements ({where(fn)})")
    tr = tries[0]
    if body[-1] is not tr:
        raise Unsupported(f"statements after the try statement of `{WORKER}` ({where(body[-1])})")
    if tr.orelse:
        raise Unsupported(f"`else` clause of the try statement of `{WORKER}` ({where(tr)})")
    if len(tr.handlers) != 1:
        raise Unsupported(f"{len(tr.handlers)} except clauses in `{WORKER}` ({where(tr)})")
    h = tr.handlers[0]
    if h.name is not None:
        raise Unsupported(f"`except … as {h.name}` in `{WORKER}` ({where(h)})")
    classes = exc_classes(h.type, h)
    names: dict[str, str] = {}
    hd = Handler(index, pipe, queue, env, names)
    ex = hd.block(h.body)
    fin = hd.block(tr.finalbody)
    out = [f"/-- the classes of `{WORKER}`'s `except` clause, in order -/",
           "def async_worker_catches : List String := [" + ", ".join(lean_str(c) for c in classes) + "]", "",
           f"/-- the handler of `{WORKER}`, statement by statement; locals: " + ", ".join(hd.docs) + " -/",
           "def async_worker_except (pickles : Val → Bool) : List Eff :="] + ["  " + ln for ln in ex] + [
           "", f"/-- the `finally` block of `{WORKER}` -/",
           "def async_worker_finally : List Eff :="] + ["  " + ln for ln in fin] + [""]
    return out


def translate(repo: Path) -> tuple[str, str]:
    """returns (lean text, sha256 of the source file); raises Unsupported"""
    path = repo / REL_SOURCE
    try:
        raw = path.read_bytes()
    except OSError as e:
        raise Unsupported(f"cannot read {path}: {e}") from e
    sha = hashlib.sha256(raw).hexdigest()
    try:
        tree = ast.parse(raw.decode("utf-8"))
    except (SyntaxError, UnicodeDecodeError) as e:
        raise Unsupported(f"{REL_SOURCE}: {e}") from e
    fns = {n.name: n for n in tree.body if isinstance(n, ast.FunctionDef)}
    for need in (WORKER, SURVIVES):
        if need not in fns:
            raise Unsupported(f"{REL_SOURCE}: no module-level function `{need}`")
    body = translate_survives(fns[SURVIVES]) + translate_worker(fns[WORKER])
    header = [
        "/-",
        "  Gen/WorkerErrGen.lean — GENERATED by harness/py2lean_workererr.py from",
        f"  {REL_SOURCE} (_async_worker: the except / finally skeleton; _survives_pickling); do not edit.",
        "  Core Lean only.  `Proofs/WorkerErrGenEq.lean` proves the effect order equal to `VecProto.Worker.errorPath`",
        "  of `Model/VecProto.lean`.",
        "-/",
        f"{SHA_PREFIX}{REL_SOURCE}) = {sha}",
        "set_option linter.unusedVariables false",
        "",
        "namespace WorkerErrGen",
    ]
    text = "\n".join(header) + "\n" + PRELUDE + "\n" + "\n".join(body).rstrip() + "\n" + GLUE + "\nend WorkerErrGen\n"
    return text, sha


def main(argv: list[str]) -> int:
    import argparse
    ap = argparse.ArgumentParser()
    ap.add_argument("--repo", default=None)
    ap.add_argument("--out", default=str(DEFAULT_OUT))
    ap.add_argument("--stdout", action="store_true")
    ap.add_argument("--force", action="store_true", help="rewrite even if only the sha256 line differs")
    a = ap.parse_args(argv)
    try:
        text, sha = translate(repo_dir(a.repo))
    except Unsupported as e:
        print(f"py2lean_workererr: {e}", file=sys.stderr)
        return 1
    if a.stdout:
        sys.stdout.write(text)
        return 0
    changed = write_if_changed(text, Path(a.out), a.force)
    print(f"{a.out}: {'written' if changed else 'unchanged'} (source sha256 {sha[:16]}…, "
          f"translation sha256 {hashlib.sha256(strip_sha(text).encode()).hexdigest()[:16]}…)")
    return 0


if __name__ == "__main__":
    sys.exit(main(sys.argv[1:]))
