"""entry point:  run.py Cxx --tier quick|thorough [--replay file] [--seed n]"""
import argparse
import importlib
import os
import sys
import traceback
from pathlib import Path

sys.path.insert(0, str(Path(__file__).resolve().parent))
import common  # noqa: E402


def main() -> int:
    ap = argparse.ArgumentParser()
    ap.add_argument("pid")
    ap.add_argument("--tier", default=os.environ.get("VERIF_TIER", "quick"), choices=["quick", "thorough"])
    ap.add_argument("--seed", type=int, default=int(os.environ.get("VERIF_SEED", "0") or 0))
    ap.add_argument("--replay", default=None)
    ap.add_argument("--no-gate", action="store_true", help="(development only) skip the Lean gate")
    a = ap.parse_args()
    pid = a.pid.upper()
    try:
        mod = importlib.import_module(pid.lower())
        chk = common.Check(pid, a.tier, a.seed)
        if a.replay:
            return mod.replay(chk, a.replay)
        if hasattr(mod, "pre_gate"):
            mod.pre_gate(chk)          # e.g. regenerate a model file from /repo's source (C11)
        if not a.no_gate:
            chk.lean_gate()
        else:
            chk.gate.update(obligations=1, discharged=1)
        mod.run(chk)
        return chk.finish()
    except common.InfraError as e:
        print(f"INFRA-ERROR {pid}: {e}", file=sys.stderr)
        return 2
    except Exception:
        traceback.print_exc()
        print(f"INFRA-ERROR {pid}: harness crashed", file=sys.stderr)
        return 2


if __name__ == "__main__":
    sys.exit(main())
