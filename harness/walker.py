"""
Object-graph walker for real AgileRL agents (C01 / C02 / C07).

For an agent it produces, per *attribute group*, the set of mutable cells reachable through that
attribute (tensor storages by data pointer, numpy buffers by base address, Python containers and
plain objects by id) and a value fingerprint of every cell.  Groups are the attributes `clone()`
handles one by one: each evolvable network attribute, each optimizer attribute, each
non-evolvable attribute reported by `EvolvableAlgorithm.inspect_attributes`.

Nothing here decides anything: the walker only *measures* aliasing and values; the Lean heap model
predicts them and the oracle states the property on them.
"""
from __future__ import annotations

import hashlib
import inspect
from collections import OrderedDict, deque

import numpy as np
import torch

IMMUTABLE = (int, float, str, bool, bytes, complex, type(None), torch.device, torch.dtype, np.dtype,
             np.generic, type, frozenset, range, slice)


def _h(b: bytes) -> str:
    return hashlib.sha1(b).hexdigest()[:16]


def tensor_cell(t: torch.Tensor):
    try:
        ptr = t.untyped_storage().data_ptr()
    except Exception:
        ptr = id(t)
    return ("T", ptr)


def tensor_value(t: torch.Tensor) -> str:
    d = t.detach().cpu().contiguous()
    return _h(str(tuple(d.shape)).encode() + str(d.dtype).encode() + d.numpy().tobytes()) if d.dtype != torch.bfloat16 \
        else _h(str(tuple(d.shape)).encode() + d.float().numpy().tobytes())


def is_immutable(x) -> bool:
    """values without mutable state of their own.  gymnasium spaces are configuration objects that
    every copy of an agent may legitimately reference (the property is about weights, optimizer
    state, counters, hyper-parameter ranges and score lists), so they count as immutable here."""
    if isinstance(x, IMMUTABLE):
        return True
    try:
        from gymnasium.spaces import Space
        if isinstance(x, Space):
            return True
    except Exception:  # pragma: no cover
        pass
    if isinstance(x, tuple):
        return all(is_immutable(e) for e in x)
    return False


def module_tensors(m: torch.nn.Module) -> "OrderedDict[str, torch.Tensor]":
    """every tensor a module holds: parameters, buffers AND plain tensor attributes that
    `parameters()` no longer lists (detached target / shared-encoder snapshots installed through
    `TensorDict.to_module`)"""
    out: "OrderedDict[str, torch.Tensor]" = OrderedDict()
    for prefix, sub in m.named_modules():
        dot = prefix + "." if prefix else ""
        for n, p in sub._parameters.items():
            if p is not None:
                out[dot + n] = p
        for n, b in sub._buffers.items():
            if b is not None:
                out[dot + n] = b
        for n, v in sub.__dict__.items():
            if isinstance(v, torch.Tensor) and not n.startswith("__"):
                out.setdefault(dot + n, v)
    return out


def walk(obj, cells: dict, path: str, depth: int = 0, seen: set | None = None, skip_modules: bool = True):
    """collect {cell: (path, value-fingerprint)} of every mutable thing reachable from obj"""
    if seen is None:
        seen = set()
    if is_immutable(obj) or depth > 6:
        return
    if id(obj) in seen:
        return
    seen.add(id(obj))
    if isinstance(obj, torch.Tensor):
        cells[tensor_cell(obj)] = (path, tensor_value(obj))
        return
    if isinstance(obj, np.ndarray):
        base = obj
        while isinstance(base.base, np.ndarray):
            base = base.base
        cells[("A", base.__array_interface__["data"][0])] = (path, _h(obj.tobytes() + str(obj.shape).encode()))
        return
    if isinstance(obj, torch.nn.Module):
        for n, t in module_tensors(obj).items():
            cells[tensor_cell(t)] = (f"{path}.{n}", tensor_value(t))
        return
    if inspect.isroutine(obj) or inspect.isclass(obj) or inspect.ismodule(obj):
        return
    if isinstance(obj, (list, deque)):
        cells[("O", id(obj))] = (path, _h(repr(len(obj)).encode()))
        for i, e in enumerate(obj):
            walk(e, cells, f"{path}[{i}]", depth + 1, seen)
        # the list's own value: its immutable elements
        imm = [e for e in obj if is_immutable(e)]
        cells[("O", id(obj))] = (path, _h(repr((len(obj), imm)).encode()))
        return
    if isinstance(obj, tuple):
        for i, e in enumerate(obj):
            walk(e, cells, f"{path}[{i}]", depth + 1, seen)
        return
    if isinstance(obj, dict):
        imm = sorted((repr(k), repr(v)) for k, v in obj.items() if is_immutable(v))
        cells[("O", id(obj))] = (path, _h(repr(imm).encode()))
        for k, v in obj.items():
            walk(v, cells, f"{path}[{k!r}]", depth + 1, seen)
        return
    if isinstance(obj, (set,)):
        cells[("O", id(obj))] = (path, _h(repr(sorted(map(repr, obj))).encode()))
        return
    # plain object: itself + its attribute dict
    d = getattr(obj, "__dict__", None)
    if d is None:
        slots = [s for s in getattr(type(obj), "__slots__", ()) if hasattr(obj, s)]
        d = {s: getattr(obj, s) for s in slots}
    imm = sorted((k, repr(v)) for k, v in d.items() if is_immutable(v))
    cells[("O", id(obj))] = (path, _h((type(obj).__name__ + repr(imm)).encode()))
    for k, v in d.items():
        if k.startswith("__"):
            continue
        walk(v, cells, f"{path}.{k}", depth + 1, seen)


# ------------------------------------------------------------------------------------ agents
def optimizer_cells(wrapper, cells: dict, path: str):
    """optimizer *state*: moment / step tensors and the param_group option dicts — not the
    parameters themselves (those belong to the network group; C02 checks they are the same objects)"""
    opts = wrapper.optimizer if isinstance(wrapper.optimizer, list) else [wrapper.optimizer]
    for oi, opt in enumerate(opts):
        inner = getattr(opt, "optimizer", opt)          # accelerate wrappers
        for pi, (p, st) in enumerate(inner.state.items()):
            for k, v in st.items():
                if isinstance(v, torch.Tensor):
                    cells[tensor_cell(v)] = (f"{path}[{oi}].state[{pi}].{k}", tensor_value(v))
                else:
                    cells[("O", (id(st), k))] = (f"{path}[{oi}].state[{pi}].{k}", _h(repr(v).encode()))
        for gi, g in enumerate(inner.param_groups):
            opt_items = sorted((k, repr(v)) for k, v in g.items() if k != "params")
            cells[("O", id(g))] = (f"{path}[{oi}].group[{gi}]", _h(repr(opt_items).encode()))


def classify(attr, ctor: bool) -> str:
    """kind token of the Lean model (`Heap.parseSpec`), following the branch order of copy_attributes"""
    from agilerl.algorithms.core.registry import MutationRegistry
    try:
        from agilerl.algorithms.core.base import EvolvableAlgorithm
    except Exception:  # pragma: no cover
        EvolvableAlgorithm = ()
    c = ":c" if ctor else ""
    if is_immutable(attr):
        return "imm"
    if callable(attr) or isinstance(attr, EvolvableAlgorithm):
        return "cal" + c
    if isinstance(attr, torch.Tensor):
        return "ten" + c
    if isinstance(attr, np.ndarray):
        return "nda" + c
    if isinstance(attr, list):
        return "list"
    if isinstance(attr, MutationRegistry):
        return "reg"
    return "oth" + c


def agent_groups(agent) -> "OrderedDict[str, dict]":
    """group name -> {'kind': model token, 'cells': {cell: (path, value)}}; deterministic order"""
    from agilerl.algorithms.core.base import EvolvableAlgorithm
    groups: "OrderedDict[str, dict]" = OrderedDict()
    nets = agent.evolvable_attributes(networks_only=True)
    for name in sorted(nets):
        obj = nets[name]
        cells: dict = {}
        mods = obj if isinstance(obj, list) else [obj]
        for mi, m in enumerate(mods):
            m = getattr(m, "_orig_mod", m)
            for n, t in module_tensors(m).items():
                cells[tensor_cell(t)] = (f"{name}[{mi}].{n}", tensor_value(t))
        groups["net:" + name] = {"kind": "net", "cells": cells}
    every = agent.evolvable_attributes()
    for name in sorted(every):
        if name in nets:
            continue
        cells = {}
        optimizer_cells(every[name], cells, name)
        groups["opt:" + name] = {"kind": "opt", "cells": cells}
    ctor_params = set(inspect.signature(agent.__init__).parameters.keys())
    attrs = EvolvableAlgorithm.inspect_attributes(agent)
    for name in sorted(attrs):
        v = attrs[name]
        cells = {}
        walk(v, cells, name)
        g = {"kind": classify(v, name in ctor_params), "cells": cells}
        if is_immutable(v):
            g["imm"] = repr(v)          # no mutable cell, but the value itself must be carried over by a copy
        groups["attr:" + name] = g
    return groups


def group_value(g: dict) -> str:
    """order-independent fingerprint of a group's contents (by path suffix and value)"""
    items = sorted((p.split(".", 1)[-1] if "." in p else p, v) for p, v in g["cells"].values())
    return _h(repr((items, g.get("imm"))).encode())


def alias_pairs(groups_by_agent: dict[int, "OrderedDict[str, dict]"]):
    """{(i, group_i, j, group_j)} for i < j whose groups share at least one cell"""
    out = set()
    ids = sorted(groups_by_agent)
    for x, i in enumerate(ids):
        for j in ids[x + 1:]:
            gi, gj = groups_by_agent[i], groups_by_agent[j]
            index = {}
            for name, g in gi.items():
                for c in g["cells"]:
                    index.setdefault(c, []).append(name)
            for name2, g2 in gj.items():
                for c in g2["cells"]:
                    for name in index.get(c, ()):
                        out.add((i, name, j, name2))
    return out


# ------------------------------------------------------------------------------------ wrapped agents, hidden state
# (added for C01 round 3; everything above keeps its behaviour — c02/c05/c07/c08 import it)
def unwrap(agent):
    """(inner algorithm, wrapper or None): an agent wrapped by a class of agilerl.wrappers.agent
    (AgentWrapper: RSNorm, …) is an agent too; its algorithm is `wrapper.agent`"""
    try:
        from agilerl.wrappers.agent import AgentWrapper
    except Exception:  # pragma: no cover
        return agent, None
    if isinstance(agent, AgentWrapper):
        return agent.__dict__["agent"], agent
    return agent, None


def tensordict_cells(td, cells: dict, path: str) -> bool:
    """cells of a TensorDict-valued attribute (inspect_attributes skips those); False if not one"""
    try:
        from tensordict import is_tensor_collection
        if not is_tensor_collection(td):
            return False
        for k, t in td.items(include_nested=True, leaves_only=True):
            if isinstance(t, torch.Tensor):
                cells[tensor_cell(t)] = (f"{path}[{k!r}]", tensor_value(t))
        return True
    except Exception:  # pragma: no cover
        return False


def _attr_group(name: str, v, ctor: bool) -> dict:
    cells: dict = {}
    if not tensordict_cells(v, cells, name):
        walk(v, cells, name)
    g = {"kind": classify(v, ctor), "cells": cells}
    if is_immutable(v):
        g["imm"] = repr(v)
    return g


def _wrapper_listed(wrapper) -> set:
    """names of the wrapper's instance attributes that AgentWrapper.clone / copy_attributes look at"""
    try:
        from agilerl.algorithms.core.base import EvolvableAlgorithm
        return set(EvolvableAlgorithm.inspect_attributes(wrapper).keys())
    except Exception:  # pragma: no cover
        return {n for n in vars(wrapper) if not (n.startswith("_") or n.endswith("_"))}


def wrapper_groups(wrapper) -> "OrderedDict[str, dict]":
    """`wrap:<name>` groups: every instance attribute of the wrapper object that inspect_attributes
    lists, except the wrapped algorithm itself (obs_rms, norm_obs_keys, the saved bound methods, …).
    AgentWrapper.clone builds the new wrapper from the attributes named like constructor arguments and
    then runs the very same `copy_attributes`, so the kind tokens / rule table of the algorithm's
    attributes apply."""
    groups: "OrderedDict[str, dict]" = OrderedDict()
    try:
        ctor_params = set(inspect.signature(type(wrapper).__init__).parameters.keys())
    except Exception:  # pragma: no cover
        ctor_params = set()
    listed = _wrapper_listed(wrapper)
    for name in sorted(vars(wrapper)):
        if name == "agent" or name not in listed:
            continue
        groups["wrap:" + name] = _attr_group(name, vars(wrapper)[name], name in ctor_params)
    return groups


def family_groups(agent) -> "OrderedDict[str, dict]":
    """agent_groups of the algorithm + wrap:* groups of its wrapper (if any)"""
    inner, wrapper = unwrap(agent)
    groups = agent_groups(inner)
    if wrapper is not None:
        groups.update(wrapper_groups(wrapper))
    return groups


def hidden_groups(agent) -> "OrderedDict[str, dict]":
    """`hid:<name>` (algorithm) / `hid:wrap.<name>` (wrapper): instance attributes that neither
    `evolvable_attributes()` nor `inspect_attributes()` lists (names with a leading / trailing
    underscore, TensorDict-valued attributes) — state that clone() / copy_attributes never look at.
    Measured so that it is not invisible: the harness classifies each as carried over by value or
    legitimately fresh."""
    from agilerl.algorithms.core.base import EvolvableAlgorithm
    inner, wrapper = unwrap(agent)
    listed = set(inner.evolvable_attributes().keys()) | set(EvolvableAlgorithm.inspect_attributes(inner).keys())
    groups: "OrderedDict[str, dict]" = OrderedDict()
    for name in sorted(vars(inner)):
        if name in listed or name.startswith("__"):
            continue
        groups["hid:" + name] = _attr_group(name, vars(inner)[name], False)
    if wrapper is not None:
        wl = _wrapper_listed(wrapper)
        for name in sorted(vars(wrapper)):
            if name == "agent" or name in wl or name.startswith("__"):
                continue
            groups["hid:wrap." + name] = _attr_group(name, vars(wrapper)[name], False)
    return groups


def describe(g: dict | None) -> str:
    """short human-readable rendering of a group for messages"""
    if g is None:
        return "<absent>"
    if "imm" in g:
        return g["imm"][:60]
    return f"{g['kind']} with {len(g['cells'])} cells {group_value(g)}"


# ------------------------------------------------------------------------------------ classify vs the source's branch order
# (added with the C01 source translation; nothing above is changed.)  `classify` hard-codes the branch order of
# copy_attributes; `harness/py2lean_clone.py::branch_classes` reads that order from the source text.  The two are
# compared on a zoo of values that includes members of two classes at once (a callable list, a callable tensor, …),
# which is where the ORDER of the tests decides.
_BRANCH_TOKEN = {"callable": "cal", "algorithm": "cal", "tensor": "ten", "ndarray": "nda", "list": "list",
                 "registry": "reg"}


def _in_class(attr, cls: str) -> bool:
    from agilerl.algorithms.core.registry import MutationRegistry
    from agilerl.algorithms.core.base import EvolvableAlgorithm
    if cls == "callable":
        return callable(attr)
    return isinstance(attr, {"algorithm": EvolvableAlgorithm, "tensor": torch.Tensor, "ndarray": np.ndarray,
                             "list": list, "registry": MutationRegistry}[cls])


def classify_by_branches(attr, ctor: bool, branches) -> str:
    """kind token obtained by following `branches` — the class tests on the parent's value in the if-chain of
    copy_attributes, in SOURCE order, as read by py2lean_clone.branch_classes — instead of classify's own order"""
    c = ":c" if ctor else ""
    if is_immutable(attr):
        return "imm"
    for tests in branches:
        for cls in tests:
            if _in_class(attr, cls):
                tok = _BRANCH_TOKEN[cls]
                return tok if tok in ("list", "reg") else tok + c
    return "oth" + c


def classify_zoo() -> list:
    """(label, value): one value per class and values of two classes at once"""
    import functools
    from agilerl.algorithms.core.registry import MutationRegistry

    class CallableList(list):
        def __call__(self):  # pragma: no cover
            return None

    class CallableTensor(torch.Tensor):
        def __call__(self):  # pragma: no cover
            return None

    class CallableArray(np.ndarray):
        def __call__(self):  # pragma: no cover
            return None

    class CallableRegistry(MutationRegistry):
        def __call__(self):  # pragma: no cover
            return None

    class Plain:
        pass

    zoo = [("lambda", lambda: 0), ("partial", functools.partial(int, 1)), ("loss module", torch.nn.MSELoss()),
           ("tensor", torch.zeros(2)), ("ndarray", np.zeros(2)), ("list", [1.0]), ("empty list", []),
           ("dict", {"a": 1}), ("plain object", Plain()), ("int", 3), ("str", "x"), ("tuple", (1, 2)), ("none", None),
           ("callable list", CallableList([1])), ("callable tensor", torch.zeros(2).as_subclass(CallableTensor)),
           ("callable ndarray", np.zeros(2).view(CallableArray))]
    for label, mk in (("registry", MutationRegistry), ("callable registry", CallableRegistry)):
        try:
            zoo.append((label, mk()))
        except Exception:  # pragma: no cover  (constructor signature changed: the value is simply not in the zoo)
            pass
    return zoo


def classify_consistency(branches) -> list[str]:
    """differences between `classify` (hard-coded order) and the order read from the source; [] if consistent"""
    bad = []
    for label, v in classify_zoo():
        for ctor in (False, True):
            a, b = classify(v, ctor), classify_by_branches(v, ctor, branches)
            if a != b:
                bad.append(f"{label} (ctor arg: {ctor}): walker.classify says {a}, the source's branch order says {b}")
    return bad
