/-
  Driver.lean — line protocol: `<model> <op> <args…>` in, one canonical line out.
  Imports `Model.*` only (no Mathlib), so it links as a `lean_exe`.
-/
import Model.Util
import Model.Ring

structure St where
  ring : Ring.IOState := {}

def step (s : St) (line : String) : St × String :=
  match Util.words line with
  | "ring" :: rest => let (r, o) := Ring.step s.ring rest; ({ s with ring := r }, o)
  | ["reset"] => ({}, "ok")
  | _ => (s, "bad-op")

partial def loop (h : IO.FS.Stream) (out : IO.FS.Stream) (s : St) : IO Unit := do
  let line ← h.getLine
  if line.isEmpty then return ()
  let l := (line.dropEndWhile (fun c => c = '\n' || c = '\r')).toString
  let (s', o) := step s l
  out.putStrLn o
  loop h out s'

def main : IO Unit := do
  let stdin ← IO.getStdin
  let stdout ← IO.getStdout
  loop stdin stdout {}
