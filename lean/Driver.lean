/-
  Driver.lean — line protocol: `<model> <op> <args…>` in, one canonical line out.
  Imports `Model.*` only (no Mathlib), so it links as a `lean_exe`.
  Every model exposes `IOState` (with defaults) and `step : IOState → List String → IOState × String`.
-/
import Model.Util
import Model.Heap
import Model.Arch
import Model.Preserve
import Model.Tournament
import Model.HpMut
import Model.Bellman
import Model.Ring
import Model.NStep
import Model.SegTree
import Model.VecEnv
import Model.VecProto
import Model.Action
import Model.Obs
import Model.Dist
import Model.GAE
import Model.C51
import Model.Bandit
import Model.Loop
import Model.Coherence
import Model.HeapCkpt

structure St where
  heap : Heap.IOState := {}
  arch : Arch.IOState := {}
  preserve : Preserve.IOState := {}
  tourn : Tournament.IOState := {}
  hpmut : HpMut.IOState := {}
  bellman : Bellman.IOState := {}
  ring : Ring.IOState := {}
  nstep : NStep.IOState := {}
  seg : SegTree.IOState := {}
  vecenv : VecEnv.IOState := {}
  vecproto : VecProto.IOState := {}
  action : Action.IOState := {}
  obs : Obs.IOState := {}
  dist : Dist.IOState := {}
  gae : GAE.IOState := {}
  c51 : C51.IOState := {}
  bandit : Bandit.IOState := {}
  loop : Loop.IOState := {}
  coh : Coherence.IOState := {}

def step (s : St) (line : String) : St × String :=
  match Util.words line with
  | "heap" :: rest => let (r, o) := Heap.step s.heap rest; ({ s with heap := r }, o)
  | "arch" :: rest => let (r, o) := Arch.step s.arch rest; ({ s with arch := r }, o)
  | "preserve" :: rest => let (r, o) := Preserve.step s.preserve rest; ({ s with preserve := r }, o)
  | "tourn" :: rest => let (r, o) := Tournament.step s.tourn rest; ({ s with tourn := r }, o)
  | "hpmut" :: rest => let (r, o) := HpMut.step s.hpmut rest; ({ s with hpmut := r }, o)
  | "bellman" :: rest => let (r, o) := Bellman.step s.bellman rest; ({ s with bellman := r }, o)
  | "ring" :: rest => let (r, o) := Ring.step s.ring rest; ({ s with ring := r }, o)
  | "nstep" :: rest => let (r, o) := NStep.step s.nstep rest; ({ s with nstep := r }, o)
  | "seg" :: rest => let (r, o) := SegTree.step s.seg rest; ({ s with seg := r }, o)
  | "vecenv" :: rest => let (r, o) := VecEnv.step s.vecenv rest; ({ s with vecenv := r }, o)
  | "vecproto" :: rest => let (r, o) := VecProto.step s.vecproto rest; ({ s with vecproto := r }, o)
  | "action" :: rest => let (r, o) := Action.step s.action rest; ({ s with action := r }, o)
  | "obs" :: rest => let (r, o) := Obs.step s.obs rest; ({ s with obs := r }, o)
  | "dist" :: rest => let (r, o) := Dist.step s.dist rest; ({ s with dist := r }, o)
  | "gae" :: rest => let (r, o) := GAE.step s.gae rest; ({ s with gae := r }, o)
  | "c51" :: rest => let (r, o) := C51.step s.c51 rest; ({ s with c51 := r }, o)
  | "bandit" :: rest => let (r, o) := Bandit.step s.bandit rest; ({ s with bandit := r }, o)
  | "loop" :: rest => let (r, o) := Loop.step s.loop rest; ({ s with loop := r }, o)
  | "coh" :: rest => let (r, o) := Coherence.step s.coh rest; ({ s with coh := r }, o)
  | "ckpt" :: rest => let (r, o) := HeapCkpt.step s.heap rest; ({ s with heap := r }, o)
  | ["reset"] => ({}, "ok")
  | _ => (s, "bad-op")

partial def loop (h : IO.FS.Stream) (out : IO.FS.Stream) (s : St) : IO Unit := do
  let line ← h.getLine
  if line.isEmpty then return ()
  let l := (line.dropEndWhile (fun c => c = '\n' || c = '\r')).toString
  let (s', o) := step s l
  out.putStrLn o
  loop h out s'

def main : IO Unit := do
  let stdin ← IO.getStdin
  let stdout ← IO.getStdout
  loop stdin stdout {}
