import Model.Util
/-
  Model/Action.lean — (stub) executable model; see DESIGN.md.  Core Lean only.
-/
namespace Action
open Util

structure IOState where
  dummy : Nat := 0

def step (s : IOState) : List String → IOState × String
  | _ => (s, "bad-op")

end Action
