import Model.Util
/-
  Model/Action.lean — executable model of action selection (`get_action`) in AgileRL.

  * `argmaxFirst`            — `torch.argmax` / `numpy.argmax`: first index of the maximum; scores are
                               `Option Rat`, `none` standing for −∞ (`masked_fill(-inf)`, the fill value
                               `numpy.ma` uses for `argmax`).
  * `dqnRow`                 — `DQN._get_action`, one batch row: `rand_like(q) * mask` → argmax,
                               `q.masked_fill(~mask, -inf)` → argmax, `where(u > ε, policy, random)`.
                               The uniform draws (`r` per action, `u` per row) are explicit inputs.
  * `maPick`, `cqnRow`       — the `numpy.ma` path of RainbowDQN / CQN / NeuralUCB / NeuralTS / MADDPG / MATD3.
  * `clip`, `clipVec`        — `ndarray.clip(low, high)` / `torch.clamp` per dimension (DDPG, TD3, PPO/IPPO eval).
  * `rescale`, `rescaleVec`  — `DeterministicActor.rescale_action` for every output activation.
  * `maContRow`, `maDiscRow` — MADDPG / MATD3 per agent: exploration noise, clamp (per dimension, or with
                               the first dimension's bounds only — the defect D11, kept as a switch),
                               `numpy.ma` argmax under the agent's mask, env-defined action override.
  * `actorOut`, `ddpgAgent`, `maContAgent` — the real actor's `forward` (rescale of the head output) composed
                               with `get_action`.
  * `scaleAction`, `pgEvalBox`, `pgMask` — `StochasticActor.scale_action`, evaluation-mode clip / scale of
                               PPO / IPPO, `EvolvableDistribution.apply_mask` (masked logit := −1e8).

  Not modelled (parameters): the network outputs, the random draws, `exp`/sampling of the stochastic policies.
-/
namespace Action

/-! ### argmax over scores with −∞ -/

/-- strict order on scores; `none` = −∞ -/
def olt : Option Rat → Option Rat → Bool
  | none, some _ => true
  | some a, some b => decide (a < b)
  | _, none => false

/-- scan from the left keeping the first maximum: replace only on a strictly larger score -/
def argmaxAux (best : Option Rat) (bi : Nat) (i : Nat) : List (Option Rat) → Nat
  | [] => bi
  | x :: xs => if olt best x then argmaxAux x i (i + 1) xs else argmaxAux best bi (i + 1) xs

/-- `argmax(dim=-1)` of one row: index of the first maximal score (0 for an empty row) -/
def argmaxFirst : List (Option Rat) → Nat
  | [] => 0
  | x :: xs => argmaxAux x 0 1 xs

/-- `q.masked_fill((1 - mask).bool(), -inf)` / `np.ma.array(q, mask = 1 - mask)` filled for argmax -/
def maskFill (q : List Rat) (m : List Bool) : List (Option Rat) :=
  List.zipWith (fun x b => if b then some x else none) q m

/-- `rand_like(q) * mask` -/
def randScores (r : List Rat) (m : List Bool) : List (Option Rat) :=
  List.zipWith (fun x b => some (if b then x else 0)) r m

/-- greedy choice under a mask (every masked-array `argmax` in the library) -/
def maPick (q : List Rat) (m : List Bool) : Nat := argmaxFirst (maskFill q m)

/-- exploring choice under a mask -/
def explorePick (r : List Rat) (m : List Bool) : Nat := argmaxFirst (randScores r m)

/-- greedy choice without a mask -/
def plainPick (q : List Rat) : Nat := argmaxFirst (q.map some)

/-! ### DQN -/

/-- one row of `DQN._get_action`: `use_policy = u > ε` -/
def dqnRow (q r : List Rat) (m : List Bool) (eps u : Rat) : Nat :=
  if eps < u then maPick q m else explorePick r m

structure DqnIn where
  q : List Rat
  r : List Rat
  m : List Bool
  u : Rat

def dqnBatch (eps : Rat) (rows : List DqnIn) : List Nat :=
  rows.map (fun x => dqnRow x.q x.r x.m eps x.u)

/-! ### CQN (one `random.random()` draw for the whole batch) -/

/-- with a mask: explore ⇔ `u < ε` -/
def cqnRow (q r : List Rat) (m : List Bool) (eps u : Rat) : Nat :=
  if u < eps then explorePick r m else maPick q m

/-- without a mask the exploring branch is `randint(0, action_dim)` — the draw `k` is an input -/
def cqnRowNoMask (q : List Rat) (k : Nat) (eps u : Rat) : Nat :=
  if u < eps then k else plainPick q

/-! ### clip -/

/-- `min(max(x, lo), hi)` — `ndarray.clip`, `torch.clamp` -/
def clip (lo hi x : Rat) : Rat := min (max x lo) hi

def zipWith3 {α β γ δ} (f : α → β → γ → δ) : List α → List β → List γ → List δ
  | a :: as, b :: bs, c :: cs => f a b c :: zipWith3 f as bs cs
  | _, _, _ => []

def clipVec (los his xs : List Rat) : List Rat := zipWith3 clip los his xs

def addVec (xs ys : List Rat) : List Rat := List.zipWith (· + ·) xs ys

/-- DDPG / TD3 `get_action`: actor output (+ exploration noise when training), clipped per dimension -/
def ddpgRow (training : Bool) (los his a noise : List Rat) : List Rat :=
  clipVec los his (if training then addVec a noise else a)

/-! ### rescaling of squashed outputs -/

inductive OutAct where
  | tanh | softsign | sigmoid | softmax | gumbel | unbounded
deriving Repr, DecidableEq

/-- the pre-scaled range of a bounded output activation -/
def prescaled : OutAct → Option (Rat × Rat)
  | .tanh | .softsign => some (-1, 1)
  | .sigmoid | .softmax | .gumbel => some (0, 1)
  | .unbounded => none

def rescaleWith (pmin pmax low high a : Rat) : Rat :=
  low + (high - low) * (a - pmin) / (pmax - pmin)

/-- one dimension of `DeterministicActor.rescale_action` with finite bounds -/
def rescale (act : OutAct) (low high a : Rat) : Rat :=
  match prescaled act with
  | none => a
  | some (pmin, pmax) => rescaleWith pmin pmax low high a

def allSomeR : List (Option Rat) → Option (List Rat)
  | [] => some []
  | none :: _ => none
  | some a :: r => (allSomeR r).map (a :: ·)

/-- the whole vector: an infinite bound anywhere (`none`) leaves the action untouched -/
def rescaleVec (act : OutAct) (lows highs : List (Option Rat)) (as : List Rat) : List Rat :=
  match allSomeR lows, allSomeR highs with
  | some ls, some hs => zipWith3 (rescale act) ls hs as
  | _, _ => as

/-! ### multi-agent (MADDPG / MATD3) -/

/-- env-defined actions replace the agent's own where defined (not NaN) -/
def override (xs : List Rat) (env : List (Option Rat)) : List Rat :=
  List.zipWith (fun x e => e.getD x) xs env

/-- continuous actions of one agent, one environment.
    `perDim = true` (repaired code): every dimension is clamped with its own bounds, in training mode
    after the exploration noise and in evaluation mode as well (so that a user-supplied actor network,
    whose output is not rescaled, cannot leave the Box);
    `perDim = false` (code before the repairs): training mode clamps every dimension with the bounds of
    dimension 0 (defect D11), evaluation mode returns the actor output as it is. -/
def maContRow (perDim training : Bool) (los his a noise : List Rat) (env : List (Option Rat)) : List Rat :=
  let x :=
    if training then
      let s := addVec a noise
      if perDim then clipVec los his s
      else s.map (clip (los.headD 0) (his.headD 0))
    else
      if perDim then clipVec los his a else a
  override x env

/-- discrete actions of one agent, one environment: (noisy, clamped to [0,1]) actor output,
    masked argmax, env-defined override -/
def maDiscRow (training : Bool) (p noise : List Rat) (m : List Bool) (env : Option Nat) : Nat :=
  let x := if training then (addVec p noise).map (clip 0 1) else p
  env.getD (maPick x m)

/-! ### the whole agent: real `DeterministicActor.forward` (head output → rescale) then `get_action` -/

/-- `DeterministicActor.forward` on a Box with finite bounds: rescale the head's squashed output -/
def actorOut (act : OutAct) (los his h : List Rat) : List Rat :=
  rescaleVec act (los.map some) (his.map some) h

def ddpgAgent (act : OutAct) (training : Bool) (los his h noise : List Rat) : List Rat :=
  ddpgRow training los his (actorOut act los his h) noise

def maContAgent (act : OutAct) (perDim training : Bool) (los his h noise : List Rat)
    (env : List (Option Rat)) : List Rat :=
  maContRow perDim training los his (actorOut act los his h) noise env

/-! ### stochastic policies in evaluation mode -/

/-- `StochasticActor.scale_action` -/
def scaleAction (low high a : Rat) : Rat := low + (1 / 2) * (a + 1) * (high - low)

/-- PPO / IPPO `get_action` when `not self.training` and the space is a Box -/
def pgEvalBox (squash : Bool) (los his xs : List Rat) : List Rat :=
  if squash then zipWith3 scaleAction los his xs else clipVec los his xs

/-- the value masked logits are pushed to -/
def maskedLogit : Rat := -100000000

/-- `apply_action_mask_discrete` -/
def pgMask (logits : List Rat) (m : List Bool) : List Rat :=
  List.zipWith (fun l b => if b then l else maskedLogit) logits m

/-! ### multi-agent plumbing: which mask / env-defined action reaches which agent and environment row

  `infos` is an insertion-ordered association list keyed by agent id (a Python dict: keys distinct, the order
  is the environment's, not necessarily `agent_ids`').  The code-shaped translation of
  `extract_action_masks` / `extract_agent_masks` / `process_infos` / the statements of `get_action` around
  the per-agent loop / `disassemble_homogeneous_outputs` is `Gen/MaPlumbGen.lean`; `Proofs/MaPlumbGenEq.lean`
  proves it equal to the functions below. -/

/-- `d[k]` / `d.get(k)` of an insertion-ordered dict -/
def dlookup {V : Type} (d : List (String × V)) (k : String) : Option V :=
  (d.find? (fun p => p.1 == k)).map (fun p => p.2)

/-- `key_in_nested_dict(infos, target)` as `extract_agent_masks` uses it (the presence test for
    "env_defined_actions"); an info is abstracted to `some keys` (a dict) or `none` (not a dict).
    Repaired code (commit 1022803): some top-level key is the target, or SOME dict-valued info holds it. -/
def keyInNested (infos : List (String × Option (List String))) (target : String) : Bool :=
  infos.any (fun p => p.1 == target || (match p.2 with | some ks => ks.contains target | none => false))

/-- the same helper AS FOUND (finding C14-env-defined-actions-infos-order): it returned the answer of the
    FIRST dict-valued entry it met, so the result depended on the order of `infos` -/
def keyInNestedAsFound : List (String × Option (List String)) → String → Bool
  | [], _ => false
  | (k, v) :: rest, t =>
    if k == t then true
    else match v with
      | some ks => ks.contains t
      | none => keyInNestedAsFound rest t

/-- `MultiAgentRLAlgorithm.extract_action_masks`: every known agent's own entry (`none`: no mask, or the
    info is not a dict), in the order of `infos`; keys that are not agent ids are dropped -/
def extractMasks {M : Type} (ids : List String) (infos : List (String × Option M)) : List (String × Option M) :=
  infos.filter (fun p => ids.contains p.1)

/-- the mask that reaches agent `a` (`none`: all actions allowed) -/
def ownMask {M : Type} (ids : List String) (infos : List (String × Option M)) (a : String) : Option M :=
  (dlookup (extractMasks ids infos) a).join

/-- `extract_agent_masks`, one normalised 2-D entry: `agent_mask = ¬ isnan(env_defined_actions)` -/
def agentMask {α : Type} (env : List (List (Option α))) : List (List Bool) :=
  env.map (fun r => r.map (fun e => e.isSome))

/-- the statements after the per-agent loop, one agent, a 2-D action array (rows = environment rows):
    `action[agent_mask] = env_defined_actions[agent_mask]` -/
def overrideRows {α : Type} (pol : List (List α)) (env : List (List (Option α))) : List (List α) :=
  List.zipWith (fun xr er => List.zipWith (fun x e => e.getD x) xr er) pol env

/-- 1-D form (MADDPG's squeezed discrete actions) -/
def overrideRow {α : Type} (pol : List α) (env : List (Option α)) : List α :=
  List.zipWith (fun x e => e.getD x) pol env

/-- `np.reshape(x, (n, e, -1))[i]`: block `i` of `n` equal blocks, as `e` rows -/
def chunkN {β : Type} (k : Nat) : Nat → List β → List (List β)
  | 0, _ => []
  | n + 1, l => l.take k :: chunkN k n (l.drop k)

/-- `disassemble_homogeneous_outputs` for one group of `n` agents and `e` environment rows: the group's
    batched output (agent-major, `w` numbers per row) cut into each agent's own `e` rows -/
def disassembleGroup {β : Type} (n e : Nat) (x : List β) : List (List (List β)) :=
  let w := x.length / (n * e)
  (chunkN (e * w) n x).map (fun blk => chunkN w e blk)

end Action

/-! ### line protocol -/
namespace Action
open Util

structure IOState where
  calls : Nat := 0

def parseBool? (s : String) : Option Bool :=
  if s = "1" then some true else if s = "0" then some false else none

def parseBools? (ws : List String) : Option (List Bool) := allSome (ws.map parseBool?)

/-- `_` = undefined (NaN in the real code), `inf` / `-inf` = unbounded -/
def parseOptRat? (s : String) : Option (Option Rat) :=
  if s = "_" ∨ s = "inf" ∨ s = "-inf" then some none else (parseRat? s).map some

def parseOptRats? (ws : List String) : Option (List (Option Rat)) := allSome (ws.map parseOptRat?)

def parseOptNat? (s : String) : Option (Option Nat) :=
  if s = "_" then some none else (parseNat? s).map some

def parseAct? (s : String) : Option OutAct :=
  match s with
  | "Tanh" => some .tanh
  | "Softsign" => some .softsign
  | "Sigmoid" => some .sigmoid
  | "Softmax" => some .softmax
  | "GumbelSoftmax" => some .gumbel
  | "None" => some .unbounded
  | _ => none

/-- split `ws` in `k` consecutive blocks of `n` words; `none` unless it fits exactly -/
def blocks (n k : Nat) (ws : List String) : Option (List (List String)) :=
  if n = 0 ∨ ws.length ≠ n * k then none else some (chunks n ws)

def step (s : IOState) (ws : List String) : IOState × String :=
  let s' := { s with calls := s.calls + 1 }
  let out : String :=
    match ws with
    | "dqn" :: n :: eps :: u :: rest =>
      match parseNat? n, parseRat? eps, parseRat? u with
      | some n, some eps, some u =>
        match blocks n 3 rest with
        | some [qs, rs, ms] =>
          match parseRats? qs, parseRats? rs, parseBools? ms with
          | some q, some r, some m => toString (dqnRow q r m eps u)
          | _, _, _ => "bad-op"
        | _ => "bad-op"
      | _, _, _ => "bad-op"
    | "cqn" :: n :: eps :: u :: rest =>
      match parseNat? n, parseRat? eps, parseRat? u with
      | some n, some eps, some u =>
        match blocks n 3 rest with
        | some [qs, rs, ms] =>
          match parseRats? qs, parseRats? rs, parseBools? ms with
          | some q, some r, some m => toString (cqnRow q r m eps u)
          | _, _, _ => "bad-op"
        | _ => "bad-op"
      | _, _, _ => "bad-op"
    | "cqn0" :: n :: eps :: u :: k :: rest =>
      match parseNat? n, parseRat? eps, parseRat? u, parseNat? k with
      | some n, some eps, some u, some k =>
        match blocks n 1 rest with
        | some [qs] =>
          match parseRats? qs with
          | some q => if k < n then toString (cqnRowNoMask q k eps u) else "bad-op"
          | none => "bad-op"
        | _ => "bad-op"
      | _, _, _, _ => "bad-op"
    | "ma" :: n :: rest =>
      match parseNat? n with
      | some n =>
        match blocks n 2 rest with
        | some [qs, ms] =>
          match parseRats? qs, parseBools? ms with
          | some q, some m => toString (maPick q m)
          | _, _ => "bad-op"
        | _ => "bad-op"
      | none => "bad-op"
    | "amax" :: n :: rest =>
      match parseNat? n with
      | some n =>
        match blocks n 1 rest with
        | some [qs] =>
          match parseRats? qs with
          | some q => toString (plainPick q)
          | none => "bad-op"
        | _ => "bad-op"
      | none => "bad-op"
    | "clip" :: n :: rest =>
      match parseNat? n with
      | some n =>
        match blocks n 3 rest with
        | some [ls, hs, xs] =>
          match parseRats? ls, parseRats? hs, parseRats? xs with
          | some l, some h, some x => showRats (clipVec l h x)
          | _, _, _ => "bad-op"
        | _ => "bad-op"
      | none => "bad-op"
    | "ddpg" :: n :: tr :: rest =>
      match parseNat? n, parseBool? tr with
      | some n, some tr =>
        match blocks n 4 rest with
        | some [ls, hs, as, ns] =>
          match parseRats? ls, parseRats? hs, parseRats? as, parseRats? ns with
          | some l, some h, some a, some nz => showRats (ddpgRow tr l h a nz)
          | _, _, _, _ => "bad-op"
        | _ => "bad-op"
      | _, _ => "bad-op"
    | "ddpgact" :: act :: n :: tr :: rest =>
      match parseAct? act, parseNat? n, parseBool? tr with
      | some act, some n, some tr =>
        match blocks n 4 rest with
        | some [ls, hs, as, ns] =>
          match parseRats? ls, parseRats? hs, parseRats? as, parseRats? ns with
          | some l, some h, some a, some nz => showRats (ddpgAgent act tr l h a nz)
          | _, _, _, _ => "bad-op"
        | _ => "bad-op"
      | _, _, _ => "bad-op"
    | "macontact" :: act :: n :: pd :: tr :: rest =>
      match parseAct? act, parseNat? n, parseBool? pd, parseBool? tr with
      | some act, some n, some pd, some tr =>
        match blocks n 5 rest with
        | some [ls, hs, as, ns, es] =>
          match parseRats? ls, parseRats? hs, parseRats? as, parseRats? ns, parseOptRats? es with
          | some l, some h, some a, some nz, some e => showRats (maContAgent act pd tr l h a nz e)
          | _, _, _, _, _ => "bad-op"
        | _ => "bad-op"
      | _, _, _, _ => "bad-op"
    | "rescale" :: act :: n :: rest =>
      match parseAct? act, parseNat? n with
      | some act, some n =>
        match blocks n 3 rest with
        | some [ls, hs, as] =>
          match parseOptRats? ls, parseOptRats? hs, parseRats? as with
          | some l, some h, some a => showRats (rescaleVec act l h a)
          | _, _, _ => "bad-op"
        | _ => "bad-op"
      | _, _ => "bad-op"
    | "macont" :: n :: pd :: tr :: rest =>
      match parseNat? n, parseBool? pd, parseBool? tr with
      | some n, some pd, some tr =>
        match blocks n 5 rest with
        | some [ls, hs, as, ns, es] =>
          match parseRats? ls, parseRats? hs, parseRats? as, parseRats? ns, parseOptRats? es with
          | some l, some h, some a, some nz, some e => showRats (maContRow pd tr l h a nz e)
          | _, _, _, _, _ => "bad-op"
        | _ => "bad-op"
      | _, _, _ => "bad-op"
    | "madisc" :: n :: tr :: e :: rest =>
      match parseNat? n, parseBool? tr, parseOptNat? e with
      | some n, some tr, some e =>
        match blocks n 3 rest with
        | some [ps, ns, ms] =>
          match parseRats? ps, parseRats? ns, parseBools? ms with
          | some p, some nz, some m => toString (maDiscRow tr p nz m e)
          | _, _, _ => "bad-op"
        | _ => "bad-op"
      | _, _, _ => "bad-op"
    | "pgeval" :: n :: sq :: rest =>
      match parseNat? n, parseBool? sq with
      | some n, some sq =>
        match blocks n 3 rest with
        | some [ls, hs, xs] =>
          match parseRats? ls, parseRats? hs, parseRats? xs with
          | some l, some h, some x => showRats (pgEvalBox sq l h x)
          | _, _, _ => "bad-op"
        | _ => "bad-op"
      | _, _ => "bad-op"
    | "pgmask" :: n :: rest =>
      match parseNat? n with
      | some n =>
        match blocks n 2 rest with
        | some [ls, ms] =>
          match parseRats? ls, parseBools? ms with
          | some l, some m => showRats (pgMask l m)
          | _, _ => "bad-op"
        | _ => "bad-op"
      | none => "bad-op"
    | _ => "bad-op"
  (s', out)

end Action
