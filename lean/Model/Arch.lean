import Model.Util
/-
  Model/Arch.lean — executable model of the architecture-mutation state machines of AgileRL
  (`agilerl/modules/{mlp,cnn,lstm,simba,resnet,multi_input}.py`, `agilerl/networks/base.py`).

  One record per evolvable building block with its declared bounds and a total `step` that
  reproduces each `# HARD LIMIT` guard with the strictness of the code, each argument clamp and
  each fallback; `Applied` is the method that really took effect (what `MutationContext` resolves as
  `last_mutation_attr`).  Whatever the code draws from numpy when an argument is omitted is an
  explicit argument here (`Args`): the harness records the draws and hands them over.

  `Policy` holds the two places where the repaired tree differs from the tree of the design round:
  `forwardHead`  — `EvolvableWrapper` really forwards the wrapped head's mutations (D20);
  `clampKernel`  — `change_kernel` clamps explicit arguments to the range of its own random draw.
  `fitLater`     — `change_kernel_size` steps an enlarged kernel down until every later layer still fits
                   (`MutableKernelSizes._later_layers_fit`; the tree before that repair: `fitLater = false`).
-/
namespace Arch
open Util

abbrev Shape := List Nat
abbrev Params := List (String × Shape)

inductive Applied where
  | addLayer | removeLayer | addNode | removeNode | addChannel | removeChannel | changeKernel
  | addBlock | removeBlock | addLatent | removeLatent | dead
deriving DecidableEq, Repr

def Applied.name : Applied → String
  | .addLayer => "add_layer" | .removeLayer => "remove_layer" | .addNode => "add_node"
  | .removeNode => "remove_node" | .addChannel => "add_channel" | .removeChannel => "remove_channel"
  | .changeKernel => "change_kernel" | .addBlock => "add_block" | .removeBlock => "remove_block"
  | .addLatent => "add_latent_node" | .removeLatent => "remove_latent_node" | .dead => "None"

/-- every argument a mutation call can consume: an explicit keyword argument, or the numpy draw the
    code makes when it is omitted -/
structure Args where
  layer  : Nat := 0     -- `hidden_layer` of add/remove node / channel
  n      : Nat := 0     -- `numb_new_nodes` / `numb_new_channels`
  k      : Nat := 0     -- kernel size (draw of `add_layer`, argument or draw of `change_kernel`)
  stride : Nat := 0     -- stride draw of `add_layer`
  klayer : Nat := 0     -- `hidden_layer` of `change_kernel`
deriving DecidableEq, Repr

structure Policy where
  forwardHead : Bool := true
  clampKernel : Bool := true
  fitLater : Bool := true
deriving DecidableEq, Repr

/-! ## EvolvableMLP (also the network heads; `advOut > 0` = DuelingDistributionalMLP) -/

structure MLP where
  name : String := "mlp"
  numInputs : Nat
  numOutputs : Nat
  hidden : List Nat
  minLayers : Nat := 1
  maxLayers : Nat := 3
  minNodes : Nat := 64
  maxNodes : Nat := 500
  layerNorm : Bool := true
  outputLayerNorm : Bool := false
  noisy : Bool := false
  advOut : Nat := 0
deriving DecidableEq, Repr

inductive MlpMethod where | addLayer | removeLayer | addNode | removeNode
deriving DecidableEq, Repr

/-- `hidden_layer = min(hidden_layer, len-1)`; `if hidden[i] + n <= max_mlp_nodes: hidden[i] += n` -/
def MLP.addNode (m : MLP) (a : Args) : MLP :=
  let i := min a.layer (m.hidden.length - 1)
  let v := m.hidden.getD i 0
  if v + a.n ≤ m.maxNodes then { m with hidden := m.hidden.set i (v + a.n) } else m

/-- `if hidden[i] - n > min_mlp_nodes: hidden[i] -= n` (Python ints: `v - n > min ↔ v > min + n`) -/
def MLP.removeNode (m : MLP) (a : Args) : MLP :=
  let i := min a.layer (m.hidden.length - 1)
  let v := m.hidden.getD i 0
  if v > m.minNodes + a.n then { m with hidden := m.hidden.set i (v - a.n) } else m

def MLP.step (m : MLP) : MlpMethod → Args → MLP × Applied
  | .addLayer, a =>
    if m.hidden.length < m.maxLayers then
      ({ m with hidden := m.hidden ++ [m.hidden.getLastD 0] }, .addLayer)
    else (m.addNode a, .addNode)
  | .removeLayer, a =>
    if m.hidden.length > m.minLayers then ({ m with hidden := m.hidden.dropLast }, .removeLayer)
    else (m.addNode a, .addNode)
  | .addNode, a => (m.addNode a, .addNode)
  | .removeNode, a => (m.removeNode a, .removeNode)

def MLP.WF (m : MLP) : Prop := 1 ≤ m.minLayers
instance (m : MLP) : Decidable m.WF := by unfold MLP.WF; infer_instance
def MLP.InBounds (m : MLP) : Prop :=
  m.minLayers ≤ m.hidden.length ∧ m.hidden.length ≤ m.maxLayers ∧
  ∀ h ∈ m.hidden, m.minNodes ≤ h ∧ h ≤ m.maxNodes
instance (m : MLP) : Decidable m.InBounds := by unfold MLP.InBounds; infer_instance

/-! ## EvolvableCNN (Conv2d; Conv3d on the integer-kernel path: `depth = some D`) -/

structure CNN where
  name : String := "cnn"
  inC : Nat
  inH : Nat
  inW : Nat
  depth : Option Nat := none
  numOutputs : Nat
  channels : List Nat
  kernels : List Nat
  strides : List Nat
  minLayers : Nat := 1
  maxLayers : Nat := 6
  minCh : Nat := 32
  maxCh : Nat := 256
  layerNorm : Bool := false
deriving DecidableEq, Repr

inductive CnnMethod where | addLayer | removeLayer | changeKernel | addChannel | removeChannel
deriving DecidableEq, Repr

/-- output size of an unpadded convolution: `floor((h - k)/s) + 1` -/
def convOut (h : Int) (k s : Nat) : Int := (h - (k : Int)) / (s : Int) + 1

/-- feature-map (height, width) after every layer — the loop of `calc_max_kernel_sizes` -/
def mapsAux : Int → Int → List Nat → List Nat → List (Int × Int)
  | h, w, k :: ks, s :: ss =>
    let h' := convOut h k s
    let w' := convOut w k s
    (h', w') :: mapsAux h' w' ks ss
  | _, _, _, _ => []

def CNN.maps (c : CNN) : List (Int × Int) := mapsAux c.inH c.inW c.kernels c.strides

/-- `int(min(h, w) * 0.25)` clamped into `[1, 9]` -/
def clampK (m : Int) : Nat := if m < 4 then 1 else if m / 4 > 9 then 9 else (m / 4).toNat

def CNN.maxKernels (c : CNN) : List Nat := c.maps.map (fun p => clampK (min p.1 p.2))

/-- every feature map has height and width ≥ 1 (⇔ every kernel fits its input) -/
def CNN.spatialOK (c : CNN) : Bool := c.maps.all (fun p => decide (1 ≤ p.1) && decide (1 ≤ p.2))

def CNN.addChannel (c : CNN) (a : Args) : CNN :=
  let i := min a.layer (c.channels.length - 1)
  let v := c.channels.getD i 0
  if v + a.n ≤ c.maxCh then { c with channels := c.channels.set i (v + a.n) } else c

/-- `if ch[i] - n >= min_channel_size` -/
def CNN.removeChannel (c : CNN) (a : Args) : CNN :=
  let i := min a.layer (c.channels.length - 1)
  let v := c.channels.getD i 0
  if v ≥ c.minCh + a.n then { c with channels := c.channels.set i (v - a.n) } else c

/-- `len(channel_size) < max_hidden_layers and not any(i <= 2 for i in cnn_output_size[-2:])
    and max_kernels[-1] > 2` -/
def CNN.addLayerGuard (c : CNN) : Bool :=
  decide (c.channels.length < c.maxLayers) &&
  (match c.maps.getLast? with
   | some p => decide (2 < p.1) && decide (2 < p.2)
   | none => false) &&
  decide (2 < c.maxKernels.getLastD 0)

def CNN.addLayer (c : CNN) (a : Args) : CNN × Applied :=
  if c.addLayerGuard then
    ({ c with channels := c.channels ++ [c.channels.getLastD 0],
              kernels := c.kernels ++ [a.k], strides := c.strides ++ [a.stride] }, .addLayer)
  else (c.addChannel a, .addChannel)

/-- the walk of `MutableKernelSizes._later_layers_fit`: no kernel is larger than the feature map it is
    applied to (`if k > h or k > w: return False`; `h = (h - k) // stride + 1`) -/
def fitsAux : Int → Int → List Nat → List Nat → Bool
  | h, w, k :: ks, s :: ss =>
    if (k : Int) > h ∨ (k : Int) > w then false else fitsAux (convOut h k s) (convOut w k s) ks ss
  | _, _, _, _ => true

/-- `_later_layers_fit(hidden_layer = j, new_kernel_size = knew, …)`: the walk with the kernel of layer `j`
    replaced by `knew` -/
def CNN.laterFit (c : CNN) (j knew : Nat) : Bool := fitsAux c.inH c.inW (c.kernels.set j knew) c.strides

/-- `while new > current and not self._later_layers_fit(…): new -= 1`  (`n` = fuel, `new − current` suffices) -/
def CNN.stepDown (c : CNN) (j cur : Nat) : Nat → Nat → Nat
  | 0, knew => knew
  | n + 1, knew => if knew > cur ∧ ¬ (c.laterFit j knew = true) then c.stepDown j cur n (knew - 1) else knew

/-- the layer index and kernel `change_kernel` really writes -/
def CNN.kernelTarget (p : Policy) (c : CNN) (a : Args) : Nat × Nat :=
  if p.clampKernel then
    let i := min a.klayer (c.kernels.length - 1)
    let k0 := max 1 (min a.k (c.maxKernels.getD i 1))
    (i, if p.fitLater then c.stepDown i (c.kernels.getD i 1) (k0 - c.kernels.getD i 1) k0 else k0)
  else (a.klayer, a.k)

/-- `layerOK` = the layer mutations of this block are enabled (they are disabled for the encoder of
    a network; `change_kernel` on a single-layer CNN then falls back on `add_channel`) -/
def CNN.step (p : Policy) (layerOK : Bool) (c : CNN) : CnnMethod → Args → CNN × Applied
  | .addLayer, a => c.addLayer a
  | .removeLayer, a =>
    if c.channels.length > c.minLayers then
      ({ c with channels := c.channels.dropLast, kernels := c.kernels.dropLast,
                strides := c.strides.dropLast }, .removeLayer)
    else (c.addChannel a, .addChannel)
  | .changeKernel, a =>
    if c.channels.length > 1 then
      let t := c.kernelTarget p a
      ({ c with kernels := c.kernels.set t.1 t.2 }, .changeKernel)
    else if layerOK then c.addLayer a
    else (c.addChannel a, .addChannel)
  | .addChannel, a => (c.addChannel a, .addChannel)
  | .removeChannel, a => (c.removeChannel a, .removeChannel)

def CNN.WF (c : CNN) : Prop :=
  1 ≤ c.minLayers ∧ c.kernels.length = c.channels.length ∧ c.strides.length = c.channels.length
def CNN.InBounds (c : CNN) : Prop :=
  c.minLayers ≤ c.channels.length ∧ c.channels.length ≤ c.maxLayers ∧
  ∀ h ∈ c.channels, c.minCh ≤ h ∧ h ≤ c.maxCh
instance (c : CNN) : Decidable c.InBounds := by unfold CNN.InBounds; infer_instance
instance (c : CNN) : Decidable c.WF := by unfold CNN.WF; infer_instance

/-- the draws `add_layer` / `change_kernel` can make (and the range explicit arguments are clamped
    to under `clampKernel`) -/
def CNN.drawOK (c : CNN) (m : CnnMethod) (a : Args) : Bool :=
  match m with
  | .addLayer => decide (2 ≤ a.k) && decide (a.k ≤ c.maxKernels.getLastD 0) &&
                 decide (1 ≤ a.stride) && decide (a.stride ≤ c.strides.getLastD 0)
  | .changeKernel =>
    if c.channels.length > 1 then
      decide (a.klayer < c.kernels.length) && decide (1 ≤ a.k) &&
        decide (a.k ≤ c.maxKernels.getD a.klayer 1)
    else decide (2 ≤ a.k) && decide (a.k ≤ c.maxKernels.getLastD 0) &&
                 decide (1 ≤ a.stride) && decide (a.stride ≤ c.strides.getLastD 0)
  | _ => true

/-! ## EvolvableLSTM -/

structure LSTM where
  name : String := "lstm"
  inputSize : Nat
  hidden : Nat
  numOutputs : Nat
  numLayers : Nat := 1
  minHidden : Nat := 32
  maxHidden : Nat := 512
  minLayers : Nat := 1
  maxLayers : Nat := 3
deriving DecidableEq, Repr

def LSTM.addNode (l : LSTM) (a : Args) : LSTM :=
  if l.hidden + a.n ≤ l.maxHidden then { l with hidden := l.hidden + a.n } else l
/-- `if hidden_size - n >= min_hidden_size` -/
def LSTM.removeNode (l : LSTM) (a : Args) : LSTM :=
  if l.hidden ≥ l.minHidden + a.n then { l with hidden := l.hidden - a.n } else l

def LSTM.step (l : LSTM) : MlpMethod → Args → LSTM × Applied
  | .addLayer, a =>
    if l.numLayers < l.maxLayers then ({ l with numLayers := l.numLayers + 1 }, .addLayer)
    else (l.addNode a, .addNode)
  | .removeLayer, a =>
    if l.numLayers > l.minLayers then ({ l with numLayers := l.numLayers - 1 }, .removeLayer)
    else (l.addNode a, .addNode)
  | .addNode, a => (l.addNode a, .addNode)
  | .removeNode, a => (l.removeNode a, .removeNode)

def LSTM.InBounds (l : LSTM) : Prop :=
  l.minLayers ≤ l.numLayers ∧ l.numLayers ≤ l.maxLayers ∧ l.minHidden ≤ l.hidden ∧ l.hidden ≤ l.maxHidden
instance (l : LSTM) : Decidable l.InBounds := by unfold LSTM.InBounds; infer_instance

/-! ## EvolvableSimBa -/

structure SimBa where
  name : String := "simba"
  numInputs : Nat
  numOutputs : Nat
  hidden : Nat
  numBlocks : Nat
  scale : Nat := 4
  minBlocks : Nat := 1
  maxBlocks : Nat := 4
  minNodes : Nat := 16
  maxNodes : Nat := 500
deriving DecidableEq, Repr

inductive BlockMethod where | addBlock | removeBlock | addNode | removeNode
deriving DecidableEq, Repr

def SimBa.addNode (s : SimBa) (a : Args) : SimBa :=
  if s.hidden + a.n ≤ s.maxNodes then { s with hidden := s.hidden + a.n } else s
/-- `if hidden_size - n > min_mlp_nodes` -/
def SimBa.removeNode (s : SimBa) (a : Args) : SimBa :=
  if s.hidden > s.minNodes + a.n then { s with hidden := s.hidden - a.n } else s

def SimBa.step (s : SimBa) : BlockMethod → Args → SimBa × Applied
  | .addBlock, a =>
    if s.numBlocks < s.maxBlocks then ({ s with numBlocks := s.numBlocks + 1 }, .addBlock)
    else (s.addNode a, .addNode)
  | .removeBlock, a =>
    if s.numBlocks > s.minBlocks then ({ s with numBlocks := s.numBlocks - 1 }, .removeBlock)
    else (s.addNode a, .addNode)
  | .addNode, a => (s.addNode a, .addNode)
  | .removeNode, a => (s.removeNode a, .removeNode)

def SimBa.InBounds (s : SimBa) : Prop :=
  s.minBlocks ≤ s.numBlocks ∧ s.numBlocks ≤ s.maxBlocks ∧ s.minNodes ≤ s.hidden ∧ s.hidden ≤ s.maxNodes
instance (s : SimBa) : Decidable s.InBounds := by unfold SimBa.InBounds; infer_instance

/-! ## EvolvableResNet -/

structure ResNet where
  name : String := "resnet"
  inC : Nat
  inH : Nat
  inW : Nat
  numOutputs : Nat
  channel : Nat
  kernel : Nat
  stride : Nat
  numBlocks : Nat
  scale : Nat := 4
  minBlocks : Nat := 1
  maxBlocks : Nat := 4
  minCh : Nat := 32
  maxCh : Nat := 256
deriving DecidableEq, Repr

/-- `if channel_size + n < max_channel_size` (strict) -/
def ResNet.addChannel (r : ResNet) (a : Args) : ResNet :=
  if r.channel + a.n < r.maxCh then { r with channel := r.channel + a.n } else r
/-- `if channel_size - n > min_channel_size` -/
def ResNet.removeChannel (r : ResNet) (a : Args) : ResNet :=
  if r.channel > r.minCh + a.n then { r with channel := r.channel - a.n } else r

/-- methods: `addBlock`, `removeBlock`, `addNode` = `add_channel`, `removeNode` = `remove_channel` -/
def ResNet.step (r : ResNet) : BlockMethod → Args → ResNet × Applied
  | .addBlock, a =>
    if r.numBlocks < r.maxBlocks then ({ r with numBlocks := r.numBlocks + 1 }, .addBlock)
    else (r.addChannel a, .addChannel)
  | .removeBlock, a =>
    if r.numBlocks > r.minBlocks then ({ r with numBlocks := r.numBlocks - 1 }, .removeBlock)
    else (r.addChannel a, .addChannel)
  | .addNode, a => (r.addChannel a, .addChannel)
  | .removeNode, a => (r.removeChannel a, .removeChannel)

def ResNet.InBounds (r : ResNet) : Prop :=
  r.minBlocks ≤ r.numBlocks ∧ r.numBlocks ≤ r.maxBlocks ∧ r.minCh ≤ r.channel ∧ r.channel ≤ r.maxCh
instance (r : ResNet) : Decidable r.InBounds := by unfold ResNet.InBounds; infer_instance

/-! ## latent width of `EvolvableNetwork` / `EvolvableMultiInput` -/

structure Latent where
  dim : Nat
  minDim : Nat := 8
  maxDim : Nat := 128
deriving DecidableEq, Repr

inductive LatentMethod where | add | remove
deriving DecidableEq, Repr

/-- `if latent_dim + n < max_latent_dim` ; `if latent_dim - n > min_latent_dim` -/
def Latent.step (l : Latent) : LatentMethod → Args → Latent × Applied
  | .add, a => (if l.dim + a.n < l.maxDim then { l with dim := l.dim + a.n } else l, .addLatent)
  | .remove, a => (if l.dim > l.minDim + a.n then { l with dim := l.dim - a.n } else l, .removeLatent)

def Latent.InBounds (l : Latent) : Prop := l.minDim ≤ l.dim ∧ l.dim ≤ l.maxDim
instance (l : Latent) : Decidable l.InBounds := by unfold Latent.InBounds; infer_instance

/-! ## parameter-shape tables (`state_dict()` names and shapes) -/

def linearParams (pfx : String) (noisy : Bool) (out inp : Nat) : Params :=
  if noisy then
    [(pfx ++ ".weight_mu", [out, inp]), (pfx ++ ".weight_sigma", [out, inp]),
     (pfx ++ ".bias_mu", [out]), (pfx ++ ".bias_sigma", [out]),
     (pfx ++ ".weight_epsilon", [out, inp]), (pfx ++ ".bias_epsilon", [out])]
  else [(pfx ++ ".weight", [out, inp]), (pfx ++ ".bias", [out])]

def normParams (pfx : String) (n : Nat) : Params := [(pfx ++ ".weight", [n]), (pfx ++ ".bias", [n])]

def batchNormParams (pfx : String) (n : Nat) : Params :=
  [(pfx ++ ".weight", [n]), (pfx ++ ".bias", [n]), (pfx ++ ".running_mean", [n]),
   (pfx ++ ".running_var", [n]), (pfx ++ ".num_batches_tracked", [])]

/-- hidden layers of `create_mlp`: `{name}_linear_layer_{i}` (+ `{name}_layer_norm_{i}`) -/
def mlpLayers (pfx : String) (noisy ln : Bool) : Nat → Nat → List Nat → Params
  | _, _, [] => []
  | i, inp, h :: hs =>
    linearParams (pfx ++ "_linear_layer_" ++ toString i) noisy h inp ++
    (if ln then normParams (pfx ++ "_layer_norm_" ++ toString i) h else []) ++
    mlpLayers pfx noisy ln (i + 1) h hs

def seqParams (pfx : String) (noisy ln oln : Bool) (inp out : Nat) (hidden : List Nat) : Params :=
  mlpLayers pfx noisy ln 1 inp hidden ++
  linearParams (pfx ++ "_linear_layer_output") noisy out (hidden.getLastD inp) ++
  (if oln then normParams (pfx ++ "_layer_norm_output") out else [])

def MLP.paramShapes (m : MLP) : Params :=
  seqParams ("model." ++ m.name) m.noisy m.layerNorm m.outputLayerNorm m.numInputs m.numOutputs m.hidden ++
  (if m.advOut = 0 then []
   else seqParams "advantage_net.advantage" m.noisy m.layerNorm false m.numInputs m.advOut m.hidden)

def convKernelShape (depth : Option Nat) (first : Bool) (k : Nat) : Shape :=
  match depth with
  | none => [k, k]
  | some d => [if first then d else 1, k, k]

def cnnLayers (pfx : String) (depth : Option Nat) (bn : Bool) :
    Nat → Nat → List Nat → List Nat → Params
  | i, inp, c :: cs, k :: ks =>
    [(pfx ++ "_conv_layer_" ++ toString i ++ ".weight", [c, inp] ++ convKernelShape depth (i == 1) k),
     (pfx ++ "_conv_layer_" ++ toString i ++ ".bias", [c])] ++
    (if bn then batchNormParams (pfx ++ "_layer_norm_" ++ toString i) c else []) ++
    cnnLayers pfx depth bn (i + 1) c cs ks
  | _, _, _, _ => []

/-- flattened size fed to `{name}_linear_output`: channels × (depth) × h × w of the last map -/
def CNN.flatSize (c : CNN) : Nat :=
  match c.maps.getLast? with
  | some p => c.channels.getLastD c.inC * p.1.toNat * p.2.toNat
  | none => c.inC * c.inH * c.inW

def CNN.paramShapes (c : CNN) : Params :=
  cnnLayers ("model." ++ c.name) c.depth c.layerNorm 1 c.inC c.channels c.kernels ++
  linearParams ("model." ++ c.name ++ "_linear_output") false c.numOutputs c.flatSize

def lstmLayers (pfx : String) (hid : Nat) : Nat → Nat → Nat → Params
  | _, _, 0 => []
  | i, inp, n + 1 =>
    [(pfx ++ ".weight_ih_l" ++ toString i, [4 * hid, inp]), (pfx ++ ".weight_hh_l" ++ toString i, [4 * hid, hid]),
     (pfx ++ ".bias_ih_l" ++ toString i, [4 * hid]), (pfx ++ ".bias_hh_l" ++ toString i, [4 * hid])] ++
    lstmLayers pfx hid (i + 1) hid n

def LSTM.paramShapes (l : LSTM) : Params :=
  lstmLayers ("model." ++ l.name ++ "_lstm") l.hidden 0 l.inputSize l.numLayers ++
  linearParams ("model." ++ l.name ++ "_lstm_output") false l.numOutputs l.hidden

def simbaBlocks (pfx : String) (hid scale : Nat) : Nat → Nat → Params
  | _, 0 => []
  | i, n + 1 =>
    let b := pfx ++ "_residual_block_" ++ toString i
    normParams (b ++ ".layer_norm") hid ++ linearParams (b ++ ".linear1") false (hid * scale) hid ++
    linearParams (b ++ ".linear2") false hid (hid * scale) ++ simbaBlocks pfx hid scale (i + 1) n

def SimBa.paramShapes (s : SimBa) : Params :=
  let p := "model." ++ s.name
  linearParams (p ++ "_linear_layer_input") false s.hidden s.numInputs ++
  simbaBlocks p s.hidden s.scale 1 s.numBlocks ++
  normParams (p ++ "_layer_norm_output") s.hidden ++
  linearParams (p ++ "_linear_layer_output") false s.numOutputs s.hidden

def resnetBlocks (pfx : String) (ch scale k : Nat) : Nat → Nat → Params
  | _, 0 => []
  | i, n + 1 =>
    let b := pfx ++ "_residual_block_" ++ toString i
    [(b ++ ".conv1.weight", [ch * scale, ch, k, k])] ++ batchNormParams (b ++ ".bn1") (ch * scale) ++
    [(b ++ ".conv2.weight", [ch, ch * scale, k, k])] ++ batchNormParams (b ++ ".bn2") ch ++
    resnetBlocks pfx ch scale k (i + 1) n

/-- input convolution is padded with `(k-1)//2`; residual blocks keep the size -/
def ResNet.mapSize (r : ResNet) (h : Nat) : Nat :=
  (((h : Int) + 2 * (((r.kernel : Int) - 1) / 2) - r.kernel) / (r.stride : Int) + 1).toNat

def ResNet.paramShapes (r : ResNet) : Params :=
  let p := "model." ++ r.name
  [(p ++ "_conv_input.weight", [r.channel, r.inC, r.kernel, r.kernel])] ++
  resnetBlocks p r.channel r.scale r.kernel 1 r.numBlocks ++
  linearParams (p ++ "_linear_output") false r.numOutputs (r.channel * r.mapSize r.inH * r.mapSize r.inW)

/-! ## constructor descriptions (`init_dict`) -/

inductive Key where
  | name | num_inputs | num_outputs | hidden_size | min_hidden_layers | max_hidden_layers
  | min_mlp_nodes | max_mlp_nodes | layer_norm | output_layernorm | noisy | adv_outputs
  | in_channels | in_height | in_width | depth | channel_size | kernel_size | stride_size
  | min_channel_size | max_channel_size | input_size | num_layers | min_hidden_size
  | max_hidden_size | min_layers | max_layers | num_blocks | scale_factor | min_blocks | max_blocks
  | latent_dim | min_latent_dim | max_latent_dim
deriving DecidableEq, Repr

def Key.str : Key → String
  | .name => "name" | .num_inputs => "num_inputs" | .num_outputs => "num_outputs"
  | .hidden_size => "hidden_size" | .min_hidden_layers => "min_hidden_layers"
  | .max_hidden_layers => "max_hidden_layers" | .min_mlp_nodes => "min_mlp_nodes"
  | .max_mlp_nodes => "max_mlp_nodes" | .layer_norm => "layer_norm"
  | .output_layernorm => "output_layernorm" | .noisy => "noisy" | .adv_outputs => "adv_outputs"
  | .in_channels => "in_channels" | .in_height => "in_height" | .in_width => "in_width"
  | .depth => "depth" | .channel_size => "channel_size" | .kernel_size => "kernel_size"
  | .stride_size => "stride_size" | .min_channel_size => "min_channel_size"
  | .max_channel_size => "max_channel_size" | .input_size => "input_size"
  | .num_layers => "num_layers" | .min_hidden_size => "min_hidden_size"
  | .max_hidden_size => "max_hidden_size" | .min_layers => "min_layers" | .max_layers => "max_layers"
  | .num_blocks => "num_blocks" | .scale_factor => "scale_factor" | .min_blocks => "min_blocks"
  | .max_blocks => "max_blocks" | .latent_dim => "latent_dim" | .min_latent_dim => "min_latent_dim"
  | .max_latent_dim => "max_latent_dim"

inductive Val where
  | nat (n : Nat) | nats (l : List Nat) | bool (b : Bool) | str (s : String) | optNat (o : Option Nat)
deriving DecidableEq, Repr

abbrev InitDict := List (Key × Val)

def InitDict.get (d : InitDict) (k : Key) : Option Val := (d.find? (fun e => e.1 == k)).map (·.2)
def InitDict.nat (d : InitDict) (k : Key) : Option Nat :=
  match d.get k with | some (.nat n) => some n | _ => none
def InitDict.nats (d : InitDict) (k : Key) : Option (List Nat) :=
  match d.get k with | some (.nats n) => some n | _ => none
def InitDict.bool (d : InitDict) (k : Key) : Option Bool :=
  match d.get k with | some (.bool n) => some n | _ => none
def InitDict.str (d : InitDict) (k : Key) : Option String :=
  match d.get k with | some (.str n) => some n | _ => none
def InitDict.optNat (d : InitDict) (k : Key) : Option (Option Nat) :=
  match d.get k with | some (.optNat n) => some n | _ => none

def MLP.toInitDict (m : MLP) : InitDict :=
  [(.name, .str m.name), (.num_inputs, .nat m.numInputs), (.num_outputs, .nat m.numOutputs),
   (.hidden_size, .nats m.hidden), (.min_hidden_layers, .nat m.minLayers),
   (.max_hidden_layers, .nat m.maxLayers), (.min_mlp_nodes, .nat m.minNodes),
   (.max_mlp_nodes, .nat m.maxNodes), (.layer_norm, .bool m.layerNorm),
   (.output_layernorm, .bool m.outputLayerNorm), (.noisy, .bool m.noisy), (.adv_outputs, .nat m.advOut)]

def MLP.ofInitDict (d : InitDict) : Option MLP := do
  let name ← d.str .name
  let ni ← d.nat .num_inputs
  let no ← d.nat .num_outputs
  let h ← d.nats .hidden_size
  let a ← d.nat .min_hidden_layers
  let b ← d.nat .max_hidden_layers
  let c ← d.nat .min_mlp_nodes
  let e ← d.nat .max_mlp_nodes
  let ln ← d.bool .layer_norm
  let oln ← d.bool .output_layernorm
  let nz ← d.bool .noisy
  let adv ← d.nat .adv_outputs
  pure { name := name, numInputs := ni, numOutputs := no, hidden := h, minLayers := a, maxLayers := b,
         minNodes := c, maxNodes := e, layerNorm := ln, outputLayerNorm := oln, noisy := nz, advOut := adv }

def CNN.toInitDict (c : CNN) : InitDict :=
  [(.name, .str c.name), (.in_channels, .nat c.inC), (.in_height, .nat c.inH), (.in_width, .nat c.inW),
   (.depth, .optNat c.depth), (.num_outputs, .nat c.numOutputs), (.channel_size, .nats c.channels),
   (.kernel_size, .nats c.kernels), (.stride_size, .nats c.strides),
   (.min_hidden_layers, .nat c.minLayers), (.max_hidden_layers, .nat c.maxLayers),
   (.min_channel_size, .nat c.minCh), (.max_channel_size, .nat c.maxCh), (.layer_norm, .bool c.layerNorm)]

def CNN.ofInitDict (d : InitDict) : Option CNN := do
  let name ← d.str .name
  let ic ← d.nat .in_channels
  let ih ← d.nat .in_height
  let iw ← d.nat .in_width
  let dp ← d.optNat .depth
  let no ← d.nat .num_outputs
  let ch ← d.nats .channel_size
  let ks ← d.nats .kernel_size
  let ss ← d.nats .stride_size
  let a ← d.nat .min_hidden_layers
  let b ← d.nat .max_hidden_layers
  let mc ← d.nat .min_channel_size
  let xc ← d.nat .max_channel_size
  let ln ← d.bool .layer_norm
  pure { name := name, inC := ic, inH := ih, inW := iw, depth := dp, numOutputs := no, channels := ch,
         kernels := ks, strides := ss, minLayers := a, maxLayers := b, minCh := mc, maxCh := xc,
         layerNorm := ln }

def LSTM.toInitDict (l : LSTM) : InitDict :=
  [(.name, .str l.name), (.input_size, .nat l.inputSize), (.hidden_size, .nat l.hidden),
   (.num_outputs, .nat l.numOutputs), (.num_layers, .nat l.numLayers),
   (.min_hidden_size, .nat l.minHidden), (.max_hidden_size, .nat l.maxHidden),
   (.min_layers, .nat l.minLayers), (.max_layers, .nat l.maxLayers)]

def LSTM.ofInitDict (d : InitDict) : Option LSTM := do
  let name ← d.str .name
  let i ← d.nat .input_size
  let h ← d.nat .hidden_size
  let no ← d.nat .num_outputs
  let nl ← d.nat .num_layers
  let a ← d.nat .min_hidden_size
  let b ← d.nat .max_hidden_size
  let c ← d.nat .min_layers
  let e ← d.nat .max_layers
  pure { name := name, inputSize := i, hidden := h, numOutputs := no, numLayers := nl, minHidden := a,
         maxHidden := b, minLayers := c, maxLayers := e }

def SimBa.toInitDict (s : SimBa) : InitDict :=
  [(.name, .str s.name), (.num_inputs, .nat s.numInputs), (.num_outputs, .nat s.numOutputs),
   (.hidden_size, .nat s.hidden), (.num_blocks, .nat s.numBlocks), (.scale_factor, .nat s.scale),
   (.min_blocks, .nat s.minBlocks), (.max_blocks, .nat s.maxBlocks),
   (.min_mlp_nodes, .nat s.minNodes), (.max_mlp_nodes, .nat s.maxNodes)]

def SimBa.ofInitDict (d : InitDict) : Option SimBa := do
  let name ← d.str .name
  let ni ← d.nat .num_inputs
  let no ← d.nat .num_outputs
  let h ← d.nat .hidden_size
  let nb ← d.nat .num_blocks
  let sc ← d.nat .scale_factor
  let a ← d.nat .min_blocks
  let b ← d.nat .max_blocks
  let c ← d.nat .min_mlp_nodes
  let e ← d.nat .max_mlp_nodes
  pure { name := name, numInputs := ni, numOutputs := no, hidden := h, numBlocks := nb, scale := sc,
         minBlocks := a, maxBlocks := b, minNodes := c, maxNodes := e }

def ResNet.toInitDict (r : ResNet) : InitDict :=
  [(.name, .str r.name), (.in_channels, .nat r.inC), (.in_height, .nat r.inH), (.in_width, .nat r.inW),
   (.num_outputs, .nat r.numOutputs), (.channel_size, .nat r.channel), (.kernel_size, .nat r.kernel),
   (.stride_size, .nat r.stride), (.num_blocks, .nat r.numBlocks), (.scale_factor, .nat r.scale),
   (.min_blocks, .nat r.minBlocks), (.max_blocks, .nat r.maxBlocks),
   (.min_channel_size, .nat r.minCh), (.max_channel_size, .nat r.maxCh)]

def ResNet.ofInitDict (d : InitDict) : Option ResNet := do
  let name ← d.str .name
  let ic ← d.nat .in_channels
  let ih ← d.nat .in_height
  let iw ← d.nat .in_width
  let no ← d.nat .num_outputs
  let ch ← d.nat .channel_size
  let k ← d.nat .kernel_size
  let s ← d.nat .stride_size
  let nb ← d.nat .num_blocks
  let sc ← d.nat .scale_factor
  let a ← d.nat .min_blocks
  let b ← d.nat .max_blocks
  let c ← d.nat .min_channel_size
  let e ← d.nat .max_channel_size
  pure { name := name, inC := ic, inH := ih, inW := iw, numOutputs := no, channel := ch, kernel := k,
         stride := s, numBlocks := nb, scale := sc, minBlocks := a, maxBlocks := b, minCh := c, maxCh := e }

/-! ## composite: basic block, multi-input encoder, network = encoder + head -/

inductive Basic where
  | mlp (m : MLP) | cnn (c : CNN) | lstm (l : LSTM) | simba (s : SimBa) | resnet (r : ResNet)
deriving DecidableEq, Repr

def Basic.name : Basic → String
  | .mlp m => m.name | .cnn c => c.name | .lstm l => l.name | .simba s => s.name | .resnet r => r.name
def Basic.numOutputs : Basic → Nat
  | .mlp m => m.numOutputs | .cnn c => c.numOutputs | .lstm l => l.numOutputs
  | .simba s => s.numOutputs | .resnet r => r.numOutputs
def Basic.setNumOutputs (n : Nat) : Basic → Basic
  | .mlp m => .mlp { m with numOutputs := n } | .cnn c => .cnn { c with numOutputs := n }
  | .lstm l => .lstm { l with numOutputs := n } | .simba s => .simba { s with numOutputs := n }
  | .resnet r => .resnet { r with numOutputs := n }
def Basic.paramShapes : Basic → Params
  | .mlp m => m.paramShapes | .cnn c => c.paramShapes | .lstm l => l.paramShapes
  | .simba s => s.paramShapes | .resnet r => r.paramShapes
def Basic.toInitDict : Basic → InitDict
  | .mlp m => m.toInitDict | .cnn c => c.toInitDict | .lstm l => l.toInitDict
  | .simba s => s.toInitDict | .resnet r => r.toInitDict

def Basic.layerMethods : Basic → List String
  | .mlp _ | .cnn _ | .lstm _ => ["add_layer", "remove_layer"]
  | .simba _ | .resnet _ => ["add_block", "remove_block"]
def Basic.nodeMethods : Basic → List String
  | .mlp _ | .lstm _ | .simba _ => ["add_node", "remove_node"]
  | .cnn _ => ["add_channel", "change_kernel", "remove_channel"]
  | .resnet _ => ["add_channel", "remove_channel"]

def mlpMethod? : String → Option MlpMethod
  | "add_layer" => some .addLayer | "remove_layer" => some .removeLayer
  | "add_node" => some .addNode | "remove_node" => some .removeNode | _ => none
def cnnMethod? : String → Option CnnMethod
  | "add_layer" => some .addLayer | "remove_layer" => some .removeLayer
  | "change_kernel" => some .changeKernel | "add_channel" => some .addChannel
  | "remove_channel" => some .removeChannel | _ => none
def simbaMethod? : String → Option BlockMethod
  | "add_block" => some .addBlock | "remove_block" => some .removeBlock
  | "add_node" => some .addNode | "remove_node" => some .removeNode | _ => none
def resnetMethod? : String → Option BlockMethod
  | "add_block" => some .addBlock | "remove_block" => some .removeBlock
  | "add_channel" => some .addNode | "remove_channel" => some .removeNode | _ => none

/-- `none` = no such method on this block -/
def Basic.step (p : Policy) (layerOK : Bool) (b : Basic) (meth : String) (a : Args) : Option (Basic × Applied) :=
  match b with
  | .mlp m => (mlpMethod? meth).map (fun me => let r := m.step me a; (.mlp r.1, r.2))
  | .cnn c => (cnnMethod? meth).map (fun me => let r := c.step p layerOK me a; (.cnn r.1, r.2))
  | .lstm l => (mlpMethod? meth).map (fun me => let r := l.step me a; (.lstm r.1, r.2))
  | .simba s => (simbaMethod? meth).map (fun me => let r := s.step me a; (.simba r.1, r.2))
  | .resnet r => (resnetMethod? meth).map (fun me => let q := r.step me a; (.resnet q.1, q.2))

structure Multi where
  name : String := "multi_input"
  lat : Latent
  numOutputs : Nat
  vecDims : Nat
  subs : List (String × Basic)
deriving DecidableEq, Repr

def latentMethod? : String → Option LatentMethod
  | "add_latent_node" => some .add | "remove_latent_node" => some .remove | _ => none

def stepSub (p : Policy) (layerOK : Bool) (key meth : String) (a : Args) :
    List (String × Basic) → Option (List (String × Basic) × Applied)
  | [] => none
  | (k, b) :: rest =>
    if k = key then (b.step p layerOK meth a).map (fun r => ((k, r.1) :: rest, r.2))
    else (stepSub p layerOK key meth a rest).map (fun r => ((k, b) :: r.1, r.2))

/-- returns the new encoder and the dotted name of the applied method -/
def Multi.step (p : Policy) (layerOK : Bool) (m : Multi) (path : List String) (a : Args) : Option (Multi × String) :=
  match path with
  | [meth] =>
    (latentMethod? meth).map (fun me =>
      let r := m.lat.step me a
      ({ m with lat := r.1, subs := m.subs.map (fun e => (e.1, e.2.setNumOutputs r.1.dim)) }, r.2.name))
  | ["feature_net", key, meth] =>
    (stepSub p layerOK key meth a m.subs).map (fun r =>
      ({ m with subs := r.1 }, "feature_net." ++ key ++ "." ++ r.2.name))
  | _ => none

def prefixParams (pfx : String) (ps : Params) : Params := ps.map (fun e => (pfx ++ e.1, e.2))

def Multi.paramShapes (m : Multi) : Params :=
  (m.subs.map (fun e => prefixParams ("feature_net." ++ e.1 ++ ".") e.2.paramShapes)).flatten ++
  linearParams "final_dense" false m.numOutputs (m.lat.dim * m.subs.length + m.vecDims)

inductive Enc where
  | basic (b : Basic) | multi (m : Multi)
deriving DecidableEq, Repr

def Enc.numOutputs : Enc → Nat
  | .basic b => b.numOutputs | .multi m => m.numOutputs
def Enc.setNumOutputs (n : Nat) : Enc → Enc
  | .basic b => .basic (b.setNumOutputs n) | .multi m => .multi { m with numOutputs := n }
def Enc.paramShapes : Enc → Params
  | .basic b => b.paramShapes | .multi m => m.paramShapes

def Enc.step (p : Policy) (layerOK : Bool) (e : Enc) (path : List String) (a : Args) : Option (Enc × String) :=
  match e with
  | .basic b =>
    match path with
    | [meth] => (b.step p layerOK meth a).map (fun r => (.basic r.1, r.2.name))
    | _ => none
  | .multi m => (m.step p layerOK path a).map (fun r => (.multi r.1, r.2))

structure Net where
  lat : Latent
  enc : Enc
  head : MLP
  headExtra : Nat := 0              -- ContinuousQNetwork: the action is concatenated to the latent
  headPrefix : String := "head_net."
  extra : Params := []              -- e.g. `head_net.log_std`
  encLayer : Bool := false          -- encoder layer mutations advertised?
deriving DecidableEq, Repr

/-- encoder output = latent width = head input (− extra) -/
def Net.Coherent (n : Net) : Prop :=
  n.enc.numOutputs = n.lat.dim ∧ n.head.numInputs = n.lat.dim + n.headExtra
instance (n : Net) : Decidable n.Coherent := by unfold Net.Coherent; infer_instance

/-- returns the new network and `last_mutation_attr` (`"None"` when nothing was applied) -/
def Net.step (p : Policy) (n : Net) (path : List String) (a : Args) : Option (Net × String) :=
  match path with
  | [meth] =>
    (latentMethod? meth).map (fun me =>
      let r := n.lat.step me a
      ({ n with lat := r.1, enc := n.enc.setNumOutputs r.1.dim,
                head := { n.head with numInputs := r.1.dim + n.headExtra } }, r.2.name))
  | "encoder" :: rest => (n.enc.step p n.encLayer rest a).map (fun r => ({ n with enc := r.1 }, "encoder." ++ r.2))
  | ["head_net", meth] =>
    (mlpMethod? meth).map (fun me =>
      if p.forwardHead then
        let r := n.head.step me a
        ({ n with head := r.1 }, "head_net." ++ r.2.name)
      else (n, Applied.dead.name))
  | _ => none

def Net.paramShapes (n : Net) : Params :=
  prefixParams "encoder." n.enc.paramShapes ++ prefixParams n.headPrefix n.head.paramShapes ++ n.extra

/-! ### advertised method names -/

def Multi.methods (m : Multi) (withLayer : Bool) : List String :=
  ["add_latent_node", "remove_latent_node"] ++
  (m.subs.map (fun e =>
    ((if withLayer then e.2.layerMethods else []) ++ e.2.nodeMethods).map
      (fun s => "feature_net." ++ e.1 ++ "." ++ s))).flatten

def Enc.methods (e : Enc) (withLayer : Bool) : List String :=
  match e with
  | .basic b => (if withLayer then b.layerMethods else []) ++ b.nodeMethods
  | .multi m => m.methods withLayer

def Net.methods (n : Net) : List String :=
  ["add_latent_node", "remove_latent_node"] ++ (n.enc.methods n.encLayer).map ("encoder." ++ ·) ++
  ["add_layer", "remove_layer", "add_node", "remove_node"].map ("head_net." ++ ·)

end Arch

/-! ## line protocol -/
namespace Arch
open Util

structure Flags where
  xl : Bool := false     -- `hidden_layer` of node/channel methods given explicitly
  xn : Bool := false     -- `numb_new_*` given explicitly
  xk : Bool := false     -- `kernel_size` given explicitly
  xkl : Bool := false    -- `hidden_layer` of change_kernel given explicitly
deriving Repr

def nodeDrawOK (choices : List Nat) (len : Nat) (hasLayer : Bool) (a : Args) (x : Flags) : Bool :=
  (!hasLayer || x.xl || decide (a.layer < len)) && (x.xn || choices.contains a.n)

/-- are the recorded numpy draws inside the ranges the code draws from?  (explicit arguments are
    unconstrained, except where the code raises) -/
def Basic.drawsOK (p : Policy) (layerOK : Bool) (b : Basic) (meth : String) (a : Args) (x : Flags) : Bool :=
  match b with
  | .mlp m =>
    let node := nodeDrawOK [16, 32, 64] m.hidden.length true a x
    match mlpMethod? meth with
    | some .addLayer => if m.hidden.length < m.maxLayers then true else node
    | some .removeLayer => if m.hidden.length > m.minLayers then true else node
    | _ => node
  | .cnn c =>
    let chan := nodeDrawOK [8, 16, 32] c.channels.length true a x
    let addL := if c.addLayerGuard then c.drawOK .addLayer a else chan
    match cnnMethod? meth with
    | some .addLayer => addL
    | some .removeLayer => if c.channels.length > c.minLayers then true else chan
    | some .changeKernel =>
      if c.channels.length > 1 then
        let t := if x.xkl then (c.kernelTarget p a).1 else a.klayer
        (if x.xkl then (p.clampKernel || decide (a.klayer < c.kernels.length))
         else decide (1 ≤ a.klayer) && decide (a.klayer < min 4 c.channels.length)) &&
        (x.xk || (decide (1 ≤ a.k) && decide (a.k ≤ c.maxKernels.getD t 1)))
      else if layerOK then addL else chan
    | _ => chan
  | .lstm l =>
    let node := nodeDrawOK [16, 32, 64] 0 false a x
    match mlpMethod? meth with
    | some .addLayer => if l.numLayers < l.maxLayers then true else node
    | some .removeLayer => if l.numLayers > l.minLayers then true else node
    | _ => node
  | .simba s =>
    let node := nodeDrawOK [16, 32, 64] 0 false a x
    match simbaMethod? meth with
    | some .addBlock => if s.numBlocks < s.maxBlocks then true else node
    | some .removeBlock => if s.numBlocks > s.minBlocks then true else node
    | _ => node
  | .resnet r =>
    let node := nodeDrawOK [8, 16, 32] 0 false a x
    match resnetMethod? meth with
    | some .addBlock => if r.numBlocks < r.maxBlocks then true else node
    | some .removeBlock => if r.numBlocks > r.minBlocks then true else node
    | _ => node

def latentDrawOK (a : Args) (x : Flags) : Bool := nodeDrawOK [8, 16, 32] 0 false a x

def Enc.drawsOK (p : Policy) (layerOK : Bool) (e : Enc) (path : List String) (a : Args) (x : Flags) : Bool :=
  match e, path with
  | .basic b, [meth] => b.drawsOK p layerOK meth a x
  | .multi _, [_] => latentDrawOK a x
  | .multi m, ["feature_net", key, meth] =>
    match m.subs.find? (fun e => e.1 == key) with
    | some e => e.2.drawsOK p layerOK meth a x
    | none => true
  | _, _ => true

def Net.drawsOK (p : Policy) (n : Net) (path : List String) (a : Args) (x : Flags) : Bool :=
  match path with
  | [_] => latentDrawOK a x
  | "encoder" :: rest => n.enc.drawsOK p n.encLayer rest a x
  | ["head_net", meth] => if p.forwardHead then (Basic.mlp n.head).drawsOK p true meth a x else true
  | _ => true

inductive Top where
  | enc (e : Enc) | net (n : Net)
deriving Repr

structure IOState where
  cur : Option Top := none
  regs : List (String × Enc) := []
  saved : List (Nat × Top) := []
  policy : Policy := {}

def showBool01 (b : Bool) : String := if b then "1" else "0"
def showList (l : List Nat) : String := "[" ++ ",".intercalate (l.map toString) ++ "]"
def Val.show : Val → String
  | .nat n => toString n | .nats l => showList l | .bool b => showBool01 b | .str s => s
  | .optNat none => "_" | .optNat (some n) => toString n
def InitDict.show (d : InitDict) : String :=
  "{" ++ ";".intercalate (d.map (fun e => e.1.str ++ "=" ++ e.2.show)) ++ "}"
def Basic.kind : Basic → String
  | .mlp _ => "mlp" | .cnn _ => "cnn" | .lstm _ => "lstm" | .simba _ => "simba" | .resnet _ => "resnet"
def Basic.show (b : Basic) : String := b.kind ++ b.toInitDict.show
def Latent.show (l : Latent) : String :=
  "latent_dim=" ++ toString l.dim ++ ";min_latent_dim=" ++ toString l.minDim ++ ";max_latent_dim=" ++ toString l.maxDim
def Multi.show (m : Multi) : String :=
  "multi{name=" ++ m.name ++ ";" ++ m.lat.show ++ ";num_outputs=" ++ toString m.numOutputs ++ ";vec_dims=" ++
    toString m.vecDims ++ "}" ++ "".intercalate (m.subs.map (fun e => "|" ++ e.1 ++ ":" ++ e.2.show))
def Enc.show : Enc → String
  | .basic b => b.show | .multi m => m.show
def Net.show (n : Net) : String :=
  "net{" ++ n.lat.show ++ ";head_extra=" ++ toString n.headExtra ++ "}|encoder:" ++ n.enc.show ++ "|head:" ++
    (Basic.mlp n.head).show
def Top.show : Top → String
  | .enc e => e.show | .net n => n.show
def Top.paramShapes : Top → Params
  | .enc e => e.paramShapes | .net n => n.paramShapes
def showShape (s : Shape) : String := "x".intercalate (s.map toString)
def showParams (ps : Params) : String := " ".intercalate (ps.map (fun e => e.1 ++ ":" ++ showShape e.2))

def Basic.roundtrip : Basic → Bool
  | .mlp m => decide (MLP.ofInitDict m.toInitDict = some m)
  | .cnn c => decide (CNN.ofInitDict c.toInitDict = some c)
  | .lstm l => decide (LSTM.ofInitDict l.toInitDict = some l)
  | .simba s => decide (SimBa.ofInitDict s.toInitDict = some s)
  | .resnet r => decide (ResNet.ofInitDict r.toInitDict = some r)

def Basic.inBounds : Basic → Bool
  | .mlp m => decide m.InBounds
  | .cnn c => decide c.InBounds
  | .lstm l => decide l.InBounds
  | .simba s => decide s.InBounds
  | .resnet r => decide r.InBounds
def Enc.inBounds : Enc → Bool
  | .basic b => b.inBounds
  | .multi m => decide m.lat.InBounds && m.subs.all (fun e => e.2.inBounds)
def Top.inBounds : Top → Bool
  | .enc e => e.inBounds
  | .net n => decide n.lat.InBounds && n.enc.inBounds && decide n.head.InBounds
def Top.coherent : Top → Bool
  | .enc (.multi m) => m.subs.all (fun e => e.2.numOutputs == m.lat.dim)
  | .enc _ => true
  | .net n => decide n.Coherent &&
      (match n.enc with | .multi m => m.subs.all (fun e => e.2.numOutputs == m.lat.dim) | _ => true)
def Top.methods : Top → List String
  | .enc (.basic b) => b.layerMethods ++ b.nodeMethods
  | .enc (.multi m) => m.methods true
  | .net n => n.methods

def Top.step (p : Policy) (t : Top) (path : List String) (a : Args) : Option (Top × String) :=
  match t with
  | .enc e => (e.step p true path a).map (fun r => (.enc r.1, r.2))
  | .net n => (n.step p path a).map (fun r => (.net r.1, r.2))
def Top.drawsOK (p : Policy) (t : Top) (path : List String) (a : Args) (x : Flags) : Bool :=
  match t with
  | .enc e => e.drawsOK p true path a x
  | .net n => n.drawsOK p path a x

def parseBool? : String → Option Bool
  | "1" => some true | "0" => some false | _ => none
def parseOptNat? (s : String) : Option (Option Nat) :=
  if s = "_" then some none else (parseNat? s).map some

/-- `k=v` tokens of a `mut` line -/
def parseKw : List String → Option (Args × Flags)
  | [] => some ({}, {})
  | w :: rest =>
    match parseKw rest, w.splitOn "=" with
    | some (a, x), [key, v] =>
      match parseNat? v with
      | none => none
      | some n =>
        match key with
        | "hl" => some ({ a with layer := n }, x)
        | "n" => some ({ a with n := n }, x)
        | "k" => some ({ a with k := n }, x)
        | "s" => some ({ a with stride := n }, x)
        | "kl" => some ({ a with klayer := n }, x)
        | "xhl" => some (a, { x with xl := n != 0 })
        | "xn" => some (a, { x with xn := n != 0 })
        | "xk" => some (a, { x with xk := n != 0 })
        | "xkl" => some (a, { x with xkl := n != 0 })
        | _ => none
    | _, _ => none

/-- three equal chunks -/
def split3 (l : List Nat) (n : Nat) : Option (List Nat × List Nat × List Nat) :=
  if l.length = 3 * n then some (l.take n, (l.drop n).take n, l.drop (2 * n)) else none

def parseBasic : List String → Option Basic
  | "mlp" :: name :: ni :: no :: a :: b :: c :: d :: ln :: oln :: nz :: adv :: hs => do
    let h ← parseNats? hs
    pure (.mlp { name := name, numInputs := ← parseNat? ni, numOutputs := ← parseNat? no, hidden := h,
                 minLayers := ← parseNat? a, maxLayers := ← parseNat? b, minNodes := ← parseNat? c,
                 maxNodes := ← parseNat? d, layerNorm := ← parseBool? ln, outputLayerNorm := ← parseBool? oln,
                 noisy := ← parseBool? nz, advOut := ← parseNat? adv })
  | "cnn" :: name :: ic :: ih :: iw :: dp :: no :: a :: b :: c :: d :: ln :: n :: rest => do
    let nn ← parseNat? n
    let (ch, ks, ss) ← split3 (← parseNats? rest) nn
    pure (.cnn { name := name, inC := ← parseNat? ic, inH := ← parseNat? ih, inW := ← parseNat? iw,
                 depth := ← parseOptNat? dp, numOutputs := ← parseNat? no, channels := ch, kernels := ks,
                 strides := ss, minLayers := ← parseNat? a, maxLayers := ← parseNat? b, minCh := ← parseNat? c,
                 maxCh := ← parseNat? d, layerNorm := ← parseBool? ln })
  | ["lstm", name, i, h, no, nl, a, b, c, d] => do
    pure (.lstm { name := name, inputSize := ← parseNat? i, hidden := ← parseNat? h, numOutputs := ← parseNat? no,
                  numLayers := ← parseNat? nl, minHidden := ← parseNat? a, maxHidden := ← parseNat? b,
                  minLayers := ← parseNat? c, maxLayers := ← parseNat? d })
  | ["simba", name, ni, no, h, nb, sc, a, b, c, d] => do
    pure (.simba { name := name, numInputs := ← parseNat? ni, numOutputs := ← parseNat? no, hidden := ← parseNat? h,
                   numBlocks := ← parseNat? nb, scale := ← parseNat? sc, minBlocks := ← parseNat? a,
                   maxBlocks := ← parseNat? b, minNodes := ← parseNat? c, maxNodes := ← parseNat? d })
  | ["resnet", name, ic, ih, iw, no, ch, k, s, nb, sc, a, b, c, d] => do
    pure (.resnet { name := name, inC := ← parseNat? ic, inH := ← parseNat? ih, inW := ← parseNat? iw,
                    numOutputs := ← parseNat? no, channel := ← parseNat? ch, kernel := ← parseNat? k,
                    stride := ← parseNat? s, numBlocks := ← parseNat? nb, scale := ← parseNat? sc,
                    minBlocks := ← parseNat? a, maxBlocks := ← parseNat? b, minCh := ← parseNat? c,
                    maxCh := ← parseNat? d })
  | _ => none

def parseParam (w : String) : Option (String × Shape) :=
  match w.splitOn ":" with
  | [n, s] => (parseNats? ((s.splitOn "x").filter (· ≠ ""))).map (fun sh => (n, sh))
  | _ => none

def lookupReg (regs : List (String × Enc)) (r : String) : Option Enc :=
  (regs.find? (fun e => e.1 == r)).map (·.2)

def basicsOf (regs : List (String × Enc)) : List String → Option (List (String × Basic))
  | [] => some []
  | r :: rest =>
    match lookupReg regs r, basicsOf regs rest with
    | some (.basic b), some l => some ((b.name, b) :: l)
    | _, _ => none

def step (s : IOState) : List String → IOState × String
  | ["policy", f, c] =>
    match parseBool? f, parseBool? c with
    | some f, some c => ({ s with policy := { forwardHead := f, clampKernel := c } }, "ok")
    | _, _ => (s, "bad-op")
  | ["policy", f, c, l] =>
    match parseBool? f, parseBool? c, parseBool? l with
    | some f, some c, some l => ({ s with policy := { forwardHead := f, clampKernel := c, fitLater := l } }, "ok")
    | _, _, _ => (s, "bad-op")
  | "def" :: reg :: rest =>
    match parseBasic rest with
    | some b => ({ s with regs := (reg, .basic b) :: s.regs.filter (fun e => e.1 != reg) }, "ok")
    | none => (s, "bad-op")
  | "multi" :: reg :: name :: lat :: lo :: hi :: no :: vd :: subs =>
    match parseNats? [lat, lo, hi, no, vd], basicsOf s.regs subs with
    | some [lat, lo, hi, no, vd], some bs =>
      let m : Multi := { name := name, lat := { dim := lat, minDim := lo, maxDim := hi }, numOutputs := no,
                         vecDims := vd, subs := bs }
      ({ s with regs := (reg, .multi m) :: s.regs.filter (fun e => e.1 != reg) }, "ok")
    | _, _ => (s, "bad-op")
  | "net" :: encR :: headR :: lat :: lo :: hi :: ex :: encLayer :: hp :: extra =>
    match lookupReg s.regs encR, lookupReg s.regs headR, parseNats? [lat, lo, hi, ex], parseBool? encLayer,
          allSome (extra.map parseParam) with
    | some e, some (.basic (.mlp h)), some [lat, lo, hi, ex], some el, some ps =>
      let n : Net := { lat := { dim := lat, minDim := lo, maxDim := hi }, enc := e, head := h,
                       headExtra := ex, headPrefix := hp, extra := ps, encLayer := el }
      ({ s with cur := some (.net n) }, "ok")
    | _, _, _, _, _ => (s, "bad-op")
  | ["use", reg] =>
    match lookupReg s.regs reg with
    | some e => ({ s with cur := some (.enc e) }, "ok")
    | none => (s, "bad-op")
  | ["save", i] =>
    match parseNat? i, s.cur with
    | some i, some t => ({ s with saved := (i, t) :: s.saved }, "ok")
    | _, _ => (s, "bad-op")
  | ["load", i] =>
    match parseNat? i with
    | some i =>
      match s.saved.find? (fun e => e.1 == i) with
      | some e => ({ s with cur := some e.2 }, "ok")
      | none => (s, "bad-op")
    | none => (s, "bad-op")
  | "mut" :: meth :: kws =>
    match s.cur, parseKw kws with
    | some t, some (a, x) =>
      let path := meth.splitOn "."
      match t.step s.policy path a with
      | none => (s, "bad-op")
      | some (t', applied) =>
        if t.drawsOK s.policy path a x then ({ s with cur := some t' }, applied) else (s, "reject")
    | _, _ => (s, "bad-op")
  | ["init"] => match s.cur with | some t => (s, t.show) | none => (s, "bad-op")
  | ["shapes"] => match s.cur with | some t => (s, showParams t.paramShapes) | none => (s, "bad-op")
  | ["methods"] => match s.cur with | some t => (s, " ".intercalate t.methods) | none => (s, "bad-op")
  | ["inbounds"] => match s.cur with | some t => (s, showBool01 t.inBounds) | none => (s, "bad-op")
  | ["coherent"] => match s.cur with | some t => (s, showBool01 t.coherent) | none => (s, "bad-op")
  | ["roundtrip"] =>
    match s.cur with
    | some (.enc (.basic b)) => (s, showBool01 b.roundtrip)
    | some (.enc (.multi m)) => (s, showBool01 (m.subs.all (fun e => e.2.roundtrip)))
    | some (.net n) =>
      (s, showBool01 ((Basic.mlp n.head).roundtrip &&
        (match n.enc with | .basic b => b.roundtrip | .multi m => m.subs.all (fun e => e.2.roundtrip))))
    | none => (s, "bad-op")
  | ["maps"] =>
    match s.cur with
    | some (.enc (.basic (.cnn c))) =>
      (s, " ".intercalate (c.maps.map (fun p => toString p.1 ++ "x" ++ toString p.2)) ++ " | " ++
          showNats c.maxKernels ++ " | " ++ showBool01 c.spatialOK)
    | _ => (s, "bad-op")
  | ["fit", j, k] =>
    match s.cur, parseNat? j, parseNat? k with
    | some (.enc (.basic (.cnn c))), some j, some k => (s, showBool01 (c.laterFit j k))
    | _, _, _ => (s, "bad-op")
  | _ => (s, "bad-op")

/-! ## multi-input: the module registered per sub-space and the input width of `final_dense`
   (`EvolvableMultiInput.__init__` / `build_feature_extractor` / `calc_extracted_features_dim` /
   `recreate_network`) -/

/-- a sub-space of a Dict / Tuple observation space: class name, `len(shape)`, `spaces.flatdim` -/
structure SubSpace where
  cls : String
  ndim : Int
  flatdim : Int
deriving DecidableEq, Repr

abbrev SubSpaces := List (String × SubSpace)

/-- `is_vector_space`: 0-D / 1-D Box, Discrete, MultiDiscrete -/
def SubSpace.isPlainVector (s : SubSpace) : Bool :=
  (s.cls == "Box" && (s.ndim == 0 || s.ndim == 1)) || s.cls == "Discrete" || s.cls == "MultiDiscrete"

/-- `is_adhoc_vector_space`: also a 2-D Box unless `recurrent`, and a Box of more than 3 dimensions -/
def SubSpace.isVector (recurrent : Bool) (s : SubSpace) : Bool :=
  s.isPlainVector || (s.cls == "Box" && s.ndim == 2 && !recurrent) || (s.cls == "Box" && decide (3 < s.ndim))

/-- what `build_feature_extractor` registers under `key` (`vec` = keys of the vector spaces):
    nothing for a 0-D / 1-D Box, a CNN for an image, an LSTM for a 2-D Box that is not a vector space,
    `nn.Flatten` otherwise -/
def SubSpace.extractor (vec : List String) (key : String) (s : SubSpace) : Option String :=
  if s.cls == "Box" && (s.ndim == 0 || s.ndim == 1) then none
  else if s.cls == "Box" && s.ndim == 3 then some "EvolvableCNN"
  else if s.cls == "Box" && s.ndim == 2 && !vec.contains key then some "EvolvableLSTM"
  else some "Flatten"

def multiVecSpaces (recurrent : Bool) (obs : SubSpaces) : SubSpaces := obs.filter (fun e => e.2.isVector recurrent)

/-- `total_vector_dims` -/
def multiVecDims (recurrent : Bool) (obs : SubSpaces) : Int :=
  ((multiVecSpaces recurrent obs).map (fun e => e.2.flatdim)).sum

/-- `feature_net`: key ↦ class, insertion order; the vector MLP last -/
def multiNet (recurrent mlp : Bool) (mlpName : String) (obs : SubSpaces) : List (String × String) :=
  obs.filterMap (fun e => (e.2.extractor ((multiVecSpaces recurrent obs).map Prod.fst) e.1).map (fun c => (e.1, c))) ++
    (if mlp then [(mlpName, "EvolvableMLP")] else [])

/-- the modules whose output is a latent vector: those not registered under the key of a vector space -/
def multiLatentMods (recurrent mlp : Bool) (mlpName : String) (obs : SubSpaces) : List (String × String) :=
  (multiNet recurrent mlp mlpName obs).filter (fun e => !((multiVecSpaces recurrent obs).map Prod.fst).contains e.1)

/-- `in_features` of `final_dense`: one latent vector per such module, plus the raw vector observations
    unless they go through the vector MLP -/
def multiFinalIn (recurrent mlp : Bool) (mlpName : String) (latent : Int) (obs : SubSpaces) : Int :=
  latent * ((multiLatentMods recurrent mlp mlpName obs).length : Int) + (if mlp then 0 else multiVecDims recurrent obs)

/-- the width `forward` concatenates: the outputs (each `latent` wide) of the modules kept in
    `extracted_features` (those not popped as vector inputs), then `vector_features` -/
def multiForwardWidth (recurrent mlp : Bool) (mlpName : String) (latent : Int) (obs : SubSpaces) : Int :=
  (((multiLatentMods recurrent mlp mlpName obs).filter (fun e => !(mlp && e.1 == mlpName))).map (fun _ => latent)).sum +
    (if mlp then latent else multiVecDims recurrent obs)

end Arch
