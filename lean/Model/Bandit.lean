import Model.Util
/-
  Model/Bandit.lean — executable model of the confidence matrix of
  `agilerl.algorithms.neural_ucb_bandit.NeuralUCB` / `neural_ts_bandit.NeuralTS`.

  * matrices are `List (List Rat)` (row major), vectors `List Rat`;
  * `smUpdate` is the Sherman–Morrison step of `get_action`, associated exactly as the code writes it:
      sigma_inv -= (sigma_inv @ v @ v.T @ sigma_inv) / (1 + v.T @ sigma_inv @ v)
    i.e. numerator `((S v) vᵀ) S`, denominator `1 + (vᵀ S) v`;
  * the gradient feature `v` (gradient of the chosen arm's output w.r.t. the parameters of the output
    layer, divided by sqrt(out_features)) is an *input* of the model: the network is not modelled;
  * `Agent` is the bookkeeping state `(output-layer numel, agent.numel, sigma_inv, history)` with the
    operations of the library that touch it: `init_params` (also the mutation hook), `get_action`,
    `learn`, `Mutations.mutation`, `clone`, `save_checkpoint`/`load`.

  `Sem` is the semantics of `lamb` at initialisation (DESIGN D16):
    `code`  : `sigma_inv₀ = lamb · I`   (what `init_params` does today)  — so Z₀ = I / lamb
    `paper` : `sigma_inv₀ = I / lamb`   (Z₀ = lamb · I, NeuralUCB paper and the property text)
-/
namespace Bandit

abbrev Vec := List Rat
abbrev Mat := List (List Rat)

def dot (a b : Vec) : Rat := (List.zipWith (· * ·) a b).sum

/-- entry `(i, j)`, `0` outside -/
def Mat.get (M : Mat) (i j : Nat) : Rat := (M.getD i []).getD j 0

/-- column `j` of `M` -/
def col (M : Mat) (j : Nat) : Vec := M.map (fun r => r.getD j 0)

/-- `M @ v` -/
def matVec (M : Mat) (v : Vec) : Vec := M.map (fun r => dot r v)

/-- `v.T @ M` for a matrix with `n` columns -/
def vecMat (n : Nat) (v : Vec) (M : Mat) : Vec := (List.range n).map (fun j => dot v (col M j))

/-- `a @ b.T` (outer product) -/
def outer (a b : Vec) : Mat := a.map (fun x => b.map (fun y => x * y))

/-- `A @ B` where `B` has `n` columns -/
def matMul (n : Nat) (A B : Mat) : Mat := A.map (fun r => vecMat n r B)

def matZip (f : Rat → Rat → Rat) (A B : Mat) : Mat := List.zipWith (List.zipWith f) A B

def scaledIdentity (n : Nat) (c : Rat) : Mat :=
  (List.range n).map (fun i => (List.range n).map (fun j => if i = j then c else 0))

def identity (n : Nat) : Mat := scaledIdentity n 1

def WellShaped (n : Nat) (M : Mat) : Prop := M.length = n ∧ ∀ r ∈ M, r.length = n

instance (n : Nat) (M : Mat) : Decidable (WellShaped n M) := by unfold WellShaped; infer_instance

/-- `g.T @ S @ g` — the quantity under the square root of the exploration bonus -/
def bonus (S : Mat) (g : Vec) : Rat := dot (vecMat S.length g S) g

/-- denominator of the update, `1 + v.T @ S @ v` -/
def smDenom (S : Mat) (v : Vec) : Rat := 1 + bonus S v

/-- numerator of the update, `((S @ v) @ v.T) @ S` -/
def smNumer (S : Mat) (v : Vec) : Mat := matMul S.length (outer (matVec S v) v) S

/-- the Sherman–Morrison step of `get_action` -/
def smUpdate (S : Mat) (v : Vec) : Mat :=
  let d := smDenom S v
  matZip (fun s x => s - x / d) S (smNumer S v)

/-- `A + v vᵀ` -/
def addOuter (A : Mat) (v : Vec) : Mat := matZip (· + ·) A (outer v v)

inductive Sem where
  | code    -- sigma_inv₀ = lamb · I
  | paper   -- sigma_inv₀ = I / lamb
deriving Repr, DecidableEq

/-- `sigma_inv` right after `init_params` -/
def sigma0 (sem : Sem) (lamb : Rat) (n : Nat) : Mat :=
  match sem with
  | .code => scaledIdentity n lamb
  | .paper => scaledIdentity n lamb⁻¹

/-- the regularisation matrix `Z₀` whose inverse `sigma0` is -/
def z0 (sem : Sem) (lamb : Rat) (n : Nat) : Mat :=
  match sem with
  | .code => scaledIdentity n lamb⁻¹
  | .paper => scaledIdentity n lamb

/-- `Z₀ + Σ v vᵀ` over a history (oldest first) -/
def gram (Z0 : Mat) (hist : List Vec) : Mat := hist.foldl addOuter Z0

/-! ### the agent's bookkeeping -/

structure Agent where
  sem      : Sem
  /-- `agent.lamb` as it is *now*: an ordinary attribute, changed by an RL-hyper-parameter mutation
      (`hp_config` may list it) or by plain assignment; read by the next `init_params` only -/
  lamb     : Rat
  /-- ghost: the value `lamb` had when `sigma_inv` was last initialised (the λ of the property) -/
  lamb0    : Rat
  /-- number of trainable parameters of the *current* output layer of `agent.actor` -/
  outNumel : Nat
  /-- `agent.numel` -/
  numel    : Nat
  /-- `agent.sigma_inv` -/
  sigmaInv : Mat
  /-- ghost: gradient features of the arms chosen since `sigma_inv` was last initialised -/
  hist     : List Vec
deriving Repr, DecidableEq

/-- `init_params` (constructor and mutation hook): re-reads the output layer, resets the matrix -/
def Agent.initParams (a : Agent) : Agent :=
  { a with lamb0 := a.lamb, numel := a.outNumel, sigmaInv := sigma0 a.sem a.lamb a.outNumel, hist := [] }

/-- `NeuralUCB(...)` / `NeuralTS(...)` with an output layer of `n` parameters -/
def Agent.mk0 (sem : Sem) (lamb : Rat) (n : Nat) : Agent :=
  Agent.initParams { sem := sem, lamb := lamb, lamb0 := lamb, outNumel := n, numel := 0, sigmaInv := [], hist := [] }

/-- `get_action` can run: the gradient of the output layer (`g.length = outNumel` entries) fits the
    `numel` columns the code allocates (`g[k] = torch.cat(...)` raises otherwise) -/
def Agent.accepts (a : Agent) (g : Vec) : Bool := g.length = a.outNumel && a.outNumel = a.numel

/-- the matrix part of `get_action` for the chosen feature `g`; unchanged when the code raises -/
def Agent.update (a : Agent) (g : Vec) : Agent :=
  if a.accepts g then { a with sigmaInv := smUpdate a.sigmaInv g, hist := a.hist ++ [g] } else a

/-- `learn`: weights change, the matrix and all sizes stay -/
def Agent.learn (a : Agent) : Agent := a

/-- `agent.test(env)` / `set_training_mode(flag)`: a fitness evaluation runs the network greedily without
    `get_action`, and the training flag is no part of the property — every later decision returned by
    `get_action` still counts.  The matrix, the sizes and the history stay. -/
def Agent.evaluate (a : Agent) : Agent := a

/-- `agent.lamb = q` (RL-hyper-parameter mutation or assignment), `q > 0`: only the attribute changes;
    the matrix keeps the regulariser it was initialised with until the next `init_params` -/
def Agent.setLamb (a : Agent) (q : Rat) : Agent := if 0 < q then { a with lamb := q } else a

/-- the raw effect of an architecture mutation on the network: a new output layer with `n'`
    parameters (`n' = outNumel` for mutations that keep it) — *before* the hook has run -/
def Agent.setArch (a : Agent) (n' : Nat) : Agent := { a with outNumel := n' }

/-- `Mutations.mutation([agent])`: whatever the kind, the network is (possibly) rebuilt and the
    mutation hook `init_params` runs last -/
def Agent.mutate (a : Agent) (n' : Nat) : Agent := (a.setArch n').initParams

/-- `clone()`: a fresh agent gets clones of the networks, the hook runs on it, then
    `copy_attributes` copies `numel`, `sigma_inv` (and every other plain attribute) from the parent -/
def Agent.clone (a : Agent) : Agent :=
  let c := (Agent.mk0 a.sem a.lamb a.outNumel)
  { c with lamb0 := a.lamb0, numel := a.numel, sigmaInv := a.sigmaInv, hist := a.hist }

/-- `target.load_checkpoint(path)` where `path` holds `saved` (also the core of the classmethod
    `load`, whose `target` is a freshly constructed agent): the networks of `target` are replaced by
    ones rebuilt from the saved `init_dict` (so the output layer has the saved size), the hook
    `init_params` runs on them, then every saved plain attribute (`lamb`, `numel`, `sigma_inv`, …)
    is restored -/
def Agent.loadFrom (target saved : Agent) : Agent :=
  let c := (target.setArch saved.outNumel).initParams
  { c with lamb := saved.lamb, lamb0 := saved.lamb0, numel := saved.numel, sigmaInv := saved.sigmaInv,
           hist := saved.hist }

/-- `save_checkpoint` + `load` (round trip through a fresh agent of the same class) -/
def Agent.reload (a : Agent) : Agent :=
  (Agent.mk0 a.sem a.lamb a.outNumel).loadFrom a

inductive Op where
  | update (g : Vec)
  | learn
  | mutate (n' : Nat)
  | clone
  | reload
  | init                 -- explicit `agent.init_params()`
  | setLamb (q : Rat)
  | evaluate             -- `agent.test(env)` / `set_training_mode`
deriving Repr, DecidableEq

def Agent.step (a : Agent) : Op → Agent
  | .update g => a.update g
  | .learn => a.learn
  | .mutate n' => a.mutate n'
  | .clone => a.clone
  | .reload => a.reload
  | .init => a.initParams
  | .setLamb q => a.setLamb q
  | .evaluate => a.evaluate

def Agent.run (a : Agent) (ops : List Op) : Agent := ops.foldl Agent.step a

/-- `Z₀ + Σ g gᵀ` since the last initialisation, `Z₀` built from the `lamb` of that initialisation -/
def Agent.gram (a : Agent) : Mat := Bandit.gram (z0 a.sem a.lamb0 a.numel) a.hist

end Bandit

/-! ### line protocol

    bandit new <code|paper> <lamb> <n>      construct (→ ok | reject when lamb ≤ 0)
    bandit update <g…>                      → ok | reject (size mismatch: the real code raises)
                                              | singular (denominator 0; unreachable for lamb > 0)
    bandit bonus <g…>                       → gᵀ S g as an exact rational | reject
    bandit learn                            → ok
    bandit eval                             agent.test(env) / set_training_mode: nothing changes → ok
    bandit setlamb <q>                      agent.lamb = q (→ ok | reject when q ≤ 0); used by the next init only
    bandit lamb                             → "<lamb now> <lamb of the last initialisation>"
    bandit arch <n'>                        raw architecture change, hook NOT run → ok
    bandit hook                             init_params → ok
    bandit mutate <n'>                      arch + hook → ok
    bandit clone | bandit reload            → ok
    bandit fork                             clone() with the parent kept alive; the copy is selected → its index
    bandit sel <i>                          select live agent i (the session starts with agent 0) → ok
    bandit live                             → number of live agents
    bandit sizes                            → "<outNumel> <numel> <rows> <wellshaped 0/1>"
    bandit count                            → number of updates since the last initialisation
    bandit dump                             → all entries of sigma_inv, row major, exact
    bandit fix <k>                          → ⌊entry · 2^k⌋ for all entries (fixed point, cheap to ship)
    bandit check                            → "1" iff gram · sigma_inv = I and sigma_inv · gram = I exactly
    bandit symm                             → "1" iff sigma_inv is exactly symmetric
-/
namespace Bandit
open Util

/-- `agent` is the selected agent; `slots` holds every live agent of the session (the selected one
    is written back on `sel` / `fork`), so that a parent and its clones can be driven alternately -/
structure IOState where
  agent : Option Agent := none
  slots : List Agent := []
  cur   : Nat := 0

def parseSem? : String → Option Sem
  | "code" => some .code
  | "paper" => some .paper
  | _ => none

def isSymm (M : Mat) : Bool :=
  (List.range M.length).all (fun i => (List.range M.length).all (fun j => M.get i j == M.get j i))

def Agent.checkInverse (a : Agent) : Bool :=
  let n := a.numel
  matMul n a.gram a.sigmaInv == identity n && matMul n a.sigmaInv a.gram == identity n

def step (s : IOState) : List String → IOState × String
  | ["new", sem, lamb, n] =>
    match parseSem? sem, parseRat? lamb, parseNat? n with
    | some sem, some lamb, some n =>
      if lamb ≤ 0 then (s, "reject")           -- `assert lamb > 0` in the constructor
      else ({ agent := some (Agent.mk0 sem lamb n), slots := [Agent.mk0 sem lamb n], cur := 0 }, "ok")
    | _, _, _ => (s, "bad-op")
  | op :: args =>
    match s.agent with
    | none => (s, "bad-op")
    | some a =>
      match op, args with
      | "update", ws =>
        match parseRats? ws with
        | some g =>
          if !a.accepts g then (s, "reject")
          else if smDenom a.sigmaInv g = 0 then (s, "singular")
          else ({ s with agent := some (a.update g) }, "ok")
        | none => (s, "bad-op")
      | "bonus", ws =>
        match parseRats? ws with
        | some g => if g.length = a.numel then (s, showRat (bonus a.sigmaInv g)) else (s, "reject")
        | none => (s, "bad-op")
      | "learn", [] => ({ s with agent := some a.learn }, "ok")
      | "eval", [] => ({ s with agent := some a.evaluate }, "ok")
      | "setlamb", [q] =>
        match parseRat? q with
        | some q => if q ≤ 0 then (s, "reject") else ({ s with agent := some (a.setLamb q) }, "ok")
        | none => (s, "bad-op")
      | "lamb", [] => (s, showRat a.lamb ++ " " ++ showRat a.lamb0)
      | "arch", [n] =>
        match parseNat? n with
        | some n => ({ s with agent := some (a.setArch n) }, "ok")
        | none => (s, "bad-op")
      | "hook", [] => ({ s with agent := some a.initParams }, "ok")
      | "mutate", [n] =>
        match parseNat? n with
        | some n => ({ s with agent := some (a.mutate n) }, "ok")
        | none => (s, "bad-op")
      | "clone", [] => ({ s with agent := some a.clone }, "ok")
      | "fork", [] =>          -- `clone()` with the parent staying alive: the copy (by value) is selected
        let slots := s.slots.set s.cur a
        ({ agent := some a.clone, slots := slots ++ [a.clone], cur := slots.length }, toString slots.length)
      | "sel", [i] =>
        match parseNat? i with
        | some i =>
          let slots := s.slots.set s.cur a
          match slots[i]? with
          | some b => ({ agent := some b, slots := slots, cur := i }, "ok")
          | none => (s, "bad-op")
        | none => (s, "bad-op")
      | "live", [] => (s, toString s.slots.length)
      | "reload", [] => ({ s with agent := some a.reload }, "ok")
      | "sizes", [] =>
        (s, s!"{a.outNumel} {a.numel} {a.sigmaInv.length} {showBool (decide (WellShaped a.numel a.sigmaInv))}")
      | "count", [] => (s, toString a.hist.length)
      | "dump", [] => (s, showRats a.sigmaInv.flatten)
      | "fix", [k] =>
        match parseNat? k with
        | some k => (s, showInts (a.sigmaInv.flatten.map (fun x => (x * ((2 ^ k : Nat) : Rat)).floor)))
        | none => (s, "bad-op")
      | "check", [] => (s, showBool a.checkInverse)
      | "symm", [] => (s, showBool (isSymm a.sigmaInv))
      | _, _ => (s, "bad-op")
  | _ => (s, "bad-op")

end Bandit

/-! ### wiring of the confidence matrix to the CURRENT output layer (C19, size clause)

    `Wire` adds to the bookkeeping state `Agent` the identities the code juggles: `layer` names the output-layer
    object of the agent's current actor (`a.outNumel` is its parameter count), `exp` / `expN` the object
    `exp_layer` is bound to and its parameter count (0 = unbound), `hooked` whether `init_params` is registered as
    mutation hook, `next` the next unused identity.  The ops state what the library is meant to do (and does, see
    `Proofs/BanditWireGenEq.lean`: the event lists generated from the source run to exactly these). -/
namespace Bandit

inductive Kind where
  | none | arch | param | act | rlhp
deriving Repr, DecidableEq

/-- the kinds whose method hands a (possibly rebuilt) network back to the agent -/
def Kind.setsNet : Kind → Bool
  | .arch | .param | .act => true
  | _ => false

structure Wire where
  a      : Agent
  layer  : Nat
  exp    : Nat
  expN   : Nat
  hooked : Bool
  next   : Nat
deriving Repr, DecidableEq

/-- `init_params`: `exp_layer` re-bound to the output layer of the current actor, then `numel`, `sigma_inv` -/
def Wire.initParams (w : Wire) : Wire :=
  { w with a := w.a.initParams, exp := w.layer, expN := w.a.outNumel }

/-- `mutation_hook()`: every registered hook -/
def Wire.hook (w : Wire) : Wire := if w.hooked then w.initParams else w

/-- a network whose output layer is object `id` with `n` parameters becomes the agent's actor -/
def Wire.setNet (w : Wire) (id n : Nat) : Wire := { w with a := w.a.setArch n, layer := id }

/-- the constructor: actor `id` with `n` output parameters, `init_params`, hook registered -/
def Wire.mk0 (sem : Sem) (lamb : Rat) (n id : Nat) : Wire :=
  { a := Agent.mk0 sem lamb n, layer := id, exp := id, expN := n, hooked := true, next := id + 1 }

def Wire.update (w : Wire) (g : Vec) : Wire := { w with a := w.a.update g }
def Wire.learn (w : Wire) : Wire := w

/-- `Mutations.mutation([agent])` having drawn kind `k`: arch / param / act hand back a network (output layer
    `n'` parameters, a new object for all the model knows), rl_hp may assign `lamb := q`; whatever the kind the
    hook runs afterwards.  (Each frame op consumes two identities.) -/
def Wire.mutate (w : Wire) (k : Kind) (n' : Nat) (q : Option Rat) : Wire :=
  let w1 : Wire :=
    if k.setsNet then w.setNet w.next n'
    else match k, q with
      | .rlhp, some q => { w with a := w.a.setLamb q }
      | _, _ => w
  { w1.hook with next := w.next + 2 }

/-- `clone()`: a new agent around clones of the networks, bound to ITS OWN output layer, carrying the parent's
    `numel`, `sigma_inv` (and `lamb`, history) -/
def Wire.clone (w : Wire) : Wire :=
  { a := w.a.clone, layer := w.next, exp := w.next, expN := w.a.outNumel, hooked := w.hooked, next := w.next + 2 }

/-- `target.load_checkpoint(path)` with `saved` in the file -/
def Wire.loadFrom (target saved : Wire) : Wire :=
  { a := target.a.loadFrom saved.a, layer := target.next, exp := target.next, expN := saved.a.outNumel,
    hooked := target.hooked, next := target.next + 2 }

/-- `save_checkpoint` + classmethod `load` -/
def Wire.reload (w : Wire) : Wire :=
  { a := w.a.reload, layer := w.next, exp := w.next, expN := w.a.outNumel, hooked := w.hooked, next := w.next + 2 }

inductive WOp where
  | update (g : Vec)
  | learn
  | mutate (k : Kind) (n' : Nat) (q : Option Rat)
  | clone
  | reload
  | loadInto (target : Wire)      -- the current agent is saved, `target.load_checkpoint` continues
deriving Repr, DecidableEq

def Wire.step (w : Wire) : WOp → Wire
  | .update g => w.update g
  | .learn => w.learn
  | .mutate k n' q => w.mutate k n' q
  | .clone => w.clone
  | .reload => w.reload
  | .loadInto t => t.loadFrom w

def Wire.run (w : Wire) (ops : List WOp) : Wire := ops.foldl Wire.step w

/-- `exp_layer` is the output layer of the current actor, `numel` its parameter count -/
def Wire.Bound (w : Wire) : Prop := w.exp = w.layer ∧ w.expN = w.a.outNumel ∧ w.a.numel = w.a.outNumel

instance (w : Wire) : Decidable w.Bound := by unfold Wire.Bound; infer_instance

end Bandit
