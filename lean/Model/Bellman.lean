import Model.Util
/-
  Model/Bellman.lean — executable model of the value-based learn step (property C08).

  What is modelled (the *logic* of `update()/learn()` and `soft_update()` of DQN, CQN, RainbowDQN's
  target tracking, DDPG, TD3, MADDPG, MATD3):

  * the Bellman target          y = r + γ·(1 − d)·q'
  * how q' is selected from the target network's outputs: max over actions (DQN, CQN), double-Q
    gather (argmax of the ONLINE net, value of the TARGET net), twin minimum (TD3, MATD3), the
    centralised critic's value (MADDPG, MATD3: one value per row, per agent its own r and d)
  * the loss each learner minimises as a function of network outputs (`nn.MSELoss`, mean reduction)
  * `soft_update`: θ⁻ ← τ·θ + (1 − τ)·θ⁻ element-wise over `zip(online, target)` (zip semantics:
    the shorter list decides — a target that exposes no tensors is not updated at all)
  * the policy-delay schedule: `learn_counter += 1; if learn_counter % policy_freq == 0: …`

  What is NOT modelled (inputs of the model): network forward passes, the optimiser, the CQL
  regulariser `logsumexp(Q).mean() − Q.mean()`, target-policy smoothing noise, float rounding.
  Core Lean only; numbers are exact `Rat`.
-/
namespace Bellman

/-! ### selectors -/

def rmax (a b : Rat) : Rat := if a ≤ b then b else a
def rmin (a b : Rat) : Rat := if a ≤ b then a else b

/-- `tensor.max(dim=1)[0]` of one row (rows are never empty in the real code) -/
def maxL : List Rat → Rat
  | [] => 0
  | [x] => x
  | x :: y :: r => rmax x (maxL (y :: r))

/-- `tensor.argmax(dim=1)` of one row: index of the FIRST maximal entry -/
def argmaxL : List Rat → Nat
  | [] => 0
  | [_] => 0
  | x :: y :: r => if maxL (y :: r) ≤ x then 0 else argmaxL (y :: r) + 1

/-- `tensor.gather(1, idx)` of one row -/
def gather (l : List Rat) (i : Nat) : Rat := l.getD i 0

/-! ### Bellman target and loss -/

/-- `y_j = rewards + gamma * q_target * (1 - dones)` -/
def y (r γ d q' : Rat) : Rat := r + γ * (1 - d) * q'

/-- `nn.MSELoss()(q, y)` with the default mean reduction (same shapes, no broadcasting) -/
def mse (qs ys : List Rat) : Rat :=
  (List.zipWith (fun q t => (q - t) * (q - t)) qs ys).sum / (qs.length : Rat)

/-- a row of a discrete-action learner after the networks have been evaluated -/
structure QRow where
  r : Rat
  d : Rat
  q : Rat                -- Q_online(s, a) (already gathered at the action taken)
  nextOn : List Rat      -- Q_online(s', ·)   (used by the double-Q selector only)
  nextTg : List Rat      -- Q_target(s', ·)
deriving Repr

/-- a row of a single-critic learner (DDPG; one agent of MADDPG with its centralised critic) -/
structure CRow where
  r : Rat
  d : Rat
  q : Rat                -- Q(s, a)            (MADDPG: Q_i(x, a_1 … a_N))
  q' : Rat               -- Q_target(s', a')   (MADDPG: Q_i⁻(x', μ_1⁻(o_1') … μ_N⁻(o_N')))
deriving Repr

/-- a row of a twin-critic learner (TD3; one agent of MATD3) -/
structure TRow where
  r : Rat
  d : Rat
  q1 : Rat
  q2 : Rat
  n1 : Rat               -- Q1_target(s', a')
  n2 : Rat               -- Q2_target(s', a')
deriving Repr

def targetsDQN (γ : Rat) (rows : List QRow) : List Rat :=
  rows.map (fun t => y t.r γ t.d (maxL t.nextTg))

def targetsDouble (γ : Rat) (rows : List QRow) : List Rat :=
  rows.map (fun t => y t.r γ t.d (gather t.nextTg (argmaxL t.nextOn)))

/-- `DQN.update` with `double=False`: the value returned by `learn` -/
def lossDQN (γ : Rat) (rows : List QRow) : Rat := mse (rows.map (·.q)) (targetsDQN γ rows)

/-- `DQN.update` with `double=True` -/
def lossDouble (γ : Rat) (rows : List QRow) : Rat := mse (rows.map (·.q)) (targetsDouble γ rows)

/-- `CQN.learn`: `q1_loss = cql1_loss + 0.5 * mse(q_eval, q_target)`; `cql` is an opaque input -/
def lossCQN (dbl : Bool) (cql γ : Rat) (rows : List QRow) : Rat :=
  cql + (1 / 2) * (if dbl then lossDouble γ rows else lossDQN γ rows)

def targetsDDPG (γ : Rat) (rows : List CRow) : List Rat := rows.map (fun t => y t.r γ t.d t.q')

/-- `DDPG.learn`: the critic loss -/
def lossDDPG (γ : Rat) (rows : List CRow) : Rat := mse (rows.map (·.q)) (targetsDDPG γ rows)

def targetsTD3 (γ : Rat) (rows : List TRow) : List Rat :=
  rows.map (fun t => y t.r γ t.d (rmin t.n1 t.n2))

/-- `TD3.learn`: `criterion(q1, y) + criterion(q2, y)` with the twin-minimum target -/
def lossTD3 (γ : Rat) (rows : List TRow) : Rat :=
  mse (rows.map (·.q1)) (targetsTD3 γ rows) + mse (rows.map (·.q2)) (targetsTD3 γ rows)

/-- `MADDPG.learn`: one critic loss per agent, each from its own rewards, dones and critic -/
def lossMADDPG (γ : Rat) (agents : List (List CRow)) : List Rat := agents.map (lossDDPG γ)

/-- `MATD3.learn` -/
def lossMATD3 (γ : Rat) (agents : List (List TRow)) : List Rat := agents.map (lossTD3 γ)

/-! ### soft update and the delay schedule -/

/-- `for e, t in zip(net.parameters(), target.parameters()): t.copy_(tau*e + (1-tau)*t)`
    on the flattened weights -/
def blend (τ : Rat) (θ θt : List Rat) : List Rat :=
  List.zipWith (fun e t => τ * e + (1 - τ) * t) θ θt

/-- `n` soft updates towards fixed online weights `θ` -/
def softN (τ : Rat) (θ : List Rat) : Nat → List Rat → List Rat
  | 0, t => t
  | n + 1, t => blend τ θ (softN τ θ n t)

/-- closed form of `softN` -/
def closedN (τ : Rat) (θ : List Rat) (n : Nat) (θt : List Rat) : List Rat :=
  List.zipWith (fun e t => e + (1 - τ) ^ n * (t - e)) θ θt

/-- `self.learn_counter += 1; if self.learn_counter % self.policy_freq == 0:` — does the learn
    step entered with counter `c` update the actor and the targets? -/
def fires (pf c : Nat) : Bool := (c + 1) % pf == 0

/-- which of the next `n` learn steps (entered with counter `c`) move the targets -/
def sched (pf : Nat) : Nat → Nat → List Bool
  | _, 0 => []
  | c, n + 1 => fires pf c :: sched pf (c + 1) n

/-- consecutive learn steps of a delayed learner; `θs` are the online weights at the moment of
    each step's soft update (they are whatever the optimiser made them) -/
def runTargets (pf : Nat) (τ : Rat) : Nat → List (List Rat) → List Rat → Nat × List Rat
  | c, [], t => (c, t)
  | c, θ :: rest, t => runTargets pf τ (c + 1) rest (if fires pf c then blend τ θ t else t)

end Bellman

/-! ### line protocol -/
namespace Bellman
open Util

structure IOState where
  pf : Nat := 1
  tau : Rat := 1
  counter : Nat := 0
  target : List Rat := []

/-- consume `n` records of `w` numbers -/
def records (w : Nat) (xs : List Rat) : List (List Rat) := chunks w xs

def mkQRows (k : Nat) (dbl : Bool) (xs : List Rat) : Option (List QRow) :=
  let w := if dbl then 3 + 2 * k else 3 + k
  if k = 0 ∨ xs.length % w ≠ 0 then none else
  some ((records w xs).map (fun rec =>
    let r := rec.getD 0 0
    let d := rec.getD 1 0
    let q := rec.getD 2 0
    let rest := rec.drop 3
    if dbl then { r := r, d := d, q := q, nextOn := rest.take k, nextTg := rest.drop k }
    else { r := r, d := d, q := q, nextOn := [], nextTg := rest }))

def mkCRows (xs : List Rat) : Option (List CRow) :=
  if xs.length % 4 ≠ 0 then none else
  some ((records 4 xs).map (fun rec =>
    { r := rec.getD 0 0, d := rec.getD 1 0, q := rec.getD 2 0, q' := rec.getD 3 0 }))

def mkTRows (xs : List Rat) : Option (List TRow) :=
  if xs.length % 6 ≠ 0 then none else
  some ((records 6 xs).map (fun rec =>
    { r := rec.getD 0 0, d := rec.getD 1 0, q1 := rec.getD 2 0, q2 := rec.getD 3 0,
      n1 := rec.getD 4 0, n2 := rec.getD 5 0 }))

/-- the empty batch: `MSELoss` of empty tensors is NaN in the real code, never a number -/
def showLoss (n : Nat) (v : Rat) : String := if n = 0 then "nan" else showRat v

def showBools (l : List Bool) : String := " ".intercalate (l.map showBool)

def step (s : IOState) : List String → IOState × String
  | ["y", r, g, d, q] =>
    match parseRat? r, parseRat? g, parseRat? d, parseRat? q with
    | some r, some g, some d, some q => (s, showRat (y r g d q))
    | _, _, _, _ => (s, "bad-op")
  | "loss" :: kind :: g :: rest =>
    match parseRat? g with
    | none => (s, "bad-op")
    | some γ =>
      match kind, rest with
      | "dqn", k :: ws =>
        match parseNat? k, parseRats? ws with
        | some k, some xs =>
          match mkQRows k false xs with
          | some rows => (s, showLoss rows.length (lossDQN γ rows))
          | none => (s, "bad-op")
        | _, _ => (s, "bad-op")
      | "double", k :: ws =>
        match parseNat? k, parseRats? ws with
        | some k, some xs =>
          match mkQRows k true xs with
          | some rows => (s, showLoss rows.length (lossDouble γ rows))
          | none => (s, "bad-op")
        | _, _ => (s, "bad-op")
      | "cqn", dbl :: cql :: k :: ws =>
        match parseNat? dbl, parseRat? cql, parseNat? k, parseRats? ws with
        | some dbl, some cql, some k, some xs =>
          if dbl > 1 then (s, "bad-op") else
          match mkQRows k (dbl = 1) xs with
          | some rows => (s, showLoss rows.length (lossCQN (dbl = 1) cql γ rows))
          | none => (s, "bad-op")
        | _, _, _, _ => (s, "bad-op")
      | "ddpg", ws =>
        match parseRats? ws with
        | some xs =>
          match mkCRows xs with
          | some rows => (s, showLoss rows.length (lossDDPG γ rows))
          | none => (s, "bad-op")
        | none => (s, "bad-op")
      | "td3", ws =>
        match parseRats? ws with
        | some xs =>
          match mkTRows xs with
          | some rows => (s, showLoss rows.length (lossTD3 γ rows))
          | none => (s, "bad-op")
        | none => (s, "bad-op")
      | "maddpg", a :: n :: ws =>
        -- `a` agents, `n` rows each, agent-major
        match parseNat? a, parseNat? n, parseRats? ws with
        | some a, some n, some xs =>
          if a = 0 ∨ n = 0 ∨ xs.length ≠ a * n * 4 then (s, "bad-op") else
          match allSome ((chunks (n * 4) xs).map mkCRows) with
          | some agents => (s, showRats (lossMADDPG γ agents))
          | none => (s, "bad-op")
        | _, _, _ => (s, "bad-op")
      | "matd3", a :: n :: ws =>
        match parseNat? a, parseNat? n, parseRats? ws with
        | some a, some n, some xs =>
          if a = 0 ∨ n = 0 ∨ xs.length ≠ a * n * 6 then (s, "bad-op") else
          match allSome ((chunks (n * 6) xs).map mkTRows) with
          | some agents => (s, showRats (lossMATD3 γ agents))
          | none => (s, "bad-op")
        | _, _, _ => (s, "bad-op")
      | _, _ => (s, "bad-op")
  | "blend" :: t :: k :: ws =>
    -- blend τ k θ_1 … θ_k θ⁻_1 … θ⁻_k
    match parseRat? t, parseNat? k, parseRats? ws with
    | some τ, some k, some xs =>
      if xs.length ≠ 2 * k then (s, "bad-op")
      else if τ ≤ 0 then (s, "reject")               -- every constructor asserts tau > 0
      else (s, showRats (blend τ (xs.take k) (xs.drop k)))
    | _, _, _ => (s, "bad-op")
  | "softn" :: form :: t :: n :: k :: ws =>
    -- softn iter|closed τ n k θ… θ⁻…  : n soft updates towards fixed online weights
    match parseRat? t, parseNat? n, parseNat? k, parseRats? ws with
    | some τ, some n, some k, some xs =>
      if xs.length ≠ 2 * k then (s, "bad-op")
      else if τ ≤ 0 then (s, "reject")
      else if form = "iter" then (s, showRats (softN τ (xs.take k) n (xs.drop k)))
      else if form = "closed" then (s, showRats (closedN τ (xs.take k) n (xs.drop k)))
      else (s, "bad-op")
    | _, _, _, _ => (s, "bad-op")
  | ["sched", pf, c, n] =>
    match parseNat? pf, parseNat? c, parseNat? n with
    | some pf, some c, some n =>
      if pf = 0 then (s, "reject")                    -- constructors assert policy_freq >= 1
      else (s, showBools (sched pf c n))
    | _, _, _ => (s, "bad-op")
  | "init" :: pf :: t :: c :: ws =>
    -- a learner whose targets are being followed: policy_freq, tau, learn_counter, target weights
    match parseNat? pf, parseRat? t, parseNat? c, parseRats? ws with
    | some pf, some τ, some c, some xs =>
      if pf = 0 ∨ τ ≤ 0 then (s, "reject")
      else ({ pf := pf, tau := τ, counter := c, target := xs }, "ok")
    | _, _, _, _ => (s, "bad-op")
  | "step" :: ws =>
    -- one learn step; the arguments are the online weights after the optimiser step
    match parseRats? ws with
    | some θ =>
      if θ.length ≠ s.target.length then (s, "bad-op") else
      let (c', t') := runTargets s.pf s.tau s.counter [θ] s.target
      ({ s with counter := c', target := t' },
        showBool (fires s.pf s.counter) ++ " " ++ toString c' ++ " " ++ showRats t')
    | none => (s, "bad-op")
  | _ => (s, "bad-op")

/-! ### tensor shapes and torch broadcasting (C08: `(B, 1)` against `(B,)`) -/

/-- the shape of a tensor; `[]` = a 0-d tensor / a Python number -/
abbrev Shape := List Nat

/-- one axis of torch broadcasting: equal sizes, or one of them 1; otherwise RuntimeError (`none`) -/
def bdim (a b : Nat) : Option Nat :=
  if a = b then some a else if a = 1 then some b else if b = 1 then some a else none

/-- broadcasting of two shapes given from the LAST axis to the first -/
def bcastRev : Shape → Shape → Option Shape
  | [], l => some l
  | a :: as, [] => some (a :: as)
  | a :: as, b :: bs =>
    match bdim a b, bcastRev as bs with
    | some d, some r => some (d :: r)
    | _, _ => none

/-- the shape of `x ∘ y` for an element-wise binary torch operation (`none` = torch raises) -/
def bcast (s t : Option Shape) : Option Shape :=
  match s, t with
  | some s, some t => (bcastRev s.reverse t.reverse).map List.reverse
  | _, _ => none

/-- a Python number / 0-d tensor -/
def scalarS : Option Shape := some []

/-- position of axis `d` (negative: from the end) in a tensor of `n` axes -/
def normDim (n : Nat) (d : Int) : Option Nat :=
  if 0 ≤ d then (if d.toNat < n then some d.toNat else none)
  else (if (-d).toNat ≤ n then some (n - (-d).toNat) else none)

def eraseAt : Shape → Nat → Shape
  | [], _ => []
  | _ :: r, 0 => r
  | a :: r, k + 1 => a :: eraseAt r k

def insertAt : Shape → Nat → Nat → Shape
  | l, 0, v => v :: l
  | [], _ + 1, v => [v]
  | a :: r, k + 1, v => a :: insertAt r k v

def setAt : Shape → Nat → Nat → Shape
  | [], _, _ => []
  | _ :: r, 0, v => v :: r
  | a :: r, k + 1, v => a :: setAt r k v

/-- `t.max(dim=d, keepdim=keep)[0]`, `t.argmax(dim=d)`, `t.mean(dim=d)`: axis `d` removed (or kept with
    size 1); reducing an EMPTY axis with max / argmax raises -/
def sReduce (d : Int) (keep : Bool) : Option Shape → Option Shape
  | some s =>
    match normDim s.length d with
    | some k => if s.getD k 0 = 0 then none else some (if keep then setAt s k 1 else eraseAt s k)
    | none => none
  | none => none

/-- `t.unsqueeze(d)` -/
def sUnsqueeze (d : Int) : Option Shape → Option Shape
  | some s => (normDim (s.length + 1) d).map (fun k => insertAt s k 1)
  | none => none

/-- `t.squeeze(d)`: axis `d` is dropped only when its size is 1 -/
def sSqueeze (d : Int) : Option Shape → Option Shape
  | some s => (normDim s.length d).map (fun k => if s.getD k 0 = 1 then eraseAt s k else s)
  | none => none

/-- `t.squeeze()` without a dim: EVERY axis of size 1 is dropped (also a batch axis of size 1) -/
def sSqueezeAll : Option Shape → Option Shape
  | some s => some (s.filter (· ≠ 1))
  | none => none

def numel (s : Shape) : Nat := s.foldl (· * ·) 1

/-- `t.view(new)` / `t.reshape(new)`; an entry `-1` of `new` is inferred -/
def sView (new : List Int) : Option Shape → Option Shape
  | some s =>
    let known := (new.filter (0 ≤ ·)).map Int.toNat
    let holes := (new.filter (· < 0)).length
    if holes = 0 then (if numel known = numel s then some known else none)
    else if holes = 1 ∧ numel known ≠ 0 ∧ numel s % numel known = 0 then
      some (new.map (fun v => if v < 0 then numel s / numel known else v.toNat))
    else none
  | none => none

/-- all pairs `j ≠ k`: the index tensor may be smaller than the source away from the gather axis -/
def gatherFits : Nat → Shape → Shape → Nat → Bool
  | _, [], [], _ => true
  | k, a :: as, b :: bs, j => (j == k || decide (b ≤ a)) && gatherFits k as bs (j + 1)
  | _, _, _, _ => false

/-- `t.gather(d, idx)`: same number of axes, `idx` not larger than `t` away from axis `d`; the result has the
    shape of `idx` -/
def sGather (d : Int) (s idx : Option Shape) : Option Shape :=
  match s, idx with
  | some s, some i =>
    match normDim s.length d with
    | some k => if gatherFits k s i 0 then some i else none
    | none => none
  | _, _ => none

/-- `t.mean()` / `t.sum()` / `nn.MSELoss()` with its mean reduction: a 0-d tensor -/
def sAll : Option Shape → Option Shape
  | some _ => some []
  | none => none

/-- number of axes (`t.ndim`); an error has none -/
def sNdim : Option Shape → Nat
  | some s => s.length
  | none => 0

/-! the hand model of the shapes of a TD learn step: the target `r + γ·q'·(1 − d)` (any order of the factors) has
    the broadcast shape of reward, next value and done flag; the element-wise loss that of prediction and target -/
def tdTargetShape (r d q' : Option Shape) : Option Shape := bcast r (bcast q' d)
def tdLossShape (p r d q' : Option Shape) : Option Shape := bcast p (tdTargetShape r d q')

/-- `Q(s').max(dim=1)[0].unsqueeze(1)` -/
def maxNextShape (q : Option Shape) : Option Shape := sUnsqueeze 1 (sReduce 1 false q)
/-- `Q⁻(s').gather(1, Q(s').argmax(dim=1).unsqueeze(1))` -/
def doubleNextShape (qOn qTg : Option Shape) : Option Shape := sGather 1 qTg (sUnsqueeze 1 (sReduce 1 false qOn))

/-! ### values under broadcasting, for tensors of at most two axes -/

/-- entry `(i, j)` of the broadcast of a tensor with shape `s` and row-major data `d` -/
def bread (s : Option Shape) (d : List Rat) (i j : Nat) : Rat :=
  match s with
  | some [r, c] => d.getD ((if r = 1 then 0 else i) * c + (if c = 1 then 0 else j)) 0
  | some [c] => d.getD (if c = 1 then 0 else j) 0
  | some [] => d.getD 0 0
  | _ => 0

/-- `f(x, y)` element-wise with torch broadcasting, as a list of rows (`[]` when torch raises or the result has
    not two axes) -/
def bzip2 (f : Rat → Rat → Rat) (s1 : Option Shape) (d1 : List Rat) (s2 : Option Shape) (d2 : List Rat) :
    List (List Rat) :=
  match bcast s1 s2 with
  | some [r, c] => (List.range r).map fun i => (List.range c).map fun j => f (bread s1 d1 i j) (bread s2 d2 i j)
  | _ => []

def sqErr (q t : Rat) : Rat := (q - t) * (q - t)

/-- `nn.MSELoss()(x, y)` as torch computes it: broadcast, square, mean over ALL entries -/
def mseBroadcast (s1 : Option Shape) (d1 : List Rat) (s2 : Option Shape) (d2 : List Rat) : Rat :=
  let e := (bzip2 sqErr s1 d1 s2 d2).flatten
  e.sum / (e.length : Rat)

end Bellman
