import Model.Util
/-
  Model/Bellman.lean — executable model of the value-based learn step (property C08).

  What is modelled (the *logic* of `update()/learn()` and `soft_update()` of DQN, CQN, RainbowDQN's
  target tracking, DDPG, TD3, MADDPG, MATD3):

  * the Bellman target          y = r + γ·(1 − d)·q'
  * how q' is selected from the target network's outputs: max over actions (DQN, CQN), double-Q
    gather (argmax of the ONLINE net, value of the TARGET net), twin minimum (TD3, MATD3), the
    centralised critic's value (MADDPG, MATD3: one value per row, per agent its own r and d)
  * the loss each learner minimises as a function of network outputs (`nn.MSELoss`, mean reduction)
  * `soft_update`: θ⁻ ← τ·θ + (1 − τ)·θ⁻ element-wise over `zip(online, target)` (zip semantics:
    the shorter list decides — a target that exposes no tensors is not updated at all)
  * the policy-delay schedule: `learn_counter += 1; if learn_counter % policy_freq == 0: …`

  What is NOT modelled (inputs of the model): network forward passes, the optimiser, the CQL
  regulariser `logsumexp(Q).mean() − Q.mean()`, target-policy smoothing noise, float rounding.
  Core Lean only; numbers are exact `Rat`.
-/
namespace Bellman

/-! ### selectors -/

def rmax (a b : Rat) : Rat := if a ≤ b then b else a
def rmin (a b : Rat) : Rat := if a ≤ b then a else b

/-- `tensor.max(dim=1)[0]` of one row (rows are never empty in the real code) -/
def maxL : List Rat → Rat
  | [] => 0
  | [x] => x
  | x :: y :: r => rmax x (maxL (y :: r))

/-- `tensor.argmax(dim=1)` of one row: index of the FIRST maximal entry -/
def argmaxL : List Rat → Nat
  | [] => 0
  | [_] => 0
  | x :: y :: r => if maxL (y :: r) ≤ x then 0 else argmaxL (y :: r) + 1

/-- `tensor.gather(1, idx)` of one row -/
def gather (l : List Rat) (i : Nat) : Rat := l.getD i 0

/-! ### Bellman target and loss -/

/-- `y_j = rewards + gamma * q_target * (1 - dones)` -/
def y (r γ d q' : Rat) : Rat := r + γ * (1 - d) * q'

/-- `nn.MSELoss()(q, y)` with the default mean reduction (same shapes, no broadcasting) -/
def mse (qs ys : List Rat) : Rat :=
  (List.zipWith (fun q t => (q - t) * (q - t)) qs ys).sum / (qs.length : Rat)

/-- a row of a discrete-action learner after the networks have been evaluated -/
structure QRow where
  r : Rat
  d : Rat
  q : Rat                -- Q_online(s, a) (already gathered at the action taken)
  nextOn : List Rat      -- Q_online(s', ·)   (used by the double-Q selector only)
  nextTg : List Rat      -- Q_target(s', ·)
deriving Repr

/-- a row of a single-critic learner (DDPG; one agent of MADDPG with its centralised critic) -/
structure CRow where
  r : Rat
  d : Rat
  q : Rat                -- Q(s, a)            (MADDPG: Q_i(x, a_1 … a_N))
  q' : Rat               -- Q_target(s', a')   (MADDPG: Q_i⁻(x', μ_1⁻(o_1') … μ_N⁻(o_N')))
deriving Repr

/-- a row of a twin-critic learner (TD3; one agent of MATD3) -/
structure TRow where
  r : Rat
  d : Rat
  q1 : Rat
  q2 : Rat
  n1 : Rat               -- Q1_target(s', a')
  n2 : Rat               -- Q2_target(s', a')
deriving Repr

def targetsDQN (γ : Rat) (rows : List QRow) : List Rat :=
  rows.map (fun t => y t.r γ t.d (maxL t.nextTg))

def targetsDouble (γ : Rat) (rows : List QRow) : List Rat :=
  rows.map (fun t => y t.r γ t.d (gather t.nextTg (argmaxL t.nextOn)))

/-- `DQN.update` with `double=False`: the value returned by `learn` -/
def lossDQN (γ : Rat) (rows : List QRow) : Rat := mse (rows.map (·.q)) (targetsDQN γ rows)

/-- `DQN.update` with `double=True` -/
def lossDouble (γ : Rat) (rows : List QRow) : Rat := mse (rows.map (·.q)) (targetsDouble γ rows)

/-- `CQN.learn`: `q1_loss = cql1_loss + 0.5 * mse(q_eval, q_target)`; `cql` is an opaque input -/
def lossCQN (dbl : Bool) (cql γ : Rat) (rows : List QRow) : Rat :=
  cql + (1 / 2) * (if dbl then lossDouble γ rows else lossDQN γ rows)

def targetsDDPG (γ : Rat) (rows : List CRow) : List Rat := rows.map (fun t => y t.r γ t.d t.q')

/-- `DDPG.learn`: the critic loss -/
def lossDDPG (γ : Rat) (rows : List CRow) : Rat := mse (rows.map (·.q)) (targetsDDPG γ rows)

def targetsTD3 (γ : Rat) (rows : List TRow) : List Rat :=
  rows.map (fun t => y t.r γ t.d (rmin t.n1 t.n2))

/-- `TD3.learn`: `criterion(q1, y) + criterion(q2, y)` with the twin-minimum target -/
def lossTD3 (γ : Rat) (rows : List TRow) : Rat :=
  mse (rows.map (·.q1)) (targetsTD3 γ rows) + mse (rows.map (·.q2)) (targetsTD3 γ rows)

/-- `MADDPG.learn`: one critic loss per agent, each from its own rewards, dones and critic -/
def lossMADDPG (γ : Rat) (agents : List (List CRow)) : List Rat := agents.map (lossDDPG γ)

/-- `MATD3.learn` -/
def lossMATD3 (γ : Rat) (agents : List (List TRow)) : List Rat := agents.map (lossTD3 γ)

/-! ### soft update and the delay schedule -/

/-- `for e, t in zip(net.parameters(), target.parameters()): t.copy_(tau*e + (1-tau)*t)`
    on the flattened weights -/
def blend (τ : Rat) (θ θt : List Rat) : List Rat :=
  List.zipWith (fun e t => τ * e + (1 - τ) * t) θ θt

/-- `n` soft updates towards fixed online weights `θ` -/
def softN (τ : Rat) (θ : List Rat) : Nat → List Rat → List Rat
  | 0, t => t
  | n + 1, t => blend τ θ (softN τ θ n t)

/-- closed form of `softN` -/
def closedN (τ : Rat) (θ : List Rat) (n : Nat) (θt : List Rat) : List Rat :=
  List.zipWith (fun e t => e + (1 - τ) ^ n * (t - e)) θ θt

/-- `self.learn_counter += 1; if self.learn_counter % self.policy_freq == 0:` — does the learn
    step entered with counter `c` update the actor and the targets? -/
def fires (pf c : Nat) : Bool := (c + 1) % pf == 0

/-- which of the next `n` learn steps (entered with counter `c`) move the targets -/
def sched (pf : Nat) : Nat → Nat → List Bool
  | _, 0 => []
  | c, n + 1 => fires pf c :: sched pf (c + 1) n

/-- consecutive learn steps of a delayed learner; `θs` are the online weights at the moment of
    each step's soft update (they are whatever the optimiser made them) -/
def runTargets (pf : Nat) (τ : Rat) : Nat → List (List Rat) → List Rat → Nat × List Rat
  | c, [], t => (c, t)
  | c, θ :: rest, t => runTargets pf τ (c + 1) rest (if fires pf c then blend τ θ t else t)

end Bellman

/-! ### line protocol -/
namespace Bellman
open Util

structure IOState where
  pf : Nat := 1
  tau : Rat := 1
  counter : Nat := 0
  target : List Rat := []

/-- consume `n` records of `w` numbers -/
def records (w : Nat) (xs : List Rat) : List (List Rat) := chunks w xs

def mkQRows (k : Nat) (dbl : Bool) (xs : List Rat) : Option (List QRow) :=
  let w := if dbl then 3 + 2 * k else 3 + k
  if k = 0 ∨ xs.length % w ≠ 0 then none else
  some ((records w xs).map (fun rec =>
    let r := rec.getD 0 0
    let d := rec.getD 1 0
    let q := rec.getD 2 0
    let rest := rec.drop 3
    if dbl then { r := r, d := d, q := q, nextOn := rest.take k, nextTg := rest.drop k }
    else { r := r, d := d, q := q, nextOn := [], nextTg := rest }))

def mkCRows (xs : List Rat) : Option (List CRow) :=
  if xs.length % 4 ≠ 0 then none else
  some ((records 4 xs).map (fun rec =>
    { r := rec.getD 0 0, d := rec.getD 1 0, q := rec.getD 2 0, q' := rec.getD 3 0 }))

def mkTRows (xs : List Rat) : Option (List TRow) :=
  if xs.length % 6 ≠ 0 then none else
  some ((records 6 xs).map (fun rec =>
    { r := rec.getD 0 0, d := rec.getD 1 0, q1 := rec.getD 2 0, q2 := rec.getD 3 0,
      n1 := rec.getD 4 0, n2 := rec.getD 5 0 }))

/-- the empty batch: `MSELoss` of empty tensors is NaN in the real code, never a number -/
def showLoss (n : Nat) (v : Rat) : String := if n = 0 then "nan" else showRat v

def showBools (l : List Bool) : String := " ".intercalate (l.map showBool)

def step (s : IOState) : List String → IOState × String
  | ["y", r, g, d, q] =>
    match parseRat? r, parseRat? g, parseRat? d, parseRat? q with
    | some r, some g, some d, some q => (s, showRat (y r g d q))
    | _, _, _, _ => (s, "bad-op")
  | "loss" :: kind :: g :: rest =>
    match parseRat? g with
    | none => (s, "bad-op")
    | some γ =>
      match kind, rest with
      | "dqn", k :: ws =>
        match parseNat? k, parseRats? ws with
        | some k, some xs =>
          match mkQRows k false xs with
          | some rows => (s, showLoss rows.length (lossDQN γ rows))
          | none => (s, "bad-op")
        | _, _ => (s, "bad-op")
      | "double", k :: ws =>
        match parseNat? k, parseRats? ws with
        | some k, some xs =>
          match mkQRows k true xs with
          | some rows => (s, showLoss rows.length (lossDouble γ rows))
          | none => (s, "bad-op")
        | _, _ => (s, "bad-op")
      | "cqn", dbl :: cql :: k :: ws =>
        match parseNat? dbl, parseRat? cql, parseNat? k, parseRats? ws with
        | some dbl, some cql, some k, some xs =>
          if dbl > 1 then (s, "bad-op") else
          match mkQRows k (dbl = 1) xs with
          | some rows => (s, showLoss rows.length (lossCQN (dbl = 1) cql γ rows))
          | none => (s, "bad-op")
        | _, _, _, _ => (s, "bad-op")
      | "ddpg", ws =>
        match parseRats? ws with
        | some xs =>
          match mkCRows xs with
          | some rows => (s, showLoss rows.length (lossDDPG γ rows))
          | none => (s, "bad-op")
        | none => (s, "bad-op")
      | "td3", ws =>
        match parseRats? ws with
        | some xs =>
          match mkTRows xs with
          | some rows => (s, showLoss rows.length (lossTD3 γ rows))
          | none => (s, "bad-op")
        | none => (s, "bad-op")
      | "maddpg", a :: n :: ws =>
        -- `a` agents, `n` rows each, agent-major
        match parseNat? a, parseNat? n, parseRats? ws with
        | some a, some n, some xs =>
          if a = 0 ∨ n = 0 ∨ xs.length ≠ a * n * 4 then (s, "bad-op") else
          match allSome ((chunks (n * 4) xs).map mkCRows) with
          | some agents => (s, showRats (lossMADDPG γ agents))
          | none => (s, "bad-op")
        | _, _, _ => (s, "bad-op")
      | "matd3", a :: n :: ws =>
        match parseNat? a, parseNat? n, parseRats? ws with
        | some a, some n, some xs =>
          if a = 0 ∨ n = 0 ∨ xs.length ≠ a * n * 6 then (s, "bad-op") else
          match allSome ((chunks (n * 6) xs).map mkTRows) with
          | some agents => (s, showRats (lossMATD3 γ agents))
          | none => (s, "bad-op")
        | _, _, _ => (s, "bad-op")
      | _, _ => (s, "bad-op")
  | "blend" :: t :: k :: ws =>
    -- blend τ k θ_1 … θ_k θ⁻_1 … θ⁻_k
    match parseRat? t, parseNat? k, parseRats? ws with
    | some τ, some k, some xs =>
      if xs.length ≠ 2 * k then (s, "bad-op")
      else if τ ≤ 0 then (s, "reject")               -- every constructor asserts tau > 0
      else (s, showRats (blend τ (xs.take k) (xs.drop k)))
    | _, _, _ => (s, "bad-op")
  | "softn" :: form :: t :: n :: k :: ws =>
    -- softn iter|closed τ n k θ… θ⁻…  : n soft updates towards fixed online weights
    match parseRat? t, parseNat? n, parseNat? k, parseRats? ws with
    | some τ, some n, some k, some xs =>
      if xs.length ≠ 2 * k then (s, "bad-op")
      else if τ ≤ 0 then (s, "reject")
      else if form = "iter" then (s, showRats (softN τ (xs.take k) n (xs.drop k)))
      else if form = "closed" then (s, showRats (closedN τ (xs.take k) n (xs.drop k)))
      else (s, "bad-op")
    | _, _, _, _ => (s, "bad-op")
  | ["sched", pf, c, n] =>
    match parseNat? pf, parseNat? c, parseNat? n with
    | some pf, some c, some n =>
      if pf = 0 then (s, "reject")                    -- constructors assert policy_freq >= 1
      else (s, showBools (sched pf c n))
    | _, _, _ => (s, "bad-op")
  | "init" :: pf :: t :: c :: ws =>
    -- a learner whose targets are being followed: policy_freq, tau, learn_counter, target weights
    match parseNat? pf, parseRat? t, parseNat? c, parseRats? ws with
    | some pf, some τ, some c, some xs =>
      if pf = 0 ∨ τ ≤ 0 then (s, "reject")
      else ({ pf := pf, tau := τ, counter := c, target := xs }, "ok")
    | _, _, _, _ => (s, "bad-op")
  | "step" :: ws =>
    -- one learn step; the arguments are the online weights after the optimiser step
    match parseRats? ws with
    | some θ =>
      if θ.length ≠ s.target.length then (s, "bad-op") else
      let (c', t') := runTargets s.pf s.tau s.counter [θ] s.target
      ({ s with counter := c', target := t' },
        showBool (fires s.pf s.counter) ++ " " ++ toString c' ++ " " ++ showRats t')
    | none => (s, "bad-op")
  | _ => (s, "bad-op")

end Bellman
