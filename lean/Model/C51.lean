import Model.Util
/-
  Model/C51.lean — (stub) executable model; see DESIGN.md.  Core Lean only.
-/
namespace C51
open Util

structure IOState where
  dummy : Nat := 0

def step (s : IOState) : List String → IOState × String
  | _ => (s, "bad-op")

end C51
