import Model.Util
/-
  Model/C51.lean — executable model of the categorical (C51) projection of
  `agilerl.algorithms.dqn_rainbow.RainbowDQN._dqn_loss` and of the way `learn` combines the
  1-step / n-step element-wise losses and returns them as priorities.  Core Lean only, exact `Rat`.

  What is a parameter (not modelled): the networks.  A transition carries the *outputs* of the
  three forward passes the code makes —
    `q`    = `actor(next_obs)`                      (online q-values, used for the arg-max),
    `pT`   = `actor_target(next_obs, q=False)`      (A × N target distributions; clamped soft-max,
                                                     so they need not sum to one),
    `logp` = `actor(obs, q=False, log=True)`        (A × N opaque log-probabilities).

  Namespace `Duel` (end of the file's model part) models where those outputs come from:
  `DuelingDistributionalMLP.forward` (agilerl/networks/custom_modules.py) per batch row, given the outputs
  of the value net (N logits) and of the advantage net (A·N logits); `exp` / `log` are parameters (`Duel.Fn`).
-/
namespace C51

/-! ### support -/

structure Cfg where
  N    : Nat          -- num_atoms
  vmin : Rat
  vmax : Rat
deriving Repr

/-- what `__init__` / `_dqn_loss` need in order not to raise (`N = 1` divides by zero,
    `vmin = vmax` makes `b` NaN and `index_add_` raises) -/
def Cfg.Valid (c : Cfg) : Prop := 2 ≤ c.N ∧ c.vmin < c.vmax

instance (c : Cfg) : Decidable c.Valid := by unfold Cfg.Valid; exact inferInstance

/-- `self.delta_z = (v_max - v_min) / (num_atoms - 1)` -/
def Cfg.delta (c : Cfg) : Rat := (c.vmax - c.vmin) / ((c.N : Rat) - 1)

/-- `self.support[j]`, `support = torch.linspace(v_min, v_max, num_atoms)` -/
def Cfg.z (c : Cfg) (j : Nat) : Rat := c.vmin + (j : Rat) * c.delta

/-- `x.clamp(min=lo, max=hi)` = `min(max(x, lo), hi)` -/
def clamp (lo hi x : Rat) : Rat := min (max x lo) hi

/-- `t_z = (rewards + (1 - dones) * gamma * support).clamp(v_min, v_max)`, atom `j` -/
def tz (c : Cfg) (r d g : Rat) (j : Nat) : Rat :=
  clamp c.vmin c.vmax (r + (1 - d) * g * c.z j)

/-- `self.support` as a list -/
def supportList (c : Cfg) : List Rat := (List.range c.N).map c.z

/-- `b = ((t_z - v_min) / delta_z).clamp(0, num_atoms - 1)`.  (The clamp is the repair of the
    float32 overflow; over `Rat` it is the identity for every valid configuration —
    `Proofs.C51Proj.bpos_eq`.) -/
def bpos (c : Cfg) (r d g : Rat) (j : Nat) : Rat :=
  clamp 0 ((c.N : Rat) - 1) ((tz c r d g j - c.vmin) / c.delta)

/-- `L = b.floor(); u = b.ceil(); L[(u > 0) * (L == u)] -= 1; u[(L < N-1) * (L == u)] += 1`
    (the second mask is evaluated on the already corrected `L`) -/
def lowUp (N : Nat) (b : Rat) : Int × Int :=
  let l := b.floor
  let u := b.ceil
  let l' := if 0 < u ∧ l = u then l - 1 else l
  let u' := if l' < (N : Int) - 1 ∧ l' = u then u + 1 else u
  (l', u')

/-! ### the two `index_add_` calls on the flattened `(B * N)` buffer -/

/-- one batch row as `_dqn_loss` sees it after the arg-max selection -/
structure Row where
  r : Rat
  d : Rat
  p : List Rat          -- `target_q_dist[b, next_actions[b], :]`
deriving Repr

/-- `t_z[b, :]` of one transition -/
def tzList (c : Cfg) (g : Rat) (row : Row) : List Rat := (List.range c.N).map (tz c row.r row.d g)

/-- the `(flat index, value)` pairs that batch row number `off / N` contributes to the first
    (`up = false`: `L + offset`, `p * (u - b)`) or to the second (`up = true`: `u + offset`,
    `p * (b - L)`) `index_add_`; `off = offset[row, ·] = row * N` -/
def rowOps (c : Cfg) (g : Rat) (up : Bool) (off : Nat) (row : Row) : List (Int × Rat) :=
  (List.range c.N).map fun j =>
    let b := bpos c row.r row.d g j
    let lu := lowUp c.N b
    let pj := row.p.getD j 0
    if up then (lu.2 + (off : Int), pj * (b - (lu.1 : Rat)))
    else (lu.1 + (off : Int), pj * ((lu.2 : Rat) - b))

/-- `(L + offset).view(-1)` zipped with `(target_q_dist * (u - b)).view(-1)`: row-major,
    row `bi` shifted by `offset = linspace(0, (B-1)·N, B).long()[bi] = bi · N` -/
def allOps (c : Cfg) (g : Rat) (up : Bool) : Nat → List Row → List (Int × Rat)
  | _, [] => []
  | bi, row :: rest => rowOps c g up (bi * c.N) row ++ allOps c g up (bi + 1) rest

/-- `v[i] += x` on a flat buffer (indices are `long`, possibly out of range: then nothing is
    written here and `opsInRange` is false — the real `index_add_` raises) -/
def addAt (v : List Rat) (i : Int) (x : Rat) : List Rat :=
  if 0 ≤ i then v.modify i.toNat (· + x) else v

/-- `v.index_add_(0, idx, src)` — sequential accumulation, duplicates allowed -/
def indexAdd (v : List Rat) (ops : List (Int × Rat)) : List Rat :=
  ops.foldl (fun acc o => addAt acc o.1 o.2) v

def opsInRange (len : Nat) (ops : List (Int × Rat)) : Bool :=
  ops.all fun o => decide (0 ≤ o.1) && decide (o.1 < (len : Int))

/-- `proj_dist.view(-1)` after both `index_add_` calls -/
def projFlat (c : Cfg) (g : Rat) (rows : List Row) : List Rat :=
  indexAdd (indexAdd (List.replicate (rows.length * c.N) 0) (allOps c g false 0 rows))
    (allOps c g true 0 rows)

/-- `proj_dist[bi]` -/
def projRow (c : Cfg) (g : Rat) (rows : List Row) (bi : Nat) : List Rat :=
  ((projFlat c g rows).drop (bi * c.N)).take c.N

/-- every flat index of both scatters lies inside the buffer (otherwise torch raises) -/
def projOK (c : Cfg) (g : Rat) (rows : List Row) : Bool :=
  opsInRange (rows.length * c.N) (allOps c g false 0 rows) &&
  opsInRange (rows.length * c.N) (allOps c g true 0 rows)

/-- specification-level reference: the projection of one transition on its own, no offsets -/
def projOne (c : Cfg) (g : Rat) (row : Row) : List Rat :=
  indexAdd (indexAdd (List.replicate c.N 0) (rowOps c g false 0 row)) (rowOps c g true 0 row)

/-! ### loss, `learn` -/

def dot (a b : List Rat) : Rat := (List.zipWith (· * ·) a b).sum

structure Sample where
  r    : Rat
  d    : Rat
  a    : Nat                  -- action taken
  idx  : Nat                  -- index in the (prioritised) buffer
  q    : List Rat             -- actor(next_obs)
  pT   : List (List Rat)      -- actor_target(next_obs, q=False)
  logp : List (List Rat)      -- actor(obs, q=False, log=True)
deriving Repr

/-- first index of the maximum (`argmax(1)`); `0` on an empty list -/
def argmaxFrom : List Rat → Nat → Rat → Nat → Nat
  | [], _, _, best => best
  | x :: xs, i, m, best => if m < x then argmaxFrom xs (i + 1) x i else argmaxFrom xs (i + 1) m best

def argmaxFirst : List Rat → Nat
  | [] => 0
  | x :: xs => argmaxFrom xs 1 x 0

/-- `target_q_dist[range(B), next_actions]` for one sample -/
def Sample.row (s : Sample) : Row :=
  { r := s.r, d := s.d, p := s.pT.getD (argmaxFirst s.q) [] }

/-- `log_q_dist[range(B), actions]` for one sample -/
def Sample.logpA (s : Sample) : List Rat := s.logp.getD s.a []

/-- `_dqn_loss(...)`: `elementwise_loss = -(proj_dist * log_p).sum(1)` -/
def dqnLoss (c : Cfg) (g : Rat) (batch : List Sample) : List Rat :=
  batch.zipIdx.map fun sb => - dot (projRow c g (batch.map Sample.row) sb.2) sb.1.logpA

structure Hyper where
  cfg      : Cfg
  gamma    : Rat
  nStep    : Nat
  combined : Bool
  priorEps : Rat
deriving Repr

structure LearnOut where
  elementwise : List Rat
  loss        : Option Rat       -- `mean(elementwise)`; not modelled under PER (importance weights)
  idxs        : Option (List Nat)
  priorities  : Option (List Rat)
deriving Repr

def mean (l : List Rat) : Rat := l.sum / (l.length : Rat)

/-- `learn(experiences, n_experiences, per)` up to and including the returned tuple; the
    optimiser step and the soft update do not feed back into the returned values -/
def learn (h : Hyper) (per : Bool) (one : List Sample) (nst : Option (List Sample)) : LearnOut :=
  let el : List Rat :=
    match nst with
    | none => dqnLoss h.cfg h.gamma one
    | some nb =>
      let eln := dqnLoss h.cfg (h.gamma ^ h.nStep) nb
      if h.combined then List.zipWith (· + ·) (dqnLoss h.cfg h.gamma one) eln else eln
  { elementwise := el
    loss := if per then none else some (mean el)
    idxs := if per || nst.isSome then some (one.map (·.idx)) else none
    priorities := if per then some (el.map (· + h.priorEps)) else none }

end C51

/-! ### the dueling distributional head (`DuelingDistributionalMLP.forward`), one batch row -/
namespace Duel

/-- the elementary functions (parameters, never defaults); `lit` embeds the literals of the source -/
structure Fn (α : Type) where
  lit : Rat → α
  exp : α → α
  log : α → α

variable {α : Type} [Add α] [Sub α] [Mul α] [Div α] [Zero α] [Max α]

/-- `t.view(B, A, N)` of a `(B, A·N)` tensor, one batch row: row `a` = entries `[a·N, (a+1)·N)` -/
def rows (A N : Nat) (flat : List α) : List (List α) :=
  (List.range A).map fun a => (flat.drop (a * N)).take N

/-- `advantage.mean(1, keepdim=True)`: per atom, the mean over the actions -/
def colMean (F : Fn α) (A N : Nat) (adv : List (List α)) : List α :=
  (List.range N).map fun j => (adv.map fun row => row.getD j 0).sum / F.lit (A : Rat)

/-- `value + advantage - advantage.mean(1, keepdim=True)`: the logits of action `a`, atom `j` are
    `v_j + adv_{a,j} - mean_a adv_{·,j}` -/
def combine (F : Fn α) (A N : Nat) (value advFlat : List α) : List (List α) :=
  (rows A N advFlat).map fun row =>
    List.zipWith (· - ·) (List.zipWith (· + ·) value row) (colMean F A N (rows A N advFlat))

/-- `F.softmax(·, dim=-1)` on one row of logits -/
def softmax (F : Fn α) (row : List α) : List α := row.map fun x => F.exp x / (row.map F.exp).sum

/-- `F.log_softmax(·, dim=-1)` on one row of logits -/
def logSoftmax (F : Fn α) (row : List α) : List α := row.map fun x => x - F.log (row.map F.exp).sum

/-- the floor of `.clamp(min=1e-3)` -/
def floorLit : Rat := 1 / 1000

/-- `forward(q=False)`: soft-max over the atoms of every action, clamped from below -/
def dist (F : Fn α) (A N : Nat) (value advFlat : List α) : List (List α) :=
  (combine F A N value advFlat).map fun row => (softmax F row).map fun p => max p (F.lit floorLit)

/-- `torch.sum(x * self.support, dim=2)` on one action -/
def expect (support p : List α) : α := (List.zipWith (· * ·) p support).sum

/-- what `forward` returns: a vector of q-values or a matrix (one distribution per action) -/
inductive Out (α : Type) where
  | vec (v : List α)
  | mat (m : List (List α))

/-- `DuelingDistributionalMLP.forward(x, q, log)` given the outputs of the value and the advantage
    net: `log` wins over `q` and returns the log of the UNclamped soft-max -/
def forward (F : Fn α) (A N : Nat) (support value advFlat : List α) (q log : Bool) : Out α :=
  if log then Out.mat ((combine F A N value advFlat).map (logSoftmax F))
  else if q then Out.vec ((dist F A N value advFlat).map (expect support))
  else Out.mat (dist F A N value advFlat)

end Duel

/-! ### line protocol -/
namespace C51
open Util

structure IOState where
  hyper : Hyper := { cfg := { N := 2, vmin := 0, vmax := 1 }, gamma := 1, nStep := 1,
                     combined := false, priorEps := 0 }
  ready : Bool := false
  one   : List Sample := []
  nst   : List Sample := []
  -- the dueling head (`duel …` ops): sizes, support, outputs of the value / advantage net, and the tables
  -- of `exp` (combined logit ↦ value) and `log` (row sum ↦ value) the harness supplies
  dA      : Nat := 0
  dN      : Nat := 0
  dSup    : List Rat := []
  dVal    : List Rat := []
  dAdv    : List Rat := []
  dExp    : List (Rat × Rat) := []
  dLog    : List (Rat × Rat) := []

/-- the elementary functions of the driver: literals exact, `exp` / `log` tabulated by the harness -/
def IOState.fn (s : IOState) : Duel.Fn Rat :=
  { lit := fun q => q, exp := fun x => (s.dExp.lookup x).getD 0, log := fun z => (s.dLog.lookup z).getD 0 }

def IOState.comb (s : IOState) : List (List Rat) := Duel.combine s.fn s.dA s.dN s.dVal s.dAdv

def showRows (rows : List (List Rat)) : String := " | ".intercalate (rows.map showRats)

def parseBool? : String → Option Bool
  | "0" => some false
  | "1" => some true
  | _ => none

/-- `r d a idx A q… pT… logp…` with `A` actions and `N` atoms -/
def parseSample? (N : Nat) (ws : List String) : Option Sample :=
  match ws with
  | r :: d :: a :: idx :: na :: rest =>
    match parseRat? r, parseRat? d, parseNat? a, parseNat? idx, parseNat? na, parseRats? rest with
    | some r, some d, some a, some idx, some na, some xs =>
      if na = 0 ∨ xs.length ≠ na + 2 * na * N ∨ a ≥ na then none else
        let q := xs.take na
        let pT := chunks N ((xs.drop na).take (na * N))
        let lp := chunks N (xs.drop (na + na * N))
        some { r := r, d := d, a := a, idx := idx, q := q, pT := pT, logp := lp }
    | _, _, _, _, _, _ => none
  | _ => none

def batchOf (s : IOState) : String → Option (List Sample)
  | "0" => some s.one
  | "1" => some s.nst
  | _ => none

def showOptNats : Option (List Nat) → String
  | none => "none"
  | some l => showNats l

def showOptRat : Option Rat → String
  | none => "none"
  | some q => showRat q

def showOptRats : Option (List Rat) → String
  | none => "none"
  | some l => showRats l

def step (s : IOState) : List String → IOState × String
  | ["cfg", n, lo, hi] =>
    match parseNat? n, parseRat? lo, parseRat? hi with
    | some n, some lo, some hi =>
      let c : Cfg := { N := n, vmin := lo, vmax := hi }
      if c.Valid then ({ s with hyper := { s.hyper with cfg := c }, ready := true, one := [], nst := [] }, "ok")
      else ({ s with ready := false }, "reject")       -- ZeroDivisionError / IndexError in the code
    | _, _, _ => (s, "bad-op")
  | ["hyper", g, n, comb, eps] =>
    match parseRat? g, parseNat? n, parseBool? comb, parseRat? eps with
    | some g, some n, some comb, some eps =>
      if n = 0 then (s, "reject") else
      ({ s with hyper := { s.hyper with gamma := g, nStep := n, combined := comb, priorEps := eps } }, "ok")
    | _, _, _, _ => (s, "bad-op")
  | ["support"] =>
    if s.ready then (s, showRats (supportList s.hyper.cfg)) else (s, "bad-op")
  | ["lowup", n, b] =>
    match parseNat? n, parseRat? b with
    | some n, some b => let lu := lowUp n b; (s, s!"{lu.1} {lu.2}")
    | _, _ => (s, "bad-op")
  | ["clear"] => ({ s with one := [], nst := [] }, "ok")
  | "sample" :: slot :: ws =>
    if !s.ready then (s, "bad-op") else
    match parseSample? s.hyper.cfg.N ws with
    | none => (s, "bad-op")
    | some x =>
      match slot with
      | "0" => ({ s with one := s.one ++ [x] }, "ok")
      | "1" => ({ s with nst := s.nst ++ [x] }, "ok")
      | _ => (s, "bad-op")
  | ["greedy", slot] =>
    match batchOf s slot with
    | some b => (s, showNats (b.map fun x => argmaxFirst x.q))
    | none => (s, "bad-op")
  | ["tz", slot, g] =>
    match batchOf s slot, parseRat? g with
    | some b, some g =>
      if !s.ready then (s, "bad-op") else
      (s, showRows (b.map fun x => tzList s.hyper.cfg g x.row))
    | _, _ => (s, "bad-op")
  | ["proj", slot, g] =>
    match batchOf s slot, parseRat? g with
    | some b, some g =>
      if !s.ready || b.isEmpty then (s, "bad-op") else
      let c := s.hyper.cfg
      let rows := b.map Sample.row
      if !projOK c g rows then (s, "reject") else
      (s, showRows ((List.range rows.length).map (projRow c g rows)))
    | _, _ => (s, "bad-op")
  | ["loss", slot, g] =>
    match batchOf s slot, parseRat? g with
    | some b, some g =>
      if !s.ready || b.isEmpty then (s, "bad-op") else
      if !projOK s.hyper.cfg g (b.map Sample.row) then (s, "reject") else
      (s, showRats (dqnLoss s.hyper.cfg g b))
    | _, _ => (s, "bad-op")
  | ["learn", per, nOn] =>
    match parseBool? per, parseBool? nOn with
    | some per, some nOn =>
      if !s.ready || s.one.isEmpty then (s, "bad-op") else
      if nOn && s.nst.length ≠ s.one.length then (s, "reject") else
      let o := learn s.hyper per s.one (if nOn then some s.nst else none)
      (s, s!"el {showRats o.elementwise} ; loss {showOptRat o.loss} ; idxs {showOptNats o.idxs} ; prio {showOptRats o.priorities}")
    | _, _ => (s, "bad-op")
  /- dueling head:
       duel new A N <support (N)> <value (N)> <advantage (A·N)>   -> ok | reject (sizes: `view` raises)
       duel comb                                                 -> the A×N combined logits
       duel exp <e (A·N)>     exp of the combined logits, row-major -> the A row sums Σ_j e
       duel logz <l (A)>      log of those row sums                -> ok
       duel fwd <q> <log>                                         -> what `forward(q, log)` returns -/
  | "duel" :: "new" :: a :: n :: ws =>
    match parseNat? a, parseNat? n, parseRats? ws with
    | some a, some n, some xs =>
      if a = 0 ∨ n = 0 ∨ xs.length ≠ n + n + a * n then ({ s with dA := 0, dN := 0 }, "reject") else
      ({ s with dA := a, dN := n, dSup := xs.take n, dVal := (xs.drop n).take n, dAdv := xs.drop (n + n),
                dExp := [], dLog := [] }, "ok")
    | _, _, _ => (s, "bad-op")
  | ["duel", "comb"] =>
    if s.dA = 0 then (s, "bad-op") else (s, showRows s.comb)
  | "duel" :: "exp" :: ws =>
    match parseRats? ws with
    | some es =>
      if s.dA = 0 then (s, "bad-op") else
      if es.length ≠ s.dA * s.dN then (s, "reject") else
      let s' := { s with dExp := s.comb.flatten.zip es, dLog := [] }
      (s', showRats (s'.comb.map fun row => (row.map s'.fn.exp).sum))
    | none => (s, "bad-op")
  | "duel" :: "logz" :: ws =>
    match parseRats? ws with
    | some ls =>
      if s.dA = 0 ∨ s.dExp.isEmpty then (s, "bad-op") else
      if ls.length ≠ s.dA then (s, "reject") else
      ({ s with dLog := (s.comb.map fun row => (row.map s.fn.exp).sum).zip ls }, "ok")
    | none => (s, "bad-op")
  | ["duel", "fwd", q, lg] =>
    match parseBool? q, parseBool? lg with
    | some q, some lg =>
      if s.dA = 0 ∨ s.dExp.isEmpty ∨ (lg ∧ s.dLog.isEmpty) then (s, "bad-op") else
      match Duel.forward s.fn s.dA s.dN s.dSup s.dVal s.dAdv q lg with
      | .vec v => (s, showRats v)
      | .mat m => (s, showRows m)
    | _, _ => (s, "bad-op")
  | _ => (s, "bad-op")

end C51

/-! ### the batch-level stretch of `learn` (with the importance weights of the prioritised buffer)

`ℓ row γ` is the per-row element-wise loss (`_dqn_loss` of one row; `dqnLoss` / `crossEntropy` for the model's
samples), `one` the 1-step batch, `nst` the n-step batch, `w` the importance weights of the 1-step batch flattened to
`(B,)`.  The scalar loss is the batch mean of `w_i · ℓ_i` under PER and of `ℓ_i` otherwise; the priorities are
`ℓ_i + prior_eps` in the order of the batch (the same order as the returned indices). -/
namespace C51

/-- `elementwise_loss` of `learn`: 1-step alone (`γ`), n-step alone (`γ ^ n`), or their row-wise sum -/
def elemLoss {R : Type} (ℓ : R → Rat → Rat) (combined : Bool) (g : Rat) (n : Nat) (one : List R)
    (nst : Option (List R)) : List Rat :=
  match nst with
  | none => one.map (ℓ · g)
  | some nb =>
    if combined then List.zipWith (· + ·) (one.map (ℓ · g)) (nb.map (ℓ · (g ^ n))) else nb.map (ℓ · (g ^ n))

/-- `torch.mean(elementwise_loss * weights.reshape(-1))` under PER, `torch.mean(elementwise_loss)` otherwise -/
def scalarLoss (per : Bool) (el w : List Rat) : Rat :=
  if per then mean (List.zipWith (· * ·) el w) else mean el

/-- `new_priorities = elementwise_loss + prior_eps` under PER, `None` otherwise -/
def newPriorities (per : Bool) (eps : Rat) (el : List Rat) : Option (List Rat) :=
  if per then some (el.map (· + eps)) else none

/-- the returned `idxs`: the 1-step batch's own, under PER or with an n-step batch -/
def retIdxs (per nstep : Bool) (idx : List Nat) : Option (List Nat) :=
  if per || nstep then some idx else none

/-- what a `(B, 1)` weight COLUMN would do (the defect repaired in `learn`, DESIGN §5): `(B,) * (B, 1)` broadcasts
    to `(B, B)` with entry `(i, j) = ℓ_j · w_i`, and the mean runs over all `B²` entries -/
def columnLoss (el w : List Rat) : Rat :=
  mean (w.map fun wi => el.map fun lj => lj * wi).flatten

end C51
