import Model.Util
/-
  Model/Coherence.lean — wiring model behind C02 ("after any mutation an agent is coherent").

  An agent is described by what `agent.registry` says (read from the live object by the harness):
  network attributes with their role (evaluation network / policy flag / shared network and the
  evaluation network it shadows), optimizers (registered network attributes, learning-rate
  attribute, single optimizer or list of optimizers), learning-rate attributes, the mutation hook.

  Identity is modelled, numerics are not: a module owns *parameter cells* (the `nn.Parameter`
  objects `parameters()` lists, encoder first, then head), an optimizer owns one group per module
  it steps (the cells it was built from and the learning rate it was built with).  Architectures
  and weights are opaque tags: equal tags ⇔ the code made one a copy of the other.

  The pipeline follows `agilerl/hpo/mutation.py`:

  * `Mutations.mutation`  = per agent: the drawn kind (`kindStep`), then `finish`
    (re-create every shared network from its evaluation network's `init_dict` + `load_state_dict`,
    run the mutation hook).
  * architecture          = clone every evaluation network, apply the policy's *applied* method with
                            the arguments it returned (`applied[j]` = `method~change` for module /
                            sub-agent `j`) to module `j` of the others, run the hook, rebuild
                            every optimizer (`reinit_opt`).
  * parameters            = noise written in place into the policy's weights, rebuild every optimizer.
  * activation            = nothing for the policy-gradient / actor-critic algorithms (`actExempt`),
                            otherwise every evaluation network is rebuilt, then every optimizer.
  * rl_hp                 = value written to the attribute; if it is a learning rate, the
                            optimizers using it are rebuilt (`firstOnly = true` is the unrepaired
                            code, which rebuilt only the first one).
  * hooks                 = `share_encoder_parameters` (DDPG/TD3/PPO: the encoders of the listed
                            networks become detached copies of the policy's encoder — no longer
                            parameters), DQN's `init_hook` (the whole target becomes a detached copy).
  * `clone` (tournament selection) and `learn` complete the generation loop.

  Fresh cells and tags are *inputs* of every operation (`Fresh`, `stamp`): the theorems hold for
  every choice of them; the driver allocates them from a counter.
-/
namespace Coherence
open Util

/-- opaque identity of an architecture / of a block of weights: (stamp, network, module) -/
abbrev Tag := Nat × Nat × Nat

/-- an applied architecture change: the method name (`last_mutation_attr`) and the resulting change
    of the architecture (what the method's sampled arguments did: which layer, how many nodes /
    channels, the latent dimension …) -/
abbrev Change := String × String

/-- which tensors of a module are detached copies (not parameters any more) -/
inductive Det
  | none | enc | all
deriving DecidableEq, Repr

structure Mod where
  arch    : Tag
  wEnc    : Tag
  wHead   : Tag
  enc     : List Nat
  head    : List Nat
  det     : Det
  /-- the architecture change last applied to this module -/
  lastMut : Option Change
deriving DecidableEq, Repr

/-- `list(module.parameters())` -/
def Mod.params (m : Mod) : List Nat :=
  match m.det with
  | .none => m.enc ++ m.head
  | .enc => m.head
  | .all => []

inductive Role
  | eval (policy : Bool)
  | shared (src : Nat)
deriving DecidableEq, Repr

def Role.isEval : Role → Bool
  | .eval _ => true
  | .shared _ => false

structure NetAttr where
  role : Role
  mods : List Mod
deriving DecidableEq, Repr

structure Group where
  cells : List Nat
  lr    : Rat
deriving DecidableEq, Repr

structure Opt where
  nets   : List Nat
  lr     : Nat
  multi  : Bool
  groups : List Group
deriving DecidableEq, Repr

/-- the mutation hook: `src` is the network whose tensors are copied (the policy) -/
inductive Hook
  | none
  | shareEnc (src : Nat) (targets : List Nat)
  | detachAll (src : Nat) (targets : List Nat)
deriving DecidableEq, Repr

def Hook.targets : Hook → List Nat
  | .none => []
  | .shareEnc _ ts => ts
  | .detachAll _ ts => ts

def Hook.src : Hook → Nat
  | .none => 0
  | .shareEnc s _ => s
  | .detachAll s _ => s

/-- the detachment the hook leaves on network `k` -/
def Hook.det (h : Hook) (k : Nat) : Det :=
  match h with
  | .none => .none
  | .shareEnc _ ts => if k ∈ ts then .enc else .none
  | .detachAll _ ts => if k ∈ ts then .all else .none

structure Agent where
  index     : Nat
  nets      : List NetAttr
  opts      : List Opt
  lrs       : List Rat
  hook      : Hook
  actExempt : Bool
  label     : String
deriving DecidableEq, Repr

/-- fresh cells per network, per module: (encoder cells, head cells) -/
abbrev Fresh := List (List (List Nat × List Nat))

def Fresh.at (f : Fresh) (k j : Nat) : List Nat × List Nat := (f.getD k []).getD j ([], [])

/-! ### what the registry-driven code computes -/

/-- parameter lists of the modules of network attribute `k` -/
def paramsOf (nets : List NetAttr) (k : Nat) : List (List Nat) :=
  match nets[k]? with
  | some n => n.mods.map Mod.params
  | none => []

/-- the groups `OptimizerWrapper(networks=…)` is built from: one per module, in order -/
def expected (nets : List NetAttr) (o : Opt) : List (List Nat) := o.nets.flatMap (paramsOf nets)

/-- `reinit_opt` for one optimizer: new wrapper over the current parameters, `lr = getattr(agent, lr_name)` -/
def rebuildOpt (nets : List NetAttr) (lrs : List Rat) (o : Opt) : Opt :=
  { o with groups := (expected nets o).map fun cs => { cells := cs, lr := lrs.getD o.lr 0 } }

def rebuildAll (a : Agent) : Agent := { a with opts := a.opts.map (rebuildOpt a.nets a.lrs) }

def modsAt (nets : List NetAttr) (k : Nat) : List Mod :=
  match nets[k]? with
  | some n => n.mods
  | none => []

def policyMods (nets : List NetAttr) : List Mod :=
  match nets.find? (fun n => n.role == Role.eval true) with
  | some n => n.mods
  | none => []

/-- what the hook does to module `j` of a target, `p` = the modules of the hook's source network.
    `share_encoder_parameters`: the encoder becomes a detached copy of the source's encoder;
    DQN `init_hook`: the whole module becomes a detached copy of the source — the code swallows
    the `KeyError` raised when the two architectures differ and then leaves the values alone. -/
def hookMod (h : Hook) (p : List Mod) (j : Nat) (m : Mod) : Mod :=
  match h with
  | .none => m
  | .shareEnc _ _ => { m with det := .enc, wEnc := match p[j]? with | some q => q.wEnc | none => (0, 0, 0) }
  | .detachAll _ _ =>
    match p[j]? with
    | some q => if q.arch = m.arch then { m with det := .all, wEnc := q.wEnc, wHead := q.wHead }
                else { m with det := .all }
    | none => { m with det := .all }

/-- `agent.mutation_hook()` -/
def applyHook (h : Hook) (nets : List NetAttr) : List NetAttr :=
  nets.mapIdx fun k n =>
    if k ∈ h.targets then { n with mods := n.mods.mapIdx (hookMod h (modsAt nets h.src)) } else n

/-- `module_cls(**init_dict)` + `load_state_dict(src.state_dict(), strict=False)` (also
    `EvolvableModule.clone`): same architecture, fresh parameters holding the source's *parameter*
    values; detached tensors are not in the state dict, so those blocks stay randomly initialised -/
def copyMod (rnd : Tag) (fr : List Nat × List Nat) (m : Mod) : Mod :=
  { arch := m.arch,
    wEnc := if m.det = .none then m.wEnc else rnd,
    wHead := if m.det = .all then rnd else m.wHead,
    enc := fr.1, head := fr.2, det := .none, lastMut := none }

/-- the tail of `Mutations.mutation`: shared networks re-created from their evaluation network, hook -/
def finish (fresh : Fresh) (stamp : Nat) (a : Agent) : Agent :=
  let nets1 := a.nets.mapIdx fun k n =>
    match n.role with
    | .shared src =>
      match a.nets[src]? with
      | some e => { n with mods := e.mods.mapIdx fun j m => copyMod (stamp, k, j) (fresh.at k j) m }
      | none => n
    | .eval _ => n
  { a with nets := applyHook a.hook nets1 }

/-- the label an architecture mutation reports: the method applied to the policy's first module -/
def archLabel (applied : List (Option Change)) : String :=
  match applied.headD none with
  | some c => c.1
  | none => "None"

/-- clone of an evaluation module followed by the applied architecture method (`none`: untouched) -/
def cloneMutate (stamp k : Nat) (applied : List (Option Change)) (fr : List (List Nat × List Nat))
    (j : Nat) (m : Mod) : Mod :=
  let ap := applied.getD j none
  let c := copyMod (stamp, k, j) (fr.getD j ([], [])) m
  if ap.isSome then { c with arch := (stamp, k, j), wEnc := (stamp, k, j), wHead := (stamp, k, j), lastMut := ap }
  else { c with lastMut := none }

def mapEval (f : Nat → NetAttr → NetAttr) (nets : List NetAttr) : List NetAttr :=
  nets.mapIdx fun k n => if n.role.isEval then f k n else n

def archStep (applied : List (Option Change)) (fresh : Fresh) (stamp : Nat) (a : Agent) : Agent :=
  let nets1 := mapEval (fun k n => { n with mods := n.mods.mapIdx (cloneMutate stamp k applied (fresh.getD k [])) }) a.nets
  let nets2 := applyHook a.hook nets1
  rebuildAll { a with nets := nets2, label := archLabel applied }

def paramStep (stamp : Nat) (a : Agent) : Agent :=
  let nets1 := a.nets.mapIdx fun k n =>
    if n.role = Role.eval true then
      { n with mods := n.mods.mapIdx fun j m => { m with wEnc := (stamp, k, j), wHead := (stamp, k, j) } }
    else n
  rebuildAll { a with nets := nets1, label := "param" }

def actStep (fresh : Fresh) (stamp : Nat) (a : Agent) : Agent :=
  if a.actExempt then { a with label := "None" } else
  let nets1 := mapEval (fun k n => { n with mods := n.mods.mapIdx fun j m =>
      { copyMod (stamp, k, j) (fresh.at k j) m with arch := (stamp, k, j), wEnc := m.wEnc, wHead := m.wHead } }) a.nets
  rebuildAll { a with nets := nets1, label := "act" }

/-- `rl_hyperparam_mutation`; `lr = some (i, v)` when the sampled attribute is learning rate `i` -/
def hpStep (firstOnly : Bool) (name : String) (lr : Option (Nat × Rat)) (a : Agent) : Agent :=
  match lr with
  | none => { a with label := name }
  | some (i, v) =>
    let lrs := a.lrs.set i v
    let opts :=
      if firstOnly then
        match a.opts.findIdx? (fun o => o.lr == i) with
        | some p => a.opts.mapIdx fun q o => if q = p then rebuildOpt a.nets lrs o else o
        | none => a.opts
      else a.opts.map fun o => if o.lr = i then rebuildOpt a.nets lrs o else o
    { a with lrs := lrs, opts := opts, label := name }

inductive Kind
  | none
  | arch (applied : List (Option Change))
  | param
  | act
  | hp (name : String) (lr : Option (Nat × Rat))
deriving DecidableEq, Repr

structure Choice where
  kind  : Kind := .none
  fresh : Fresh := []
  stamp : Nat := 0
deriving DecidableEq, Repr

def kindStep (firstOnly : Bool) (c : Choice) (a : Agent) : Agent :=
  match c.kind with
  | .none => { a with label := "None" }
  | .arch applied => archStep applied c.fresh c.stamp a
  | .param => paramStep c.stamp a
  | .act => actStep c.fresh c.stamp a
  | .hp name lr => hpStep firstOnly name lr a

/-- one agent through `Mutations.mutation` -/
def mutate1 (firstOnly : Bool) (c : Choice) (a : Agent) : Agent :=
  finish c.fresh (c.stamp + 1) (kindStep firstOnly c a)

/-- the label `Mutations.mutation` is expected to leave in `agent.mut` for a drawn kind -/
def labelOf (a : Agent) : Kind → String
  | .none => "None"
  | .arch applied => archLabel applied
  | .param => "param"
  | .act => if a.actExempt then "None" else "act"
  | .hp name _ => name

/-- `EvolvableAlgorithm.clone(index)`: every network cloned, hook, optimizers rebuilt over the
    clones and loaded with the parent's optimizer state (group learning rates included) -/
def cloneAgent (index : Nat) (fresh : Fresh) (stamp : Nat) (a : Agent) : Agent :=
  let nets1 := a.nets.mapIdx fun k n => { n with mods := n.mods.mapIdx fun j m => copyMod (stamp, k, j) (fresh.at k j) m }
  let nets2 := applyHook a.hook nets1
  let opts := a.opts.map fun o =>
    { o with groups := (expected nets2 o).mapIdx fun i cs =>
        { cells := cs, lr := match o.groups[i]? with | some g => g.lr | none => a.lrs.getD o.lr 0 } }
  { a with index := index, nets := nets2, opts := opts }

/-- what a constructor does with freshly built networks: hook, optimizers over the result,
    shared networks loaded from their evaluation networks -/
def construct (fresh : Fresh) (stamp : Nat) (a0 : Agent) : Agent :=
  finish fresh stamp (rebuildAll { a0 with nets := applyHook a0.hook a0.nets })

/-- the parameters an optimizer step writes: exactly the cells held by the optimizers -/
def learnWrites (a : Agent) : List Nat := a.opts.flatMap fun o => o.groups.flatMap (·.cells)

def Mod.touched (w : List Nat) (m : Mod) : Bool := m.params.any (fun c => w.contains c)

/-- `agent.learn(batch)`: values of the written parameters (and of soft-updated shared networks)
    change; no object is replaced -/
def learn1 (stamp : Nat) (a : Agent) : Agent :=
  let w := learnWrites a
  { a with nets := a.nets.mapIdx fun k n =>
      { n with mods := n.mods.mapIdx fun j m =>
          if m.touched w || !n.role.isEval then { m with wEnc := (stamp, k, j), wHead := (stamp, k, j) } else m } }

/-! ### populations and generations -/

structure CloneSpec where
  parent : Nat
  index  : Nat
  fresh  : Fresh := []
  stamp  : Nat := 0
deriving DecidableEq, Repr

inductive Op
  | select (cs : List CloneSpec)
  | mutate (choices : List Choice)
  | learn (i : Nat) (stamp : Nat)
deriving Repr

abbrev Pop := List Agent

def selectPop (cs : List CloneSpec) (pop : Pop) : Pop :=
  cs.filterMap fun c => (pop[c.parent]?).map (cloneAgent c.index c.fresh c.stamp)

/-- `Mutations.mutation(population)`: one drawn choice per agent, in order -/
def mutatePop (firstOnly : Bool) (choices : List Choice) (pop : Pop) : Pop :=
  pop.mapIdx fun i a => mutate1 firstOnly (choices.getD i {}) a

def learnPop (i stamp : Nat) (pop : Pop) : Pop :=
  pop.mapIdx fun j a => if j = i then learn1 stamp a else a

def Op.apply (firstOnly : Bool) (pop : Pop) : Op → Pop
  | .select cs => selectPop cs pop
  | .mutate chs => mutatePop firstOnly chs pop
  | .learn i s => learnPop i s pop

def run (firstOnly : Bool) (pop : Pop) (ops : List Op) : Pop := ops.foldl (Op.apply firstOnly) pop

/-! ### coherence (decidable, also printed by the driver) -/

def optCoherent (nets : List NetAttr) (lrs : List Rat) (o : Opt) : Bool :=
  (o.groups.map (·.cells) == expected nets o) && o.groups.all (fun g => g.lr == lrs.getD o.lr 0)

def sharedArchOK (nets : List NetAttr) (n : NetAttr) : Bool :=
  match n.role with
  | .shared src =>
    match nets[src]? with
    | some e => n.mods.map (·.arch) == e.mods.map (·.arch)
    | none => false
  | .eval _ => true

def sharedWeightsOK (nets : List NetAttr) (n : NetAttr) : Bool :=
  match n.role with
  | .shared src =>
    match nets[src]? with
    | some e => n.mods.map (fun m => (m.wEnc, m.wHead)) == e.mods.map (fun m => (m.wEnc, m.wHead))
    | none => false
  | .eval _ => true

/-- every non-policy evaluation module carries the applied method of the policy's module -/
def archFollowed (nets : List NetAttr) : Bool :=
  let p := policyMods nets
  nets.all fun n => !n.role.isEval ||
    (List.range n.mods.length).all fun j =>
      (n.mods[j]?.map (·.lastMut)) == (p[j]?.map (·.lastMut)) || (p[j]?).isNone

def coherent (a : Agent) : Bool :=
  a.opts.all (optCoherent a.nets a.lrs) && a.nets.all (sharedArchOK a.nets)

/-! ### `OptimizerWrapper` (agilerl/algorithms/core/wrappers.py)

The constructor the wiring above treats as `rebuildOpt`: which torch optimizers and param groups it builds from its
`networks` argument, how it finds `network_names` / `lr_name` when they are not passed (a scan of the parent
container's attributes, in attribute order, by object identity), and `state_dict` / `load_state_dict`.
`Proofs/OptWrapGenEq.lean` proves the definitions generated from the source equal to these. -/

/-- a network handed to the wrapper: identity, `list(parameters())` -/
structure WNet where
  id    : Nat
  cells : List Nat
deriving DecidableEq, Repr

/-- the `networks` argument: one module, or a list object (its identity, its elements) -/
inductive WArg
  | one (n : WNet)
  | many (listId : Nat) (ns : List WNet)
deriving DecidableEq, Repr

/-- `self.networks` -/
def WArg.nets : WArg → List WNet
  | .one n => [n]
  | .many _ ns => ns

/-- identity of `self.networks` (`[networks]` is a new list, held by nobody else: 0) -/
def WArg.listId : WArg → Nat
  | .one _ => 0
  | .many i _ => i

/-- a float object: identity and value -/
structure WLr where
  id  : Nat
  val : Rat
deriving DecidableEq, Repr

/-- a torch param group: the parameter objects it steps, in order, and its `lr` -/
structure WGroup where
  cells : List Nat
  lr    : WLr
deriving DecidableEq, Repr

/-- `self.optimizer`: one torch optimizer, or a list of them (multi-agent) -/
inductive WOptim
  | single (cls : Nat) (groups : List WGroup)
  | multi (opts : List (Nat × List WGroup))
deriving DecidableEq, Repr

structure Wrapper where
  multi  : Bool
  names  : List String
  lrName : String
  lr     : WLr
  optim  : WOptim
deriving DecidableEq, Repr

/-- the three branches of `__init__`: multi-agent = one optimizer (one group) per network; several networks AND
    several attribute names = one optimizer with one group per network; otherwise one optimizer over `networks[0]` -/
def wrapOptim (multi : Bool) (cls : Nat) (nets : List WNet) (nNames : Nat) (lr : WLr) : Option WOptim :=
  if multi then
    if nets.isEmpty then none else some (.multi (nets.map fun n => (cls, [{ cells := n.cells, lr := lr }])))
  else if 1 < nets.length ∧ 1 < nNames then
    if nets.length = nNames then some (.single cls (nets.map fun n => { cells := n.cells, lr := lr })) else none
  else
    match nets with
    | n :: _ => some (.single cls [{ cells := n.cells, lr := lr }])
    | [] => none

/-- `_infer_network_attr_names`: the attributes (name, identity of the value) of the parent container, in attribute
    order, that hold one of the networks — multi-agent: that hold the very list object -/
def inferNames (multi : Bool) (container : List (String × Nat)) (arg : WArg) : List String :=
  (container.filter fun p => if multi then p.2 == arg.listId else arg.nets.any (fun n => p.2 == n.id)).map (·.1)

def isInfixChars : List Char → List Char → Bool
  | p, [] => p.isEmpty
  | p, c :: cs => p.isPrefixOf (c :: cs) || isInfixChars p cs

/-- `"lr" in name.lower() or "learning_rate" in name.lower()` -/
def lrish (name : String) : Bool :=
  isInfixChars "lr".toList (String.ofList (name.toList.map Char.toLower)).toList ||
    isInfixChars "learning_rate".toList (String.ofList (name.toList.map Char.toLower)).toList

/-- the attributes holding the very object passed as `lr` -/
def lrMatches (container : List (String × Nat)) (lr : WLr) : List String :=
  (container.filter fun p => lr.id != 0 && lr.id == p.2).map (·.1)

/-- `_infer_lr_name`: the only match; of several the first whose name looks like a learning rate -/
def inferLr (container : List (String × Nat)) (lr : WLr) : Option String :=
  match lrMatches container lr with
  | [] => none
  | [m] => some m
  | ms => ms.find? lrish

/-- `OptimizerWrapper.__init__` (`none`: it raises) -/
def wrapInit (multi : Bool) (cls : Nat) (arg : WArg) (lr : WLr) (names : Option (List String)) (lrName : Option String)
    (container : List (String × Nat)) : Option Wrapper :=
  let nl : Option (List String × String) :=
    match names with
    | some ns => lrName.map fun l => (ns, l)
    | none => (inferLr container lr).map fun l => (inferNames multi container arg, l)
  match nl with
  | none => none
  | some (ns, l) =>
    if ns.isEmpty then none else
    (wrapOptim multi cls arg.nets ns.length lr).map fun o =>
      { multi := multi, names := ns, lrName := l, lr := lr, optim := o }

/-- the param groups of a wrapper, optimizer by optimizer, as the wiring model's groups -/
def WOptim.groups : WOptim → List Group
  | .single _ gs => gs.map fun g => { cells := g.cells, lr := g.lr.val }
  | .multi os => os.flatMap fun o => o.2.map fun g => { cells := g.cells, lr := g.lr.val }

/-- what `Optimizer.state_dict()` keeps of a group: the number of parameters and the options -/
structure WSaved where
  n  : Nat
  lr : WLr
deriving DecidableEq, Repr

inductive WState
  | single (gs : List WSaved)
  | multi (os : List (List WSaved))
deriving DecidableEq, Repr

def savedOf (gs : List WGroup) : List WSaved := gs.map fun g => { n := g.cells.length, lr := g.lr }

/-- `OptimizerWrapper.state_dict` -/
def wrapStateDict (w : Wrapper) : WState :=
  match w.optim with
  | .single _ gs => .single (savedOf gs)
  | .multi os => .multi (os.map fun o => savedOf o.2)

/-- torch `load_state_dict`: same group shape required; the saved options, the OWN parameter objects -/
def loadGroups (gs : List WGroup) (sv : List WSaved) : Option (List WGroup) :=
  if gs.map (·.cells.length) = sv.map (·.n) then
    some (List.zipWith (fun g s => { cells := g.cells, lr := s.lr }) gs sv)
  else none

def loadMulti : List (Nat × List WGroup) → List (List WSaved) → Option (List (Nat × List WGroup))
  | [], [] => some []
  | o :: os, s :: ss =>
    match loadGroups o.2 s, loadMulti os ss with
    | some g, some r => some ((o.1, g) :: r)
    | _, _ => none
  | _, _ => none

/-- `OptimizerWrapper.load_state_dict` (`none`: it raises) -/
def wrapLoad (w : Wrapper) (s : WState) : Option Wrapper :=
  match w.multi, w.optim, s with
  | false, .single c gs, .single sv => (loadGroups gs sv).map fun g => { w with optim := .single c g }
  | true, .multi os, .multi ss => (loadMulti os ss).map fun r => { w with optim := .multi r }
  | _, _, _ => none

/-! ### line protocol -/

structure IOState where
  pop       : List Agent := []
  next      : Nat := 0          -- cell allocator
  stamp     : Nat := 1
  firstOnly : Bool := false

def range' (b n : Nat) : List Nat := (List.range n).map (b + ·)

/-- allocate cells for a table of (enc, head) sizes -/
def allocMods (next : Nat) : List (Nat × Nat) → List (List Nat × List Nat) × Nat
  | [] => ([], next)
  | (e, h) :: r =>
    let rest := allocMods (next + e + h) r
    ((range' next e, range' (next + e) h) :: rest.1, rest.2)

def allocFresh (next : Nat) : List (List (Nat × Nat)) → Fresh × Nat
  | [] => ([], next)
  | ms :: r =>
    let a := allocMods next ms
    let rest := allocFresh a.2 r
    (a.1 :: rest.1, rest.2)

def sizesOf (a : Agent) : List (List (Nat × Nat)) := a.nets.map fun n => n.mods.map fun m => (m.enc.length, m.head.length)

def splitOnTok (sep : String) (ws : List String) : List (List String) :=
  let r := ws.foldl (fun (acc : List (List String) × List String) w =>
    if w = sep then (acc.1 ++ [acc.2], []) else (acc.1, acc.2 ++ [w])) ([], [])
  r.1 ++ [r.2]

def parseNatList? (sep : String) (s : String) : Option (List Nat) :=
  if s = "-" then some [] else allSome ((s.splitOn sep).map parseNat?)

/-- `e,h+e,h+…` -/
def parseSizes? (s : String) : Option (List (Nat × Nat)) :=
  if s = "-" then some [] else
  allSome ((s.splitOn "+").map fun t =>
    match t.splitOn "," with
    | [e, h] => match parseNat? e, parseNat? h with
      | some e, some h => some (e, h)
      | _, _ => none
    | _ => none)

/-- `p:<sizes>` policy eval | `e:<sizes>` other eval | `s<src>:<sizes>` shared -/
def parseNet? (s : String) : Option (Role × List (Nat × Nat)) :=
  match s.splitOn ":" with
  | [r, sz] =>
    match parseSizes? sz with
    | some sizes =>
      if r = "p" then some (.eval true, sizes)
      else if r = "e" then some (.eval false, sizes)
      else if r.startsWith "s" then (parseNat? (r.drop 1).toString).map fun src => (.shared src, sizes)
      else none
    | none => none
  | _ => none

/-- `<n0+n1+…>@<lr><m|s>` -/
def parseOpt? (s : String) : Option Opt :=
  match s.splitOn "@" with
  | [ns, rest] =>
    let multi := rest.endsWith "m"
    if !(rest.endsWith "m" || rest.endsWith "s") then none else
    match parseNatList? "+" ns, parseNat? (rest.dropEnd 1).toString with
    | some nets, some lr => some { nets := nets, lr := lr, multi := multi, groups := [] }
    | _, _ => none
  | _ => none

def parseHook? : List String → Option Hook
  | ["none"] => some .none
  | ["share", src, ts] => match parseNat? src with
    | some src => (parseNatList? "," ts).map (.shareEnc src)
    | none => none
  | ["detach", src, ts] => match parseNat? src with
    | some src => (parseNatList? "," ts).map (.detachAll src)
    | none => none
  | _ => none

/-- `method~change` (or just `method`), `_` = nothing applied -/
def parseApplied (s : String) : List (Option Change) :=
  (s.splitOn ",").map fun t =>
    if t = "_" then none else
    match t.splitOn "~" with
    | [m] => some (m, "")
    | m :: rest => some (m, "~".intercalate rest)
    | [] => none

def showChange : Option Change → String
  | none => "_"
  | some (m, c) => if c = "" then m else m ++ "~" ++ c

/-- `k=e,h+e,h` tokens → size table indexed by network -/
def parseSizeTable? (n : Nat) (ws : List String) : Option (List (List (Nat × Nat))) :=
  let entries := allSome (ws.map fun w =>
    match w.splitOn "=" with
    | [k, sz] => match parseNat? k, parseSizes? sz with
      | some k, some sz => some (k, sz)
      | _, _ => none
    | _ => none)
  entries.map fun es => (List.range n).map fun k => ((es.find? (fun e => e.1 == k)).map (·.2)).getD []

def parseKind? (a : Agent) : List String → Option (Kind × Option (List (List (Nat × Nat))))
  | ["none"] => some (.none, none)
  | ["param"] => some (.param, none)
  | ["act"] => some (.act, none)
  | ["hp", name, "_", "_"] => some (.hp name none, none)
  | ["hp", name, i, v] =>
    match parseNat? i, parseRat? v with
    | some i, some v => some (.hp name (some (i, v)), none)
    | _, _ => none
  | "arch" :: ap :: sizes =>
    (parseSizeTable? a.nets.length sizes).map fun t => (.arch (parseApplied ap), some t)
  | _ => none

/-- sizes used when a network is re-created: those given for it (architecture mutation), else its own -/
def mergeSizes (own : List (List (Nat × Nat))) (given : Option (List (List (Nat × Nat)))) (nets : List NetAttr) :
    List (List (Nat × Nat)) :=
  let ev := match given with
    | none => own
    | some g => own.mapIdx fun k o => match g[k]? with | some (x :: xs) => x :: xs | _ => o
  -- shared networks are re-created with the shape of their evaluation network
  nets.mapIdx fun k n =>
    match n.role with
    | .shared src => ev.getD src []
    | .eval _ => ev.getD k []

/-! printing -/

def cellIndex (nets : List NetAttr) : List (Nat × (Nat × Nat × Nat)) :=
  (nets.zipIdx.filter (fun p => p.1.role.isEval)).flatMap fun (n, k) =>
    n.mods.zipIdx.flatMap fun (m, j) => m.params.zipIdx.map fun (c, i) => (c, (k, j, i))

def showGroup (nets : List NetAttr) (idx : List (Nat × (Nat × Nat × Nat))) (g : Group) : String :=
  let toks := g.cells.map fun c => (idx.find? (fun e => e.1 == c)).map (·.2)
  let body :=
    match toks with
    | [] => "-"
    | some (k, j, 0) :: _ =>
      let full := (paramsOf nets k).getD j []
      if g.cells == full then s!"{k}.{j}*{full.length}"
      else ",".intercalate (toks.map fun t => match t with | some (k, j, i) => s!"{k}.{j}.{i}" | none => "x")
    | _ => ",".intercalate (toks.map fun t => match t with | some (k, j, i) => s!"{k}.{j}.{i}" | none => "x")
  body ++ "@" ++ showRat g.lr

def showAgent (a : Agent) : String :=
  let idx := cellIndex a.nets
  let opts := a.opts.zipIdx.map fun (o, q) =>
    s!"o{q}{if o.multi then "m" else "s"} lr={showRat (a.lrs.getD o.lr 0)} [" ++
      " ".intercalate (o.groups.map (showGroup a.nets idx)) ++ "]"
  let sh := (a.nets.zipIdx.filter (fun p => !p.1.role.isEval)).map fun (n, k) =>
    s!"sh{k}:a{showBool (sharedArchOK a.nets n)}w{showBool (sharedWeightsOK a.nets n)}"
  s!"idx={a.index} mut={a.label} | " ++ " | ".intercalate opts ++ " | " ++ " ".intercalate sh

def showLma (a : Agent) : String :=
  " ".intercalate ((a.nets.zipIdx.filter (fun p => p.1.role.isEval)).map fun (n, k) =>
    s!"{k}:" ++ ",".intercalate (n.mods.map fun m => showChange m.lastMut))

/-- registered networks all of whose parameters a learn step writes -/
def showMoved (a : Agent) : String :=
  let w := learnWrites a
  let ks := a.opts.flatMap (·.nets)
  showNats ((List.range a.nets.length).filter fun k =>
    ks.contains k && (paramsOf a.nets k).flatten.all (fun c => w.contains c) && !(paramsOf a.nets k).flatten.isEmpty)

def newAgent (s : IOState) (index : Nat) (ex : Bool) (hook : Hook) (netSpecs : List (Role × List (Nat × Nat)))
    (opts : List Opt) (lrs : List Rat) : IOState :=
  let al := allocFresh s.next (netSpecs.map (·.2))
  let nets0 : List NetAttr := netSpecs.mapIdx fun k sp =>
    { role := sp.1, mods := (al.1.getD k []).mapIdx fun j fr =>
        { arch := (0, (match sp.1 with | .shared src => src | .eval _ => k), j), wEnc := (s.stamp, k, j), wHead := (s.stamp, k, j),
          enc := fr.1, head := fr.2, det := .none, lastMut := none } }
  let a0 : Agent := { index := index, nets := nets0, opts := opts, lrs := lrs, hook := hook, actExempt := ex, label := "None" }
  { s with pop := s.pop ++ [construct al.1 s.stamp a0], next := al.2, stamp := s.stamp + 1 }

/-! ### the registry as the library validates it (`MutationRegistry`, `EvolvableAlgorithm._registry_init`)

  Attribute names are numbers.  A group is a `NetworkGroup` after `__post_init__`; `evolvable` is what
  `evolvable_attributes()` lists, `attrs` the names for which `hasattr(self, ·)` holds. -/

structure RGroup where
  eval   : Nat
  shared : Option (List Nat)
  policy : Bool
  multi  : Bool
deriving DecidableEq, Repr

structure ROpt where
  name  : Nat
  nets  : List Nat
  lr    : Nat
  multi : Bool
deriving DecidableEq, Repr

structure RegData where
  groups    : List RGroup
  opts      : List ROpt
  hooks     : List Nat
  hps       : Option (List Nat)
  evolvable : List Nat
  attrs     : List Nat
deriving DecidableEq, Repr

def RGroup.sharedL (g : RGroup) : List Nat := g.shared.getD []

/-- `registry.all_registered()` -/
def RegData.registered (r : RegData) : List Nat :=
  r.groups.map (·.eval) ++ r.groups.flatMap (·.sharedL) ++ r.opts.map (·.name)

/-- `registry.policy`: the evaluation network of the FIRST group flagged as policy -/
def RegData.policy (r : RegData) : Option Nat := (r.groups.find? (·.policy)).map (·.eval)

/-- which check of `_registry_init` raises first (all raise `AttributeError`) -/
inductive RegError
  | noGroups | notRegistered | noPolicy | hpMissing
deriving DecidableEq, Repr

def registryCheck (r : RegData) : Option RegError :=
  if r.groups.isEmpty then some .noGroups
  else if !(r.evolvable.all fun a => r.registered.contains a) then some .notRegistered
  else if !(r.groups.any (·.policy)) then some .noPolicy
  else if !((r.hps.getD []).all fun h => r.attrs.contains h) then some .hpMissing
  else none

/-- what the library's validation enforces — and nothing more -/
def WellFormedRegistry (r : RegData) : Prop :=
  r.groups ≠ [] ∧ (∀ a ∈ r.evolvable, a ∈ r.registered) ∧ (∃ g ∈ r.groups, g.policy = true) ∧
  ∀ h ∈ r.hps.getD [], h ∈ r.attrs

/-- the structural conditions the wiring theorems assume of a registry -/
def RegData.evals (r : RegData) : List Nat := r.groups.map (·.eval)

/-- exactly one group is the policy (`PolicyAt`) -/
def RegData.OnePolicy (r : RegData) : Prop := (r.groups.filter (·.policy)).length = 1
/-- optimizers are registered for evaluation networks (`DescOK.optsEval`) -/
def RegData.OptsEval (r : RegData) : Prop := ∀ o ∈ r.opts, ∀ k ∈ o.nets, k ∈ r.evals
/-- a list optimizer is registered for one network attribute (`OptShapeOK`) -/
def RegData.OptShape (r : RegData) : Prop := ∀ o ∈ r.opts, o.multi = true → o.nets.length = 1
/-- a network is the evaluation network of one group or shared in exactly one group, never both (`Role` is a function) -/
def RegData.RolesFunctional (r : RegData) : Prop := (r.evals ++ r.groups.flatMap (·.sharedL)).Nodup
/-- every optimizer's learning-rate attribute exists -/
def RegData.LrExists (r : RegData) : Prop := ∀ o ∈ r.opts, o.lr ∈ r.attrs

instance (r : RegData) : Decidable r.OnePolicy := by unfold RegData.OnePolicy; infer_instance
instance (r : RegData) : Decidable r.OptsEval := by unfold RegData.OptsEval; infer_instance
instance (r : RegData) : Decidable r.OptShape := by unfold RegData.OptShape; infer_instance
instance (r : RegData) : Decidable r.RolesFunctional := by unfold RegData.RolesFunctional; infer_instance
instance (r : RegData) : Decidable r.LrExists := by unfold RegData.LrExists; infer_instance

/-- `__setattr__`: an `OptimizerWrapper` assigned under a name no optimizer is registered under is registered -/
def RegData.setOpt (r : RegData) (name : Nat) (w : Option (List Nat × Nat × Bool)) : RegData :=
  let r1 : RegData := match w with
    | some (nets, lr, multi) =>
      if (r.opts.map (·.name)).contains name then r
      else { r with opts := r.opts ++ [({ name := name, nets := nets, lr := lr, multi := multi } : ROpt)] }
    | none => r
  { r1 with attrs := r1.attrs ++ [name] }

def RegData.addGroup (r : RegData) (g : RGroup) : RegData := { r with groups := r.groups ++ [g] }
def RegData.addHook (r : RegData) (h : Nat) : RegData := { r with hooks := r.hooks ++ [h] }

/-- `MutationRegistry.__eq__`: groups field by field, optimizers by name and networks only — in registration order -/
def RegData.regEq (r s : RegData) : Bool :=
  r.groups == s.groups && (r.opts.map fun o => (o.name, o.nets)) == (s.opts.map fun o => (o.name, o.nets))

/-! ### registry check over the line protocol -/

/-- `eval:shared|N:policy` with shared = `-` (an empty list) or `a,b`, `N` = None -/
def parseRGroup? (s : String) : Option RGroup :=
  match s.splitOn ":" with
  | [e, sh, p] =>
    match parseNat? e, (if sh = "N" then some none else (parseNatList? "," sh).map some), p with
    | some e, some sh, "1" => some { eval := e, shared := sh, policy := true, multi := false }
    | some e, some sh, "0" => some { eval := e, shared := sh, policy := false, multi := false }
    | _, _, _ => none
  | _ => none

/-- `name:nets:lr` -/
def parseROpt? (s : String) : Option ROpt :=
  match s.splitOn ":" with
  | [n, ns, lr] =>
    match parseNat? n, parseNatList? "," ns, parseNat? lr with
    | some n, some ns, some lr => some { name := n, nets := ns, lr := lr, multi := false }
    | _, _, _ => none
  | _ => none

def showRegError : Option RegError → String
  | none => "accepted"
  | some .noGroups => "noGroups"
  | some .notRegistered => "notRegistered"
  | some .noPolicy => "noPolicy"
  | some .hpMissing => "hpMissing"

/-- `regcheck <groups> ; <optimizers> ; <evolvable> ; <hps> ; <attrs>` → verdict, `registry.policy`, `all_registered()` -/
def regCheckLine (ws : List String) : String :=
  match splitOnTok ";" ws with
  | [gs, os, es, hs, as] =>
    match allSome (gs.map parseRGroup?), allSome (os.map parseROpt?), allSome (es.map parseNat?), allSome (hs.map parseNat?),
          allSome (as.map parseNat?) with
    | some gs, some os, some es, some hs, some as =>
      let r : RegData := { groups := gs, opts := os, hooks := [], hps := some hs, evolvable := es, attrs := as }
      showRegError (registryCheck r) ++ " policy=" ++ (match r.policy with | some p => toString p | none => "None") ++
        " registered=" ++ String.intercalate "," (r.registered.map toString)
    | _, _, _, _, _ => "bad-op"
  | _ => "bad-op"


def step (s : IOState) : List String → IOState × String
  | "regcheck" :: ws => (s, regCheckLine ws)
  | ["mode", m] =>
    if m = "repaired" then ({ s with firstOnly := false }, "ok")
    else if m = "unrepaired" then ({ s with firstOnly := true }, "ok") else (s, "bad-op")
  | "new" :: index :: ex :: rest =>
    match splitOnTok ";" rest with
    | [hk, ns, os, ls] =>
      match parseNat? index, parseHook? hk, allSome (ns.map parseNet?), allSome (os.map parseOpt?), parseRats? ls with
      | some index, some hook, some nets, some opts, some lrs =>
        if ex ≠ "0" ∧ ex ≠ "1" then (s, "bad-op")
        else if opts.any (fun o => o.lr ≥ lrs.length || o.nets.any (· ≥ nets.length)) then (s, "reject")
        else (newAgent s index (ex = "1") hook nets opts lrs, "ok")
      | _, _, _, _, _ => (s, "bad-op")
    | _ => (s, "bad-op")
  | "select" :: ws =>
    let specs := allSome (ws.map fun w =>
      match w.splitOn ":" with
      | [p, i] => match parseNat? p, parseNat? i with
        | some p, some i => some (p, i)
        | _, _ => none
      | _ => none)
    match specs with
    | some ps =>
      if ps.any (fun p => p.1 ≥ s.pop.length) then (s, "reject") else
      let r := ps.foldl (fun (acc : List CloneSpec × Nat × Nat) p =>
          let sizes := match s.pop[p.1]? with | some a => sizesOf a | none => []
          let al := allocFresh acc.2.1 sizes
          (acc.1 ++ [{ parent := p.1, index := p.2, fresh := al.1, stamp := acc.2.2 }], al.2, acc.2.2 + 1))
        ([], s.next, s.stamp)
      ({ s with pop := selectPop r.1 s.pop, next := r.2.1, stamp := r.2.2 }, "ok")
    | none => (s, "bad-op")
  | "mutate" :: ws =>
    let parts := splitOnTok "|" ws
    if parts.length ≠ s.pop.length then (s, "reject") else
    let r := (parts.zip s.pop).foldl (fun (acc : Option (List Choice × Nat × Nat)) pa =>
        match acc, parseKind? pa.2 pa.1 with
        | some (cs, next, stamp), some (kind, given) =>
          let al := allocFresh next (mergeSizes (sizesOf pa.2) given pa.2.nets)
          some (cs ++ [{ kind := kind, fresh := al.1, stamp := stamp }], al.2, stamp + 2)
        | _, _ => none) (some ([], s.next, s.stamp))
    match r with
    | some (cs, next, stamp) => ({ s with pop := mutatePop s.firstOnly cs s.pop, next := next, stamp := stamp }, "ok")
    | none => (s, "bad-op")
  | ["learn", i] =>
    match parseNat? i with
    | some i => if i < s.pop.length then ({ s with pop := learnPop i s.stamp s.pop, stamp := s.stamp + 1 }, "ok") else (s, "reject")
    | none => (s, "bad-op")
  | ["show", i] =>
    match parseNat? i with
    | some i => match s.pop[i]? with | some a => (s, showAgent a) | none => (s, "reject")
    | none => (s, "bad-op")
  | ["lma", i] =>
    match parseNat? i with
    | some i => match s.pop[i]? with | some a => (s, showLma a ++ " followed=" ++ showBool (archFollowed a.nets)) | none => (s, "reject")
    | none => (s, "bad-op")
  | ["moved", i] =>
    match parseNat? i with
    | some i => match s.pop[i]? with | some a => (s, showMoved a) | none => (s, "reject")
    | none => (s, "bad-op")
  | ["coherent", i] =>
    match parseNat? i with
    | some i => match s.pop[i]? with | some a => (s, showBool (coherent a)) | none => (s, "reject")
    | none => (s, "bad-op")
  | ["size"] => (s, toString s.pop.length)
  | _ => (s, "bad-op")

end Coherence
