import Model.Util
/-
  Model/Coherence.lean — (stub) executable model for C02; see DESIGN.md.  Core Lean only.
-/
namespace Coherence
open Util

structure IOState where
  dummy : Nat := 0

def step (s : IOState) : List String → IOState × String
  | _ => (s, "bad-op")

end Coherence
