import Model.Util
/-
  Model/Dist.lean — executable model of the *composition logic* of
  `agilerl.networks.distributions` (`TorchDistribution`, `EvolvableDistribution`) as used by
  `StochasticActor`, `PPO.get_action / evaluate_actions` and `IPPO`.

  What is logic here (modelled): which slice of the logit vector parameterises which component
  (`torch.split(logits, nvec, dim=1)`), where the action mask is applied (before the distributions
  are built, per split, with the constant −1e8), which component log-probability is selected by
  which coordinate of the action, that the reported value is the *sum* over components, which
  pre-squash point the Gaussian is evaluated at when `squash_output=True`
  (`TorchDistribution.sampled_action`, a cache written by `sample()`), the correction term
  `− Σ log(1 − a² + 1e-6)` evaluated on the action that is passed in, and what `entropy()` returns.

  What is not logic (parameters, never defaults): `exp/log/tanh/atanh`, softmax normalisation,
  the network forward pass and the sampler.  Component log-probabilities / entropies are inputs
  (functions in the generic definitions, numbers supplied by the harness in the line protocol).
  The only closed formulas evaluated here are rational: the quadratic form of the Gaussian
  log-density given `σ`, `log σ` and `½·log 2π`, and the argument `1 − a² + ε` of the correction.
-/
namespace Dist
open Util

/-! ### generic composition (any carrier) -/
section generic
variable {α : Type}

/-- `torch.split(x, sizes, dim=1)` on one row -/
def splitSizes (xs : List α) : List Nat → List (List α)
  | [] => []
  | n :: ns => xs.take n :: splitSizes (xs.drop n) ns

/-- start of split `k` inside the flat logit vector -/
def offset (nvec : List Nat) (k : Nat) : Nat := (nvec.take k).sum

/-- `apply_action_mask_discrete`: `torch.where(mask, logits, full_like(logits, -1e8))` -/
def maskLogits (neg : α) (logits : List α) (mask : List Bool) : List α :=
  List.zipWith (fun l m => if m then l else neg) logits mask

/-- `EvolvableDistribution.apply_mask` for MultiDiscrete / MultiBinary: split mask and logits with
    the same sizes, mask every split, (then `torch.cat`) -/
def maskSplit (neg : α) (nvec : List Nat) (logits : List α) (mask : List Bool) : List (List α) :=
  List.zipWith (maskLogits neg) (splitSizes logits nvec) (splitSizes mask nvec)

/-- `CategoricalHandler.log_prob`: entry `a` of the component's log-probability table
    (`none`: index outside the support — torch's `validate_args` raises) -/
def catLogProb (table : List α) (a : Nat) : Option α := table[a]?

variable [Add α] [Zero α]

/-- `MultiCategoricalHandler.log_prob`: `zip(distribution, unbind(action, dim=1))`, stack, sum -/
def multiCatLogProb (tables : List (List α)) (action : List Nat) : Option α :=
  (allSome (List.zipWith catLogProb tables action)).map List.sum

/-- MultiDiscrete end to end on one row: flat per-outcome table, split by `nvec`, select, sum -/
def multiDiscreteLogProb (nvec : List Nat) (flat : List α) (action : List Nat) : Option α :=
  multiCatLogProb (splitSizes flat nvec) action

/-- `BernoulliHandler.log_prob`: per bit `log p(1)` or `log p(0)`, summed over the bits -/
def bernLogProb (lp1 lp0 : List α) (bits : List Bool) : α :=
  (List.zipWith (fun (p : α × α) (b : Bool) => if b then p.1 else p.2) (lp1.zip lp0) bits).sum

/-- `NormalHandler.log_prob`: component `i` evaluated on coordinate `i`, summed (`sum(dim=1)`) -/
def indepLogProb (comp : List (α → α)) (x : List α) : α :=
  (List.zipWith (fun f v => f v) comp x).sum

/-- entropy of the composed distribution: sum of the component entropies -/
def sumEntropy (ents : List α) : α := ents.sum

/-! #### the squashed Gaussian and its cache -/

/-- `TorchDistribution` over a `Normal`: the current per-dimension log-densities, the squash flag
    and `self.sampled_action` (the pre-squash draw cached by the last `sample()`) -/
structure TorchDist (α : Type) where
  comp    : List (α → α)
  squash  : Bool
  sampled : Option (List α) := none

/-- `TorchDistribution.sample` with the Gaussian draw `u` made explicit -/
def TorchDist.sample (d : TorchDist α) (th : α → α) (u : List α) : TorchDist α × List α :=
  ({ d with sampled := some u }, if d.squash then u.map th else u)

variable [Sub α]

/-- `TorchDistribution.log_prob` **as coded at the snapshot**: with squashing the Gaussian is
    evaluated at the cached draw, whatever action is passed in; the correction uses the action.
    `corr a = log(1 − a² + 1e-6)`.  `none`: nothing cached yet (the real code raises). -/
def TorchDist.logProbCode (d : TorchDist α) (corr : α → α) (a : List α) : Option α :=
  if d.squash then
    d.sampled.map (fun u => indepLogProb d.comp u - (a.map corr).sum)
  else some (indepLogProb d.comp a)

/-- repaired `log_prob`: the cached draw is used only for the action object that `sample()` has
    just returned (`fresh`), otherwise the pre-image `preA = atanh(clamp(a))` of the action -/
def TorchDist.logProbFixed (d : TorchDist α) (corr : α → α) (fresh : Bool) (a preA : List α) : α :=
  if d.squash then
    let u := match fresh, d.sampled with
      | true, some u => u
      | _, _ => preA
    indepLogProb d.comp u - (a.map corr).sum
  else indepLogProb d.comp a

/-- `TorchDistribution.entropy`: `None` with squashing, else the summed component entropies -/
def TorchDist.entropy (d : TorchDist α) (ents : List α) : Option α :=
  if d.squash then none else some (sumEntropy ents)

/-- `PPO.evaluate_actions` / `IPPO._learn_individual` on one row: a forward pass (which draws a
    fresh `u'` and overwrites the cache) followed by `action_log_prob(stored action)` -/
def evalStoredCode (comp : List (α → α)) (corr th : α → α) (u' a : List α) : Option α :=
  (({ comp := comp, squash := true : TorchDist α }).sample th u').1.logProbCode corr a

def evalStoredFixed (comp : List (α → α)) (corr th : α → α) (u' a preA : List α) : α :=
  (({ comp := comp, squash := true : TorchDist α }).sample th u').1.logProbFixed corr false a preA

end generic

/-! ### PPO / IPPO glue between the rollout and the update

  Which action, which mask and which log-probability travel from `get_action` through the rollout into `learn` and
  back into the actor (`agilerl/algorithms/ppo.py`: `_get_action_and_values`, `evaluate_actions`, `get_action`, the
  minibatch statements of `learn`; `agilerl/algorithms/ippo.py`: the per-group body of `get_action`, the minibatch
  statements of `_learn_individual`).  The actor, the critic and the tensor primitives are the fields of `Glue`
  (parameters, never defaults): `forward_head o d m` / `forward o d m` = (action, log_prob, entropy or `None`) of a
  forward pass on observations `o` with sampler draw `d` under mask `m`; `action_log_prob o d m a` =
  `actor.action_log_prob(a)` when the most recent forward pass was `(o, d, m)`.  `T` is a batch tensor of actions. -/

/-- the entropy PPO reports: one number (the stand-in `-mean(log_prob)`) or one value per row -/
inductive PEnt (α : Type) where
  | scalar (x : α)
  | rows (xs : List α)

/-- `.mean()` (of a rank-0 tensor: the tensor) -/
def PEnt.mean {α : Type} (mean : List α → α) : PEnt α → α
  | .scalar x => x
  | .rows xs => mean xs

structure Glue (α T O M D : Type) where
  lit : Rat → T
  num : Rat → α
  exp : α → α
  mean : List α → α
  squeeze : T → T
  unsqueeze : T → Nat → T
  dim : T → Nat
  clip : T → T → T → T
  scale_action : T → T
  squash_output : Bool
  forward_head : O → D → Option M → T × List α × Option (List α)
  forward : O → D → Option M → T × List α × Option (List α)
  action_log_prob : O → D → Option M → T → List α
  critic : O → List α
  critic_head : O → List α

section glue
variable {α T O M D : Type} [Add T] [Sub T] [Mul T] [Sub α] [Neg α]

/-- `entropy = -log_prob.mean() if entropy is None else entropy` -/
def Glue.entOf (G : Glue α T O M D) (ent : Option (List α)) (lp : List α) : PEnt α :=
  match ent with
  | none => .scalar (-(G.mean lp))
  | some r => .rows r

/-- the critic's value: through the shared encoder or on its own -/
def Glue.value (G : Glue α T O M D) (share : Bool) (obs : O) : List α :=
  if share then G.critic_head obs else G.critic obs

/-- what leaves `get_action`: in evaluation mode on a Box space the action is rescaled (`squash_output`) or clipped;
    in training mode, and on every other space, it is the policy's action as sampled -/
def Glue.envAction (G : Glue α T O M D) (scaled : T → T) (evalBox : Bool) (low high a : T) : T :=
  if evalBox then (if G.squash_output then scaled a else G.clip a low high) else a

/-- PPO's numpy copy of `StochasticActor.scale_action`: `low + 0.5 * (action + 1.0) * (high - low)` -/
def Glue.ppoScale (G : Glue α T O M D) (low high a : T) : T :=
  low + G.lit (1 / 2) * (a + G.lit 1) * (high - low)

/-- `PPO._get_action_and_values(obs, action_mask)` -/
def Glue.ppoActionAndValues (G : Glue α T O M D) (share : Bool) (obs : O) (mask : Option M) (d : D) :
    T × List α × Option (List α) × List α :=
  let r := G.forward_head obs d mask
  (r.1, r.2.1, r.2.2, G.value share obs)

/-- `PPO.get_action(obs, action_mask)`: (action, log_prob, entropy, values).  The training loops store `.1` and `.2.1`. -/
def Glue.ppoGetAction (G : Glue α T O M D) (isBox share training : Bool) (high low : T) (obs : O) (mask : Option M)
    (d : D) : T × List α × PEnt α × List α :=
  let r := G.forward_head obs d mask
  (G.envAction (G.ppoScale low high) (!training && isBox) low high r.1, r.2.1, G.entOf r.2.2 r.2.1, G.value share obs)

/-- `PPO.evaluate_actions(obs, actions)`: a forward pass WITHOUT a mask (the method has no mask argument), then
    `action_log_prob(actions)`; the entropy of that pass, or `-mean(log_prob of the stored actions)` -/
def Glue.ppoEvaluate (G : Glue α T O M D) (share : Bool) (obs : O) (actions : T) (d : D) : List α × PEnt α × List α :=
  let lp := G.action_log_prob obs d none actions
  (lp, G.entOf (G.forward_head obs d none).2.2 lp, G.value share obs)

/-- `batch_actions.squeeze()` and the repair of the lost action dimension:
    `if batch_actions.dim() == 1 and not isinstance(action_space, Discrete): batch_actions = batch_actions.unsqueeze(1)` -/
def handedWith {T : Type} (squeeze : T → T) (unsqueeze : T → Nat → T) (dim : T → Nat) (isDiscrete : Bool) (a : T) : T :=
  if dim (squeeze a) = 1 ∧ isDiscrete = false then unsqueeze (squeeze a) 1 else squeeze a

def Glue.handed (G : Glue α T O M D) (isDiscrete : Bool) (a : T) : T :=
  handedWith G.squeeze G.unsqueeze G.dim isDiscrete a

/-- `PPO.learn`, one minibatch of `n` indices: skipped (`none`) unless `n > 1`; else the action handed to the actor,
    the re-computed log-prob, `logratio = log_prob - batch_log_probs`, `ratio = exp(logratio)`, `entropy.mean()` -/
def Glue.ppoLearnMinibatch (G : Glue α T O M D) (isDiscrete : Bool) (n : Nat) (share : Bool) (obs : O) (a : T)
    (stored : List α) (d : D) : Option (T × List α × List α × List α × α) :=
  if n > 1 then
    let ev := G.ppoEvaluate share obs (G.handed isDiscrete a) d
    let logratio := List.zipWith (fun x y => x - y) ev.1 stored
    some (G.handed isDiscrete a, ev.1, logratio, logratio.map G.exp, ev.2.1.mean G.mean)
  else none

/-- `IPPO.get_action`, one homogeneous group: `actor(obs, action_mask=…)` (StochasticActor.forward: the action is
    already scaled to the bounds when squashing), rescaled AGAIN / clipped in evaluation mode; the entropy entry is
    `none` (`None.cpu()` raises) when the policy reports no entropy: IPPO has no stand-in -/
def Glue.ippoGetActionAgent (G : Glue α T O M D) (isBox training : Bool) (high low : T) (obs : O) (mask : Option M)
    (d : D) : T × List α × Option (List α) × List α :=
  let r := G.forward obs d mask
  (G.envAction G.scale_action (!training && isBox) low high r.1, r.2.1, r.2.2, G.critic obs)

/-- `IPPO._learn_individual`, one minibatch: forward pass without a mask, `action_log_prob(batch_actions)` -/
def Glue.ippoLearnMinibatch (G : Glue α T O M D) (isDiscrete : Bool) (n : Nat) (obs : O) (a : T)
    (stored : List α) (d : D) : Option (T × List α × List α × List α × Option α) :=
  if n > 1 then
    let lp := G.action_log_prob obs d none (G.handed isDiscrete a)
    let logratio := List.zipWith (fun x y => x - y) lp stored
    some (G.handed isDiscrete a, lp, logratio, logratio.map G.exp, (G.forward obs d none).2.2.map G.mean)
  else none

end glue

/-- a batch tensor as the squeeze logic sees it: its shape and its rows -/
structure Shaped (β : Type) where
  shape : List Nat
  rows : List β

/-- `x.squeeze()`: every dimension of size 1 disappears -/
def Shaped.squeeze {β : Type} (t : Shaped β) : Shaped β := { t with shape := t.shape.filter (fun n => n != 1) }
/-- `x.unsqueeze(k)` -/
def Shaped.unsqueeze {β : Type} (t : Shaped β) (k : Nat) : Shaped β :=
  { t with shape := t.shape.take k ++ 1 :: t.shape.drop k }
def Shaped.dim {β : Type} (t : Shaped β) : Nat := t.shape.length

/-! ### rational instances used by the driver -/

/-- the constant written by `apply_action_mask_discrete` (−1e8 is exact in float32) -/
def negMask : Rat := -100000000

/-- `Normal.log_prob`: `-((v - loc)**2) / (2*var) - log(scale) - log(sqrt(2π))`, with `scale`,
    `log scale` and `c = ½ log 2π` supplied -/
def normalLpQ (mu sigma logSigma c u : Rat) : Rat :=
  -((u - mu) * (u - mu)) / (2 * (sigma * sigma)) - logSigma - c

/-- `Normal.entropy`: `0.5 + 0.5*log(2π) + log(scale)` -/
def normalEntQ (logSigma c : Rat) : Rat := 1 / 2 + c + logSigma

/-- argument of the squash correction: `1 - a.pow(2) + 1e-6` -/
def corrArgQ (eps a : Rat) : Rat := 1 - a * a + eps

/-- is `action` inside the support of the masked categorical(s)?  (valid index, mask true) -/
def inSupportCat (nvec : List Nat) (mask : List Bool) (action : List Nat) : Bool :=
  action.length == nvec.length &&
  (List.zipWith (fun (m : List Bool) a => m.getD a false) (splitSizes mask nvec) action).all id

/-- MultiBinary with a mask: a masked bit has logit −1e8, i.e. must be 0 -/
def inSupportBits (mask : List Bool) (bits : List Bool) : Bool :=
  bits.length == mask.length && (List.zipWith (fun m b => m || !b) mask bits).all id

/-! ### line protocol

  Sections of an op are separated by the word `|`.

    mask d|md|mb <nvec…> | <logits…> | <mask 0/1…>   -> masked logits, splits separated by `;`
    catlp <nvec…> | <flat table…> | <action…>        -> Σ_k table_k[a_k]            (reject: index outside a split / sizes wrong)
    bern | <lp1…> | <lp0…> | <bits…>                 -> Σ_i (bit_i ? lp1_i : lp0_i)
    sum | <values…>                                  -> Σ values  (entropy of a composition, Normal components)
    supp d|md|mb <nvec…> | <mask…> | <action…>       -> 1/0
    nnew <squash 0/1> <c> | <mu…> | <sigma…> | <logsigma…>   -> ok   (a fresh TorchDistribution over Normal)
    nsample | <u…>                                   -> ok   (sample(): caches the pre-squash draw)
    nlogp code | <a…> | <corr…>                      -> log_prob as coded (Gaussian at the cache when squashing)
    nlogp fixed <fresh 0/1> | <a…> | <pre…> | <corr…> -> repaired log_prob
    nent                                             -> Σ component entropies, or `none` with squashing
    corrarg <eps> | <a…>                             -> 1 − a² + eps per coordinate
    ppoent | <log_probs…>                            -> −mean(log_prob)   (PPO's stand-in entropy with squashing)
-/

structure IOState where
  mu       : List Rat := []
  sigma    : List Rat := []
  logSigma : List Rat := []
  c        : Rat := 0
  squash   : Bool := false
  sampled  : Option (List Rat) := none

/-- split a word list at the separator `|` -/
def sections (ws : List String) : List (List String) :=
  ws.foldr (fun w acc =>
    if w = "|" then [] :: acc
    else match acc with
      | [] => [[w]]
      | s :: r => (w :: s) :: r) [[]]

def parseBools? (ws : List String) : Option (List Bool) :=
  allSome (ws.map (fun w => if w = "1" then some true else if w = "0" then some false else none))

def showGroups (g : List (List Rat)) : String := " ; ".intercalate (g.map showRats)

/-- the Gaussian components of the current state as functions -/
def IOState.comps (s : IOState) : List (Rat → Rat) :=
  List.zipWith (fun (ms : Rat × Rat) (ls : Rat) => normalLpQ ms.1 ms.2 ls s.c) (s.mu.zip s.sigma) s.logSigma

def IOState.dist (s : IOState) : TorchDist Rat :=
  { comp := s.comps, squash := s.squash, sampled := s.sampled }

/-- the correction values arrive per coordinate; as a function of the coordinate's value -/
def corrFn (a cr : List Rat) : Rat → Rat := fun x => ((a.zip cr).lookup x).getD 0

def nvecOf (kind : String) (nv : List Nat) (n : Nat) : Option (List Nat) :=
  if kind = "d" then (if nv.length = 1 then some nv else none)
  else if kind = "md" then (if nv.length ≥ 1 then some nv else none)
  else if kind = "mb" then (if nv = [n] then some nv else none)
  else none

def step (s : IOState) (ws : List String) : IOState × String :=
  match ws with
  | "mask" :: kind :: rest =>
    match sections rest with
    | [nv, ls, ms] =>
      match parseNats? nv, parseRats? ls, parseBools? ms with
      | some nv, some ls, some ms =>
        match nvecOf kind nv ls.length with
        | none => (s, "bad-op")
        | some nvec =>
          -- `mask.view(logits.shape)` and `torch.split` raise on a size mismatch
          if ms.length ≠ ls.length ∨ nvec.sum ≠ ls.length then (s, "reject")
          else if kind = "d" then (s, showGroups [maskLogits negMask ls ms])
          else (s, showGroups (maskSplit negMask nvec ls ms))
      | _, _, _ => (s, "bad-op")
    | _ => (s, "bad-op")
  | "catlp" :: rest =>
    match sections rest with
    | [nv, tb, ac] =>
      match parseNats? nv, parseRats? tb, parseNats? ac with
      | some nvec, some tb, some ac =>
        if nvec.sum ≠ tb.length then (s, "reject")
        else match multiDiscreteLogProb nvec tb ac with
          | some v => (s, showRat v)
          | none => (s, "reject")
      | _, _, _ => (s, "bad-op")
    | _ => (s, "bad-op")
  | "bern" :: rest =>
    match sections rest with
    | [[], l1, l0, bs] =>
      match parseRats? l1, parseRats? l0, parseBools? bs with
      | some l1, some l0, some bs =>
        if l1.length ≠ l0.length ∨ bs.length ≠ l1.length then (s, "reject")
        else (s, showRat (bernLogProb l1 l0 bs))
      | _, _, _ => (s, "bad-op")
    | _ => (s, "bad-op")
  | "sum" :: rest =>
    match sections rest with
    | [[], vs] =>
      match parseRats? vs with
      | some vs => (s, showRat (sumEntropy vs))
      | none => (s, "bad-op")
    | _ => (s, "bad-op")
  | "supp" :: kind :: rest =>
    match sections rest with
    | [nv, ms, ac] =>
      match parseNats? nv, parseBools? ms with
      | some nv, some ms =>
        match nvecOf kind nv ms.length with
        | none => (s, "bad-op")
        | some nvec =>
          if nvec.sum ≠ ms.length then (s, "reject")
          else if kind = "mb" then
            match parseBools? ac with
            | some bits => (s, showBool (inSupportBits ms bits))
            | none => (s, "0")
          else match parseNats? ac with
            | some ac => (s, showBool (inSupportCat nvec ms ac))
            | none => (s, "bad-op")
      | _, _ => (s, "bad-op")
    | _ => (s, "bad-op")
  | "nnew" :: sq :: c :: rest =>
    match sections rest with
    | [[], mu, sg, lsg] =>
      match parseBools? [sq], parseRat? c, parseRats? mu, parseRats? sg, parseRats? lsg with
      | some [sq], some c, some mu, some sg, some lsg =>
        if sg.length ≠ mu.length ∨ lsg.length ≠ mu.length ∨ sg.any (· = 0) then (s, "reject")
        else ({ mu := mu, sigma := sg, logSigma := lsg, c := c, squash := sq, sampled := none }, "ok")
      | _, _, _, _, _ => (s, "bad-op")
    | _ => (s, "bad-op")
  | "nsample" :: rest =>
    match sections rest with
    | [[], us] =>
      match parseRats? us with
      | some us => if us.length ≠ s.mu.length then (s, "reject") else ({ s with sampled := some us }, "ok")
      | none => (s, "bad-op")
    | _ => (s, "bad-op")
  | "nlogp" :: "code" :: rest =>
    match sections rest with
    | [[], a, cr] =>
      match parseRats? a, parseRats? cr with
      | some a, some cr =>
        if a.length ≠ s.mu.length ∨ cr.length ≠ a.length then (s, "reject")
        else match s.dist.logProbCode (corrFn a cr) a with
          | some v => (s, showRat v)
          | none => (s, "reject")
      | _, _ => (s, "bad-op")
    | _ => (s, "bad-op")
  | "nlogp" :: "fixed" :: fr :: rest =>
    match sections rest with
    | [[], a, pre, cr] =>
      match parseBools? [fr], parseRats? a, parseRats? pre, parseRats? cr with
      | some [fr], some a, some pre, some cr =>
        if a.length ≠ s.mu.length ∨ cr.length ≠ a.length ∨ pre.length ≠ a.length then (s, "reject")
        else (s, showRat (s.dist.logProbFixed (corrFn a cr) fr a pre))
      | _, _, _, _ => (s, "bad-op")
    | _ => (s, "bad-op")
  | ["nent"] =>
    match s.dist.entropy (s.logSigma.map (fun l => normalEntQ l s.c)) with
    | some v => (s, showRat v)
    | none => (s, "none")
  | "corrarg" :: eps :: rest =>
    match sections rest with
    | [[], a] =>
      match parseRat? eps, parseRats? a with
      | some eps, some a => (s, showRats (a.map (corrArgQ eps)))
      | _, _ => (s, "bad-op")
    | _ => (s, "bad-op")
  | "ppoent" :: rest =>
    match sections rest with
    | [[], lps] =>
      match parseRats? lps with
      | some lps => if lps.length = 0 then (s, "reject") else (s, showRat (-(lps.sum / (lps.length : Rat))))
      | none => (s, "bad-op")
    | _ => (s, "bad-op")
  | _ => (s, "bad-op")

end Dist
