import Model.Util
/-
  Model/GAE.lean — executable model of the advantage estimation of `PPO.learn`
  (agilerl/algorithms/ppo.py) and `IPPO._learn_individual` (agilerl/algorithms/ippo.py) and of the
  way both flatten the rollout into training rows.  Core Lean only; exact `Rat` arithmetic.

  * One *column* (`Col`) is one parallel environment of one agent: the code's tensors have shape
    `(num_steps, num_envs)` (PPO) or `(num_steps, num_agents * num_envs)` (IPPO, column
    `a * num_envs + e`) and every operation of the backward loop is element-wise in the column
    dimension, so the loop is modelled per column and mapped over the columns (`gaeMatrix`).
  * `gaeLoop` is the loop as coded: `for t in reversed(range(num_steps))` with the mutable
    accumulator `last_gae_lambda`, `dones[t + 1]` / `next_done` as "next non terminal" and
    `values[t + 1]` / `next_value` as bootstrap.
  * `adv` is the recursive definition (the specification):
      delta_t = r_t + γ V_{t+1} (1 - d_{t+1}) - V_t,   A_t = delta_t + γ λ (1 - d_{t+1}) A_{t+1},
    with `d_T = next_done`, `V_T = critic(next_state)`, `A_T = 0`.
  * Flattening: tables given by index functions, laid out by nested loops (`table2`, `table3`):
    PPO `swapaxes(0,1).reshape` is env-major (`ppoFlatten`, row `e*T + t`);
    IPPO states/actions are agent-major (`ippoObsFlatten`, row `a*(T*E) + t*E + e`);
    IPPO log-probs/advantages/returns/values were time-major before the repair
    (`ippoAdvFlatten0`, row `t*(A*E) + a*E + e`) and are
    `reshape(T, A, -1).transpose(0, 1).reshape(-1)` of the `(T, A*E)` matrix after it
    (`ippoAdvFlatten`).
  * `ppoUnflat` / `ippoUnflat` go from a training row back to the sample it holds (the index maps that
    `harness/py2lean_flatten.py` derives from the source, `Proofs/FlattenGenEq.lean`); `gather` is the
    minibatch indexing of `get_experiences_samples`.
-/
namespace GAE

/-- a done flag as a number -/
def ind (b : Bool) : Rat := if b then 1 else 0

/-- one parallel environment of one agent -/
structure Col where
  r  : List Rat        -- rewards[t]
  d  : List Bool       -- dones[t]: the flag recorded *with* step t (episode ended just before it)
  v  : List Rat        -- values[t]
  nv : Rat             -- critic(next_state)
  nd : Bool            -- next_done
deriving Repr

/-- `num_steps = rewards.size(0)` -/
def Col.T (c : Col) : Nat := c.r.length

/-! ### the loop as coded -/

/-- `1.0 - next_done` on the last step, `1.0 - dones[t + 1]` otherwise -/
def nextNonTerminal (c : Col) (t : Nat) : Rat :=
  if t = c.T - 1 then 1 - ind c.nd else 1 - ind (c.d.getD (t + 1) false)

/-- `next_value` on the last step, `values[t + 1]` otherwise -/
def nextValue (c : Col) (t : Nat) : Rat :=
  if t = c.T - 1 then c.nv else c.v.getD (t + 1) 0

structure LoopState where
  last : Rat           -- last_gae_lambda
  adv  : List Rat      -- advantages = zeros_like(rewards)
deriving Repr

/-- body of `for t in reversed(range(num_steps))` -/
def loopBody (γ lam : Rat) (c : Col) (s : LoopState) (t : Nat) : LoopState :=
  let nnt := nextNonTerminal c t
  let nxt := nextValue c t
  let delta := c.r.getD t 0 + γ * nxt * nnt - c.v.getD t 0
  let a := delta + γ * lam * nnt * s.last
  { last := a, adv := s.adv.set t a }          -- advantages[t] = last_gae_lambda = …

def loopInit (c : Col) : LoopState := { last := 0, adv := List.replicate c.T 0 }

/-- the advantages computed by the loop -/
def gaeLoop (γ lam : Rat) (c : Col) : List Rat :=
  ((List.range c.T).reverse.foldl (loopBody γ lam c) (loopInit c)).adv

/-- `returns = advantages + values` -/
def returnsOf (adv v : List Rat) : List Rat := List.zipWith (· + ·) adv v

/-! ### the definition (specification) -/

/-- `d_j` for `j ≤ T`, where `d_T = next_done` -/
def doneAt (c : Col) (j : Nat) : Bool := if j = c.T then c.nd else c.d.getD j false

/-- `V_j` for `j ≤ T`, where `V_T = critic(next_state)` -/
def valAt (c : Col) (j : Nat) : Rat := if j = c.T then c.nv else c.v.getD j 0

/-- `delta_t = r_t + γ V_{t+1} (1 - d_{t+1}) - V_t` -/
def delta (γ : Rat) (c : Col) (t : Nat) : Rat :=
  c.r.getD t 0 + γ * valAt c (t + 1) * (1 - ind (doneAt c (t + 1))) - c.v.getD t 0

/-- `A_t` by recursion with `n` steps left: `A_t = delta_t + γ λ (1 - d_{t+1}) A_{t+1}`, `A_T = 0` -/
def specAdv (γ lam : Rat) (c : Col) : Nat → Nat → Rat
  | 0, _ => 0
  | n + 1, t => delta γ c t + γ * lam * (1 - ind (doneAt c (t + 1))) * specAdv γ lam c n (t + 1)

/-- the generalised advantage estimate of step `t` (0 for `t ≥ T`) -/
def adv (γ lam : Rat) (c : Col) (t : Nat) : Rat := specAdv γ lam c (c.T - t) t

/-- the return of step `t` -/
def ret (γ lam : Rat) (c : Col) (t : Nat) : Rat := adv γ lam c t + c.v.getD t 0

/-! ### a whole rollout: `T × C` matrices, row-major -/

structure Rollout where
  T  : Nat
  C  : Nat
  r  : List Rat      -- T*C
  d  : List Bool     -- T*C
  v  : List Rat      -- T*C
  nv : List Rat      -- C
  nd : List Bool     -- C

def Rollout.col (ro : Rollout) (j : Nat) : Col :=
  { r := (List.range ro.T).map (fun t => ro.r.getD (t * ro.C + j) 0),
    d := (List.range ro.T).map (fun t => ro.d.getD (t * ro.C + j) false),
    v := (List.range ro.T).map (fun t => ro.v.getD (t * ro.C + j) 0),
    nv := ro.nv.getD j 0, nd := ro.nd.getD j false }

/-- advantages of the whole rollout, row-major `(T, C)`, computed by the loop per column -/
def gaeMatrix (γ lam : Rat) (ro : Rollout) : List Rat :=
  let cols := (List.range ro.C).map (fun j => gaeLoop γ lam (ro.col j))
  (List.range ro.T).flatMap (fun t => cols.map (fun a => a.getD t 0))

/-! ### flattening into training rows -/

/-- an `n × k` table laid out by `for i in range(n): for j in range(k)`; entry `i*k + j` is `g i j` -/
def table2 {α} (n k : Nat) (g : Nat → Nat → α) : List α :=
  (List.range n).flatMap (fun i => (List.range k).map (g i))

/-- an `n × k × l` table; entry `i*(k*l) + j*l + m` is `g i j m` -/
def table3 {α} (n k l : Nat) (g : Nat → Nat → Nat → α) : List α :=
  (List.range n).flatMap (fun i => table2 k l (g i))

/-- PPO `flatten_experiences`: `(T, E, …).swapaxes(0, 1).reshape(T*E, …)` of the array `m t e` -/
def ppoFlatten {α} (T E : Nat) (m : Nat → Nat → α) : List α := table2 E T (fun e t => m t e)

/-- the row of `(t, e)` after `ppoFlatten` -/
def ppoFlat (T : Nat) (t e : Nat) : Nat := e * T + t

/-- IPPO `concatenate_experiences_into_batches`: `cat` over the agents of `(T, E, …)` arrays,
    then `reshape(-1, …)`; `m a t e` -/
def ippoObsFlatten {α} (A T E : Nat) (m : Nat → Nat → Nat → α) : List α := table3 A T E m

def ippoObsFlat (T E : Nat) (a t e : Nat) : Nat := a * (T * E) + t * E + e

/-- IPPO before the repair: `vectorize_experiences_by_agent` stacks to `(T, A, E)`; `reshape(-1)` -/
def ippoAdvFlatten0 {α} (A T E : Nat) (m : Nat → Nat → Nat → α) : List α :=
  table3 T A E (fun t a e => m a t e)

def ippoAdvFlat0 (A E : Nat) (a t e : Nat) : Nat := t * (A * E) + a * E + e

/-- the `(T, A*E)` matrix the GAE loop works on: column `a*E + e` belongs to agent `a`, env `e` -/
def ippoMatrix {α} (E : Nat) (m : Nat → Nat → Nat → α) (t c : Nat) : α := m (c / E) t (c % E)

/-- IPPO after the repair: `M.reshape(T, A, -1).transpose(0, 1).reshape(-1)` for a `(T, C)` matrix -/
def ippoAdvFlattenM {α} (A T C : Nat) (M : Nat → Nat → α) : List α :=
  table3 A T (C / A) (fun a t e => M t (a * (C / A) + e))

def ippoAdvFlatten {α} (A T E : Nat) (m : Nat → Nat → Nat → α) : List α :=
  ippoAdvFlattenM A T (A * E) (ippoMatrix E m)

/-- the row of `(a, t, e)` after the repaired flatten, computed from the matrix column `a*E + e` -/
def ippoAdvFlat (A T E : Nat) (a t e : Nat) : Nat :=
  let c := a * E + e
  let E' := (A * E) / A
  (c / E') * (T * E') + t * E' + c % E'

/-- columns of the IPPO matrices: `vectorize_experiences_by_agent(…, dim=0)` (next_state, and
    next_done after the repair) / `dim=1` on `(T, E)` arrays: column `a*E + e` -/
def ippoCols {α} (A E : Nat) (f : Nat → Nat → α) : List α := table2 A E f

/-- `next_done` before the repair: stacked with `dim=1` to `(E, A)`, then `reshape(1, -1)` -/
def ippoNextDoneCols0 {α} (A E : Nat) (f : Nat → Nat → α) : List α := table2 E A (fun e a => f a e)

/-! ### from a training row back to the sample; minibatches -/

/-- the `(t, e)` whose entry `ppoFlatten` puts in row `row` (inverse of `ppoFlat`) -/
def ppoUnflat (T row : Nat) : Nat × Nat := (row % T, row / T)

/-- the `(a, t, e)` whose entry `ippoObsFlatten` puts in row `row` (inverse of `ippoObsFlat`) -/
def ippoUnflat (T E row : Nat) : Nat × Nat × Nat := (row / (T * E), row / E % T, row % E)

/-- `get_experiences_samples`: `x[minibatch_indices]` — entry `j` is row `idx[j]` of `xs`
    (`none`: torch raises IndexError) -/
def gather {α} (idx : List Nat) (xs : List α) : List (Option α) := idx.map (fun i => xs[i]?)

end GAE

/-! ### line protocol -/
namespace GAE
open Util

structure IOState where
  dummy : Nat := 0

def parseBool? (s : String) : Option Bool :=
  if s = "0" then some false else if s = "1" then some true else none

def parseBools? (ws : List String) : Option (List Bool) := allSome (ws.map parseBool?)

def tag2 (t e : Nat) : String := toString t ++ "." ++ toString e
def tag3 (a t e : Nat) : String := toString a ++ "." ++ toString t ++ "." ++ toString e

/-- `run γ λ T C r[T*C] d[T*C] v[T*C] nv[C] nd[C]` → advantages `|` returns, row-major `(T, C)` -/
def runOp (ws : List String) : String :=
  match ws with
  | g :: l :: t :: c :: rest =>
    match parseRat? g, parseRat? l, parseNat? t, parseNat? c with
    | some γ, some lam, some T, some C =>
      if T = 0 ∨ C = 0 then
        -- the real code cannot stack an empty rollout
        if rest.length = 0 then "reject" else "bad-op"
      else if rest.length ≠ 3 * (T * C) + 2 * C then "bad-op"
      else
        let n := T * C
        match parseRats? (rest.take n), parseBools? ((rest.drop n).take n),
              parseRats? ((rest.drop (2 * n)).take n), parseRats? ((rest.drop (3 * n)).take C),
              parseBools? (rest.drop (3 * n + C)) with
        | some r, some d, some v, some nv, some nd =>
          let ro : Rollout := { T := T, C := C, r := r, d := d, v := v, nv := nv, nd := nd }
          let a := gaeMatrix γ lam ro
          showRats a ++ " | " ++ showRats (returnsOf a v)
        | _, _, _, _, _ => "bad-op"
    | _, _, _, _ => "bad-op"
  | _ => "bad-op"

def dims2 (ws : List String) : Option (Nat × Nat) :=
  match ws with
  | [a, b] => match parseNat? a, parseNat? b with
    | some x, some y => if x = 0 ∨ y = 0 then none else some (x, y)
    | _, _ => none
  | _ => none

def dims3 (ws : List String) : Option (Nat × Nat × Nat) :=
  match ws with
  | [a, b, c] => match parseNat? a, parseNat? b, parseNat? c with
    | some x, some y, some z => if x = 0 ∨ y = 0 ∨ z = 0 then none else some (x, y, z)
    | _, _, _ => none
  | _ => none

def step (s : IOState) : List String → IOState × String
  | "run" :: ws => (s, runOp ws)
  | "ppoflat" :: ws =>                       -- T E
    match dims2 ws with
    | some (T, E) => (s, " ".intercalate (ppoFlatten T E tag2))
    | none => (s, "bad-op")
  | "ippoobs" :: ws =>                       -- A T E
    match dims3 ws with
    | some (A, T, E) => (s, " ".intercalate (ippoObsFlatten A T E tag3))
    | none => (s, "bad-op")
  | "ippoadv" :: ws =>
    match dims3 ws with
    | some (A, T, E) => (s, " ".intercalate (ippoAdvFlatten A T E tag3))
    | none => (s, "bad-op")
  | "ippoadv0" :: ws =>
    match dims3 ws with
    | some (A, T, E) => (s, " ".intercalate (ippoAdvFlatten0 A T E tag3))
    | none => (s, "bad-op")
  | "ppobatch" :: t :: e :: ws =>            -- T E idx…  : the minibatch `x[idx]` of the flattened rollout
    match dims2 [t, e], allSome (ws.map parseNat?) with
    | some (T, E), some idx =>
      (s, " ".intercalate ((gather idx (ppoFlatten T E tag2)).map (fun o => o.getD "oob")))
    | _, _ => (s, "bad-op")
  | "ippobatch" :: a :: t :: e :: ws =>      -- A T E idx…
    match dims3 [a, t, e], allSome (ws.map parseNat?) with
    | some (A, T, E), some idx =>
      (s, " ".intercalate ((gather idx (ippoAdvFlatten A T E tag3)).map (fun o => o.getD "oob")))
    | _, _ => (s, "bad-op")
  | "ippocols" :: ws =>                      -- A E
    match dims2 ws with
    | some (A, E) => (s, " ".intercalate (ippoCols A E tag2))
    | none => (s, "bad-op")
  | "ippondcols0" :: ws =>
    match dims2 ws with
    | some (A, E) => (s, " ".intercalate (ippoNextDoneCols0 A E tag2))
    | none => (s, "bad-op")
  | _ => (s, "bad-op")

end GAE


namespace GAE

/-! ### rollout collection: what `learn()` receives (one environment column of one agent)

  `collect` models the step loop of `train_on_policy` / `train_multi_agent_on_policy`
  (`harness/py2lean_rollout.py` translates it from the source, `Proofs/RolloutGenEq.lean`):
  per step the policy's outputs for the state acted on and the environment's reply are appended to the lists;
  `dones` receives the flag carried over from the PREVIOUS step (`done`), the new flag
  `terminated OR truncated` becomes `next_done` and the carried `done` of the next step. -/

/-- what one trip round the step loop receives: the policy's outputs for the state it acts on and the
    environment's reply; `reset = some o` iff the loop itself reset the environment after this step -/
structure StepReply (σ α : Type) where
  action : α
  logp : Rat
  entropy : Rat
  value : Rat
  obs : σ
  reward : Rat
  term : Bool
  trunc : Bool
  reset : Option σ

/-- the done flag as coded: `np.logical_or(terminated, truncated)` — a truncation counts as an episode end -/
def StepReply.flag {σ α} (x : StepReply σ α) : Bool := x.term || x.trunc

/-- the observation the next step acts on -/
def StepReply.after {σ α} (x : StepReply σ α) : σ := x.reset.getD x.obs

/-- the lists handed to learn, `next_state` / `next_done`, and the two variables carried from step to step -/
structure Collected (σ α : Type) where
  states : List σ
  actions : List α
  logps : List Rat
  rewards : List Rat
  dones : List Bool
  values : List Rat
  nextState : σ
  nextDone : Bool
  state : σ          -- the observation the next step acts on
  done : Bool        -- the flag the next step records with it

def collectStep {σ α} (s : Collected σ α) (x : StepReply σ α) : Collected σ α :=
  { states := s.states ++ [s.state], actions := s.actions ++ [x.action], logps := s.logps ++ [x.logp],
    rewards := s.rewards ++ [x.reward], dones := s.dones ++ [s.done], values := s.values ++ [x.value],
    nextState := x.obs, nextDone := x.flag, state := x.after, done := x.flag }

/-- before the first step: empty lists; `ns0` / `nd0` stand for the unbound `next_state` / `next_done` -/
def collectInit {σ α} (done0 : Bool) (state0 ns0 : σ) (nd0 : Bool) : Collected σ α :=
  { states := [], actions := [], logps := [], rewards := [], dones := [], values := [],
    nextState := ns0, nextDone := nd0, state := state0, done := done0 }

/-- the rollout collected from a stream of replies, starting with the carried flag `done0` (`np.zeros` as coded) -/
def collect {σ α} (done0 : Bool) (state0 ns0 : σ) (nd0 : Bool) (xs : List (StepReply σ α)) : Collected σ α :=
  xs.foldl collectStep (collectInit done0 state0 ns0 nd0)

/-- the column the GAE loop works on: the critic's value of `next_state` is the bootstrap value -/
def Collected.col {σ α} (R : Collected σ α) (critic : σ → Rat) : Col :=
  { r := R.rewards, d := R.dones, v := R.values, nv := critic R.nextState, nd := R.nextDone }

end GAE
