import Model.Util
/-
  Model/Heap.lean — (stub) executable model; see DESIGN.md.  Core Lean only.
-/
namespace Heap
open Util

structure IOState where
  dummy : Nat := 0

def step (s : IOState) : List String → IOState × String
  | _ => (s, "bad-op")

end Heap
