import Model.Util
/-
  Model/Heap.lean — object-identity model behind C01 / C07 (clone, checkpoint round trip,
  independence of agents).

  A heap is a list of cells (address = position, contents = an opaque value id).  An agent maps
  each attribute number to the list of *mutable cells reachable through that attribute*
  (parameter/ buffer storages of a network, moment and step tensors of an optimizer, the list
  object and elements of `fitness`/`scores`/`steps`, the `RLParameter`s of the registry …).
  `clone` follows the per-attribute rule table of `EvolvableAlgorithm.clone` +
  `copy_attributes` (agilerl/algorithms/core/base.py):

  * networks            — `module.clone()` : fresh storages holding equal values
  * optimizers          — new `OptimizerWrapper` + `load_state_dict(deepcopy(state))` : fresh
                          (`optByRef = true` models the unrepaired code, which loaded the parent's
                          state dict without copying: the moment/step tensors stay shared)
  * target networks of an algorithm whose hook re-synchronises them — fresh cells holding the
    values of the *online* network (`resync src`)
  * lists               — new list, elements deep-copied : fresh
  * registry            — always deep-copied : fresh
  * tensors / ndarrays / anything else that is a constructor argument — the constructor received
    the parent's object by reference and `copy_attributes` leaves an equal value alone : by reference
  * the same kinds when not a constructor argument — constructor default or deep copy : fresh
  * immutable values have no mutable cell at all.
-/
namespace Heap
open Util

abbrev Addr := Nat  -- (documentation only; all signatures below spell out `Nat`)

inductive Kind
  | network | optimizer | target (src : Nat) | list | registry | tensor | ndarray | other | callable
  | immutable
deriving Repr, DecidableEq

structure AttrSpec where
  kind    : Kind
  ctorArg : Bool
deriving Repr, DecidableEq

inductive Rule
  | fresh | byRef | resync (src : Nat)
deriving Repr, DecidableEq

/-- the rule table of `clone` / `copy_attributes`; `optByRef` = unrepaired optimizer handling -/
def ruleOf (optByRef : Bool) (a : AttrSpec) : Rule :=
  match a.kind with
  | .network => .fresh
  | .optimizer => if optByRef then .byRef else .fresh
  | .target src => .resync src
  | .list => .fresh
  | .registry => .fresh
  | .immutable => .fresh
  | .tensor | .ndarray | .other | .callable => if a.ctorArg then .byRef else .fresh

abbrev Agent := List (List Nat)

structure World where
  heap   : List Nat
  agents : List (Option Agent)      -- `none` = discarded
  rules  : List Rule
deriving Repr

/-- contents of a list of cells -/
def vals (h : List Nat) (cs : List Nat) : List Nat := cs.map (fun a => h.getD a 0)

/-- allocate `vs.length` new cells holding `vs` -/
def alloc (h : List Nat) (vs : List Nat) : List Nat × List Nat :=
  (h ++ vs, (List.range vs.length).map (fun i => h.length + i))

/-- the cells whose values the child's attribute is initialised from -/
def srcOf (parent : Agent) (cs : List Nat) : Rule → List Nat
  | .resync src => parent.getD src []
  | _ => cs

/-- clone the attributes one by one (left to right) following the rules -/
def cloneAttrs (parent : Agent) : List Rule → List (List Nat) → List Nat → List Nat × Agent
  | [], _, h => (h, [])
  | _, [], h => (h, [])
  | r :: rs, cs :: rest, h =>
    if r = .byRef then
      let rc := cloneAttrs parent rs rest h
      (rc.1, cs :: rc.2)
    else
      let al := alloc h (vals h (srcOf parent cs r))
      let rc := cloneAttrs parent rs rest al.1
      (rc.1, al.2 :: rc.2)

def World.clone (w : World) (i : Nat) : World :=
  match w.agents[i]? with
  | some (some p) =>
    let rc := cloneAttrs p w.rules p w.heap
    { w with heap := rc.1, agents := w.agents ++ [some rc.2] }
  | _ => w

/-- in-place write through agent `i`'s own reference to the `c`-th cell of attribute `k`
    (learn step, list append, mutation noise) -/
def World.write (w : World) (i k c v : Nat) : Option World :=
  match w.agents[i]? with
  | some (some ag) =>
    match (ag.getD k [])[c]? with
    | some a => some { w with heap := w.heap.set a v }
    | none => none
  | _ => none

/-- the attribute is re-bound to newly created objects (network re-created by a mutation,
    optimizer re-initialised, `agent.fitness = [...]`) -/
def World.rebind (w : World) (i k : Nat) (vs : List Nat) : Option World :=
  match w.agents[i]? with
  | some (some ag) =>
    if k < ag.length then
      let al := alloc w.heap vs
      some { w with heap := al.1, agents := w.agents.set i (some (ag.set k al.2)) }
    else none
  | _ => none

def World.discard (w : World) (i : Nat) : World :=
  { w with agents := w.agents.set i none }

/-- attribute `k` owns `sizes[k]` consecutive cells starting at `base` -/
def initAttrs : Nat → List Nat → Agent
  | _, [] => []
  | b, n :: ns => (List.range n).map (fun t => b + t) :: initAttrs (b + n) ns

/-- a first agent whose attribute `k` owns `sizes[k]` fresh cells (cell `a` holds value `a+1`) -/
def World.init (rules : List Rule) (sizes : List Nat) : World :=
  { heap := (List.range sizes.sum).map (· + 1), agents := [some (initAttrs 0 sizes)], rules := rules }

/-- what agent `j` can observe: the contents of every cell it reaches, attribute by attribute -/
def view (w : World) (j : Nat) : Option (List (List Nat)) :=
  match w.agents[j]? with
  | some (some ag) => some (ag.map (vals w.heap))
  | _ => none

/-- pairs ((i,k),(j,l)), i < j, of attributes of two live agents that reach a common cell -/
def aliasPairs (w : World) : List (Nat × Nat × Nat × Nat) :=
  let live := (List.range w.agents.length).filterMap (fun i =>
    match w.agents[i]? with
    | some (some ag) => some (i, ag)
    | _ => none)
  live.flatMap fun (i, ai) =>
    live.flatMap fun (j, aj) =>
      if i < j then
        (List.range ai.length).flatMap fun k =>
          (List.range aj.length).filterMap fun l =>
            if (ai.getD k []).any (fun a => (aj.getD l []).contains a) then some (i, k, j, l) else none
      else []

/-! ### the clone semantics made explicit

  `ruleOf` above is the compact rule table the driver uses.  Below, the same table is DERIVED: the phases of
  `EvolvableAlgorithm.clone` in source order (`clonePhases`), the decision table of `copy_attributes`
  (`copyAction`), and a small semantics (`stepSlot` / `deriveRule`) that follows one attribute of the new agent
  through the phases.  `Proofs/CloneGenEq.lean` proves `deriveRule (clonePhases b) copyAction = ruleOf b` and that
  the phase list / decision table / listing predicate GENERATED from the source text (`Gen/CloneGen.lean`,
  harness/py2lean_clone.py) are these. -/

/-- how an object handed to the clone relates to the parent's object -/
inductive Share
  | fresh | byRef
deriving Repr, DecidableEq

/-- what `copy_attributes` does with one attribute -/
inductive Action
  | skip              -- `continue`: the attribute is not looked at, the clone keeps its own
  | keepOwn           -- no assignment: the clone keeps what its constructor made / received
  | freshDeep         -- `setattr(clone, a, copy.deepcopy(<parent's>))`
  | freshPerElement   -- `setattr(clone, a, [copy.deepcopy(el) for el in <parent's>])`
  | byRef             -- `setattr(clone, a, <parent's>)`: a "copy" that shares the parent's object
deriving Repr, DecidableEq

/-- decision table of `copy_attributes` for an attribute that parent and clone both have:
    kind × "the parent's value equals the clone's own value" → action.  (The evolvable kinds are never
    listed by `inspect_attributes`; the row exists for totality only.) -/
def copyAction : Kind → Bool → Action
  | .callable, _ => .skip
  | .list, _ => .freshPerElement
  | .registry, _ => .freshDeep
  | .tensor, eq | .ndarray, eq | .other, eq | .immutable, eq => if eq then .keepOwn else .freshDeep
  | .network, _ | .optimizer, _ | .target _, _ => .skip

/-- an attribute the clone's constructor did not create is deep-copied -/
def copyAbsent : Action := .freshDeep

/-- which networks a re-created optimizer is built over -/
inductive NetSrc
  | cloned | parents
deriving Repr, DecidableEq

/-- the phases of `clone`, with what the heap semantics needs to know of each -/
inductive Phase
  | construct (args : Share)              -- `type(self)(**input_args)`: how constructor arguments are passed
  | modules (single list : Share)         -- every evolvable network (list of networks) attribute is re-assigned
  | hook                                  -- `clone.mutation_hook()`
  | optimizers (nets : NetSrc) (state : Share)   -- new OptimizerWrapper + load_state_dict(<state>)
  | copyAttrs                             -- `copy_attributes(self, clone)`
  | index                                 -- `clone.index = index`
deriving Repr, DecidableEq

def clonePhases (optByRef : Bool) : List Phase :=
  [.construct .byRef, .modules .fresh .fresh, .hook,
   .optimizers .cloned (if optByRef then .byRef else .fresh), .copyAttrs, .index]

/-- `AgentWrapper.clone`: re-invoke the constructor with the attributes named like its parameters, then
    the same `copy_attributes` -/
def wrapperPhases : List Phase := [.construct .byRef, .copyAttrs]

/-- which members `inspect_attributes` lists -/
def inspectListed (inputArgsOnly routine evolvable tensorDict leading trailing ctorParam : Bool) : Bool :=
  !routine && !(leading || trailing) && !(evolvable || tensorDict) && (!inputArgsOnly || ctorParam)

def Kind.evolvable : Kind → Bool
  | .network | .optimizer | .target _ => true
  | _ => false

def shareRule : Share → Rule
  | .fresh => .fresh
  | .byRef => .byRef

/-- what the clone holds under an attribute at some point of `clone`: its relation to the parent's cells and
    whether it holds the parent's values (for `resync src`: the values of the parent's attribute `src`) -/
structure Slot where
  rule : Rule
  faithful : Bool
deriving Repr, DecidableEq

/-- effect of one phase on attribute `a` of the clone.  `net`: the slot of an online network at that moment
    (what a re-synchronising hook copies from); `hookWrites`: a registered hook re-binds the attribute;
    `eq`: the equality test of `copy_attributes` would succeed although the clone's own value is not known
    to be the parent's -/
def stepSlot (copy : Kind → Bool → Action) (a : AttrSpec) (hookWrites eq : Bool) (net s : Slot) : Phase → Slot
  | .construct args =>
    if a.kind.evolvable then ⟨.fresh, false⟩
    else if a.ctorArg then ⟨shareRule args, true⟩ else ⟨.fresh, false⟩
  | .modules single list =>
    match a.kind with
    | .network | .target _ => ⟨if single = .fresh ∧ list = .fresh then .fresh else .byRef, true⟩
    | _ => s
  | .hook =>
    match a.kind with
    | .target src => ⟨.resync src, net.faithful⟩
    | .network | .optimizer => s
    | _ => if hookWrites then ⟨.fresh, false⟩ else s
  | .optimizers nets state =>
    match a.kind with
    | .optimizer => ⟨if nets = .cloned ∧ state = .fresh then .fresh else .byRef, true⟩
    | _ => s
  | .copyAttrs =>
    if a.kind.evolvable then s
    else
      match copy a.kind (s.faithful || eq) with
      | .skip => s
      | .keepOwn => ⟨s.rule, s.faithful || eq⟩
      | .freshDeep | .freshPerElement => ⟨.fresh, true⟩
      | .byRef => ⟨.byRef, true⟩
  | .index => s

def runSlots (copy : Kind → Bool → Action) (a : AttrSpec) (hookWrites eq : Bool) :
    List Phase → Slot × Slot → Slot × Slot
  | [], st => st
  | p :: ps, (s, net) =>
    runSlots copy a hookWrites eq ps
      (stepSlot copy a hookWrites eq net s p, stepSlot copy ⟨.network, false⟩ false false net net p)

def deriveSlot (phases : List Phase) (copy : Kind → Bool → Action) (a : AttrSpec) (hookWrites eq : Bool) : Slot :=
  (runSlots copy a hookWrites eq phases (⟨.fresh, false⟩, ⟨.fresh, false⟩)).1

/-- the rule of attribute `a` DERIVED from a phase list and a copy table (immutable values have no cell) -/
def deriveRule (phases : List Phase) (copy : Kind → Bool → Action) (a : AttrSpec) (hookWrites eq : Bool) : Rule :=
  if a.kind = .immutable then .fresh else (deriveSlot phases copy a hookWrites eq).rule

def deriveFaithful (phases : List Phase) (copy : Kind → Bool → Action) (a : AttrSpec) (hookWrites eq : Bool) : Bool :=
  (deriveSlot phases copy a hookWrites eq).faithful

/-! ### line protocol -/

structure IOState where
  w : World := { heap := [], agents := [], rules := [] }
  optByRef : Bool := false
  /-- saved checkpoints (by-value snapshots of an agent's view), used by `Model/HeapCkpt.lean` -/
  blobs : List (List (List Nat)) := []

def parseSpec (s : String) : Option AttrSpec :=
  -- `<kind>[:c]`, kinds: net opt tgt<src> list reg ten nda oth cal imm
  let (base, ctor) := match s.splitOn ":" with
    | [b, "c"] => (b, true)
    | [b] => (b, false)
    | _ => ("?", false)
  let mk := fun k => some { kind := k, ctorArg := ctor : AttrSpec }
  if base = "net" then mk .network
  else if base = "opt" then mk .optimizer
  else if base = "list" then mk .list
  else if base = "reg" then mk .registry
  else if base = "ten" then mk .tensor
  else if base = "nda" then mk .ndarray
  else if base = "oth" then mk .other
  else if base = "cal" then mk .callable
  else if base = "imm" then mk .immutable
  else if base.startsWith "tgt" then
    match parseNat? (base.drop 3).toString with
    | some n => mk (.target n)
    | none => none
  else none

def showView : Option (List (List Nat)) → String
  | none => "dead"
  | some v => " | ".intercalate (v.map showNats)

def showPairs (l : List (Nat × Nat × Nat × Nat)) : String :=
  " ".intercalate (l.map fun (i, k, j, m) => s!"{i}.{k}={j}.{m}")

def step (s : IOState) : List String → IOState × String
  | ["mode", m] => if m = "repaired" then ({ s with optByRef := false }, "ok")
                   else if m = "unrepaired" then ({ s with optByRef := true }, "ok") else (s, "bad-op")
  | "new" :: rest =>
    -- new <spec_0> … <spec_{n-1}> / <size_0> … <size_{n-1}>
    let specs := rest.takeWhile (fun t => t != "/")
    let sizes := (rest.dropWhile (fun t => t != "/")).drop 1
    match allSome (specs.map parseSpec), parseNats? sizes with
    | some sp, some sz =>
      if sp.length = sz.length then
        ({ s with w := World.init (sp.map (ruleOf s.optByRef)) sz }, "ok")
      else (s, "bad-op")
    | _, _ => (s, "bad-op")
  | ["clone", i] =>
    match parseNat? i with
    | some i =>
      match s.w.agents[i]? with
      | some (some _) => ({ s with w := s.w.clone i }, toString s.w.agents.length)
      | _ => (s, "reject")
    | none => (s, "bad-op")
  | ["write", i, k, c, v] =>
    match parseNat? i, parseNat? k, parseNat? c, parseNat? v with
    | some i, some k, some c, some v =>
      match s.w.write i k c v with
      | some w' => ({ s with w := w' }, "ok")
      | none => (s, "reject")
    | _, _, _, _ => (s, "bad-op")
  | "rebind" :: i :: k :: vs =>
    match parseNat? i, parseNat? k, parseNats? vs with
    | some i, some k, some vs =>
      match s.w.rebind i k vs with
      | some w' => ({ s with w := w' }, "ok")
      | none => (s, "reject")
    | _, _, _ => (s, "bad-op")
  | ["discard", i] =>
    match parseNat? i with
    | some i => ({ s with w := s.w.discard i }, "ok")
    | none => (s, "bad-op")
  | ["view", j] =>
    match parseNat? j with
    | some j => (s, showView (view s.w j))
    | none => (s, "bad-op")
  | ["alias"] => (s, showPairs (aliasPairs s.w))
  | ["rules"] => (s, " ".intercalate (s.w.rules.map fun r =>
      match r with | .fresh => "f" | .byRef => "r" | .resync n => s!"s{n}"))
  | _ => (s, "bad-op")

/-! ### module-level clone (`EvolvableModule.clone`, agilerl/modules/base.py)

  What `module.clone()` — the operation the agent-level table above calls "fresh" for networks — does to each group
  of mutable objects reachable from ONE evolvable module.  `Proofs/ModCloneGenEq.lean` proves the rule generated
  from the source text (`Gen/ModCloneGen.lean`, harness/py2lean_modclone.py) equal to `moduleCloneRule`. -/

/-- the groups of mutable objects reachable from an evolvable module -/
inductive ModPart
  | params                 -- parameter and buffer tensors (their storages)
  | initArg (depth : Nat)  -- containers among the recorded constructor arguments (`init_dict` values): depth 0 = the
                           -- list / dict the module holds as an attribute (`hidden_size`, `encoder_config`),
                           -- depth 1 = a list / dict inside it (`encoder_config["hidden_size"]`), …
  | methodLists            -- `_layer_mutation_methods`, `_node_mutation_methods`
deriving Repr, DecidableEq

/-- how the constructor-argument dict is copied before `self.__class__(**…)` -/
inductive InitCopy
  | deep        -- `copy.deepcopy(self.get_init_dict())`
  | shallow     -- `dict(self.init_dict)` / no copy: `get_init_dict()` is a new dict of the module's own objects
deriving Repr, DecidableEq

def initArgRule : InitCopy → Nat → Rule
  | .deep, _ => .fresh
  | .shallow, _ => .byRef

def moduleCloneRuleOf (c : InitCopy) (listsShared : Bool) : ModPart → Rule
  | .params => .fresh
  | .initArg d => initArgRule c d
  | .methodLists => if listsShared then .byRef else .fresh

/-- `EvolvableModule.clone` as the code is: parameters / buffers, the recorded constructor arguments at every
    nesting depth and the two lists of mutation-method names (`list(self._layer_mutation_methods)`) are fresh.
    (`moduleCloneRuleOf .deep true` = the code as found, which handed the two lists over by reference.) -/
def moduleCloneRule : ModPart → Rule := moduleCloneRuleOf .deep false

/-- every part of the clone holds the original's values -/
def moduleCloneFaithful : ModPart → Bool := fun _ => true

/-- `EvolvableDistribution.clone`: the wrapped network is cloned (its parts follow `moduleCloneRule`), the plain
    constructor arguments (action space, numbers, device) are handed over as they are, the wrapper's own method
    lists are rebuilt by the constructor -/
def distCloneRule : ModPart → Rule
  | .params => .fresh
  | .initArg _ => .byRef
  | .methodLists => .fresh

/-- a module whose recorded arguments nest `D` deep, as a list of attribute groups -/
def modParts (D : Nat) : List ModPart := .params :: ((List.range D).map .initArg ++ [.methodLists])

def moduleRules (D : Nat) : List Rule := (modParts D).map moduleCloneRule

def shallowModuleRules (D : Nat) : List Rule := (modParts D).map (moduleCloneRuleOf .shallow false)

/-- the code as found: method-name lists assigned by reference -/
def sharedListsModuleRules (D : Nat) : List Rule := (modParts D).map (moduleCloneRuleOf .deep true)

end Heap
