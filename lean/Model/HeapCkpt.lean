import Model.Heap
/-
  Model/HeapCkpt.lean — checkpoint save / load on the heap world (C07).  Core Lean only.
  The handler works on the same `Heap.IOState` as the `heap` token, so histories can mix both.

  `save_checkpoint` (agilerl/algorithms/core/base.py `get_checkpoint_dict` + `torch.save`) is a
  by-value serialisation: the file holds the *values* of every attribute (hyper-parameters, lists,
  registry, `init_dict` + `state_dict` of every network, optimizer state) and no reference to any
  live object.  `EvolvableAlgorithm.load` builds a new agent from the file, `load_checkpoint`
  re-builds every attribute of an existing agent from it; either way **every attribute of the
  restored agent consists of freshly allocated cells**.

  What the cells hold is described cell by cell by a `Fill`:

  * `saved`      — the value stored in the file (the repaired code: every cell);
  * `from k c`   — not stored, but re-derived by a hook that runs *after* the weights were loaded
                   from the restored cell `c` of attribute `k` (a target re-synchronised with the
                   online network, a critic's copy of the actor's encoder);
  * `init v`     — neither: the tensor is not in any `state_dict()` (it was installed with
                   `TensorDict.to_module`) and the hook ran *before* the weights were loaded, so the
                   cell keeps whatever construction left there (`v`, chosen by the environment).
                   This is the unrepaired behaviour for DQN's `actor_target` and for the encoder
                   copies inside DDPG / TD3 / PPO critics with `share_encoders=True`.
-/
namespace HeapCkpt
open Util Heap

/-- a checkpoint file: attribute → saved values (exactly `Heap.view` of the saved agent) -/
abbrev Blob := List (List Nat)

inductive Fill
  | saved
  | «from» (k c : Nat)
  | init (v : Nat)
deriving Repr, DecidableEq

/-- exceptions to "every cell is restored from the file": ((attribute, cell), fill) -/
abbrev Spec := List ((Nat × Nat) × Fill)

def cellFill (sp : Spec) (k c : Nat) : Fill :=
  match sp.find? (fun e => e.1 == (k, c)) with
  | some e => e.2
  | none => .saved

/-- serialise agent `i` (nothing in the world changes) -/
def save (w : World) (i : Nat) : Option Blob := view w i

def blobVal (b : Blob) (k c : Nat) : Nat := (b.getD k []).getD c 0

def fillVal (b : Blob) (k c : Nat) : Fill → Nat
  | .saved => blobVal b k c
  | .from k' c' => blobVal b k' c'
  | .init v => v

/-- the values the restored agent holds, attribute by attribute, cell by cell -/
def restoredVals (b : Blob) (sp : Spec) : List (List Nat) :=
  b.mapIdx fun k vs => vs.mapIdx fun c _ => fillVal b k c (cellFill sp k c)

/-- allocate fresh cells for every attribute, left to right -/
def allocAll : List Nat → List (List Nat) → List Nat × Agent
  | h, [] => (h, [])
  | h, vs :: rest =>
    let al := alloc h vs
    let r := allocAll al.1 rest
    (r.1, al.2 :: r.2)

/-- a separately constructed agent: every attribute in fresh cells holding `vss` -/
def spawn (w : World) (vss : List (List Nat)) : World :=
  let r := allocAll w.heap vss
  { w with heap := r.1, agents := w.agents ++ [some r.2] }

/-- `Algo.load(path)` : a new agent (index `w.agents.length`) -/
def load (w : World) (b : Blob) (sp : Spec) : World := spawn w (restoredVals b sp)

/-- `agent_j.load_checkpoint(path)` : every attribute of the live agent `j` is re-bound to fresh
    cells; rejected when `j` is not live or has another attribute layout than the file
    (the registry check of `load_checkpoint`) -/
def loadInto (w : World) (b : Blob) (sp : Spec) (j : Nat) : Option World :=
  match w.agents[j]? with
  | some (some ag) =>
    if ag.length = b.length then
      let r := allocAll w.heap (restoredVals b sp)
      some { w with heap := r.1, agents := w.agents.set j (some r.2) }
    else none
  | _ => none

/-! ### the checkpoint table (explicit)

  WHICH parts of an agent's state go into the file and come back, per kind of attribute, the phases of the two load
  paths and the order in which the wrapper's state is merged — the facts about
  `get_checkpoint_dict` / `EvolvableAlgorithm.{save_checkpoint, load_checkpoint, load}` /
  `AgentWrapper.{save_checkpoint, load_checkpoint}` that `save` / `load` / `loadInto` above rely on ("the file
  holds every attribute by value, every restored cell is `saved`").  `Gen/CkptGen.lean` derives the same tables
  from the source text; `Proofs/CkptGenEq.lean` proves them equal to the definitions of this section.  The driver
  protocol does not use this section. -/

/-- what the `isinstance` chain of `get_checkpoint_dict` distinguishes among evolvable attributes -/
inductive ObjCls
  | optimizerWrapper | evolvableModule | optimizedModule | moduleList (compiled : Bool) | other
deriving Repr, DecidableEq

/-- the parts of an attribute's state -/
inductive Part
  | cls | init | weights | detached                                          -- a network: class, init_dict, state-dict tensors, tensors no state dict lists
  | optCls | optState | optNetworks | optLr | optKwargs | optMultiagent      -- an optimizer: what is stored
  | optParams                                                                -- … the parameters it steps (the rebuilt networks)
  | value                                                                    -- any other attribute
deriving Repr, DecidableEq

inductive Cls
  | evolvable (o : ObjCls)
  | plain           -- a public non-evolvable attribute (hyper-parameter, list, registry, tensor, …)
  | subRef          -- … whose value is a reference into one of the agent's own networks
  | wrapperAttr     -- an attribute of the AgentWrapper object
deriving Repr, DecidableEq

def Cls.parts : Cls → List Part
  | .evolvable .optimizerWrapper => [.optCls, .optState, .optNetworks, .optLr, .optKwargs, .optMultiagent, .optParams]
  | .evolvable _ => [.cls, .init, .weights, .detached]
  | _ => [.value]

inductive LoadPath
  | inplace | new | wrapperInplace
deriving Repr, DecidableEq

/-- what happens to a part over save + load -/
inductive Fate
  | saved     -- written to the file by value and restored from that very entry
  | kept      -- not taken from the file: what the receiver / the constructor has there stays
  | lost      -- neither (cannot be saved, or restored from something else)
deriving Repr, DecidableEq

/-- THE TABLE: every part of every evolvable attribute and every plain attribute is `saved` on every path; a
    reference into the agent's own networks stays live; wrapper attributes come back on the wrapper's paths -/
def fate (p : LoadPath) (c : Cls) (q : Part) : Fate :=
  if q ∈ c.parts then
    match c with
    | .evolvable .other => .lost            -- `get_checkpoint_dict` raises TypeError
    | .evolvable _ => .saved
    | .plain => .saved
    | .subRef => .kept
    | .wrapperAttr => if p = .inplace then .kept else .saved
  else .lost

/-- a member of the agent object as `inspect_attributes` sees it -/
structure Member where
  routine : Bool
  startsUnderscore : Bool
  endsUnderscore : Bool
  evolvable : Bool
  tensorDict : Bool
  ctorParam : Bool
deriving Repr, DecidableEq

inductive MemberName
  | generic | accelerator | lrScheduler | networkInfo | agilerlVersion
deriving Repr, DecidableEq

inductive AKind
  | evolvable (o : ObjCls)
  | member (name : MemberName) (a : Member)
deriving Repr, DecidableEq

inductive Saved
  | byValue (parts : List Part) | notSaved | stateDictIfNotNone | shadowed | error (cls : String)
deriving Repr, DecidableEq

/-- `inspect_attributes`: public, not a routine, not evolvable, not a TensorDict (and a constructor argument) -/
def inspectKeep (inputArgsOnly : Bool) (a : Member) : Bool :=
  !a.routine && !a.startsUnderscore && !a.endsUnderscore && !a.evolvable && !a.tensorDict &&
    (!inputArgsOnly || a.ctorParam)

/-- THE RULE TABLE OF SAVING -/
def ckptRule : AKind → Saved
  | .evolvable .optimizerWrapper => .byValue [.optCls, .optState, .optNetworks, .optLr, .optKwargs, .optMultiagent]
  | .evolvable .other => .error "TypeError"
  | .evolvable _ => .byValue [.cls, .init, .weights, .detached]
  | .member n a =>
    if !inspectKeep false a then .notSaved
    else
      match n with
      | .generic => .byValue [.value]
      | .accelerator => .notSaved
      | .lrScheduler => .stateDictIfNotNone
      | _ => .shadowed

/-- the attribute kinds of the heap model (`Heap.Kind`, the groups the walker measures) as checkpoint kinds -/
def akindOf : Heap.Kind → AKind
  | .network => .evolvable .evolvableModule
  | .target _ => .evolvable .evolvableModule
  | .optimizer => .evolvable .optimizerWrapper
  | _ => .member .generic ⟨false, false, false, false, false, false⟩

def clsOf : Heap.Kind → Cls
  | .network => .evolvable .evolvableModule
  | .target _ => .evolvable .evolvableModule
  | .optimizer => .evolvable .optimizerWrapper
  | _ => .plain

inductive Phase
  | readFile | buildNetworks | setNetworks | hook | loadWeights | loadDetached
  | buildOptimizers | loadOptState | setOptimizers | setAttributes
  | newAgent | setKey (k : String) | ckptSet (k : String) | ckptPop (k : String)
  | check (cls : String) | selfCall (m : String) | agentLoad | buildWrapper | setWrapperAttrs
  | other (what : String)
deriving Repr, DecidableEq

/-- `load_checkpoint`: networks are re-created from the saved init dicts and bound, THEN the hooks run, THEN the
    weights and the tensors no state dict lists are written, then the optimizers are rebuilt on the new networks
    and their state loaded, then the registry is checked and the remaining attributes are set -/
def loadCheckpointPhases : List Phase :=
  [.readFile, .buildNetworks, .setNetworks, .hook, .loadWeights, .loadDetached, .buildOptimizers, .loadOptState,
   .setOptimizers, .check "ValueError", .ckptPop "network_info", .setAttributes, .selfCall "wrap_models",
   .selfCall "recompile"]

/-- `load`: the same restore steps around the construction of the new agent -/
def loadPhases : List Phase :=
  [.readFile, .check "ValueError", .check "ValueError", .buildNetworks, .ckptSet "accelerator", .ckptSet "device",
   .newAgent, .setKey "registry", .setNetworks, .hook, .loadWeights, .loadDetached, .buildOptimizers, .loadOptState,
   .setNetworks, .setOptimizers, .setAttributes, .selfCall "wrap_models", .selfCall "recompile", .buildWrapper,
   .setWrapperAttrs]

/-- `AgentWrapper.load_checkpoint`: the agent first, the wrapper's attributes afterwards -/
def wrapperLoadCheckpointPhases : List Phase := [.readFile, .agentLoad, .setWrapperAttrs]

/-- what the file of a wrapped agent holds under a key -/
inductive WSource
  | wrapperClass | wrapperCtorArgs | wrapperAttrs   -- the wrapper's own state (the entry `agent` removed)
  | agentEntry                                      -- the entry of the inner agent's checkpoint dict
  | absent
deriving Repr, DecidableEq

/-- WRAPPER MERGE ORDER: the wrapper's keys are written AFTER the agent's dict, so they win even when the inner
    agent has attributes of the same names (`agentHas`; an earlier `load_checkpoint` leaves them there) -/
def wrapperFile (agentHas : Bool) (k : String) : WSource :=
  if k = "wrapper_cls" then .wrapperClass
  else if k = "wrapper_init_dict" then .wrapperCtorArgs
  else if k = "wrapper_attrs" then .wrapperAttrs
  else if k = "learn" ∨ k = "get_action" then .absent
  else if agentHas then .agentEntry else .absent

/-- per attribute group: its class and the part each of its cells belongs to -/
abbrev Layout := List (Cls × List Part)

/-- the exceptions to "every cell is restored from the file" that a fate table implies -/
def specOf (f : Cls → Part → Fate) (junk : Nat → Nat → Nat) (lay : Layout) : Spec :=
  (lay.mapIdx fun k cp =>
    (cp.2.mapIdx fun c q => if f cp.1 q = .saved then [] else [((k, c), Fill.init (junk k c))]).flatten).flatten

/-- `load` / `loadInto` driven by a fate table -/
def loadBy (f : Cls → Part → Fate) (junk : Nat → Nat → Nat) (lay : Layout) (w : World) (b : Blob) : World :=
  load w b (specOf f junk lay)

def loadIntoBy (f : Cls → Part → Fate) (junk : Nat → Nat → Nat) (lay : Layout) (w : World) (b : Blob) (j : Nat) :
    Option World :=
  loadInto w b (specOf f junk lay) j

/-- the layout holds only attributes that own cells and can be saved: every part is a part of its class, no
    references into other attributes, nothing `get_checkpoint_dict` rejects; wrapper attributes only on the paths that go through the wrapper -/
def Layout.Savable (p : LoadPath) (lay : Layout) : Prop :=
  ∀ cp ∈ lay, cp.1 ≠ .subRef ∧ (cp.1 = .wrapperAttr → p ≠ .inplace) ∧ cp.1 ≠ .evolvable .other ∧
    ∀ q ∈ cp.2, q ∈ cp.1.parts

/-! ### line protocol (token `ckpt`, state shared with token `heap`) -/

/-- `k.c=i<v>` | `k.c=f<k'>.<c'>` -/
def parseFill (s : String) : Option ((Nat × Nat) × Fill) :=
  match s.splitOn "=" with
  | [lhs, rhs] =>
    match lhs.splitOn "." with
    | [k, c] =>
      match parseNat? k, parseNat? c with
      | some k, some c =>
        if rhs.startsWith "i" then
          (parseNat? (rhs.drop 1).toString).map fun v => ((k, c), Fill.init v)
        else if rhs.startsWith "f" then
          match ((rhs.drop 1).toString).splitOn "." with
          | [k', c'] =>
            match parseNat? k', parseNat? c' with
            | some k', some c' => some ((k, c), Fill.from k' c')
            | _, _ => none
          | _ => none
        else none
      | _, _ => none
    | _ => none
  | _ => none

def showBlob (b : Blob) : String := " | ".intercalate (b.map showNats)

def step (s : Heap.IOState) : List String → Heap.IOState × String
  | ["save", i] =>
    match parseNat? i with
    | some i =>
      match save s.w i with
      | some b => ({ s with blobs := s.blobs ++ [b] }, toString s.blobs.length)
      | none => (s, "reject")
    | none => (s, "bad-op")
  | ["blob", b] =>
    match parseNat? b with
    | some b =>
      match s.blobs[b]? with
      | some bl => (s, showBlob bl)
      | none => (s, "reject")
    | none => (s, "bad-op")
  | "load" :: b :: fills =>
    match parseNat? b, allSome (fills.map parseFill) with
    | some b, some sp =>
      match s.blobs[b]? with
      | some bl => ({ s with w := load s.w bl sp }, toString s.w.agents.length)
      | none => (s, "reject")
    | _, _ => (s, "bad-op")
  | "loadinto" :: b :: j :: fills =>
    match parseNat? b, parseNat? j, allSome (fills.map parseFill) with
    | some b, some j, some sp =>
      match s.blobs[b]? with
      | some bl =>
        match loadInto s.w bl sp j with
        | some w' => ({ s with w := w' }, "ok")
        | none => (s, "reject")
      | none => (s, "reject")
    | _, _, _ => (s, "bad-op")
  | "spawn" :: sizes =>
    -- a separately constructed agent with `sizes[k]` cells per attribute, every cell a new value
    match parseNats? sizes with
    | some sz =>
      let base := s.w.heap.length
      let vss := (initAttrs base sz).map (fun cs => cs.map (· + 1))
      ({ s with w := spawn s.w vss }, toString s.w.agents.length)
    | none => (s, "bad-op")
  | _ => (s, "bad-op")

/-! ### the checkpoint HELPERS on module trees (`HeapCkpt.Mod`, additive; C07 extension)

  `agilerl/utils/algo_utils.py`: `get_detached_tensors`, `load_detached_tensors`, `remove_compile_prefix`,
  `key_in_nested_dict`, `recursive_check_module_attrs` — modelled as operations on a torch module seen through the
  calls the helpers make:

  * `module.named_modules()` — the module tree as the ordered list `dotted prefix ↦ sub-module` (root first, prefix
    `""`): recursion into sub-modules at every nesting depth IS the loop over this list;
  * per sub-module the tensors `state_dict()` lists (`_parameters` + persistent `_buffers`, by name) and
    `vars(sub).items()` (the instance `__dict__`, by name: a tensor or something else) — a tensor installed by
    `TensorDict.to_module` in place of a parameter lives in `vars` and in no state dict;
  * a tensor = (shape, contents id): contents are only moved, never computed with.
  A `torch.compile`d module (`OptimizedModule`) is the pair (`true`, tree of `_orig_mod`): its own
  `named_modules()` / `state_dict()` list everything under the prefix `_orig_mod`.

  `Gen/CkptHelpGen.lean` is generated from the source text of the helpers, `Proofs/CkptHelpGenEq.lean` proves the
  generated functions equal to the definitions of this section.  Strings are `List Char` (Python `str`), the Python
  `str` / `dict` / torch primitives used are the `py*` functions below (non-recursive, over core `List` functions).
  The driver protocol does not use this section. -/
namespace Mod

abbrev Name := List Char
/-- (shape, contents id) -/
abbrev Tensor := List Nat × Nat
/-- a value found in `vars(sub)` / in a saved dict: a tensor, or anything else -/
abbrev Val := Option Tensor
/-- (what `state_dict()` lists for this sub-module, `vars(sub).items()`) -/
abbrev Sub := List (Name × Tensor) × List (Name × Val)
/-- `named_modules()` of an uncompiled module -/
abbrev Tree := List (Name × Sub)
/-- (`isinstance(·, OptimizedModule)`, tree of the underlying module) -/
abbrev Obj := Bool × Tree
abbrev Dict (α : Type) := List (Name × α)

/-- the class name of the exception raised -/
abbrev Exn := String

/-! #### Python / torch primitives -/

/-- `s.startswith(p)` -/
def pyStartsWith (s p : Name) : Bool := p.isPrefixOf s
/-- truth value of a `str` -/
def pyTruthy (s : Name) : Bool := !s.isEmpty
/-- `s.rpartition(c)` for a one-character separator: (before, sep, after) around the LAST occurrence, `("", "", s)`
    when there is none -/
def pyRpartition (s : Name) (c : Char) : Name × Name × Name :=
  match s.reverse.dropWhile (· != c) with
  | [] => ([], [], s)
  | _ :: before => (before.reverse, [c], (s.reverse.takeWhile (· != c)).reverse)
/-- `s.split(c, 1)` for a one-character separator -/
def pySplit1 (s : Name) (c : Char) : List Name :=
  match s.dropWhile (· != c) with
  | [] => [s]
  | _ :: after => [s.takeWhile (· != c), after]
/-- `d[k] = v` on an insertion-ordered dict -/
def pyDictSet {α} (d : Dict α) (k : Name) (v : α) : Dict α :=
  if d.any (·.1 == k) then d.map (fun e => if e.1 == k then (k, v) else e) else d ++ [(k, v)]
/-- `OrderedDict(pairs)` / `dict(pairs)` -/
def pyDictOf {α} (pairs : List (Name × α)) : Dict α := pairs.foldl (fun d e => pyDictSet d e.1 e.2) []
def pyIndex {α} (l : List α) (i : Nat) : Except Exn α :=
  match l[i]? with
  | some x => .ok x
  | none => .error "IndexError"
def pyOptDictTruthy {α} (d : Option (Dict α)) : Bool := match d with | none => false | some d => !d.isEmpty
def pyIsTensor (v : Val) : Bool := v.isSome
/-- `v.shape` (compared only) -/
def pyShape (v : Val) : Option (List Nat) := v.map (·.1)

/-- `"_orig_mod"` -/
def origMod : Name := ['_','o','r','i','g','_','m','o','d']
/-- the prefix of a sub-module of `_orig_mod` as the compiled wrapper lists it -/
def origPrefix (p : Name) : Name :=
  if p.isEmpty then ['_','o','r','i','g','_','m','o','d'] else ['_','o','r','i','g','_','m','o','d'] ++ '.' :: p
/-- `module.named_modules()` -/
def pyNamedModules (o : Obj) : Tree :=
  if o.1 then ([], ([], [])) :: o.2.map (fun ps => (origPrefix ps.1, ps.2)) else o.2
/-- `module._orig_mod` -/
def pyOrigMod (o : Obj) : Obj := (false, o.2)
/-- `f"{p}.{n}" if p else n` — how torch keys a state dict -/
def dotKey (p n : Name) : Name := if p.isEmpty then n else p ++ '.' :: n
/-- `module.state_dict()` (torch): every listed tensor of every sub-module under its dotted name -/
def pyStateDict (o : Obj) : Dict Tensor :=
  (pyNamedModules o).flatMap fun ps => ps.2.1.map fun nt => (dotKey ps.1 nt.1, nt.2)
/-- `module.get_submodule(prefix)` (AttributeError when there is none) -/
def pyGetSubmodule (o : Obj) (p : Name) : Except Exn Sub :=
  match (pyNamedModules o).lookup p with
  | some s => .ok s
  | none => .error "AttributeError"
/-- `getattr(sub, name, None)`: the instance `__dict__` first, then `nn.Module.__getattr__` (parameters / buffers);
    anything that is not a tensor is `none` -/
def pyGetattr (s : Sub) (n : Name) : Val :=
  match s.2.lookup n with
  | some v => v
  | none => s.1.lookup n
/-- the tensor `getattr(sub, n)` returns takes the contents of `v` (in place: `current.copy_(v)`) -/
def subCopy (s : Sub) (n : Name) (v : Tensor) : Sub :=
  match s.2.lookup n with
  | some _ => (s.1, s.2.map fun e => if e.1 == n then (e.1, e.2.map fun _ => v) else e)
  | none => (s.1.map (fun e => if e.1 == n then (e.1, v) else e), s.2)
def treeCopy (t : Tree) (p n : Name) (v : Tensor) : Tree :=
  t.map fun ps => if ps.1 == p then (ps.1, subCopy ps.2 n v) else ps
/-- `current.copy_(value)` where `current = getattr(module.get_submodule(p), n, None)` -/
def pyCopyInto (o : Obj) (p n : Name) (v : Val) : Obj :=
  match v with
  | none => o
  | some t =>
    if o.1 then
      (if p == ['_','o','r','i','g','_','m','o','d'] then (true, treeCopy o.2 [] n t)
       else if pyStartsWith p ['_','o','r','i','g','_','m','o','d','.'] then (true, treeCopy o.2 (p.drop 10) n t)
       else o)
    else (false, treeCopy o.2 p n t)

/-! #### the helpers (in the shape of the source) -/

/-- `get_detached_tensors(module)`: every PUBLIC tensor attribute in `vars()` of every sub-module, under its dotted
    name -/
def getDetached (module : Obj) : Dict Val :=
  let module := if module.1 then pyOrigMod module else module
  (pyNamedModules module).foldl (fun detached ps =>
    ps.2.2.foldl (fun detached nv =>
      if pyIsTensor nv.2 && !(pyStartsWith nv.1 ['_']) then
        pyDictSet detached (if pyTruthy ps.1 then ps.1 ++ ['.'] ++ nv.1 else nv.1) nv.2
      else detached) detached) []

/-- one iteration of the loop of `load_detached_tensors` -/
def loadDetachedStep (module : Obj) (kv : Name × Val) : Except Exn Obj :=
  let t := pyRpartition kv.1 '.'
  match pyGetSubmodule module t.1 with
  | .error e => .error e
  | .ok sub =>
    let current := pyGetattr sub t.2.2
    if pyIsTensor current && pyShape current == pyShape kv.2 then .ok (pyCopyInto module t.1 t.2.2 kv.2)
    else .ok module

/-- `load_detached_tensors(module, detached)`: the (underlying) module afterwards; nothing happens for `None` /
    `{}`; the first iteration that raises ends the call -/
def loadDetached (module : Obj) (detached : Option (Dict Val)) : Except Exn Obj :=
  if !(pyOptDictTruthy detached) then .ok module
  else List.foldlM (m := Except Exn) loadDetachedStep (if module.1 then pyOrigMod module else module) (detached.getD [])

/-- `remove_compile_prefix(state_dict)` -/
def removeCompilePrefix {α : Type} (sd : Dict α) : Except Exn (Dict α) :=
  match List.mapM (m := Except Exn) (fun kv =>
      if pyStartsWith kv.1 ['_','o','r','i','g','_','m','o','d'] then
        match pyIndex (pySplit1 kv.1 '.') 1 with
        | .error e => .error e
        | .ok r => .ok (r, kv.2)
      else .ok (kv.1, kv.2)) sd with
  | .error e => .error e
  | .ok r => .ok (pyDictOf r)

/-- `module.load_state_dict(sd)` (torch, strict): every listed tensor takes the entry of its dotted name; a missing
    / unexpected key or a size mismatch raises -/
def pyLoadStateDict (o : Obj) (sd : Dict Tensor) : Except Exn Obj :=
  let keys := (pyStateDict o).map (·.1)
  if keys.all (fun k => (sd.lookup k).isSome) && sd.all (fun e => keys.contains e.1) &&
      (pyStateDict o).all (fun e => (sd.lookup e.1).map (·.1) == some e.2.1) then
    .ok (o.1, o.2.map fun ps =>
      (ps.1, (ps.2.1.map fun nt =>
        (nt.1, (sd.lookup (dotKey (if o.1 then origPrefix ps.1 else ps.1) nt.1)).getD nt.2), ps.2.2)))
  else .error "RuntimeError"


/-! #### what the theorems talk about -/

/-- the tensor `getattr(module.get_submodule(p), n, None)` returns (`none`: no such sub-module / not a tensor) -/
def tensorAt (t : Tree) (p n : Name) : Val :=
  match t.lookup p with
  | some s => pyGetattr s n
  | none => none

/-- the tensors of a module that are attributes with a PUBLIC name in `vars()` of some sub-module (at any depth), under
    their dotted name: the specification of `get_detached_tensors` -/
def publicEntries (t : Tree) : Dict Val :=
  t.flatMap fun ps => ps.2.2.filterMap fun nv =>
    if pyIsTensor nv.2 && !(pyStartsWith nv.1 ['_']) then some (dotKey ps.1 nv.1, nv.2) else none

/-- the same by location ((prefix, name), tensor) -/
def publicLocs (t : Tree) : List ((Name × Name) × Tensor) :=
  t.flatMap fun ps => ps.2.2.filterMap fun nv =>
    match nv.2 with
    | some tv => if !(pyStartsWith nv.1 ['_']) then some ((ps.1, nv.1), tv) else none
    | none => none

/-- the tensors `state_dict()` lists, by location -/
def regLocs (t : Tree) : List ((Name × Name) × Tensor) :=
  t.flatMap fun ps => ps.2.1.map fun nt => ((ps.1, nt.1), nt.2)

def entryOf (x : (Name × Name) × Tensor) : Name × Val := (dotKey x.1.1 x.1.2, some x.2)

end Mod

end HeapCkpt
