import Model.Heap
/-
  Model/HeapCkpt.lean — (stub) checkpoint save / load on the heap world (C07).  Core Lean only.
  The handler works on the same `Heap.IOState` as the `heap` token, so histories can mix both.
-/
namespace HeapCkpt
open Util

def step (s : Heap.IOState) : List String → Heap.IOState × String
  | _ => (s, "bad-op")

end HeapCkpt
