import Model.Heap
/-
  Model/HeapCkpt.lean — checkpoint save / load on the heap world (C07).  Core Lean only.
  The handler works on the same `Heap.IOState` as the `heap` token, so histories can mix both.

  `save_checkpoint` (agilerl/algorithms/core/base.py `get_checkpoint_dict` + `torch.save`) is a
  by-value serialisation: the file holds the *values* of every attribute (hyper-parameters, lists,
  registry, `init_dict` + `state_dict` of every network, optimizer state) and no reference to any
  live object.  `EvolvableAlgorithm.load` builds a new agent from the file, `load_checkpoint`
  re-builds every attribute of an existing agent from it; either way **every attribute of the
  restored agent consists of freshly allocated cells**.

  What the cells hold is described cell by cell by a `Fill`:

  * `saved`      — the value stored in the file (the repaired code: every cell);
  * `from k c`   — not stored, but re-derived by a hook that runs *after* the weights were loaded
                   from the restored cell `c` of attribute `k` (a target re-synchronised with the
                   online network, a critic's copy of the actor's encoder);
  * `init v`     — neither: the tensor is not in any `state_dict()` (it was installed with
                   `TensorDict.to_module`) and the hook ran *before* the weights were loaded, so the
                   cell keeps whatever construction left there (`v`, chosen by the environment).
                   This is the unrepaired behaviour for DQN's `actor_target` and for the encoder
                   copies inside DDPG / TD3 / PPO critics with `share_encoders=True`.
-/
namespace HeapCkpt
open Util Heap

/-- a checkpoint file: attribute → saved values (exactly `Heap.view` of the saved agent) -/
abbrev Blob := List (List Nat)

inductive Fill
  | saved
  | «from» (k c : Nat)
  | init (v : Nat)
deriving Repr, DecidableEq

/-- exceptions to "every cell is restored from the file": ((attribute, cell), fill) -/
abbrev Spec := List ((Nat × Nat) × Fill)

def cellFill (sp : Spec) (k c : Nat) : Fill :=
  match sp.find? (fun e => e.1 == (k, c)) with
  | some e => e.2
  | none => .saved

/-- serialise agent `i` (nothing in the world changes) -/
def save (w : World) (i : Nat) : Option Blob := view w i

def blobVal (b : Blob) (k c : Nat) : Nat := (b.getD k []).getD c 0

def fillVal (b : Blob) (k c : Nat) : Fill → Nat
  | .saved => blobVal b k c
  | .from k' c' => blobVal b k' c'
  | .init v => v

/-- the values the restored agent holds, attribute by attribute, cell by cell -/
def restoredVals (b : Blob) (sp : Spec) : List (List Nat) :=
  b.mapIdx fun k vs => vs.mapIdx fun c _ => fillVal b k c (cellFill sp k c)

/-- allocate fresh cells for every attribute, left to right -/
def allocAll : List Nat → List (List Nat) → List Nat × Agent
  | h, [] => (h, [])
  | h, vs :: rest =>
    let al := alloc h vs
    let r := allocAll al.1 rest
    (r.1, al.2 :: r.2)

/-- a separately constructed agent: every attribute in fresh cells holding `vss` -/
def spawn (w : World) (vss : List (List Nat)) : World :=
  let r := allocAll w.heap vss
  { w with heap := r.1, agents := w.agents ++ [some r.2] }

/-- `Algo.load(path)` : a new agent (index `w.agents.length`) -/
def load (w : World) (b : Blob) (sp : Spec) : World := spawn w (restoredVals b sp)

/-- `agent_j.load_checkpoint(path)` : every attribute of the live agent `j` is re-bound to fresh
    cells; rejected when `j` is not live or has another attribute layout than the file
    (the registry check of `load_checkpoint`) -/
def loadInto (w : World) (b : Blob) (sp : Spec) (j : Nat) : Option World :=
  match w.agents[j]? with
  | some (some ag) =>
    if ag.length = b.length then
      let r := allocAll w.heap (restoredVals b sp)
      some { w with heap := r.1, agents := w.agents.set j (some r.2) }
    else none
  | _ => none

/-! ### line protocol (token `ckpt`, state shared with token `heap`) -/

/-- `k.c=i<v>` | `k.c=f<k'>.<c'>` -/
def parseFill (s : String) : Option ((Nat × Nat) × Fill) :=
  match s.splitOn "=" with
  | [lhs, rhs] =>
    match lhs.splitOn "." with
    | [k, c] =>
      match parseNat? k, parseNat? c with
      | some k, some c =>
        if rhs.startsWith "i" then
          (parseNat? (rhs.drop 1).toString).map fun v => ((k, c), Fill.init v)
        else if rhs.startsWith "f" then
          match ((rhs.drop 1).toString).splitOn "." with
          | [k', c'] =>
            match parseNat? k', parseNat? c' with
            | some k', some c' => some ((k, c), Fill.from k' c')
            | _, _ => none
          | _ => none
        else none
      | _, _ => none
    | _ => none
  | _ => none

def showBlob (b : Blob) : String := " | ".intercalate (b.map showNats)

def step (s : Heap.IOState) : List String → Heap.IOState × String
  | ["save", i] =>
    match parseNat? i with
    | some i =>
      match save s.w i with
      | some b => ({ s with blobs := s.blobs ++ [b] }, toString s.blobs.length)
      | none => (s, "reject")
    | none => (s, "bad-op")
  | ["blob", b] =>
    match parseNat? b with
    | some b =>
      match s.blobs[b]? with
      | some bl => (s, showBlob bl)
      | none => (s, "reject")
    | none => (s, "bad-op")
  | "load" :: b :: fills =>
    match parseNat? b, allSome (fills.map parseFill) with
    | some b, some sp =>
      match s.blobs[b]? with
      | some bl => ({ s with w := load s.w bl sp }, toString s.w.agents.length)
      | none => (s, "reject")
    | _, _ => (s, "bad-op")
  | "loadinto" :: b :: j :: fills =>
    match parseNat? b, parseNat? j, allSome (fills.map parseFill) with
    | some b, some j, some sp =>
      match s.blobs[b]? with
      | some bl =>
        match loadInto s.w bl sp j with
        | some w' => ({ s with w := w' }, "ok")
        | none => (s, "reject")
      | none => (s, "reject")
    | _, _, _ => (s, "bad-op")
  | "spawn" :: sizes =>
    -- a separately constructed agent with `sizes[k]` cells per attribute, every cell a new value
    match parseNats? sizes with
    | some sz =>
      let base := s.w.heap.length
      let vss := (initAttrs base sz).map (fun cs => cs.map (· + 1))
      ({ s with w := spawn s.w vss }, toString s.w.agents.length)
    | none => (s, "bad-op")
  | _ => (s, "bad-op")

end HeapCkpt
