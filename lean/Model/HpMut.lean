import Model.Util
/-
  Model/HpMut.lean — executable model of reinforcement-learning hyperparameter mutation:

  * `RLParameter.mutate`            (agilerl/algorithms/core/registry.py)      → `mutate1`
  * `HyperparameterConfig.sample`   (same file; the `randperm` draw is explicit) → `sample`
  * `Mutations.rl_hyperparam_mutation` + `reinit_opt` (agilerl/hpo/mutation.py) → `Pop.mutate`
  * the sharing structure of `HyperparameterConfig` objects: `create_population` hands ONE object
    to every member, `clone()` deep-copies the registry (and the value cached on every
    `RLParameter`) → `Pop.heap`, `Agent.cfg`, `Pop.clone`, `Pop.select`.

  Two switches record the history of the code:
    `Sem.own`    (repaired)   base of the mutation = the individual's current attribute
    `Sem.cached` (unrepaired) base = `RLParameter.value`, initialised from the individual only
                              while it is `None`                                   (defect D2)
    `allOpts = true`  (repaired)   every optimizer whose lr attribute is the mutated one is rebuilt
    `allOpts = false` (unrepaired) only the first such optimizer is rebuilt          (defect D19)

  Core Lean only.  Numbers are exact rationals; attribute names are `Nat` ids: the k-th configured
  hyperparameter has id k, other attributes (e.g. a learning rate that is not configured) have
  ids ≥ the number of configured hyperparameters.
-/
namespace HpMut

inductive DType where
  | float
  | int
deriving Repr, DecidableEq

/-- one `RLParameter` without its cache -/
structure Param where
  lo     : Rat
  hi     : Rat
  shrink : Rat
  grow   : Rat
  dtype  : DType
deriving Repr, DecidableEq

/-- Python `int(x)`: truncation toward zero -/
def trunc (q : Rat) : Int := if 0 ≤ q then q.floor else -((-q).floor)

/-- `self.dtype(new_value)` -/
def cast : DType → Rat → Rat
  | .float, q => q
  | .int, q => ((trunc q : Int) : Rat)

/-- Python `max(x, lo)`: `x` unless `lo > x` -/
def pyMax (x lo : Rat) : Rat := if lo > x then lo else x
/-- Python `min(y, hi)`: `y` unless `hi < y` -/
def pyMin (y hi : Rat) : Rat := if hi < y then hi else y

/-- `min(max(new_value, self.min), self.max)` -/
def clip (lo hi x : Rat) : Rat := pyMin (pyMax x lo) hi

/-- the factor chosen by the draw `torch.rand(1).item()`: `< 0.5` shrinks, otherwise grows -/
def factor (p : Param) (coin : Rat) : Rat := if coin < 1/2 then p.shrink else p.grow

/-- `RLParameter.mutate` with `self.value = v`, exactly as coded: branch on the coin, strict
    comparisons against the bound, then clip, then cast -/
def mutate1 (p : Param) (v coin : Rat) : Rat :=
  let nv :=
    if coin < 1/2 then
      (if v * p.shrink > p.lo then v * p.shrink else p.lo)
    else
      (if v * p.grow < p.hi then v * p.grow else p.hi)
  cast p.dtype (clip p.lo p.hi nv)

/-- the interval the result can lie in: `[min, max]` for floats, `[int(min), int(max)]` for ints -/
def rangeLo (p : Param) : Rat := cast p.dtype p.lo
def rangeHi (p : Param) : Rat := cast p.dtype p.hi

/-- `HyperparameterConfig.sample`: `key = torch.randperm(len(config))[0]`; the permutation is an
    explicit input.  `none` = the draw is not a permutation prefix of a non-empty configuration. -/
def sample (n : Nat) (perm : List Nat) : Option Nat :=
  match perm with
  | k :: _ => if k < n then some k else none
  | [] => none

/-! ### population -/

/-- one `OptimizerWrapper`: the attribute name of its learning rate and the `lr` of every
    parameter group of every torch optimizer it holds -/
structure Opt where
  lr     : Nat
  groups : List Rat
deriving Repr, DecidableEq

/-- a `HyperparameterConfig` object: parameters + the value cached on each `RLParameter` -/
structure Config where
  params : List Param
  cache  : List (Option Rat)
deriving Repr, DecidableEq

structure Agent where
  attrs : List Rat        -- numeric attributes by name id
  cfg   : Nat             -- address of `agent.registry.hp_config` in the heap
  opts  : List Opt        -- `agent.registry.optimizers`, in order
deriving Repr, DecidableEq

structure Pop where
  heap   : List Config
  agents : List Agent
deriving Repr, DecidableEq

inductive Sem where
  | own
  | cached
deriving Repr, DecidableEq

def Opt.setLr (o : Opt) (nv : Rat) : Opt := { o with groups := o.groups.map (fun _ => nv) }

/-- repaired: rebuild every optimizer whose lr attribute is `k` -/
def updAll (k : Nat) (nv : Rat) (os : List Opt) : List Opt :=
  os.map (fun o => if o.lr = k then o.setLr nv else o)

/-- unrepaired (D19): `[c for c in optimizers if c.lr == attr][0]` only -/
def updFirst (k : Nat) (nv : Rat) : List Opt → List Opt
  | [] => []
  | o :: r => if o.lr = k then o.setLr nv :: r else o :: updFirst k nv r

def updOpts (allOpts : Bool) (k : Nat) (nv : Rat) (os : List Opt) : List Opt :=
  if allOpts then updAll k nv os else updFirst k nv os

/-- `Mutations.rl_hyperparam_mutation(individual = agents[i])` after `sample` returned the k-th
    hyperparameter and `torch.rand` returned `coin`.  Invalid indices leave the state unchanged
    (the line protocol answers `bad-op` for them, the theorems assume validity). -/
def Pop.mutate (sem : Sem) (allOpts : Bool) (P : Pop) (i k : Nat) (coin : Rat) : Pop :=
  match P.agents[i]? with
  | none => P
  | some a =>
    match P.heap[a.cfg]? with
    | none => P
    | some c =>
      match c.params[k]?, a.attrs[k]? with
      | some p, some own =>
        let base : Rat :=
          match sem with
          | .own => own
          | .cached => (c.cache.getD k none).getD own     -- `if value is None: value = getattr(...)`
        let nv := mutate1 p base coin
        let c' : Config := { c with cache := c.cache.set k (some nv) }
        let a' : Agent := { a with attrs := a.attrs.set k nv, opts := updOpts allOpts k nv a.opts }
        { heap := P.heap.set a.cfg c', agents := P.agents.set i a' }
      | _, _ => P

/-- `agents[i].clone()` appended to the population: attributes and optimizer learning rates are
    copied, the registry (configuration + cached values) is deep-copied into a fresh object -/
def Pop.clone (P : Pop) (i : Nat) : Pop :=
  match P.agents[i]? with
  | none => P
  | some a =>
    match P.heap[a.cfg]? with
    | none => P
    | some c => { heap := P.heap ++ [c], agents := P.agents ++ [{ a with cfg := P.heap.length }] }

/-- what `save_checkpoint` writes for one agent: every attribute, every optimizer's `state_dict`
    (whose `param_groups` carry the learning rates) and the pickled registry -/
structure Ckpt where
  attrs : List Rat
  opts  : List Opt
  cfg   : Config
deriving Repr, DecidableEq

def Agent.save (a : Agent) (c : Config) : Ckpt := { attrs := a.attrs, opts := a.opts, cfg := c }

/-- `load_checkpoint` into a twin / the `load` classmethod: attributes and the learning rate of every
    parameter group are restored BY VALUE from the file; the registry is the unpickled copy, a fresh
    object at address `addr` -/
def Ckpt.load (k : Ckpt) (addr : Nat) : Agent := { attrs := k.attrs, cfg := addr, opts := k.opts }

/-- `agents[i].save_checkpoint(f)` followed by `twin.load_checkpoint(f)` (or `Algo.load(f)`), the
    loaded agent taking the place of `agents[i]` in the population -/
def Pop.reload (P : Pop) (i : Nat) : Pop :=
  match P.agents[i]? with
  | none => P
  | some a =>
    match P.heap[a.cfg]? with
    | none => P
    | some c =>
      { heap := P.heap ++ [(a.save c).cfg], agents := P.agents.set i ((a.save c).load P.heap.length) }

/-- tournament selection: the new population consists of clones of the chosen parents -/
def Pop.select (P : Pop) (idxs : List Nat) : Pop :=
  let Q := idxs.foldl Pop.clone P
  { Q with agents := Q.agents.drop P.agents.length }

inductive Op where
  | mutate (i k : Nat) (coin : Rat)
  | clone (i : Nat)
  | select (idxs : List Nat)
  | reload (i : Nat)
deriving Repr, DecidableEq

def Pop.apply (sem : Sem) (allOpts : Bool) (P : Pop) : Op → Pop
  | .mutate i k coin => P.mutate sem allOpts i k coin
  | .clone i => P.clone i
  | .select idxs => P.select idxs
  | .reload i => P.reload i

def Pop.run (sem : Sem) (allOpts : Bool) (P : Pop) (ops : List Op) : Pop :=
  ops.foldl (Pop.apply sem allOpts) P

/-- `create_population(..., hp_config=cfg, population_size=n)`: `n` identical agents that all
    refer to the one configuration object (address 0) -/
def Pop.initial (params : List Param) (n : Nat) (attrs : List Rat) (opts : List Opt) : Pop :=
  { heap := [{ params := params, cache := params.map (fun _ => none) }],
    agents := List.replicate n { attrs := attrs, cfg := 0, opts := opts } }

/-- how the constructor argument `hp_config` of the initial members is related: ONE object for everybody
    (`hp_config=hp_config`, the code as it is) or a private copy each (e.g. `copy.deepcopy(hp_config)`).  Which of the
    two the source says is read by `harness/py2lean_pop.py` (`Proofs/PopGenEq.lean`). -/
inductive CfgProv where
  | shared
  | perAgent
deriving Repr, DecidableEq

/-- the initial population for either way of handing out the configuration: `n` identical agents; with `.shared` all
    refer to address 0 (`Pop.initial`), with `.perAgent` member `i` refers to its own object at address `i` -/
def Pop.initialWith (prov : CfgProv) (params : List Param) (n : Nat) (attrs : List Rat) (opts : List Opt) : Pop :=
  match prov with
  | .shared => Pop.initial params n attrs opts
  | .perAgent =>
    { heap := List.replicate n { params := params, cache := params.map (fun _ => none) },
      agents := (List.range n).map fun (i : Nat) => { attrs := attrs, cfg := i, opts := opts } }

/-! ### specification: no configuration objects, no cache -/

/-- what can be observed of an agent: its attributes and its optimizers' learning rates -/
structure SAgent where
  attrs : List Rat
  opts  : List Opt
deriving Repr, DecidableEq

def Agent.obs (a : Agent) : SAgent := { attrs := a.attrs, opts := a.opts }
def Pop.obs (P : Pop) : List SAgent := P.agents.map Agent.obs

/-- the property as a program: hyperparameter `k` of agent `i` becomes its OWN current value times
    the factor, clipped and cast; every optimizer on that learning rate follows; nothing else moves -/
def Spec.mutate (ps : List Param) (A : List SAgent) (i k : Nat) (coin : Rat) : List SAgent :=
  match A[i]? with
  | none => A
  | some a =>
    match ps[k]?, a.attrs[k]? with
    | some p, some own =>
      let nv := mutate1 p own coin
      A.set i { attrs := a.attrs.set k nv, opts := updAll k nv a.opts }
    | _, _ => A

def Spec.clone (A : List SAgent) (i : Nat) : List SAgent :=
  match A[i]? with
  | none => A
  | some a => A ++ [a]

def Spec.select (A : List SAgent) (idxs : List Nat) : List SAgent :=
  (idxs.foldl Spec.clone A).drop A.length

def Spec.apply (ps : List Param) (A : List SAgent) : Op → List SAgent
  | .mutate i k coin => Spec.mutate ps A i k coin
  | .clone i => Spec.clone A i
  | .select idxs => Spec.select A idxs
  | .reload _ => A            -- a checkpoint round trip is not observable

def Spec.run (ps : List Param) (A : List SAgent) (ops : List Op) : List SAgent :=
  ops.foldl (Spec.apply ps) A

end HpMut

/-! ### line protocol -/
namespace HpMut
open Util

structure IOState where
  params  : List Param := []
  opts    : List (Nat × Nat) := []       -- (lr name id, number of parameter groups)
  sem     : Sem := Sem.own
  allOpts : Bool := true
  pop     : Pop := { heap := [], agents := [] }

def parseDType? : String → Option DType
  | "f" => some .float
  | "i" => some .int
  | _ => none

def showDType : DType → String
  | .float => "f"
  | .int => "i"

def parseParam? : List String → Option Param
  | [lo, hi, s, g, d] =>
    match parseRat? lo, parseRat? hi, parseRat? s, parseRat? g, parseDType? d with
    | some lo, some hi, some s, some g, some d => some { lo := lo, hi := hi, shrink := s, grow := g, dtype := d }
    | _, _, _, _, _ => none
  | _ => none

def parsePair? : List String → Option (Nat × Nat)
  | [a, b] =>
    match parseNat? a, parseNat? b with
    | some a, some b => some (a, b)
    | _, _ => none
  | _ => none

def showOpt (o : Opt) : String := showRats o.groups
def showAgent (a : Agent) : String :=
  showRats a.attrs ++ " @ " ++ " ; ".intercalate (a.opts.map showOpt)
def showPop (P : Pop) : String := " | ".intercalate (P.agents.map showAgent)

/-- which agents refer to the same configuration object: first-occurrence numbering -/
def sharing (P : Pop) : List Nat :=
  let addrs := P.agents.map Agent.cfg
  addrs.map (fun a => (addrs.eraseDups.idxOf a))

def valid (P : Pop) (i : Nat) : Bool :=
  match P.agents[i]? with
  | some a => a.cfg < P.heap.length
  | none => false

def step (s : IOState) : List String → IOState × String
  | "mutate" :: lo :: hi :: sh :: g :: d :: [v, coin] =>
    match parseParam? [lo, hi, sh, g, d], parseRat? v, parseRat? coin with
    | some p, some v, some c => (s, showRat (mutate1 p v c))
    | _, _, _ => (s, "bad-op")
  | "sample" :: n :: ws =>
    match parseNat? n, parseNats? ws with
    | some n, some perm =>
      match sample n perm with
      | some k => (s, toString k)
      | none => (s, "bad-op")
    | _, _ => (s, "bad-op")
  | "cfg" :: n :: ws =>
    match parseNat? n, allSome ((chunks 5 ws).map parseParam?) with
    | some n, some ps =>
      if ps.length = n ∧ ws.length = 5 * n then ({ s with params := ps }, "ok") else (s, "bad-op")
    | _, _ => (s, "bad-op")
  | "opts" :: m :: ws =>
    match parseNat? m, allSome ((chunks 2 ws).map parsePair?) with
    | some m, some os =>
      if os.length = m ∧ ws.length = 2 * m then ({ s with opts := os }, "ok") else (s, "bad-op")
    | _, _ => (s, "bad-op")
  | "pop" :: sem :: om :: size :: ws =>
    let sem? : Option Sem := match sem with
      | "own" => some .own
      | "cached" => some .cached
      | _ => none
    let om? : Option Bool := match om with
      | "all" => some true
      | "first" => some false
      | _ => none
    match sem?, om?, parseNat? size, parseRats? ws with
    | some sem, some om, some size, some attrs =>
      -- `_registry_init`: every configured hyperparameter must be an attribute of the agent
      if attrs.length < s.params.length then (s, "reject")
      else if s.opts.any (fun o => o.1 ≥ attrs.length) then (s, "bad-op")
      else
        let opts := s.opts.map (fun o => ({ lr := o.1, groups := List.replicate o.2 (attrs.getD o.1 0) } : Opt))
        ({ s with sem := sem, allOpts := om, pop := Pop.initial s.params size attrs opts }, "ok")
    | _, _, _, _ => (s, "bad-op")
  | "mut" :: i :: coin :: ws =>
    match parseNat? i, parseRat? coin, parseNats? ws with
    | some i, some coin, some perm =>
      if ¬ valid s.pop i then (s, "bad-op")
      else if s.params.length = 0 then (s, "None")          -- `if not hp_config: mut = "None"`
      else
        match sample s.params.length perm with
        | none => (s, "bad-op")
        | some k =>
          let P := s.pop.mutate s.sem s.allOpts i k coin
          match P.agents[i]?, s.params[k]? with
          | some a, some p =>
            ({ s with pop := P }, s!"{k} {showDType p.dtype} {showRat (a.attrs.getD k 0)}")
          | _, _ => (s, "bad-op")
    | _, _, _ => (s, "bad-op")
  | ["clone", i] =>
    match parseNat? i with
    | some i => if valid s.pop i then ({ s with pop := s.pop.clone i }, "ok") else (s, "bad-op")
    | none => (s, "bad-op")
  | "select" :: ws =>
    match parseNats? ws with
    | some idxs =>
      if idxs.length = 0 ∨ idxs.any (fun i => ¬ valid s.pop i) then (s, "bad-op")
      else ({ s with pop := s.pop.select idxs }, "ok")
    | none => (s, "bad-op")
  | ["reload", i] =>
    match parseNat? i with
    | some i => if valid s.pop i then ({ s with pop := s.pop.reload i }, "ok") else (s, "bad-op")
    | none => (s, "bad-op")
  | ["dump"] => (s, showPop s.pop)
  | ["sharing"] => (s, showNats (sharing s.pop))
  | ["size"] => (s, toString s.pop.agents.length)
  | _ => (s, "bad-op")

end HpMut
