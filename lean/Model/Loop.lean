import Model.Util
/-
  Model/Loop.lean — executable model of the generation-loop accounting of the six training
  functions of `agilerl/training/` and of the (loop, algorithm, memory) compatibility table.
  Core Lean only.

  What is modelled (read off the code, function by function):

  * the outer loop.  `train_off_policy`, `train_on_policy`, `train_offline`, `train_bandits`,
    `train_multi_agent_off_policy`:
        `while np.less([agent.steps[-1] for agent in pop], max_steps).all():`
    — continue while *every* agent is below `max_steps`, i.e. stop as soon as *some* agent has
    reached it.  `train_multi_agent_on_policy`:
        `while np.sum([agent.steps[-1] for agent in pop]) < max_steps:`
    — the budget is summed over the population.
  * the per-agent rollout of one generation:
      off / maoff : `for idx_step in range(evo_steps // num_envs)`: one (vector) env step,
                    `steps += num_envs`, memory add, learn scheduling (below);
      on / maon   : `for _ in range(-(evo_steps // -learn_step))`:
                       `for idx_step in range(-(learn_step // -num_envs))`: env step, `steps += num_envs`
                       then exactly one `agent.learn(...)`;
      offline     : `for idx_step in range(evo_steps)`: one `learn`; `agent.steps[-1] += evo_steps`;
      bandit      : `for idx_step in range(episode_steps)`: env step, memory add of one transition,
                    `if len(memory) >= batch_size: for _ in range(learn_step): learn`;
                    `agent.steps[-1] += episode_steps`.
    afterwards `agent.steps[-1] += steps`.
  * learn scheduling of off / maoff (per rollout iteration, *after* the memory add):
        if learn_step > num_envs:
            if idx_step % (learn_step // num_envs) == 0 and len(memory) >= batch_size and GATE > learning_delay: 1 learn
        elif len(memory) >= batch_size and GATE > learning_delay: num_envs // learn_step learns
    with GATE = `memory.size` (off; = len) and `memory.counter` (maoff; total ever added).
  * the memory is shared by the whole population and never cleared: `len` grows by `num_envs`
    per add up to the capacity.  With an n-step buffer (`n_step_memory`) the first n-1 pushes of the
    whole run fill the window and add nothing.
  * evaluation: `agent.test(...)` appends one fitness per agent; `pop_fitnesses.append(fitnesses)`;
    then `agent.steps.append(agent.steps[-1])` for every agent.
  * early stop: `target is not None and all(mean(fitness[-10:]) > target) and len(pop[0].steps) >= 100`
    → return (before selection); "all recent means above target" is an input bit of the model.
  * `tournament_selection_and_mutation`: `TournamentSelection.select` is taken as an abstract step
    described by its outcome (slot of the elite, slots of the tournament winners): with elitism
    `elite.clone()` (index kept) comes first, every other child is `parent.clone(max_id + 1 + t)`;
    a clone copies `steps`, `fitness`, hyper-parameters and weights.  `Mutations.mutation` keeps
    order and size; an individual that draws a real mutation gets new weights (a fresh `tag`), slot 0
    is forced to "no mutation" when `mutate_elite=False`.  New `learn_step` / `batch_size` values
    (hyper-parameter mutation) are inputs.  `train_bandits` only selects when
    `pop[0].steps[-1] // evo_steps > evo_count`.
  * checkpoints: `if pop[0].steps[-1] // checkpoint > checkpoint_count: save; checkpoint_count += 1`
    — at most one save per generation, file names carry `agent.steps[-1]`.

  Ghost fields (`env`, `its`, `tag`) do not exist in the code: `env` counts the environment steps
  (for `train_offline`: learn steps) the rollout actually performed, `its` the rollout iterations,
  `tag` names the weights.  The correspondence harness measures `env` with instrumented
  environments.
-/
namespace Loop

inductive Kind where
  | off | on | offline | bandit | maoff | maon
deriving DecidableEq, Repr, Inhabited

structure Cfg where
  kind : Kind := .off
  maxSteps : Nat := 0
  evoSteps : Nat := 0
  numEnvs : Nat := 1          -- 1 for a non-vectorised environment
  delay : Nat := 0            -- learning_delay
  cap : Nat := 0              -- capacity of the replay memory
  nStep : Nat := 0            -- n of the n-step buffer; < 2 = no n-step buffer
  episodeSteps : Nat := 0     -- train_bandits only
  checkpoint : Nat := 0       -- 0 = `checkpoint is None`
  elitism : Bool := true
  mutateElite : Bool := true
deriving Repr, DecidableEq, Inhabited

structure Agent where
  index : Nat := 0
  cur : Nat := 0              -- steps[-1]
  past : List Nat := []       -- steps[:-1], newest first
  fit : Nat := 0              -- len(fitness)
  ls : Nat := 1               -- learn_step
  bs : Nat := 1               -- batch_size
  env : Nat := 0              -- ghost: environment steps actually taken by this lineage
  its : Nat := 0              -- ghost: rollout iterations executed by this lineage
  tag : Nat := 0              -- ghost: name of the weights
deriving Repr, DecidableEq, Inhabited

structure Mem where
  len : Nat := 0              -- len(memory)
  counter : Nat := 0          -- memory.counter (total ever added)
  pushes : Nat := 0           -- pushes into the n-step window (never cleared)
deriving Repr, DecidableEq, Inhabited

/-- `f 0`, then `f 1`, …, then `f (n-1)` -/
def iterate {α} (f : Nat → α → α) : Nat → α → α
  | 0, x => x
  | n + 1, x => f n (iterate f n x)

/-- Python's `-(a // -b)` for positive `b` -/
def ceilDiv (a b : Nat) : Nat := (a + b - 1) / b

/-- environment steps per rollout iteration -/
def stride (c : Cfg) : Nat :=
  match c.kind with
  | .offline | .bandit => 1
  | _ => c.numEnvs

/-- one `memory.add` / `save_to_memory` of a (vectorised) transition -/
def memAdd (c : Cfg) (m : Mem) : Mem :=
  match c.kind with
  | .off =>
    if 2 ≤ c.nStep ∧ m.pushes + 1 < c.nStep then { m with pushes := m.pushes + 1 }
    else { len := min (m.len + c.numEnvs) c.cap, counter := m.counter + c.numEnvs, pushes := m.pushes + 1 }
  | .maoff => { m with len := min (m.len + c.numEnvs) c.cap, counter := m.counter + c.numEnvs }
  | .bandit => { m with len := min (m.len + 1) c.cap, counter := m.counter + 1 }
  | _ => m

/-- number of `learn` calls in rollout iteration `idx` of off / maoff, memory state after the add -/
def learnsAt (c : Cfg) (a : Agent) (m : Mem) (idx : Nat) : Nat :=
  let gate := if c.kind = .maoff then m.counter else m.len
  if c.numEnvs < a.ls then
    if idx % (a.ls / c.numEnvs) = 0 ∧ a.bs ≤ m.len ∧ c.delay < gate then 1 else 0
  else if a.bs ≤ m.len ∧ c.delay < gate then c.numEnvs / a.ls else 0

/-- local variables of one agent's rollout -/
structure Roll where
  m : Mem
  steps : Nat := 0            -- the local `steps`
  env : Nat := 0              -- ghost: environment steps performed
  its : Nat := 0              -- ghost: iterations performed
  learns : Nat := 0           -- learn calls
deriving Repr, DecidableEq, Inhabited

/-- one iteration of the off-policy rollouts -/
def offStep (c : Cfg) (a : Agent) (idx : Nat) (r : Roll) : Roll :=
  let m' := memAdd c r.m
  { m := m', steps := r.steps + c.numEnvs, env := r.env + c.numEnvs, its := r.its + 1,
    learns := r.learns + learnsAt c a m' idx }

/-- one environment step of the on-policy rollouts -/
def onInner (c : Cfg) (_idx : Nat) (r : Roll) : Roll :=
  { r with steps := r.steps + c.numEnvs, env := r.env + c.numEnvs, its := r.its + 1 }

/-- `ceil(learn_step / num_envs)` environment steps, then one learn -/
def onOuter (c : Cfg) (a : Agent) (_idx : Nat) (r : Roll) : Roll :=
  let r' := iterate (onInner c) (ceilDiv a.ls c.numEnvs) r
  { r' with learns := r'.learns + 1 }

/-- `train_offline`: one learn per iteration; the counter is bumped by `evo_steps` afterwards -/
def offlineStep (_idx : Nat) (r : Roll) : Roll :=
  { r with env := r.env + 1, its := r.its + 1, learns := r.learns + 1 }

/-- `train_bandits`: env step, add, `learn_step` learns once the memory holds a batch -/
def banditStep (c : Cfg) (a : Agent) (_idx : Nat) (r : Roll) : Roll :=
  let m' := memAdd c r.m
  { m := m', steps := r.steps, env := r.env + 1, its := r.its + 1,
    learns := r.learns + (if a.bs ≤ m'.len then a.ls else 0) }

def rollout (c : Cfg) (a : Agent) (m : Mem) : Roll :=
  match c.kind with
  | .off | .maoff => iterate (offStep c a) (c.evoSteps / c.numEnvs) { m := m }
  | .on | .maon => iterate (onOuter c a) (ceilDiv c.evoSteps a.ls) { m := m }
  | .offline =>
    let r := iterate offlineStep c.evoSteps { m := m }
    { r with steps := c.evoSteps }                  -- `agent.steps[-1] += evo_steps`
  | .bandit =>
    let r := iterate (banditStep c a) c.episodeSteps { m := m }
    { r with steps := c.episodeSteps }              -- `agent.steps[-1] += episode_steps`

/-- the body of `for agent in pop` for one agent -/
def trainAgent (c : Cfg) (a : Agent) (m : Mem) : Agent × Mem × Nat :=
  let r := rollout c a m
  ({ a with cur := a.cur + r.steps, env := a.env + r.env, its := a.its + r.its }, r.m, r.learns)

def trainPop (c : Cfg) : List Agent → Mem → List Agent × Mem × List Nat
  | [], m => ([], m, [])
  | a :: as, m =>
    let (a', m', l) := trainAgent c a m
    let (as', m'', ls) := trainPop c as m'
    (a' :: as', m'', l :: ls)

/-- `agent.test` + `agent.steps.append(agent.steps[-1])` -/
def evalAgent (a : Agent) : Agent := { a with fit := a.fit + 1, past := a.cur :: a.past }

/-! ### the while condition and the documented budget -/

def sumCur (pop : List Agent) : Nat := (pop.map (·.cur)).sum

/-- the `while` condition exactly as written -/
def cond (c : Cfg) (pop : List Agent) : Bool :=
  match c.kind with
  | .maon => decide (sumCur pop < c.maxSteps)
  | _ => pop.all (fun a => decide (a.cur < c.maxSteps))

/-- the budget, stated independently: some agent has reached `max_steps` (per-agent loops),
    the population together has reached it (`train_multi_agent_on_policy`) -/
def budgetMet (c : Cfg) (pop : List Agent) : Prop :=
  match c.kind with
  | .maon => c.maxSteps ≤ sumCur pop
  | _ => ∃ a ∈ pop, c.maxSteps ≤ a.cur

/-! ### selection and mutation (abstract outcome of Tournament / Mutations) -/

structure Sel where
  elite : Nat                 -- slot of the elite
  parents : List Nat          -- slots of the tournament winners, in order
deriving Repr, DecidableEq, Inhabited

def maxIndex (pop : List Agent) : Nat := pop.foldl (fun m a => max m a.index) 0

/-- `parent.clone(max_id + 1 + t)` for the winners; an out-of-range slot yields no child -/
def children (pop : List Agent) : Nat → List Nat → List Agent
  | _, [] => []
  | mx, p :: ps =>
    match pop[p]? with
    | some a => { a with index := mx + 1 } :: children pop (mx + 1) ps
    | none => children pop (mx + 1) ps

def select (c : Cfg) (pop : List Agent) (s : Sel) : List Agent :=
  let kids := children pop (maxIndex pop) s.parents
  if c.elitism then
    match pop[s.elite]? with
    | some e => e :: kids
    | none => kids
  else kids

/-- what `TournamentSelection(population_size = len(pop))` guarantees about its outcome -/
def Sel.valid (s : Sel) (elitism : Bool) (n : Nat) : Prop :=
  s.elite < n ∧ (∀ p ∈ s.parents, p < n) ∧ s.parents.length + (if elitism then 1 else 0) = n

instance (s : Sel) (e : Bool) (n : Nat) : Decidable (s.valid e n) := by
  unfold Sel.valid; exact inferInstance

def mutateFrom : Nat → List Agent → List Bool → List Agent
  | _, [], _ => []
  | _, as, [] => as
  | next, a :: as, f :: fs => (if f then { a with tag := next } else a) :: mutateFrom (next + 1) as fs

/-- `Mutations.mutation`: same order, same size; slot 0 is left alone unless `mutate_elite` -/
def mutate (c : Cfg) (next : Nat) (pop : List Agent) (flags : List Bool) : List Agent :=
  match pop, flags with
  | a :: as, f :: fs => (if f && c.mutateElite then { a with tag := next } else a) :: mutateFrom (next + 1) as fs
  | pop, _ => pop

/-- hyper-parameter values in force during a generation (`learn_step`, `batch_size` per slot) -/
def applyHp : List Agent → List (Nat × Nat) → List Agent
  | [], _ => []
  | as, [] => as
  | a :: as, (l, b) :: hs => { a with ls := l, bs := b } :: applyHp as hs

/-! ### one generation -/

structure GenIn where
  hp : List (Nat × Nat) := []       -- (learn_step, batch_size) per slot for this generation
  above : Bool := false             -- every agent's recent mean fitness exceeds `target`
  sel : Option Sel := none          -- outcome of the tournament (none = no tournament/mutation objects)
  mutated : List Bool := []         -- per slot: drew a real mutation
deriving Repr, Inhabited

structure St where
  pop : List Agent := []
  mem : Mem := {}
  ckpts : Nat := 0                  -- checkpoint_count
  evoCount : Nat := 0               -- evo_count (bandits)
  gens : Nat := 0                   -- generations executed = entries of pop_fitnesses
  halted : Bool := false            -- returned through the early-stop branch
  saved : List (List Nat) := []     -- checkpoints written: steps[-1] of every agent, newest first
  learns : List (List Nat) := []    -- learn calls per slot, newest generation first
  selected : Bool := false          -- the last generation ran selection + mutation
  nextTag : Nat := 1000
deriving Repr, Inhabited

/-- does this generation run `tournament_selection_and_mutation`? -/
def selGate (c : Cfg) (s : St) (pop : List Agent) : Bool :=
  match c.kind with
  | .bandit => decide (s.evoCount < (pop.headD default).cur / c.evoSteps)
  | _ => true

/-- training + evaluation + `steps.append` -/
def genTrain (c : Cfg) (s : St) (hp : List (Nat × Nat)) : St :=
  let (pop1, mem1, ls) := trainPop c (applyHp s.pop hp) s.mem
  { s with pop := pop1.map evalAgent, mem := mem1, gens := s.gens + 1, learns := ls :: s.learns,
           selected := false }

def earlyStop (s : St) (above : Bool) : Bool :=
  above && decide (100 ≤ (s.pop.headD default).past.length + 1)

def genSelect (c : Cfg) (s : St) (i : GenIn) : St :=
  match i.sel with
  | none => s
  | some sel =>
    if selGate c s s.pop then
      { s with pop := mutate c s.nextTag (select c s.pop sel) i.mutated,
               evoCount := s.evoCount + 1, selected := true,
               nextTag := s.nextTag + s.pop.length + 1 }
    else s

def genCheckpoint (c : Cfg) (s : St) : St :=
  if c.checkpoint ≠ 0 ∧ s.ckpts < (s.pop.headD default).cur / c.checkpoint then
    { s with ckpts := s.ckpts + 1, saved := s.pop.map (·.cur) :: s.saved }
  else s

/-- the body of the `while` loop -/
def genBody (c : Cfg) (s : St) (i : GenIn) : St :=
  let s1 := genTrain c s i.hp
  if earlyStop s1 i.above then { s1 with halted := true }
  else genCheckpoint c (genSelect c s1 i)

/-- one trip round the `while`: nothing happens once the function has returned -/
def whileStep (c : Cfg) (s : St) (i : GenIn) : St :=
  if s.halted || !cond c s.pop then s else genBody c s i

def run (c : Cfg) (s : St) (ins : List GenIn) : St := ins.foldl (whileStep c) s

/-! ### closed formulas -/

/-- iterations of one agent's rollout -/
def agentIters (c : Cfg) (a : Agent) : Nat :=
  match c.kind with
  | .off | .maoff => c.evoSteps / c.numEnvs
  | .on | .maon => ceilDiv c.evoSteps a.ls * ceilDiv a.ls c.numEnvs
  | .offline => c.evoSteps
  | .bandit => c.episodeSteps

/-- first rollout iteration (0-based) at which a memory holding `m0` transitions, growing by `ne`
    per iteration, holds at least `thr` -/
def firstOpen (thr m0 ne : Nat) : Nat := ceilDiv (thr - m0) ne - 1

/-- multiples of `k` in `[a, b)` -/
def multiplesIn (k a b : Nat) : Nat := ceilDiv b k - ceilDiv a k

/-- closed formula for the learn calls of one off-policy rollout (no n-step window) that starts with
    `m0` stored transitions: the gate `len ≥ batch_size ∧ len > learning_delay` opens at iteration
    `firstOpen` (never, if the capacity is below the threshold) and stays open -/
def learnCallsOff (c : Cfg) (a : Agent) (m0 : Nat) : Nat :=
  let iters := c.evoSteps / c.numEnvs
  let thr := max a.bs (c.delay + 1)
  if c.cap < thr then 0 else
  let i0 := min (firstOpen thr m0 c.numEnvs) iters
  if c.numEnvs < a.ls then multiplesIn (a.ls / c.numEnvs) i0 iters
  else (iters - i0) * (c.numEnvs / a.ls)

/-! ### compatibility table -/

/-- one extracted row: which batch form the loop hands to `learn`, and whether `learn` took it -/
structure Row where
  loop : String
  algo : String
  memory : String
  form : String
  accepted : Bool
deriving Repr, DecidableEq, Inhabited

/-- combinations the training functions claim to support (their imports, `isinstance` dispatch,
    docstrings and the documentation: PER and n-step replay are RainbowDQN features) -/
def claimed (r : Row) : Bool :=
  match r.loop with
  | "off" =>
    (r.memory == "uniform" && ["DQN", "RainbowDQN", "DDPG", "TD3"].contains r.algo) ||
    (["per", "nstep", "per_nstep"].contains r.memory && r.algo == "RainbowDQN")
  | "on" => r.memory == "none" && r.algo == "PPO"
  | "offline" => r.memory == "uniform" && r.algo == "CQN"
  | "bandit" => r.memory == "uniform" && ["NeuralUCB", "NeuralTS"].contains r.algo
  | "maoff" => r.memory == "ma" && ["MADDPG", "MATD3"].contains r.algo
  | "maon" => r.memory == "none" && r.algo == "IPPO"
  | _ => false

def rowOk (r : Row) : Bool := !claimed r || r.accepted

def tableOk (t : List Row) : Bool := t.all rowOk

/-- the claimed combinations, each of which must appear in an extracted table -/
def claimedKeys : List (String × String × String) :=
  [("off", "DQN", "uniform"), ("off", "RainbowDQN", "uniform"), ("off", "DDPG", "uniform"),
   ("off", "TD3", "uniform"), ("off", "RainbowDQN", "per"), ("off", "RainbowDQN", "nstep"),
   ("off", "RainbowDQN", "per_nstep"), ("on", "PPO", "none"), ("offline", "CQN", "uniform"),
   ("bandit", "NeuralUCB", "uniform"), ("bandit", "NeuralTS", "uniform"),
   ("maoff", "MADDPG", "ma"), ("maoff", "MATD3", "ma"), ("maon", "IPPO", "none")]

def tableComplete (t : List Row) : Bool :=
  claimedKeys.all (fun k => t.any (fun r => r.loop == k.1 && r.algo == k.2.1 && r.memory == k.2.2))

/-- the table extracted from the repaired tree (fixes C20-td3/cqn-learn-tensordict,
    C20-bandits-transition applied); the harness re-extracts it on every run -/
def extractedTable : List Row :=
  [⟨"off", "DQN", "uniform", "tensordict", true⟩,
   ⟨"off", "RainbowDQN", "uniform", "tensordict", true⟩,
   ⟨"off", "DDPG", "uniform", "tensordict", true⟩,
   ⟨"off", "TD3", "uniform", "tensordict", true⟩,
   ⟨"off", "CQN", "uniform", "tensordict", true⟩,
   ⟨"off", "RainbowDQN", "per", "tensordict+weights+idxs", true⟩,
   ⟨"off", "RainbowDQN", "nstep", "tensordict+idxs,n_experiences", true⟩,
   ⟨"off", "RainbowDQN", "per_nstep", "tensordict+weights+idxs,n_experiences", true⟩,
   ⟨"off", "DQN", "per", "none", false⟩,
   ⟨"off", "DQN", "nstep", "tensordict+idxs,n_experiences", false⟩,
   ⟨"off", "DDPG", "per", "none", false⟩,
   ⟨"off", "DDPG", "nstep", "tensordict+idxs,n_experiences", false⟩,
   ⟨"on", "PPO", "none", "rollout", true⟩,
   ⟨"offline", "CQN", "uniform", "tensordict", true⟩,
   ⟨"offline", "DQN", "uniform", "tensordict", true⟩,
   ⟨"bandit", "NeuralUCB", "uniform", "tensordict", true⟩,
   ⟨"bandit", "NeuralTS", "uniform", "tensordict", true⟩,
   ⟨"maoff", "MADDPG", "ma", "ma_tuple", true⟩,
   ⟨"maoff", "MATD3", "ma", "ma_tuple", true⟩,
   ⟨"maon", "IPPO", "none", "ma_rollout", true⟩]

end Loop

/-! ### the evolution step: `tournament_selection_and_mutation` + `Mutations.mutation` (population level)

  Generic in the agent type `A` and in the type `M` of mutation methods.  `TournamentSelection.select` and the
  per-individual mutation methods are parameters (`select`, `Ops.call`), constrained in `Props/C20.lean` by the
  specifications the other translators prove about them (`Proofs/TournGenEq.lean`, `Proofs/MutWireGenEq.lean`).

  * `Mutations.mutation(population, pre_training_mut)`: the option list and its probabilities are the pre-training
    ones iff `pre_training_mut`; `rng.choice` draws one method per member (`drawOk`: as many as members, each an
    option of positive probability); unless `mutate_elite`, entry 0 is replaced by `no_mutation` (IndexError on an
    empty draw); member `i` of the result is `post (method_i (member_i))`, in the order of the population.
  * `tournament_selection_and_mutation`: `algo` defaults to the class name of member 0 (IndexError if there is none);
    without accelerator: `elite, population = tournament.select(population)`, `population = mutation.mutation(population)`;
    with accelerator every member is unwrapped first; the main process selects, mutates and saves member `i` to
    `models/<env_name>/<algo>_<i>.pt`; every other process loads that file into ITS OLD member `i` (its `population`
    is never rebound, and `elite` is never bound there); all members are wrapped again.  `save_elite`, on a process
    that selected (no accelerator / the main process) only: the elite RETURNED BY SELECT (not member 0 of the mutated
    population) is saved to `elite_path` up to the first `.pt` (default `<env_name>-elite_<algo>`) + `.pt`.
    Returned: the population. -/
namespace Loop.Evo

/-- files written, in order -/
inductive Ev (A : Type) where
  | save (a : A) (path : String)
  | saveLLM (a : A) (path : Option String)

/-- what the step uses of an agent and of a mutation method (in-place methods: the agent after the call) -/
structure Ops (A M : Type) where
  className : A → String
  unwrap : A → A
  wrap : A → A
  load : A → String → A
  call : M → A → A
  post : A → A

structure MutCfg (M : Type) where
  options : List M
  proba : List Rat
  preOptions : List M
  preProba : List Rat
  mutateElite : Bool
  noMut : M

/-- `d` is a possible result of `rng.choice(opts, n, p=p)` -/
def drawOk {M : Type} [BEq M] (opts : List M) (p : List Rat) (n : Nat) (d : List M) : Bool :=
  decide (d.length = n) && decide (opts.length = p.length) &&
  d.all (fun m => (List.zip opts p).any (fun op => op.1 == m && decide (0 < op.2)))

/-- the methods actually applied: entry 0 is forced to `no_mutation` unless `mutate_elite` -/
def applied {M : Type} (cfg : MutCfg M) (d : List M) : Option (List M) :=
  if cfg.mutateElite then some d
  else match d with
    | [] => none                         -- `mutation_choice[0] = …` on an empty array
    | _ :: r => some (cfg.noMut :: r)

/-- member `i` of the result is `post (method_i member_i)` -/
def mutateWith {A M : Type} (ops : Ops A M) (ms : List M) (pop : List A) : List A :=
  List.zipWith (fun m a => ops.post (ops.call m a)) ms pop

def optionsOf {M : Type} (cfg : MutCfg M) (pre : Bool) : List M := if pre then cfg.preOptions else cfg.options
def probaOf {M : Type} (cfg : MutCfg M) (pre : Bool) : List Rat := if pre then cfg.preProba else cfg.proba

/-- `Mutations.mutation(population, pre_training_mut)` with the draw `d`; `none` = an exception / not a draw -/
def mutation {A M : Type} [BEq M] (ops : Ops A M) (cfg : MutCfg M) (pre : Bool) (d : List M) (pop : List A) :
    Option (List A) :=
  if drawOk (optionsOf cfg pre) (probaOf cfg pre) pop.length d then
    (applied cfg d).map (fun ms => mutateWith ops ms pop)
  else none

/-- where the main process parks member `i` for the other processes -/
def tempPath (envName algo : String) (i : Nat) : String :=
  "models/" ++ envName ++ "/" ++ algo ++ "_" ++ toString i ++ ".pt"

def elitePathOf (envName algo : String) (elitePath : Option String) : String :=
  (match elitePath with
   | some p => (p.splitOn ".pt").headD p
   | none => envName ++ "-elite_" ++ algo) ++ ".pt"

def eliteEvents {A : Type} (saveElite llm : Bool) (envName algo : String) (elitePath : Option String) (elite : A) :
    List (Ev A) :=
  if saveElite then (if llm then [Ev.saveLLM elite elitePath] else [Ev.save elite (elitePathOf envName algo elitePath)])
  else []

/-- `tournament_selection_and_mutation`; `accel` = `none`: no accelerator, `some b`: `b` = this is the main process;
    `none` = an exception.  Returns the population and the files written. -/
def evoStep {A M : Type} (ops : Ops A M) (select : List A → Option (A × List A))
    (mutate : List A → Option (List A)) (pop : List A) (envName : String) (algo elitePath : Option String)
    (saveElite : Bool) (accel : Option Bool) (llm : Bool) : Option (List A × List (Ev A)) :=
  match (match algo with | some a => some a | none => pop.head?.map ops.className) with
  | none => none
  | some algo =>
    match accel with
    | none =>
      match select pop with
      | none => none
      | some (elite, sel) =>
        match mutate sel with
        | none => none
        | some res => some (res, eliteEvents saveElite llm envName algo elitePath elite)
    | some true =>
      match select (pop.map ops.unwrap) with
      | none => none
      | some (elite, sel) =>
        match mutate sel with
        | none => none
        | some res =>
          some (res.map ops.wrap,
                res.mapIdx (fun i a => Ev.save a (tempPath envName algo i)) ++
                  eliteEvents saveElite llm envName algo elitePath elite)
    | some false =>
      some (((pop.map ops.unwrap).mapIdx (fun i a => ops.load a (tempPath envName algo i))).map ops.wrap, [])

/-- the step AS FOUND (before /repo 8b078ab): `if save_elite:` was not restricted to the process that holds the
    elite, so a process that is not the main one read the unbound `elite` — UnboundLocalError.  Kept as a model switch
    for the witness `C20_evostep_as_found_save_elite_witness`; equal to `evoStep` everywhere else. -/
def evoStepAsFound {A M : Type} (ops : Ops A M) (select : List A → Option (A × List A))
    (mutate : List A → Option (List A)) (pop : List A) (envName : String) (algo elitePath : Option String)
    (saveElite : Bool) (accel : Option Bool) (llm : Bool) : Option (List A × List (Ev A)) :=
  if accel = some false ∧ saveElite = true then
    (match (match algo with | some a => some a | none => pop.head?.map ops.className) with
     | none => none | some _ => none)
  else evoStep ops select mutate pop envName algo elitePath saveElite accel llm

end Loop.Evo

/-! ### line protocol -/
namespace Loop
open Util

structure IOState where
  cfg : Cfg := {}
  st : St := {}
  table : List Row := []

def parseKind? : String → Option Kind
  | "off" => some .off | "on" => some .on | "offline" => some .offline
  | "bandit" => some .bandit | "maoff" => some .maoff | "maon" => some .maon
  | _ => none

def pairs : List Nat → Option (List (Nat × Nat))
  | [] => some []
  | [_] => none
  | a :: b :: r => (pairs r).map ((a, b) :: ·)

def showAgentSteps (a : Agent) : String := showNats (a.past.reverse ++ [a.cur])

def showPop (pop : List Agent) : String :=
  "idx " ++ showNats (pop.map (·.index)) ++ " | steps " ++ showNats (pop.map (·.cur)) ++
  " | fit " ++ showNats (pop.map (·.fit)) ++ " | hist " ++ showNats (pop.map (fun a => a.past.length + 1))

def parseBool? : String → Option Bool
  | "1" => some true | "0" => some false | _ => none

def step (s : IOState) : List String → IOState × String
  | ["cfg", k, mx, evo, ne, dl, cap, ns, ep, ck, el, me] =>
    match parseKind? k, parseNats? [mx, evo, ne, dl, cap, ns, ep, ck], parseBool? el, parseBool? me with
    | some kind, some [mx, evo, ne, dl, cap, ns, ep, ck], some el, some me =>
      if ne = 0 then (s, "reject")                       -- no such environment
      else if kind = .bandit ∧ evo = 0 then (s, "reject")  -- `// evo_steps` raises
      else
        ({ s with cfg := { kind := kind, maxSteps := mx, evoSteps := evo, numEnvs := ne, delay := dl,
                           cap := cap, nStep := ns, episodeSteps := ep, checkpoint := ck,
                           elitism := el, mutateElite := me },
                  st := {} }, "ok")
    | _, _, _, _ => (s, "bad-op")
  | "pop" :: ws =>
    -- index steps index steps …
    match (parseNats? ws).bind pairs with
    | some ps =>
      if ps.isEmpty then (s, "reject") else
      let pop := ps.mapIdx (fun i p => ({ index := p.1, cur := p.2, env := p.2, tag := i } : Agent))
      ({ s with st := { s.st with pop := pop } }, "ok")
    | none => (s, "bad-op")
  | "agent" :: idx :: fit :: ws =>
    -- one more agent of the initial population, with its history: index, len(fitness), the whole
    -- `steps` list (a population that was trained before, or restored from a checkpoint)
    match parseNat? idx, parseNat? fit, parseNats? ws with
    | some idx, some fit, some steps =>
      match steps.reverse with
      | [] => (s, "reject")                                -- `agent.steps[-1]` raises on an empty list
      | cur :: past =>
        let a : Agent := { index := idx, cur := cur, past := past, fit := fit, env := cur,
                           tag := s.st.pop.length }
        ({ s with st := { s.st with pop := s.st.pop ++ [a] } }, "ok")
    | _, _, _ => (s, "bad-op")
  | ["mem", l, c, p] =>
    -- state of the (shared) replay memory when the training function is entered
    match parseNats? [l, c, p] with
    | some [l, c, p] => ({ s with st := { s.st with mem := { len := l, counter := c, pushes := p } } }, "ok")
    | _ => (s, "bad-op")
  | ["cond"] => (s, showBool (!s.st.halted && cond s.cfg s.st.pop))
  | "gen" :: ab :: ws =>
    -- above  ls bs ls bs …  : training + evaluation of one generation (if the loop is still running)
    match parseBool? ab, (parseNats? ws).bind pairs with
    | some above, some hp =>
      if hp.any (fun h => h.1 = 0) then (s, "reject")     -- learn_step = 0 divides by zero
      else if s.st.halted || !cond s.cfg s.st.pop then (s, "stop")
      else
        let s1 := genTrain s.cfg s.st hp
        let early := earlyStop s1 above
        let s1 := if early then { s1 with halted := true } else s1
        ({ s with st := s1 },
         (if early then "early " else "") ++ "steps " ++ showNats (s1.pop.map (·.cur)) ++
         " | learns " ++ showNats (s1.learns.headD []) ++ " | mem " ++ toString s1.mem.len ++
         " | fit " ++ showNats (s1.pop.map (·.fit)))
    | _, _ => (s, "bad-op")
  | ["selq"] =>
    -- would a configured tournament run after this generation?
    (s, showBool (!s.st.halted && selGate s.cfg s.st s.st.pop))
  | "sel" :: e :: rest =>
    -- elite slot, parents…, "|", mutated flags…
    let ps := rest.takeWhile (· ≠ "|")
    let fs := (rest.dropWhile (· ≠ "|")).drop 1
    match parseNat? e, parseNats? ps, allSome (fs.map parseBool?) with
    | some e, some ps, some fs =>
      let sel : Sel := { elite := e, parents := ps }
      if s.st.halted then (s, "stop")
      else if ¬ (e < s.st.pop.length ∧ ps.all (· < s.st.pop.length)) then (s, "reject")
      else
        let old := s.st.pop
        let s2 := genSelect s.cfg s.st { sel := some sel, mutated := fs }
        let eliteTag := (old.getD e default).tag
        let carried := s.cfg.elitism && (s2.pop.headD default).tag == eliteTag
        ({ s with st := s2 },
         (if s2.selected then "" else "skipped ") ++ showPop s2.pop ++
         " | elite-carried " ++ showBool carried)
    | _, _, _ => (s, "bad-op")
  | ["ckpt"] =>
    if s.st.halted then (s, "stop") else
    let s2 := genCheckpoint s.cfg s.st
    ({ s with st := s2 },
     if s2.ckpts = s.st.ckpts then "nosave" else "save " ++ showNats (s2.pop.map (·.cur)))
  | ["dump"] =>
    (s, showPop s.st.pop ++ " | gens " ++ toString s.st.gens ++ " | ckpts " ++ toString s.st.ckpts ++
        " | lists " ++ " ; ".intercalate (s.st.pop.map showAgentSteps))
  | ["learncalls", ls, bs, m0] =>
    -- closed formula for one off-policy rollout
    match parseNats? [ls, bs, m0] with
    | some [ls, bs, m0] =>
      if ls = 0 then (s, "reject") else (s, toString (learnCallsOff s.cfg { ls := ls, bs := bs } m0))
    | _ => (s, "bad-op")
  | ["iters", ls] =>
    match parseNat? ls with
    | some ls => if ls = 0 then (s, "reject") else
        (s, toString (agentIters s.cfg { ls := ls }) ++ " " ++ toString (agentIters s.cfg { ls := ls } * stride s.cfg))
    | none => (s, "bad-op")
  | ["row", lp, al, me, fo, ac] =>
    match parseBool? ac with
    | some ac =>
      let r : Row := ⟨lp, al, me, fo, ac⟩
      ({ s with table := s.table ++ [r] },
       "claimed " ++ showBool (claimed r) ++ " ok " ++ showBool (rowOk r) ++
       " snapshot " ++ showBool (extractedTable.contains r))
    | none => (s, "bad-op")
  | ["table"] =>
    (s, "ok " ++ showBool (tableOk s.table) ++ " complete " ++ showBool (tableComplete s.table) ++
        " rows " ++ toString s.table.length)
  | _ => (s, "bad-op")

end Loop
