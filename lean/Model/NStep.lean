import Model.Util
import Model.Ring
/-
  Model/NStep.lean — executable model of `agilerl.components.replay_buffer.MultiStepReplayBuffer`
  together with the 1-step `ReplayBuffer` that `train_off_policy` fills alongside it.  Core Lean only.

  A *row* is one vectorised transition (what one `n_step_memory.add(transition)` call receives):
  one `Cell` per environment.  Observations, actions and next observations are identifiers (the
  harness encodes (environment, step) into the real arrays), rewards are exact rationals.

  `_get_n_step_info` works on whole tensors; every tensor operation it performs is elementwise over
  the environment axis, and the only coupling between environments is `done.bool().any()`.  The model
  therefore runs the very same loop once per environment (`loop`), with `rowDone` as the break test.

  `fixed = true`  : the code as repaired (a window whose first row is terminal in any environment is
                    returned as it is) — fixes/C10-first-done.diff.
  `fixed = false` : the code before the repair (`_get_n_step_info` never looked at `done` of row 0).
-/
namespace NStep
open Util

structure Cell where
  obs  : Nat
  act  : Nat
  rew  : Rat
  nxt  : Nat
  done : Bool
deriving Repr, DecidableEq

instance : Inhabited Cell := ⟨⟨0, 0, 0, 0, false⟩⟩

/-- one vectorised transition: a cell per environment -/
abbrev Row := List Cell

/-- `done.bool().any()` -/
def rowDone (r : Row) : Bool := r.any (·.done)

/-- environment `e` of row `i` of a window / stream -/
def cellAt (w : List Row) (i e : Nat) : Cell := (w.getD i []).getD e default

/-- running values of the loop in `_get_n_step_info`, for one environment:
    `n_step_reward`, `first_transition[next_obs]`, `first_transition[done]` -/
structure Acc where
  rew  : Rat
  nxt  : Nat
  done : Bool
deriving Repr, DecidableEq

/-- `for i, transition in enumerate(list(self.n_step_buffer)[1:])` seen from environment `e`:
    add `reward * gamma ** (i + 1)`, overwrite next_obs and done, `break` if `done.any()`.
    The first `Nat` is the loop counter `i`. -/
def loop (γ : Rat) (e : Nat) : Nat → Acc → List Row → Acc
  | _, acc, [] => acc
  | i, acc, r :: rest =>
    let c := r.getD e default
    let acc' : Acc := { rew := acc.rew + c.rew * γ ^ (i + 1), nxt := c.nxt, done := c.done }
    if rowDone r then acc' else loop γ e (i + 1) acc' rest

/-- `_get_n_step_info` for environment `e` of the window `w` (oldest row first) -/
def fuseAt (fixed : Bool) (γ : Rat) (w : List Row) (e : Nat) : Cell :=
  match w with
  | [] => default
  | r0 :: rest =>
    let c0 := r0.getD e default                       -- first_transition = window[0].clone()
    let a0 : Acc := { rew := c0.rew, nxt := c0.nxt, done := c0.done }
    let a := if fixed && rowDone r0 then a0 else loop γ e 0 a0 rest
    { obs := c0.obs, act := c0.act, rew := a.rew, nxt := a.nxt, done := a.done }

/-- the fused vectorised transition that is written to the n-step storage -/
def fuseRow (fixed : Bool) (γ : Rat) (w : List Row) : Row :=
  (List.range (w.headD []).length).map (fuseAt fixed γ w)

/-- number of rows a window contributes: up to and including the first row with `done.any()` -/
def cutLen : List Row → Nat
  | [] => 0
  | r :: rest => if rowDone r then 1 else 1 + cutLen rest

/-- `deque(maxlen = n).append(r)` -/
def push (n : Nat) (w : List Row) (r : Row) : List Row :=
  let l := w ++ [r]
  l.drop (l.length - n)

/-- n-step buffer + the 1-step buffer of `train_off_policy`.  `nRows`/`oRows` log every record
    ever handed to the two storages (k-th emission = k-th element); the ring buffers hold the flat
    index of a record (emission k, environment e ↦ position in `nRows.flatten`). -/
structure State where
  n      : Nat
  γ      : Rat
  fixed  : Bool
  window : List Row
  nRows  : List Row
  oRows  : List Row
  nbuf   : Ring.Buf
  obuf   : Ring.Buf
deriving Repr

def State.init (n : Nat) (γ : Rat) (fixed : Bool) (capN capO : Nat) : State :=
  { n := n, γ := γ, fixed := fixed, window := [], nRows := [], oRows := [],
    nbuf := Ring.Buf.empty capN, obuf := Ring.Buf.empty capO }

/-- one iteration of the storing part of `train_off_policy`:
    `one = n_step_memory.add(transition); if one is not None: memory.add(one)` -/
def State.add (s : State) (r : Row) : State :=
  let w := push s.n s.window r
  if w.length < s.n then { s with window := w }              -- `return` (None)
  else
    let fused := fuseRow s.fixed s.γ w                        -- `_get_n_step_info()`
    let one := w.headD []                                     -- `return self.n_step_buffer[0]`
    { s with window := w, nRows := s.nRows ++ [fused], oRows := s.oRows ++ [one],
             nbuf := s.nbuf.add (List.range' s.nbuf.counter fused.length),
             obuf := s.obuf.add (List.range' s.obuf.counter one.length) }

/-- the state reached from empty buffers by a whole stream of vectorised transitions -/
def run (n : Nat) (γ : Rat) (fixed : Bool) (capN capO : Nat) (rows : List Row) : State :=
  rows.foldl State.add (State.init n γ fixed capN capO)

/-- record held in slot `j` of the n-step storage / the 1-step storage -/
def State.nSlot (s : State) (j : Nat) : Option Cell :=
  match s.nbuf.store.getD j none with
  | some i => s.nRows.flatten[i]?
  | none => none

def State.oSlot (s : State) (j : Nat) : Option Cell :=
  match s.obuf.store.getD j none with
  | some i => s.oRows.flatten[i]?
  | none => none


/-! ### the sampling path: `Sampler`, `ReplayBuffer.sample`, `PrioritizedReplayBuffer.sample`,
    `MultiStepReplayBuffer.sample_from_indices` and the sampling block of `train_off_policy` -/

/-- the class of the buffer a `Sampler` is built around (`none` = no memory given) -/
inductive MemClass where
  | none | replay | multiStep | prioritized | multiAgent | other
deriving DecidableEq, Repr

/-- the sampling method a `Sampler` installs -/
inductive SMode where
  | standard | per | nStep | distributed
deriving DecidableEq, Repr

/-- `Sampler.__init__` as a decision on its flags: refused (`none`) without a memory unless dataset and
    dataloader are both given; distributed when a dataset and a torch `DataLoader` are given; otherwise
    by the class of the memory: prioritised ↦ `sample_per`, multi-step ↦ `sample_n_step`, else standard -/
def samplerMode (c : MemClass) (dataset loaderGiven loaderIsTorch : Bool) : Option SMode :=
  if c = .none ∧ ¬ (dataset = true ∧ loaderGiven = true) then none
  else if loaderGiven = true ∧ dataset = true ∧ loaderIsTorch = true then some .distributed
  else match c with
    | .prioritized => some .per
    | .multiStep => some .nStep
    | _ => some .standard

/-- an index tensor: the indices and the number of extra singleton axes (PER hands out a (B,1) column) -/
structure IdxCol where
  vals  : List Nat
  extra : Nat
deriving Repr, DecidableEq

/-- what one `agent.learn(experiences, n_experiences)` call receives from the sampling block -/
structure Paired (α : Type) where
  one      : List α             -- rows of the 1-step batch
  oneExtra : Nat                -- extra axes of the 1-step batch (0: one record per row)
  oneIdx   : Option IdxCol      -- its `idxs` entry
  nst      : Option (List α)    -- rows of the n-step batch (`none`: no n-step memory)
  nstExtra : Nat                -- extra axes of the n-step batch
deriving Repr, DecidableEq

/-- both storages read with the same index list -/
def pairedSample {α : Type} (idxs : List Nat) (oneStep nStep : Nat → α) : List α × List α :=
  (idxs.map oneStep, idxs.map nStep)

/-- the sampling block of `train_off_policy` for the indices `drawn` by the 1-step buffer
    (`randperm(size)[:B]` resp. the proportional draw of PER).  PER returns its indices as a (B,1) column,
    the uniform buffer returns them (flat) only when an n-step memory is present; the n-step sampler reads
    its storage with these indices.  `flat = true`: `Sampler.sample_n_step` flattens the column first (the code
    as repaired); `flat = false`: the column is used as it is and the n-step batch inherits its extra axis. -/
def sampleBlock {α : Type} (flat per : Bool) (oneStep : Nat → α) (nStep : Option (Nat → α)) (drawn : List Nat) :
    Paired α :=
  { one := drawn.map oneStep, oneExtra := 0,
    oneIdx := if per then some ⟨drawn, 1⟩ else if nStep.isSome then some ⟨drawn, 0⟩ else none,
    nst := nStep.map (fun s => (pairedSample drawn oneStep s).2),
    nstExtra := if flat then 0 else if per ∧ nStep.isSome then 1 else 0 }

/-- the arguments of `memory.update_priorities` after a learn step that returned `ret`: only with PER -/
def updatesOf {ρ : Type} (per : Bool) (ret : ρ) : List ρ := if per then [ret] else []

end NStep

/-! ### line protocol -/
namespace NStep
open Util

structure IOState where
  st : Option State := none
  m  : Nat := 0

def showCell (c : Cell) : String :=
  toString c.obs ++ "," ++ toString c.act ++ "," ++ showRat c.rew ++ "," ++ toString c.nxt ++ ","
    ++ showBool c.done

def showRow (r : Row) : String := " ".intercalate (r.map showCell)

def showSlot : Option Cell → String
  | none => "_"
  | some c => showCell c

def parseBool? : String → Option Bool
  | "0" => some false
  | "1" => some true
  | _ => none

def parseClass? : String → Option MemClass
  | "none" => some .none
  | "replay" => some .replay
  | "multistep" => some .multiStep
  | "prioritized" => some .prioritized
  | "multiagent" => some .multiAgent
  | "other" => some .other
  | _ => none

def parseCell? : List String → Option Cell
  | [o, a, r, x, d] =>
    match parseNat? o, parseNat? a, parseRat? r, parseNat? x, parseBool? d with
    | some o, some a, some r, some x, some d => some ⟨o, a, r, x, d⟩
    | _, _, _, _, _ => none
  | _ => none

def step (s : IOState) : List String → IOState × String
  | ["new", n, g, m, cn, co, f] =>
    match parseNat? n, parseRat? g, parseNat? m, parseNat? cn, parseNat? co, parseBool? f with
    | some n, some g, some m, some cn, some co, some f =>
      -- n = 0 (IndexError on the empty deque), empty batches and batches wider than the storage
      -- are rejected by the real code
      if n = 0 ∨ m = 0 ∨ cn = 0 ∨ co = 0 ∨ m > cn ∨ m > co then (s, "reject")
      else ({ st := some (State.init n g f cn co), m := m }, "ok")
    | _, _, _, _, _, _ => (s, "bad-op")
  | "add" :: ws =>
    match s.st with
    | none => (s, "bad-op")
    | some st =>
      if ws.length ≠ 5 * s.m then (s, "reject") else
      match allSome ((chunks 5 ws).map parseCell?) with
      | none => (s, "bad-op")
      | some row =>
        let st' := st.add row
        let out :=
          if st'.nRows.length = st.nRows.length then "-"
          else showRow (st'.nRows.getLastD []) ++ " | " ++ showRow (st'.oRows.getLastD [])
        ({ s with st := some st' }, out)
  | ["len"] =>
    match s.st with
    | none => (s, "bad-op")
    | some st => (s, toString st.nbuf.size ++ " " ++ toString st.obuf.size ++ " " ++ toString st.window.length)
  | ["dump"] =>
    match s.st with
    | none => (s, "bad-op")
    | some st =>
      (s, " ".intercalate ((List.range st.nbuf.size).map (fun j => showSlot (st.nSlot j))) ++ " | " ++
          " ".intercalate ((List.range st.obuf.size).map (fun j => showSlot (st.oSlot j))))
  | ["mode", c, ds, lg, lt] =>
    match parseClass? c, parseBool? ds, parseBool? lg, parseBool? lt with
    | some c, some ds, some lg, some lt =>
      (s, match samplerMode c ds lg lt with
          | none => "reject"
          | some .standard => "standard"
          | some .per => "per"
          | some .nStep => "nstep"
          | some .distributed => "distributed")
    | _, _, _, _ => (s, "bad-op")
  | "sample" :: per :: hasN :: idxs =>
    match s.st, parseBool? per, parseBool? hasN, allSome (idxs.map parseNat?) with
    | some st, some per, some hasN, some idxs =>
      -- an index outside the filled part of a storage is an IndexError / garbage in the real code
      if idxs.any (fun j => decide (st.obuf.size ≤ j)) || (hasN && idxs.any (fun j => decide (st.nbuf.size ≤ j))) then (s, "reject")
      else
        let p := sampleBlock true per st.oSlot (if hasN then some st.nSlot else none) idxs
        (s, " ".intercalate (p.one.map showSlot) ++ " | " ++
            (match p.nst with
             | none => "-"
             | some rows => " ".intercalate (rows.map showSlot)) ++ " | " ++
            toString p.oneExtra ++ " " ++ toString p.nstExtra ++ " " ++
            (match p.oneIdx with
             | none => "-"
             | some i => toString i.extra ++ ":" ++ ",".intercalate (i.vals.map toString)))
    | _, _, _, _ => (s, "bad-op")
  | _ => (s, "bad-op")

end NStep
