import Model.Util
/-
  Model/NStep.lean — (stub) executable model; see DESIGN.md.  Core Lean only.
-/
namespace NStep
open Util

structure IOState where
  dummy : Nat := 0

def step (s : IOState) : List String → IOState × String
  | _ => (s, "bad-op")

end NStep
