import Model.Util
/-
  Model/Obs.lean — (stub) executable model; see DESIGN.md.  Core Lean only.
-/
namespace Obs
open Util

structure IOState where
  dummy : Nat := 0

def step (s : IOState) : List String → IOState × String
  | _ => (s, "bad-op")

end Obs
