import Model.Util
/-
  Model/Obs.lean — executable model of observation handling (property C15):
  `agilerl.utils.algo_utils.{obs_to_tensor, maybe_add_batch_dim, get_vect_dim,
  preprocess_observation, apply_image_normalization}` and of
  `MultiAgentRLAlgorithm.{assemble,disassemble}_homogeneous_outputs / stack_critic_observations`.

  A tensor is a shape plus its flat row-major data.  `unsqueeze`, `squeeze` and `view(-1, …)` do
  not touch row-major data, so the whole batch-dimension logic is shape algebra; one-hot encoding
  and min-max scaling act on the data.  Core Lean only.
-/
namespace Obs

structure Tensor where
  shape : List Nat
  data  : List Rat
deriving Repr, DecidableEq

inductive Err
  | rank        -- `maybe_add_batch_dim`: ValueError (rank not in {r, r+1, r+2})
  | view        -- `view(-1, *space_shape)` impossible
  | range       -- `F.one_hot`: value outside `[0, n)`
  | shape       -- operands that do not line up (broadcast / split)
deriving Repr, DecidableEq

/-- number of elements of a shape -/
def numel : List Nat → Nat
  | [] => 1
  | d :: r => d * numel r

/-- split a list in consecutive pieces of `k` elements (the last may be shorter) -/
def chunkAux {α} (k : Nat) : Nat → List α → List (List α)
  | 0, _ => []
  | _ + 1, [] => []
  | f + 1, x :: xs => ((x :: xs).take k) :: chunkAux k f ((x :: xs).drop k)

def chunk {α} (k : Nat) (l : List α) : List (List α) := chunkAux k l.length l

/-- the rows (along dimension 0) of a tensor whose rows have `k` elements -/
def Tensor.rows (t : Tensor) (k : Nat) : List (List Rat) := chunk k t.data

/-! ### `maybe_add_batch_dim` -/

/-- exactly the rank comparison of `maybe_add_batch_dim(obs, space_shape)`:
    same rank → `unsqueeze(0)`; rank + 2 → `view(-1, *space_shape)`; rank + 1 → unchanged;
    anything else → `ValueError`.  Only ranks are compared, never the sizes. -/
def maybeAddBatchDim (t : Tensor) (p : List Nat) : Except Err Tensor :=
  if t.shape.length = p.length then
    .ok { t with shape := 1 :: t.shape }
  else if t.shape.length = p.length + 2 then
    if numel p = 0 ∨ numel t.shape % numel p ≠ 0 then .error .view
    else .ok { t with shape := (numel t.shape / numel p) :: p }
  else if t.shape.length = p.length + 1 then .ok t
  else .error .rank

/-- `get_vect_dim` on a leaf space (after the MultiBinary repair all leaves take this branch) -/
def getVectDim (obsShape spaceShape : List Nat) : Nat :=
  if obsShape.length > spaceShape.length then obsShape.headD 0 else 1

/-! ### one-hot -/

/-- `tensor.long()` of a float: truncation towards zero -/
def toLong (q : Rat) : Int := Int.tdiv q.num q.den

def oneHotVec (n : Nat) (v : Nat) : List Rat :=
  (List.range n).map (fun i => if i = v then 1 else 0)

/-- `F.one_hot(v, num_classes = n)`; raises for a value outside `[0, n)` -/
def oneHot (n : Nat) (v : Int) : Option (List Rat) :=
  if 0 ≤ v ∧ v < (n : Int) then some (oneHotVec n v.toNat) else none

def allOk {α} : List (Option α) → Option (List α)
  | [] => some []
  | none :: _ => none
  | some a :: r => (allOk r).map (a :: ·)

/-- one-hot of every element (appends a last dimension of size `n`) -/
def oneHotAll (n : Nat) (d : List Rat) : Option (List Rat) :=
  (allOk (d.map (fun q => oneHot n (toLong q)))).map List.flatten

/-- one row of a MultiDiscrete observation: concatenation of the one-hots of its components;
    `zip` semantics of `enumerate(torch.split(…))` against `nvec` is excluded by the length test -/
def mdRow (nvec : List Nat) (row : List Rat) : Option (List Rat) :=
  if row.length ≠ nvec.length then none
  else (allOk (List.zipWith (fun n q => oneHot n (toLong q)) nvec row)).map List.flatten

/-- offset of component `i` inside the concatenated one-hot row -/
def mdOffset (nvec : List Nat) (i : Nat) : Nat := (nvec.take i).sum

/-! ### min-max scaling -/

def normalize (lo hi x : Rat) : Rat := (x - lo) / (hi - lo)

def normRow (lo hi row : List Rat) : List Rat :=
  List.zipWith (fun (b : Rat × Rat) x => normalize b.1 b.2 x) (List.zip lo hi) row

def allSomeR : List (Option Rat) → Option (List Rat) := allOk

/-- is `p` a suffix of `s` (the observation broadcasts against `low`/`high` without expansion) -/
def endsWith (s p : List Nat) : Bool := s.drop (s.length - p.length) == p

/-- `apply_image_normalization`: bypass when a bound is infinite, else `(x - low) / (high - low)`
    broadcast over the leading dimensions.  (The code's third bypass, `low = 0 ∧ high = 1`, is the
    same function: `normalize 0 1 x = x`.) -/
def applyNorm (p : List Nat) (lo hi : List (Option Rat)) (t : Tensor) : Except Err Tensor :=
  match allSomeR lo, allSomeR hi with
  | some l, some h =>
    if l.length ≠ numel p ∨ h.length ≠ numel p ∨ numel p = 0 ∨ !(endsWith t.shape p) then .error .shape
    else .ok { t with data := ((chunk (numel p) t.data).map (normRow l h)).flatten }
  | _, _ => .ok t

/-! ### min-max scaling with the IEEE specials: the code as found and as repaired

  `Rat` division by zero is `0` in Lean, `0/0 = nan` and `c/0 = ±inf` in torch / numpy: `normalize` above is only
  meaningful under `NormGuard` (no element with `high = low`).  `normalizeFound` is the division the code did when the
  defect `C15-normalize-degenerate-bound` was found; `normalizeFixed` is the repaired code (a zero scale is replaced by
  one, so a pixel whose bounds coincide maps to `0`). -/

inductive Fl
  | fin (q : Rat) | pinf | ninf | nan
deriving Repr, DecidableEq

/-- no element of the space has `high = low` -/
def NormGuard (l h : List Rat) : Prop := ∀ b ∈ List.zip l h, b.2 - b.1 ≠ 0

/-- as found: `(x - lo) / (hi - lo)` in IEEE arithmetic -/
def normalizeFound (lo hi x : Rat) : Fl :=
  if hi - lo = 0 then (if x - lo = 0 then .nan else if 0 < x - lo then .pinf else .ninf)
  else .fin ((x - lo) / (hi - lo))

/-- repaired: `scale = where(high - low == 0, 1, high - low)` -/
def scaleOf (lo hi : Rat) : Rat := if hi - lo = 0 then 1 else hi - lo
def normalizeFixed (lo hi x : Rat) : Rat := (x - lo) / scaleOf lo hi

/-- the switch: `repaired = true` is the current code -/
def normalizeV (repaired : Bool) (lo hi x : Rat) : Fl :=
  if repaired then .fin (normalizeFixed lo hi x) else normalizeFound lo hi x

def normRowV (repaired : Bool) (lo hi row : List Rat) : List Fl :=
  List.zipWith (fun (b : Rat × Rat) x => normalizeV repaired b.1 b.2 x) (List.zip lo hi) row

/-- `apply_image_normalization` with values in `Fl`.  Bounds: `none` in `lo` is `-inf`, `none` in `hi` is `+inf`
    (a legal Box has no other infinite bound that is not matched by one of these); either one bypasses. -/
def applyNormV (repaired : Bool) (p : List Nat) (lo hi : List (Option Rat)) (t : Tensor) :
    Except Err (List Nat × List Fl) :=
  match allSomeR lo, allSomeR hi with
  | some l, some h =>
    if l.length ≠ numel p ∨ h.length ≠ numel p ∨ numel p = 0 ∨ !(endsWith t.shape p) then .error .shape
    else .ok (t.shape, ((chunk (numel p) t.data).map (normRowV repaired l h)).flatten)
  | _, _ => .ok (t.shape, t.data.map .fin)

/-! ### agent ids -/

/-- `agent_id.rsplit("_", 1)[0]`: the id without its last `_`-separated field -/
def homoId (s : String) : String :=
  match (s.splitOn "_").reverse with
  | _ :: (p :: ps) => "_".intercalate (p :: ps).reverse
  | _ => s

/-- `_agent_position`: index in `agent_ids`, unknown ids last -/
def agentPosition (ids : List String) (a : String) : Nat :=
  match ids.findIdx? (· == a) with
  | some i => i
  | none => ids.length

/-! ### spaces -/

inductive Leaf
  | box (shape : List Nat) (low high : List (Option Rat))   -- flat bounds; `none` = ±∞
  | discrete (n : Nat)
  | multiDiscrete (nvec : List Nat)
  | multiBinary (n : Nat)
deriving Repr

/-- `space.shape` -/
def Leaf.obsShape : Leaf → List Nat
  | .box p _ _ => p
  | .discrete _ => []
  | .multiDiscrete nv => [nv.length]
  | .multiBinary n => [n]

/-- the network's input shape for this space (a scalar Box is one input feature) -/
def Leaf.netShape : Leaf → List Nat
  | .box [] _ _ => [1]
  | .box p _ _ => p
  | .discrete n => [n]
  | .multiDiscrete nv => [nv.sum]
  | .multiBinary n => [n]

def liftOpt {α} (e : Err) : Option α → Except Err α
  | some a => .ok a
  | none => .error e

/-- `squeeze()`: drop every dimension of size one -/
def squeezeAll (s : List Nat) : List Nat := s.filter (· ≠ 1)

def prepDiscrete (n : Nat) (t : Tensor) : Except Err Tensor := do
  let d ← liftOpt .range (oneHotAll n t.data)
  let s1 := t.shape ++ [n]
  let s2 := if n > 1 then squeezeAll s1 else s1       -- "if n == 1 then squeeze removes obs dim"
  maybeAddBatchDim { shape := s2, data := d } [n]

/-- MultiDiscrete.  `first` is the shape handed to the first `maybe_add_batch_dim`:
    `[nvec.length]` in the repaired code, `[nvec.sum]` in the legacy code. -/
def prepMultiDiscreteWith (first : List Nat) (nvec : List Nat) (t : Tensor) : Except Err Tensor := do
  let t1 ← maybeAddBatchDim t first
  match t1.shape with
  | [b, c] =>
    if c ≠ nvec.length then .error .shape else
    let rows ← liftOpt .range (allOk ((chunk nvec.length t1.data).map (mdRow nvec)))
    maybeAddBatchDim { shape := [b, 1, nvec.sum], data := rows.flatten } [nvec.sum]
  | _ => .error .shape

def prepMultiDiscrete (nvec : List Nat) (t : Tensor) : Except Err Tensor :=
  prepMultiDiscreteWith [nvec.length] nvec t

def prepMultiDiscreteLegacy (nvec : List Nat) (t : Tensor) : Except Err Tensor :=
  prepMultiDiscreteWith [nvec.sum] nvec t

/-- `preprocess_observation` on a leaf space (the tensor is already `obs_to_tensor`'d: float).
    `legacy = false` is the repaired code; `legacy = true` keeps the two analysed legacy behaviours:
    a scalar (rank-0) Box gets no feature dimension although networks are built with
    `flatdim = 1` input, and MultiDiscrete tests its first batch dimension against `Σ nvec`. -/
def preprocessWith (legacy : Bool) (norm : Bool) : Leaf → Tensor → Except Err Tensor
  | .box p lo hi, t => do
    let t' ← if p.length = 3 ∧ norm = true then applyNorm p lo hi t else .ok t
    if p = [] ∧ legacy = false then
      maybeAddBatchDim { t' with shape := t'.shape ++ [1] } [1]     -- `unsqueeze(-1)`, space shape `(1,)`
    else maybeAddBatchDim t' p
  | .discrete n, t => prepDiscrete n t
  | .multiDiscrete nv, t => if legacy then prepMultiDiscreteLegacy nv t else prepMultiDiscrete nv t
  | .multiBinary n, t => maybeAddBatchDim t [n]

def preprocess (norm : Bool) : Leaf → Tensor → Except Err Tensor := preprocessWith false norm
def preprocessLegacy (norm : Bool) : Leaf → Tensor → Except Err Tensor := preprocessWith true norm

/-- Dict / Tuple spaces (one level): member by member, first failure wins -/
def preprocessAll (norm : Bool) : List (Leaf × Tensor) → Except Err (List Tensor)
  | [] => .ok []
  | (sp, t) :: r => do
    let a ← preprocess norm sp t
    let b ← preprocessAll norm r
    .ok (a :: b)

/-- `get_vect_dim` on Dict / Tuple: the first member decides -/
def getVectDimAll : List (Leaf × List Nat) → Nat
  | [] => 1
  | (sp, s) :: _ => getVectDim s sp.obsShape

/-! ### shared policies and centralised critics -/

/-- `assemble_homogeneous_outputs`: `np.stack` over the agents of a group (group order), then
    `reshape(n_agents * vect_dim, -1)` — flat data is the concatenation -/
def assembleHomogeneous {α} (xs : List (List α)) : List α := xs.flatten

/-- `disassemble_homogeneous_outputs`: `reshape(n_agents, vect_dim, -1)[i]` -/
def disassembleHomogeneous {α} (nAgents : Nat) (d : List α) : List (List α) :=
  chunk (d.length / nAgents) d

/-- apply a row-wise function to a flat batch whose rows have `k` elements -/
def mapRows {α β} (k : Nat) (g : List α → List β) (d : List α) : List β :=
  ((chunk k d).map g).flatten

/-- `torch.cat(obs, dim=1)` of per-agent `[B, d_a]` tensors given as rows -/
def catRows (B : Nat) (agents : List (List (List Rat))) : List (List Rat) :=
  (List.range B).map (fun b => (agents.map (fun rows => rows.getD b [])).flatten)

/-- vector observations: every agent `[B, d_a]` → `[B, Σ d_a]` -/
def stackCritic (B : Nat) (ts : List (Tensor × Nat)) : Tensor :=
  let rows := catRows B (ts.map (fun (t, d) => t.rows d))
  { shape := [B, (ts.map (·.2)).sum], data := rows.flatten }

/-- one row of `torch.stack(obs, dim=2)` of image rows `[C, H, W]`: `[C, A, H, W]` -/
def stackImgRow (C hw : Nat) (agentRows : List (List Rat)) : List Rat :=
  ((List.range C).map (fun c => (agentRows.map (fun r => (chunk hw r).getD c [])).flatten)).flatten

/-- image observations: every agent `[B, C, H, W]` → `[B, C, A, H, W]` -/
def stackCriticImg (B C H W : Nat) (ts : List Tensor) : Tensor :=
  let rows := (List.range B).map (fun b =>
    stackImgRow C (H * W) (ts.map (fun t => (t.rows (C * (H * W))).getD b [])))
  { shape := [B, C, ts.length, H, W], data := rows.flatten }

end Obs

/-! ### line protocol

  sections are separated by `|`:
  * `prep <norm 0|1> | <space> | <shape…> | <data…>`          → `ok <shape…> | <data…>` / `reject`
    `preplegacy …` the same with the two legacy behaviours (scalar Box, MultiDiscrete (step, env))
      space := `box p… | lo… | hi…` (three sections; bounds: rationals or `inf` / `-inf`),
               `disc n`, `mdisc n…`, `mbin n`
  * `batchdim | <shape…> | <space shape…>`                   → `ok <shape…>` / `reject`
  * `vect | <obs shape…> | <space shape…>`                   → `<n>`
  * `asm | <agent 0 data…> | <agent 1 data…> …`              → `<data…>`
  * `dis <nAgents> | <data…>`                                → `<a0…> | <a1…> …`
  * `critic <B> | <d_0> <data…> | <d_1> <data…> …`           → `ok <shape…> | <data…>`
  * `criticimg <B> <C> <H> <W> | <data…> | …`                → `ok <shape…> | <data…>`
  * `normv <repaired 0|1> | p… | lo… | hi… | <shape…> | <data…>` → `ok <shape…> | <x…>` (x: rational / `nan` / `inf` / `-inf`) / `reject`
  * `homo | <agent id>`                                      → the group id
  * `pos <agent id> | <ids…>`                                → position
-/
namespace Obs
open Util

structure IOState where
  dummy : Nat := 0

/-- split on the separator word `|`, keeping empty sections -/
def splitBar : List String → List (List String)
  | [] => [[]]
  | w :: r =>
    match splitBar r with
    | [] => [[]]      -- unreachable
    | s :: ss => if w = "|" then [] :: s :: ss else (w :: s) :: ss

def parseBound? (s : String) : Option (Option Rat) :=
  if s = "inf" ∨ s = "-inf" then some none else (parseRat? s).map some

def showTensor (t : Tensor) : String := "ok " ++ showNats t.shape ++ " | " ++ showRats t.data

def showFl : Fl → String
  | .fin q => showRat q
  | .pinf => "inf"
  | .ninf => "-inf"
  | .nan => "nan"

def showRes : Except Err Tensor → String
  | .ok t => showTensor t
  | .error _ => "reject"

def parseLeaf? : List (List String) → Option (Leaf × List (List String))
  | ("box" :: p) :: lo :: hi :: rest =>
    match parseNats? p, allSome (lo.map parseBound?), allSome (hi.map parseBound?) with
    | some p, some lo, some hi => some (.box p lo hi, rest)
    | _, _, _ => none
  | ["disc", n] :: rest => (parseNat? n).map (fun n => (.discrete n, rest))
  | ("mdisc" :: nv) :: rest => (parseNats? nv).map (fun nv => (.multiDiscrete nv, rest))
  | ["mbin", n] :: rest => (parseNat? n).map (fun n => (.multiBinary n, rest))
  | _ => none

def parseTensor? (shape data : List String) : Option Tensor :=
  match parseNats? shape, parseRats? data with
  | some s, some d => if d.length = numel s then some { shape := s, data := d } else none
  | _, _ => none

def stepPrep (legacy : Bool) (norm : String) (rest : List (List String)) : String :=
  if norm ≠ "0" ∧ norm ≠ "1" then "bad-op" else
  match parseLeaf? rest with
  | some (sp, [shape, data]) =>
    match parseTensor? shape data with
    | some t => showRes (preprocessWith legacy (norm = "1") sp t)
    | none => "bad-op"
  | _ => "bad-op"

def step (s : IOState) (ws : List String) : IOState × String :=
  match splitBar ws with
  | ["prep", norm] :: rest => (s, stepPrep false norm rest)
  | ["preplegacy", norm] :: rest => (s, stepPrep true norm rest)
  | [["normv", rep], p, lo, hi, shape, data] =>
    match parseNats? p, allSome (lo.map parseBound?), allSome (hi.map parseBound?), parseTensor? shape data with
    | some p, some lo, some hi, some t =>
      if rep ≠ "0" ∧ rep ≠ "1" then (s, "bad-op") else
      (s, match applyNormV (rep = "1") p lo hi t with
          | .ok (sh, d) => "ok " ++ showNats sh ++ " | " ++ " ".intercalate (d.map showFl)
          | .error _ => "reject")
    | _, _, _, _ => (s, "bad-op")
  | [["homo"], [a]] => (s, homoId a)
  | ["pos", a] :: [ids] => (s, toString (agentPosition ids a))
  | [["batchdim"], shape, p] =>
    match parseNats? shape, parseNats? p with
    | some sh, some p =>
      (s, match maybeAddBatchDim { shape := sh, data := [] } p with
          | .ok t => "ok " ++ showNats t.shape
          | .error _ => "reject")
    | _, _ => (s, "bad-op")
  | [["vect"], shape, p] =>
    match parseNats? shape, parseNats? p with
    | some sh, some p => (s, toString (getVectDim sh p))
    | _, _ => (s, "bad-op")
  | ["asm"] :: agents =>
    match allSome (agents.map parseRats?) with
    | some xs => if xs = [] then (s, "bad-op") else (s, showRats (assembleHomogeneous xs))
    | none => (s, "bad-op")
  | [["dis", n], data] =>
    match parseNat? n, parseRats? data with
    | some n, some d =>
      if n = 0 ∨ d.length % n ≠ 0 ∨ d = [] then (s, "reject")
      else (s, " | ".intercalate ((disassembleHomogeneous n d).map showRats))
    | _, _ => (s, "bad-op")
  | ["critic", b] :: agents =>
    match parseNat? b, allSome (agents.map (fun a =>
        match a with
        | d :: data =>
          match parseNat? d, parseRats? data with
          | some d, some xs => some (({ shape := [xs.length / d, d], data := xs } : Tensor), d)
          | _, _ => none
        | [] => none)) with
    | some b, some ts =>
      if ts = [] ∨ ts.any (fun (t, d) => d = 0 ∨ t.data.length ≠ b * d) then (s, "reject")
      else (s, showTensor (stackCritic b ts))
    | _, _ => (s, "bad-op")
  | ["criticimg", b, c, h, w] :: agents =>
    match parseNat? b, parseNat? c, parseNat? h, parseNat? w, allSome (agents.map parseRats?) with
    | some b, some c, some h, some w, some xs =>
      if xs = [] ∨ c * (h * w) = 0 ∨ xs.any (fun x => x.length ≠ b * (c * (h * w))) then (s, "reject")
      else (s, showTensor (stackCriticImg b c h w (xs.map (fun x => { shape := [b, c, h, w], data := x }))))
    | _, _, _, _, _ => (s, "bad-op")
  | _ => (s, "bad-op")

end Obs

/-! ### the multi-agent dict loops (round 5): ordered association lists agent → value, the per-leaf `preprocess`
as a function parameter; `kerr` is the error of a missing key (`KeyError`) -/
namespace Obs

/-- `d[k]` / `d.get(k)` on an ordered association list -/
def alookup {V} (k : String) : List (String × V) → Option V
  | [] => none
  | (k', v) :: r => if k' = k then some v else alookup k r

/-- `d[k] = v` (an existing key keeps its place, a new key goes last) -/
def aset {V} (k : String) (v : V) : List (String × V) → List (String × V)
  | [] => [(k, v)]
  | (k', v') :: r => if k' = k then (k, v) :: r else (k', v') :: aset k v r

def akeys {V} (d : List (String × V)) : List String := d.map (·.1)

/-- `{k: v for k in ks}` -/
def aofKeys {V} (ks : List String) (v : V) : List (String × V) := ks.foldl (fun d k => aset k v d) []

def insertByPos (x : String × Nat) : List (String × Nat) → List (String × Nat)
  | [] => [x]
  | y :: r => if x.2 < y.2 then x :: y :: r else y :: insertByPos x r

/-- `sorted(keys, key=self._agent_position)` (stable) -/
def sortByPos (ids keys : List String) : List String :=
  ((keys.map (fun k => (k, agentPosition ids k))).foldl (fun acc x => insertByPos x acc) []).map (·.1)

/-- the loop of `MultiAgentRLAlgorithm.preprocess_observation`: agent `a`'s observation with agent `a`'s space -/
def maPrepLoop {ε O S P} (kerr : ε) (spaces : List (String × S)) (prep : O → Option S → Except ε P)
    (obs : List (String × O)) : List String → List (String × P) → Except ε (List (String × P))
  | [], acc => .ok acc
  | a :: r, acc =>
    match alookup a obs with
    | none => .error kerr
    | some o =>
      match prep o (alookup a spaces) with
      | .error e => .error e
      | .ok v => maPrepLoop kerr spaces prep obs r (aset a v acc)

/-- `MultiAgentRLAlgorithm.preprocess_observation` -/
def maPreprocess {ε O S P} (kerr : ε) (ids : List String) (spaces : List (String × S))
    (prep : O → Option S → Except ε P) (obs : List (String × O)) : Except ε (List (String × P)) :=
  maPrepLoop kerr spaces prep obs (sortByPos ids (akeys obs)) []

/-- the seeded variant: the space of ONE fixed agent for everybody -/
def maPreprocessFixedSpace {ε O S P} (kerr : ε) (ids : List String) (spaces : List (String × S)) (a0 : String)
    (prep : O → Option S → Except ε P) (obs : List (String × O)) : Except ε (List (String × P)) :=
  maPrepLoop kerr spaces (fun o _ => prep o (alookup a0 spaces)) obs (sortByPos ids (akeys obs)) []

/-- the loop of `sum_shared_rewards` -/
def sumSharedLoop {ε R} [Add R] (kerr : ε) : List (String × R) → List (String × R) → Except ε (List (String × R))
  | [], acc => .ok acc
  | (a, r) :: rest, acc =>
    match alookup (homoId a) acc with
    | none => .error kerr
    | some s => sumSharedLoop kerr rest (aset (homoId a) (s + r) acc)

/-- `sum_shared_rewards` -/
def sumShared {ε R} [Add R] [OfNat R 0] (kerr : ε) (shared : List String) (rewards : List (String × R)) :
    Except ε (List (String × R)) :=
  sumSharedLoop kerr rewards (aofKeys shared 0)

/-- first loop of `IPPO.preprocess_observation`: every agent's prepared observation is appended to its group -/
def ippoPrepLoop {ε O S P} (kerr : ε) (spaces : List (String × S)) (prep : O → Option S → Except ε P)
    (obs : List (String × O)) : List String → List (String × List P) → Except ε (List (String × List P))
  | [], acc => .ok acc
  | a :: r, acc =>
    match alookup a obs with
    | none => .error kerr
    | some o =>
      match alookup (homoId a) acc with
      | none => .error kerr
      | some l =>
        match prep o (alookup a spaces) with
        | .error e => .error e
        | .ok v => ippoPrepLoop kerr spaces prep obs r (aset (homoId a) (l ++ [v]) acc)

/-- second loop: concatenate each group -/
def ippoConcatLoop {ε P} (kerr : ε) (concat : List P → Except ε (List P)) :
    List String → List (String × List P) → Except ε (List (String × List P))
  | [], acc => .ok acc
  | g :: r, acc =>
    match alookup g acc with
    | none => .error kerr
    | some l =>
      match concat l with
      | .error e => .error e
      | .ok c => ippoConcatLoop kerr concat r (aset g c acc)

/-- `IPPO.preprocess_observation` -/
def ippoPreprocess {ε O S P} (kerr : ε) (ids shared : List String) (spaces : List (String × S))
    (prep : O → Option S → Except ε P) (concat : List P → Except ε (List P)) (obs : List (String × O)) :
    Except ε (List (String × List P)) :=
  match ippoPrepLoop kerr spaces prep obs (sortByPos ids (akeys obs)) (aofKeys shared []) with
  | .error e => .error e
  | .ok acc => ippoConcatLoop kerr concat shared acc

/-- the loop of `IPPO.assemble_shared_inputs` over a list of agents `as` (the code: `self.agent_ids`; the code as
found before the repair: the keys of the input) -/
def assembleSharedLoop {ε E V} (kerr : ε) (stack : E → Except ε V) (input : List (String × E)) :
    List String → List (String × List (String × V)) → Except ε (List (String × List (String × V)))
  | [], acc => .ok acc
  | a :: r, acc =>
    match alookup a input with
    | none => assembleSharedLoop kerr stack input r acc
    | some x =>
      match stack x with
      | .error e => .error e
      | .ok v =>
        match alookup (homoId a) acc with
        | none => .error kerr
        | some g => assembleSharedLoop kerr stack input r (aset (homoId a) (aset a v g) acc)

/-- `IPPO.assemble_shared_inputs` -/
def assembleShared {ε E V} (kerr : ε) (ids shared : List String) (stack : E → Except ε V)
    (input : List (String × E)) : Except ε (List (String × List (String × V))) :=
  assembleSharedLoop kerr stack input ids (aofKeys shared [])

/-- the variant that fills the groups in the order of the INPUT dictionary -/
def assembleSharedInputOrder {ε E V} (kerr : ε) (shared : List String) (stack : E → Except ε V)
    (input : List (String × E)) : Except ε (List (String × List (String × V))) :=
  assembleSharedLoop kerr stack input (akeys input) (aofKeys shared [])

end Obs
