import Model.Util
/-
  Model/Preserve.lean — executable model of the weight-carrying logic of AgileRL's architecture
  mutations.  Core Lean only.

  What is modelled (line by line):

  * `EvolvableModule.preserve_parameters(old_net, new_net)`  (agilerl/modules/base.py)
        old_net_dict = dict(old_net.named_parameters())
        for key, param in new_net.named_parameters():
            if key in old_net_dict:
                if old_size == new_size:      param.data = old_param.data            -- aliased
                elif "norm" not in key:       slice_index = tuple(slice(0, min(o, n)) for o, n in zip(old_size, new_size))
                                              param.data[slice_index] = old_param.data[slice_index]
    `zip` truncates to the shorter rank; the assignment is torch's `setitem`, i.e. the value is
    broadcast to the view (leading 1-dims of the value are dropped while it has more dims than the
    view; then right-aligned, each value dim must be 1 or equal) or a `RuntimeError` is raised.
  * `EvolvableCNN.shrink_preserve_parameters` (agilerl/modules/cnn.py): the same with
    `[:min_0]` for rank-1 parameters and `[:min_0, :min_1]` otherwise (the other axes are taken whole).
  * only `named_parameters()` are visited: buffers (BatchNorm running statistics, NoisyLinear
    epsilons) of the re-created network are the freshly initialised ones.
  * `EvolvableModule.clone()`: `cls(**init_dict)` then `load_state_dict(state_dict())` inside
    `try … except RuntimeError: pass`.

  Switches (a known finding is a *parameter* of the model, both values are proved about):
    `NormPolicy.reset`  = the code as written (`"norm" not in key` guard),  `.slice` = guard removed;
    `BufPolicy.fresh`   = the code as written (buffers not carried over),   `.carry` = buffers are
                          treated like parameters.

  A tensor is a shape and flat row-major data.  The data type is a parameter (`Rat` values, or
  provenance tags): nothing below computes with the values, they are only moved.
-/
namespace Preserve

abbrev Shape := List Nat

/-- number of elements -/
def numel : Shape → Nat
  | [] => 1
  | d :: ds => d * numel ds

/-- the multi-index addresses an element of a tensor of that shape (same rank, every component
    below its dimension) -/
def inBounds : Shape → List Nat → Bool
  | [], [] => true
  | d :: ds, i :: is => decide (i < d) && inBounds ds is
  | _, _ => false

/-- row-major (C-contiguous) flat offset of a multi-index: mixed radix -/
def offset : Shape → List Nat → Nat
  | _ :: ds, i :: is => i * numel ds + offset ds is
  | _, _ => 0

/-- the multi-index of a flat offset (inverse of `offset` on in-bounds indices) -/
def unravel : Shape → Nat → List Nat
  | [], _ => []
  | _ :: ds, k => (k / numel ds) :: unravel ds (k % numel ds)

/-- component-wise minimum of two shapes (`zip` semantics: length of the shorter one) -/
def boxMin (a b : Shape) : Shape := List.zipWith min a b

structure Tensor (α : Type) where
  shape : Shape
  data  : List α
deriving Repr, DecidableEq

/-- well-formed: as many data elements as the shape says -/
def Tensor.WF {α} (t : Tensor α) : Prop := t.data.length = numel t.shape

/-- element at a multi-index (`none` when out of bounds) -/
def Tensor.get {α} (t : Tensor α) (idx : List Nat) : Option α :=
  if inBounds t.shape idx then t.data[offset t.shape idx]? else none

/-- where an element of the re-created tensor comes from -/
inductive Src where
  | old (k : Nat)      -- flat element `k` of the old tensor
  | fresh              -- keeps the fresh initialisation of the new tensor
deriving Repr, DecidableEq

/-! ### the slice assignment `new[:m_0, …, :m_{r-1}] = old[:m_0, …, :m_{r-1}]` -/

/-- torch `setitem`: leading 1-dims of the value are dropped while it has more dims than the view -/
def stripLead (rv : Nat) : Shape → Shape
  | 1 :: rest => if (1 :: rest).length > rv then stripLead rv rest else 1 :: rest
  | w => w

/-- value dims (right-aligned with the view dims) must each be 1 or equal -/
def compat : Shape → Shape → Bool
  | [], [] => true
  | d :: ds, e :: es => (d == 1 || d == e) && compat ds es
  | _, _ => false

/-- index into the (stripped) value for a view index: broadcast dims read element 0 -/
def alignIdx : Shape → List Nat → List Nat
  | d :: ds, i :: is => (if d = 1 then 0 else i) :: alignIdx ds is
  | _, _ => []

structure Assign where
  view : Shape          -- shape of `new[slices]`
  wst  : Shape          -- shape of `old[slices]` after dropping leading 1-dims
  pad  : Nat            -- how many leading dims were dropped
deriving Repr, DecidableEq

/-- plan of `new[s] = old[s]` with `s = (slice(0, min(o_i, n_i)) for i < r)`;
    `none` = the real code raises (too many indices / shapes cannot be broadcast) -/
def planAssign (r : Nat) (os ns : Shape) : Option Assign :=
  if r ≤ os.length ∧ r ≤ ns.length then
    let m := (boxMin os ns).take r
    let view := m ++ ns.drop r
    let w := m ++ os.drop r
    let wst := stripLead view.length w
    if wst.length ≤ view.length ∧ compat wst (view.drop (view.length - wst.length)) then
      some { view := view, wst := wst, pad := w.length - wst.length }
    else none
  else none

/-- multi-index in the old tensor that a multi-index of the new tensor is copied from -/
def Assign.src (a : Assign) (idx : List Nat) : Option (List Nat) :=
  if inBounds a.view idx then
    some (List.replicate a.pad 0 ++ alignIdx a.wst (idx.drop (a.view.length - a.wst.length)))
  else none

/-- provenance of flat element `k` of the new tensor under an index map -/
def provAt (os ns : Shape) (src : List Nat → Option (List Nat)) (k : Nat) : Src :=
  match src (unravel ns k) with
  | some w => .old (offset os w)
  | none => .fresh

/-- the value an element ends up with: `v` is its fresh initialisation -/
def pick {α} (od : List α) (v : α) : Src → α
  | .old j => od[j]?.getD v
  | .fresh => v

/-- the new data after the copy described by `src` -/
def build {α} (os ns : Shape) (src : List Nat → Option (List Nat)) (od nd : List α) : List α :=
  nd.mapIdx fun k v => pick od v (provAt os ns src k)

/-- index map of the common hyper-rectangle of two shapes of equal rank -/
def boxSrc (os ns : Shape) (idx : List Nat) : Option (List Nat) :=
  if inBounds (boxMin os ns) idx then some idx else none

/-- copy the common hyper-rectangle, everything else keeps the fresh initialisation -/
def copyBox {α} (old new : Tensor α) : Tensor α :=
  { shape := new.shape, data := build old.shape new.shape (boxSrc old.shape new.shape) old.data new.data }

/-- general slice assignment on the first `r` axes (torch broadcasting, `none` = raises) -/
def assign {α} (r : Nat) (old new : Tensor α) : Option (Tensor α) :=
  (planAssign r old.shape new.shape).map fun a =>
    { shape := new.shape, data := build old.shape new.shape a.src old.data new.data }

inductive NormPolicy where
  | reset     -- current code: a resized parameter whose key contains "norm" is left re-initialised
  | slice     -- repaired: norm parameters are slice-copied like every other parameter
deriving Repr, DecidableEq

inductive Mode where
  | full      -- `EvolvableModule.preserve_parameters`
  | shrink    -- `EvolvableCNN.shrink_preserve_parameters`
deriving Repr, DecidableEq

def hasPrefix : List Char → List Char → Bool
  | [], _ => true
  | _ :: _, [] => false
  | p :: ps, c :: cs => p == c && hasPrefix ps cs

def hasInfix (p : List Char) : List Char → Bool
  | [] => p.isEmpty
  | c :: cs => hasPrefix p (c :: cs) || hasInfix p cs

/-- `"norm" in key` -/
def isNormKey (key : String) : Bool := hasInfix ['n', 'o', 'r', 'm'] key.toList

/-- how many leading axes the code slices -/
def sliceRank (mode : Mode) (os ns : Shape) : Option Nat :=
  match mode with
  | .full => some (min os.length ns.length)
  | .shrink =>
    -- `min(old_size[0], new_size[0])` raises IndexError on a 0-dim tensor
    if os.length = 0 ∨ ns.length = 0 then none
    else if ns.length = 1 then some 1 else some 2

/-- what happens to one parameter that exists in both networks.  `none` = the real code raises. -/
def preserveT {α} (pol : NormPolicy) (mode : Mode) (norm : Bool) (old new : Tensor α) :
    Option (Tensor α) :=
  if old.shape = new.shape then some old                          -- `param.data = old_param.data`
  else if norm ∧ pol = .reset then some new                       -- the `"norm" not in key` guard
  else match mode with
    | .full =>
      if old.shape.length = new.shape.length then some (copyBox old new)
      else assign (min old.shape.length new.shape.length) old new  -- `zip` truncates
    | .shrink =>
      match sliceRank .shrink old.shape new.shape with
      | some r => assign r old new
      | none => none

/-- the provenance map of one parameter, computed from (key class, shapes) only -/
def provT (pol : NormPolicy) (mode : Mode) (norm : Bool) (os ns : Shape) : Option (List Src) :=
  let all (f : Nat → Src) := (List.range (numel ns)).map f
  if os = ns then some (all .old)
  else if norm ∧ pol = .reset then some (all fun _ => .fresh)
  else match mode with
    | .full =>
      if os.length = ns.length then some (all (provAt os ns (boxSrc os ns)))
      else (planAssign (min os.length ns.length) os ns).map fun a => all (provAt os ns a.src)
    | .shrink =>
      match sliceRank .shrink os ns with
      | some r => (planAssign r os ns).map fun a => all (provAt os ns a.src)
      | none => none

/-! ### whole networks: `named_parameters()` as an association list -/

abbrev Params (α : Type) := List (String × Tensor α)

def lookup {α} (ps : Params α) (key : String) : Option (Tensor α) :=
  match ps with
  | [] => none
  | (k, t) :: rest => if k = key then some t else lookup rest key

/-- one iteration of the loop over `new_net.named_parameters()` -/
def preserveKey {α} (pol : NormPolicy) (mode : Mode) (old : Params α) (key : String)
    (p : Tensor α) : Option (Tensor α) :=
  match lookup old key with
  | none => some p                                  -- key not in the old network: stays fresh
  | some o => preserveT pol mode (isNormKey key) o p

/-- `preserve_parameters(old_net, new_net)`; `none` = raises -/
def preserveNet {α} (pol : NormPolicy) (mode : Mode) (old : Params α) : Params α → Option (Params α)
  | [] => some []
  | (key, p) :: rest =>
    match preserveKey pol mode old key p, preserveNet pol mode old rest with
    | some t, some r => some ((key, t) :: r)
    | _, _ => none

inductive BufPolicy where
  | fresh     -- current code: buffers of the re-created network are the newly initialised ones
  | carry     -- repaired: buffers are carried over exactly like parameters
deriving Repr, DecidableEq

/-- what a module's output depends on: parameters and buffers -/
structure NetState (α : Type) where
  params  : Params α
  buffers : Params α
deriving Repr, DecidableEq

/-- `recreate_network`: build a fresh network (`fresh`, any initialisation) for the current
    architecture and preserve the old parameters into it -/
def recreate {α} (pol : NormPolicy) (bp : BufPolicy) (mode : Mode) (old fresh : NetState α) :
    Option (NetState α) :=
  match preserveNet pol mode old.params fresh.params with
  | none => none
  | some ps =>
    match bp with
    | .fresh => some { params := ps, buffers := fresh.buffers }
    | .carry =>
      -- buffers carry no "norm" exemption: they are statistics of the layer, copied on the common box
      (preserveNet .slice mode old.buffers fresh.buffers).map fun bs => { params := ps, buffers := bs }

/-! ### `load_state_dict` / `clone` -/

def sameKeysShapes {α} (a b : Params α) : Bool :=
  a.map (fun kt => (kt.1, kt.2.shape)) == b.map (fun kt => (kt.1, kt.2.shape))

/-- strict `load_state_dict`: every entry of the target takes the value of the same-named entry of
    the source; `none` = `RuntimeError` (missing / unexpected key or size mismatch).
    Entries are compared in order: both lists come from the same class built from an `init_dict`,
    torch itself matches by name. -/
def loadStrict {α} (target src : Params α) : Option (Params α) :=
  if sameKeysShapes target src then
    some (target.map fun kt => (kt.1, (lookup src kt.1).getD kt.2))      -- matched by name
  else none

def loadState {α} (target src : NetState α) : Option (NetState α) :=
  match loadStrict target.params src.params, loadStrict target.buffers src.buffers with
  | some p, some b => some { params := p, buffers := b }
  | _, _ => none

/-- `EvolvableModule.clone`: `fresh` is `cls(**init_dict)`; a failing load is swallowed
    (`except RuntimeError: pass`) and the clone keeps its fresh initialisation -/
def clone {α} (fresh self : NetState α) : NetState α :=
  (loadState fresh self).getD fresh

/-- `EvolvableDistribution.clone` (an `EvolvableWrapper`): a new wrapper is built around
    `wrapped.clone()`.  Entries of the wrapped network (`isWrapped key`) are loaded by name; the
    wrapper's own parameters (`log_std`) stay those of the fresh wrapper in the current code
    (`loadOwn = false`), and are loaded too in the repaired one (`loadOwn = true`). -/
def cloneWrapper {α} (loadOwn : Bool) (isWrapped : String → Bool) (fresh self : Params α) : Params α :=
  fresh.map fun kt =>
    if isWrapped kt.1 || loadOwn then (kt.1, (lookup self kt.1).getD kt.2) else kt

/-! ### the mutation context: configuration vs. built network

  `MutationContext.__enter__` increments `_mutation_depth`; `__exit__` decrements it and, when it is
  back at 0 (outermost call), re-creates the torch network from the current configuration
  (`recreate_network`) - also when the body raised, the exception propagates afterwards.
  Configurations are abstract (a version counter): `cfg` is what `init_dict` describes (and what
  `clone()` / `reinit_from_mutated` rebuild from), `built` is what the live network was built from.
  Every constructor option that is not an architecture hyperparameter is part of both: re-creation
  copies the *whole* configuration.  `early = true` is the faulty variant that returns from
  `__exit__` before the bookkeeping when an exception escapes. -/

structure Ctx where
  depth : Nat
  cfg   : Nat
  built : Nat
deriving Repr, DecidableEq

/-- one outermost mutation call: did the body change the configuration, did an exception escape -/
structure Ev where
  changes : Bool
  raises  : Bool
deriving Repr, DecidableEq

def Ctx.call (early : Bool) (c : Ctx) (e : Ev) : Ctx :=
  let c1 : Ctx := { c with depth := c.depth + 1, cfg := if e.changes then c.cfg + 1 else c.cfg }
  if e.raises && early then c1
  else
    let d := c1.depth - 1
    if d = 0 then { c1 with depth := 0, built := c1.cfg } else { c1 with depth := d }

def Ctx.run (early : Bool) (c : Ctx) (es : List Ev) : Ctx := es.foldl (Ctx.call early) c

/-- the live network is the one `init_dict` describes -/
def Ctx.inSync (c : Ctx) : Bool := c.depth == 0 && c.built == c.cfg

end Preserve

/-! ### lists of networks: multi-agent algorithms keep one network per sub-agent

  `Mutations.load_state_dicts` / `reinit_from_mutated` (list branch) / `_apply_arch_mutation` (list branch) of
  agilerl/hpo/mutation.py.  A list of networks is a list of states; every loop works position by position. -/
namespace Preserve
section lists
variable {α β γ δ σ κ : Type}

/-- entries of the target after a non-strict `load_state_dict`: a same-named entry of equal shape is copied -/
def looseEntries (sd l : Params α) : Params α :=
  l.map fun kt =>
    match lookup sd kt.1 with
    | some s => if s.shape = kt.2.shape then (kt.1, s) else kt
    | none => kt

/-- torch reports a size mismatch (missing / unexpected keys are ignored when `strict=False`) -/
def looseErr (sd l : Params α) : Bool :=
  l.any fun kt =>
    match lookup sd kt.1 with
    | some s => !decide (s.shape = kt.2.shape)
    | none => false

/-- `target.load_state_dict(sd, strict=False)`; `none` = RuntimeError -/
def loadLoose (target : NetState α) (sd : Params α) : Option (NetState α) :=
  if looseErr sd target.params || looseErr sd target.buffers then none
  else some { params := looseEntries sd target.params, buffers := looseEntries sd target.buffers }

/-- `state_dict()`: parameters, then buffers -/
def stateDict (n : NetState α) : Params α := n.params ++ n.buffers

/-- an in-place loop over `zip(xs, ys)`: element k of `xs` becomes `f xs[k] ys[k]` while both lists last, the rest of
    `xs` is not touched; `none` = some iteration raises -/
def zipInPlace (f : β → γ → Option β) : List β → List γ → Option (List β)
  | x :: xs, y :: ys =>
    match f x y, zipInPlace f xs ys with
    | some a, some r => some (a :: r)
    | _, _ => none
  | xs, _ => some xs

/-- `[f(x) for x in xs]` with the k-th fresh object: stops at the shorter list -/
def zipM (f : β → γ → Option δ) : List β → List γ → Option (List δ)
  | x :: xs, y :: ys =>
    match f x y, zipM f xs ys with
    | some a, some r => some (a :: r)
    | _, _ => none
  | _, _ => some []

/-- `Mutations.load_state_dicts(modules, state_dicts, remove_prefix)` -/
def loadList (rcp : Params α → Params α) (strip : Bool) (mods : List (NetState α)) (sds : List (Params α)) :
    Option (List (NetState α)) :=
  zipInPlace (fun m sd => loadLoose m (if strip then rcp sd else sd)) mods sds

/-- `Mutations.reinit_from_mutated(offspring)` for a list: `fresh[k]` is `type(o_k)(**o_k.init_dict)` -/
def reinitList (rcp : Params α → Params α) (strip : Bool) (offs fresh : List (NetState α)) :
    Option (List (NetState α)) :=
  loadList rcp strip (List.zipWith (fun _ n => n) offs fresh) (offs.map stateDict)

/-- one iteration of `_apply_arch_mutation` on sub-agent `i`'s network object: (object afterwards, applied method,
    returned keyword dict).  `clear` = the two stores `last_mutation_attr = None; last_mutation = None`. -/
def applyAt {ο : Type} (call : ο → String → κ → Option (ο × Option κ)) (clear : ο → ο) (lastAttr : ο → Option String)
    (empty : κ) (ms : List (Option String)) (kws : List κ) (i : Nat) (o : ο) : Option (ο × Option String × κ) :=
  match ms[i]? with
  | none => none                                            -- IndexError
  | some none => some (clear o, none, empty)                -- nothing to apply to this sub-agent
  | some (some s) =>
    match kws[i]? with
    | none => none
    | some kw =>
      match call o s kw with
      | none => none
      | some r => some (r.1, lastAttr r.1, r.2.getD empty)

/-- the loop `for i, net in enumerate(networks)` from position `i` on -/
def applyLoop {ο : Type} (call : ο → String → κ → Option (ο × Option κ)) (clear : ο → ο) (lastAttr : ο → Option String)
    (empty : κ) (ms : List (Option String)) (kws : List κ) : Nat → List ο → Option (List ο × List (Option String) × List κ)
  | _, [] => some ([], [], [])
  | i, o :: os =>
    match applyAt call clear lastAttr empty ms kws i o, applyLoop call clear lastAttr empty ms kws (i + 1) os with
    | some a, some r => some (a.1 :: r.1, a.2.1 :: r.2.1, a.2.2 :: r.2.2)
    | _, _ => none

/-- `_apply_arch_mutation(networks, mut_method, applied_mut_dict)` for a list: a single method (or None) is applied to
    every sub-agent, a list of methods position by position; no keyword dicts = an empty dict each -/
def applyList {ο : Type} (call : ο → String → κ → Option (ο × Option κ)) (clear : ο → ο) (lastAttr : ο → Option String)
    (empty : κ) (nets : List ο) (meth : Option String ⊕ List (Option String)) (kws : Option (List κ)) :
    Option (List ο × List (Option String) × List κ) :=
  let ms := match meth with
    | .inl m => List.replicate nets.length m
    | .inr l => l
  let ks := match kws with
    | none => List.replicate nets.length empty
    | some l => l
  applyLoop call clear lastAttr empty ms ks 0 nets

end lists

/-! ### the mutation decorator: `MutationContext` / `_mutation_wrapper` of agilerl/modules/base.py

  Every advertised mutation method of a module instance is replaced by `wrapped`, which runs the raw method inside a
  `MutationContext`.  Closed form of what `__enter__` / `__exit__` do to the module's bookkeeping; calls of
  `recreate_network(**kw)` and of the mutation hook are recorded in `log`. -/
namespace Deco

structure Meth where
  name : String
  kwargs : List (String × String)          -- `_recreate_kwargs` of the `@mutation(type, **recreate_kwargs)` decorator
deriving Repr, DecidableEq

inductive DEv where
  | recreate (kwargs : List (String × String))
  | hook
deriving Repr, DecidableEq

structure Mod where
  depth : Int                       -- `_mutation_depth`
  last : Option Meth                -- `last_mutation`
  lastAttr : Option String          -- `last_mutation_attr`
  methods : List String             -- `mutation_methods` (the advertised ones)
  forwarded : Bool                  -- `_mutations_forwarded` (module inside an EvolvableWrapper)
  isWrapper : Bool
  hasHook : Bool
  recreateParams : List String      -- parameter names of this module's `recreate_network`
  log : List DEv
deriving Repr, DecidableEq

def splitAux (sep : Char) : List Char → List Char → List (List Char)
  | [], cur => [cur.reverse]
  | c :: cs, cur => if c = sep then cur.reverse :: splitAux sep cs [] else splitAux sep cs (c :: cur)

/-- `s.split(".")` -/
def splitDot (s : String) : List String := (splitAux '.' s.toList []).map String.ofList

/-- `"." in s` -/
def dotted (s : String) : Bool := hasInfix ['.'] s.toList

/-- `__enter__` -/
def enter (m : Mod) (meth : Meth) (attr : String) : Mod :=
  { m with depth := m.depth + 1, last := some meth, lastAttr := some attr }

/-- `_resolve_final_mutation_attr`.  `nested` = `last_mutation_attr` of the nested module reached by `getattr` along
    all but the last component of a dotted `last_mutation_attr` (`none` = AttributeError); `wrappedLast` =
    `self.module.wrapped.last_mutation_attr`. -/
def resolve (m : Mod) (nested : Option (Option String)) (wrappedLast : Option String) : Option (Option String) :=
  match m.lastAttr with
  | some a =>
    if dotted a then
      match nested with
      | none => none
      | some none => some none
      | some (some n) => some (some (".".intercalate ((splitDot a).take ((splitDot a).length - 1) ++ [n])))
    else if m.isWrapper then some wrappedLast else some (some a)
  | none => if m.isWrapper then some wrappedLast else some none

/-- does `__exit__` re-create the network: only at the outermost level, for an applied method of this module itself -/
def recreates (m : Mod) (fin : Option String) : Bool :=
  match fin with
  | some a => !dotted a && !m.isWrapper
  | none => false

/-- `__exit__` -/
def exit (m : Mod) (meth : Meth) (nested : Option (Option String)) (wrappedLast : Option String)
    (methodOf : String → Meth) : Option Mod :=
  if m.depth - 1 ≠ 0 then some { m with depth := m.depth - 1 }
  else
    match resolve m nested wrappedLast with
    | none => none
    | some fin =>
      some { m with
        depth := 0
        lastAttr := fin
        last := match fin with | some a => some (methodOf a) | none => m.last
        log := m.log
          ++ (if recreates m fin then [DEv.recreate (meth.kwargs.filter fun c => decide (c.1 ∈ m.recreateParams))] else [])
          ++ (if m.hasHook then [DEv.hook] else []) }

/-- the body of `wrapped` after `__enter__`: a disabled method is a no-op that clears the record, a dotted attribute is
    forwarded to the nested module's own wrapped method, otherwise the raw method runs -/
def wrapBody {ρ : Type} (retNone : ρ) (m0 : Mod) (attr : String) (bodyOut nestedOut : Mod × ρ) : Mod × ρ :=
  if attr ∉ m0.methods ∧ m0.forwarded = false then ({ m0 with lastAttr := none, last := none }, retNone)
  else if dotted attr then nestedOut else bodyOut

end Deco
end Preserve

/-! ### line protocol -/
namespace Preserve
open Util

structure IOState where
  old : List (String × Shape) := []      -- `dict(old_net.named_parameters())` (shapes only)
  tgt : List (String × Shape) := []      -- target of a `load_state_dict`

def parsePolicy? : String → Option NormPolicy
  | "reset" => some .reset
  | "slice" => some .slice
  | _ => none

def parseMode? : String → Option Mode
  | "full" => some .full
  | "shrink" => some .shrink
  | _ => none

/-- `<rank> d_1 … d_rank` followed by the rest -/
def parseShape? : List String → Option (Shape × List String)
  | [] => none
  | r :: ws =>
    match parseNat? r with
    | none => none
    | some n =>
      if ws.length < n then none else
        match parseNats? (ws.take n) with
        | some s => some (s, ws.drop n)
        | none => none

/-- run-length encoding of a provenance map: `o<start>+<len>` (consecutive old elements),
    `f*<len>` (fresh) -/
def rle : List Src → List (Src × Nat) → List (Src × Nat)
  | [], acc => acc.reverse
  | .fresh :: rest, (.fresh, n) :: acc => rle rest ((.fresh, n + 1) :: acc)
  | .old k :: rest, (.old s, n) :: acc =>
    if k = s + n then rle rest ((.old s, n + 1) :: acc) else rle rest ((.old k, 1) :: (.old s, n) :: acc)
  | x :: rest, acc => rle rest ((x, 1) :: acc)

def showSeg : Src × Nat → String
  | (.fresh, n) => s!"f*{n}"
  | (.old s, n) => s!"o{s}+{n}"

def showProv (os ns : Shape) : Option (List Src) → String
  | none => "reject"
  | some p =>
    if os = ns then s!"alias {numel ns}"
    else if p.isEmpty then "empty" else " ".intercalate ((rle p []).map showSeg)

def lookupShape (l : List (String × Shape)) (key : String) : Option Shape :=
  match l with
  | [] => none
  | (k, s) :: rest => if k = key then some s else lookupShape rest key

def step (s : IOState) : List String → IOState × String
  | ["clear"] => ({}, "ok")
  | "old" :: key :: ws =>
    match parseShape? ws with
    | some (sh, []) => ({ s with old := s.old ++ [(key, sh)] }, "ok")
    | _ => (s, "bad-op")
  | "tgt" :: key :: ws =>
    match parseShape? ws with
    | some (sh, []) => ({ s with tgt := s.tgt ++ [(key, sh)] }, "ok")
    | _ => (s, "bad-op")
  -- one iteration of the preserve loop for a parameter of the new network
  | "new" :: pol :: mode :: key :: ws =>
    match parsePolicy? pol, parseMode? mode, parseShape? ws with
    | some pol, some mode, some (ns, []) =>
      match lookupShape s.old key with
      | none => (s, s!"missing {numel ns}")
      | some os => (s, showProv os ns (provT pol mode (isNormKey key) os ns))
    | _, _, _ => (s, "bad-op")
  -- explicit pair of shapes
  | "prov" :: pol :: mode :: key :: ws =>
    match parsePolicy? pol, parseMode? mode, parseShape? ws with
    | some pol, some mode, some (os, ws') =>
      match parseShape? ws' with
      | some (ns, []) => (s, showProv os ns (provT pol mode (isNormKey key) os ns))
      | _ => (s, "bad-op")
    | _, _, _ => (s, "bad-op")
  | ["isnorm", key] => (s, showBool (isNormKey key))
  | "offset" :: ws =>
    match parseShape? ws with
    | some (sh, ws') =>
      match parseNats? ws' with
      | some idx => if inBounds sh idx then (s, toString (offset sh idx)) else (s, "reject")
      | none => (s, "bad-op")
    | none => (s, "bad-op")
  | "unravel" :: k :: ws =>
    match parseNat? k, parseShape? ws with
    | some k, some (sh, []) => if k < numel sh then (s, showNats (unravel sh k)) else (s, "reject")
    | _, _ => (s, "bad-op")
  | "numel" :: ws =>
    match parseShape? ws with
    | some (sh, []) => (s, toString (numel sh))
    | _ => (s, "bad-op")
  -- mutation context bookkeeping: `ctx <early 0|1> <ev>…`, ev = o0 | o1 | r0 | r1 (ok/raise, cfg changed 0/1)
  | "ctx" :: early :: evs =>
    let parseEv : String → Option Ev := fun w =>
      match w with
      | "o0" => some ⟨false, false⟩ | "o1" => some ⟨true, false⟩
      | "r0" => some ⟨false, true⟩ | "r1" => some ⟨true, true⟩
      | _ => none
    match early, allSome (evs.map parseEv) with
    | "0", some es => let c := Ctx.run false ⟨0, 0, 0⟩ es; (s, s!"{c.depth} {showBool c.inSync}")
    | "1", some es => let c := Ctx.run true ⟨0, 0, 0⟩ es; (s, s!"{c.depth} {showBool c.inSync}")
    | _, _ => (s, "bad-op")
  -- the mutation decorator, one outermost call of a wrapped method from depth 0:
  -- `deco <attr> <advertised 0|1> <forwarded 0|1> <wrapper 0|1> <hook 0|1> <bodyLast> <nested> <wrappedLast>`
  -- (`-` = None, `!` = AttributeError for <nested>; bodyLast = last_mutation_attr when the raw method returns)
  -- answer: `<final last_mutation_attr> <number of recreate_network calls> <number of hook calls> <depth>`
  | ["deco", attr, adv, fwd, wr, hk, bodyLast, nested, wrappedLast] =>
    let b? : String → Option Bool := fun w => match w with | "0" => some false | "1" => some true | _ => none
    let o : String → Option String := fun w => if w = "-" then none else some w
    match b? adv, b? fwd, b? wr, b? hk with
    | some adv, some fwd, some wr, some hk =>
      let meth : Deco.Meth := ⟨attr, []⟩
      let m : Deco.Mod := { depth := 0, last := none, lastAttr := none, methods := if adv then [attr] else [],
                            forwarded := fwd, isWrapper := wr, hasHook := hk, recreateParams := [], log := [] }
      let m0 := Deco.enter m meth attr
      let out := Deco.wrapBody () m0 attr ({ m0 with lastAttr := o bodyLast }, ()) (m0, ())
      let nst : Option (Option String) := if nested = "!" then none else some (o nested)
      match Deco.exit out.1 meth nst (o wrappedLast) (fun a => ⟨a, []⟩) with
      | none => (s, "reject")
      | some m1 =>
        let nr := (m1.log.filter fun e => match e with | .recreate _ => true | .hook => false).length
        let nh := (m1.log.filter fun e => match e with | .recreate _ => false | .hook => true).length
        (s, s!"{(m1.lastAttr).getD "-"} {nr} {nh} {m1.depth}")
    | _, _, _, _ => (s, "bad-op")
  -- strict load_state_dict of the registered `old` entries into the registered `tgt` entries
  | ["load"] =>
    if s.tgt == s.old then (s, "ok") else (s, "reject")
  | _ => (s, "bad-op")

end Preserve
