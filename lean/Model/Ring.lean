import Model.Util
/-
  Model/Ring.lean — executable model of `agilerl.components.replay_buffer.ReplayBuffer`
  (circular TensorDict storage) and of `MultiAgentReplayBuffer` (bounded deque).

  A transition is represented by its identifier (a `Nat`); the correspondence harness encodes
  the identifier in every field of the real transition, so "every field of the slot carries the
  same id" is checked on the implementation side, and the model tracks which id each slot holds.
-/
namespace Ring

/-- `l[start : start + xs.length] = xs` (Python slice assignment with matching lengths). -/
def writeSlice {α} (l : List α) (start : Nat) (xs : List α) : List α :=
  l.take start ++ xs ++ l.drop (start + xs.length)

structure Buf where
  cap     : Nat
  cursor  : Nat
  size    : Nat
  store   : List (Option Nat)     -- length = cap; `none` = zero-initialised slot
  counter : Nat
deriving Repr, DecidableEq

def Buf.empty (cap : Nat) : Buf :=
  { cap := cap, cursor := 0, size := 0, store := List.replicate cap none, counter := 0 }

/-- `ReplayBuffer.add` for a batch of `xs.length` transitions, exactly the two-slice write. -/
def Buf.add (b : Buf) (xs : List Nat) : Buf :=
  let w := xs.length
  let start := b.cursor
  let stop := b.cursor + w
  let ys := xs.map some
  let store' :=
    if stop > b.cap then
      let n := b.cap - start
      let s1 := writeSlice b.store start (ys.take n)          -- storage[start:] = data[:n]
      writeSlice s1 0 (ys.drop n)                             -- storage[:w-n]  = data[n:]
    else
      writeSlice b.store start ys
  { b with store := store', cursor := stop % b.cap, size := min (b.size + w) b.cap,
           counter := b.counter + w }

/-- one transition at a time: the specification-level step used in the refinement proof -/
def Buf.add1 (b : Buf) (x : Nat) : Buf :=
  { b with store := b.store.set b.cursor (some x), cursor := (b.cursor + 1) % b.cap,
           size := min (b.size + 1) b.cap, counter := b.counter + 1 }

/-- `ReplayBuffer.clear` (counter is *not* reset by the code) -/
def Buf.clear (b : Buf) : Buf :=
  { b with cursor := 0, size := 0, store := List.replicate b.cap none }

/-- `ReplayBuffer.sample`: `indices = randperm(size)[:k]`, `storage[indices]`.
    The permutation is an explicit input. -/
def Buf.sample (b : Buf) (perm : List Nat) (k : Nat) : List (Option Nat) :=
  (perm.take k).map (fun i => (b.store.getD i none))

/-- stored ids, slot order, only the filled range -/
def Buf.contents (b : Buf) : List (Option Nat) := b.store.take b.size

/-! ### bounded deque (`collections.deque(maxlen=cap)`) used by `MultiAgentReplayBuffer` -/

structure Deq where
  cap   : Nat
  items : List Nat
  counter : Nat
deriving Repr, DecidableEq

def Deq.empty (cap : Nat) : Deq := { cap := cap, items := [], counter := 0 }

def Deq.push (d : Deq) (x : Nat) : Deq :=
  let l := d.items ++ [x]
  { d with items := l.drop (l.length - d.cap), counter := d.counter + 1 }

/-- `save_to_memory_vect_envs`: one `_add` per environment, in environment order -/
def Deq.pushMany (d : Deq) (xs : List Nat) : Deq := xs.foldl Deq.push d

/-- last `n` elements of a history -/
def lastN {α} (n : Nat) (l : List α) : List α := l.drop (l.length - n)

/-- `_reorganize_dicts`: `args[field][agent][env]` ↦ `result[field][env][agent]`;
    we model one field as a matrix `agent × env` and the result as `env × agent`. -/
def reorganize {α} (numEnv : Nat) (m : List (List α)) : List (List (Option α)) :=
  (List.range numEnv).map (fun i => m.map (fun row => row[i]?))

end Ring

/-! ### line protocol -/
namespace Ring
open Util

structure IOState where
  buf : Buf := Buf.empty 1
  deq : Deq := Deq.empty 1

def showSlots (l : List (Option Nat)) : String := " ".intercalate (l.map showOptNat)

def step (s : IOState) : List String → IOState × String
  | ["new", c] =>
    match parseNat? c with
    | some cap => if cap = 0 then (s, "bad-op") else ({ s with buf := Buf.empty cap }, "ok")
    | none => (s, "bad-op")
  | "add" :: ws =>
    match parseNats? ws with
    | some xs =>
      if xs.length = 0 ∨ xs.length > s.buf.cap then (s, "reject")   -- the real code rejects these
      else ({ s with buf := s.buf.add xs }, "ok")
    | none => (s, "bad-op")
  | ["len"] => (s, toString s.buf.size)
  | ["counter"] => (s, toString s.buf.counter)
  | ["dump"] => (s, showSlots s.buf.contents)
  | ["clear"] => ({ s with buf := s.buf.clear }, "ok")
  | "sample" :: k :: ws =>
    match parseNat? k, parseNats? ws with
    | some k, some perm => (s, showSlots (s.buf.sample perm k))
    | _, _ => (s, "bad-op")
  | ["dnew", c] =>
    match parseNat? c with
    | some cap => if cap = 0 then (s, "bad-op") else ({ s with deq := Deq.empty cap }, "ok")
    | none => (s, "bad-op")
  | "dadd" :: ws =>
    match parseNats? ws with
    | some xs => ({ s with deq := s.deq.pushMany xs }, "ok")
    | none => (s, "bad-op")
  | ["dlen"] => (s, toString s.deq.items.length)
  | ["dcounter"] => (s, toString s.deq.counter)
  | ["ddump"] => (s, showNats s.deq.items)
  | _ => (s, "bad-op")

end Ring
