import Model.Util
/-
  Model/Ring.lean — executable model of `agilerl.components.replay_buffer.ReplayBuffer`
  (circular TensorDict storage) and of `MultiAgentReplayBuffer` (bounded deque).

  A transition is represented by its identifier (a `Nat`); the correspondence harness encodes
  the identifier in every field of the real transition, so "every field of the slot carries the
  same id" is checked on the implementation side, and the model tracks which id each slot holds.
-/
namespace Ring

/-- `l[start : start + xs.length] = xs` (Python slice assignment with matching lengths). -/
def writeSlice {α} (l : List α) (start : Nat) (xs : List α) : List α :=
  l.take start ++ xs ++ l.drop (start + xs.length)

structure Buf where
  cap     : Nat
  cursor  : Nat
  size    : Nat
  store   : List (Option Nat)     -- length = cap; `none` = zero-initialised slot
  counter : Nat
deriving Repr, DecidableEq

def Buf.empty (cap : Nat) : Buf :=
  { cap := cap, cursor := 0, size := 0, store := List.replicate cap none, counter := 0 }

/-- `ReplayBuffer.add` for a batch of `xs.length` transitions, exactly the two-slice write. -/
def Buf.add (b : Buf) (xs : List Nat) : Buf :=
  let w := xs.length
  let start := b.cursor
  let stop := b.cursor + w
  let ys := xs.map some
  let store' :=
    if stop > b.cap then
      let n := b.cap - start
      let s1 := writeSlice b.store start (ys.take n)          -- storage[start:] = data[:n]
      writeSlice s1 0 (ys.drop n)                             -- storage[:w-n]  = data[n:]
    else
      writeSlice b.store start ys
  { b with store := store', cursor := stop % b.cap, size := min (b.size + w) b.cap,
           counter := b.counter + w }

/-- one transition at a time: the specification-level step used in the refinement proof -/
def Buf.add1 (b : Buf) (x : Nat) : Buf :=
  { b with store := b.store.set b.cursor (some x), cursor := (b.cursor + 1) % b.cap,
           size := min (b.size + 1) b.cap, counter := b.counter + 1 }

/-- `ReplayBuffer.clear` (counter is *not* reset by the code) -/
def Buf.clear (b : Buf) : Buf :=
  { b with cursor := 0, size := 0, store := List.replicate b.cap none }

/-- `ReplayBuffer.sample`: `indices = randperm(size)[:k]`, `storage[indices]`.
    The permutation is an explicit input. -/
def Buf.sample (b : Buf) (perm : List Nat) (k : Nat) : List (Option Nat) :=
  (perm.take k).map (fun i => (b.store.getD i none))

/-- stored ids, slot order, only the filled range -/
def Buf.contents (b : Buf) : List (Option Nat) := b.store.take b.size

/-! ### bounded deque (`collections.deque(maxlen=cap)`) used by `MultiAgentReplayBuffer` -/

structure Deq where
  cap   : Nat
  items : List Nat
  counter : Nat
deriving Repr, DecidableEq

def Deq.empty (cap : Nat) : Deq := { cap := cap, items := [], counter := 0 }

def Deq.push (d : Deq) (x : Nat) : Deq :=
  let l := d.items ++ [x]
  { d with items := l.drop (l.length - d.cap), counter := d.counter + 1 }

/-- `save_to_memory_vect_envs`: one `_add` per environment, in environment order -/
def Deq.pushMany (d : Deq) (xs : List Nat) : Deq := xs.foldl Deq.push d

/-- last `n` elements of a history -/
def lastN {α} (n : Nat) (l : List α) : List α := l.drop (l.length - n)

/-- `_reorganize_dicts`: `args[field][agent][env]` ↦ `result[field][env][agent]`;
    we model one field as a matrix `agent × env` and the result as `env × agent`. -/
def reorganize {α} (numEnv : Nat) (m : List (List α)) : List (List (Option α)) :=
  (List.range numEnv).map (fun i => m.map (fun row => row[i]?))

end Ring

/-! ### vectorised multi-agent experiences: `MultiAgentReplayBuffer._reorganize_dicts` (per-environment split)

An experience field of a vectorised `save_to_memory` call is a dict agent ↦ value (an association list, keys
distinct); a value is an array (the list of its per-environment rows; a row is an opaque `α`), a dict of arrays or
a tuple of arrays.  The same for ONE environment: a row, a dict of rows, a tuple of rows. -/
namespace Ring
section Reorg

abbrev Val (κ α : Type) := List α ⊕ (List (κ × List α) ⊕ List (List α))
@[match_pattern, reducible] def Val.arr {κ α : Type} (rows : List α) : Val κ α := Sum.inl rows
@[match_pattern, reducible] def Val.dict {κ α : Type} (kv : List (κ × List α)) : Val κ α := Sum.inr (Sum.inl kv)
@[match_pattern, reducible] def Val.tup {κ α : Type} (xs : List (List α)) : Val κ α := Sum.inr (Sum.inr xs)

abbrev Ent (κ α : Type) := α ⊕ (List (κ × α) ⊕ List α)
@[match_pattern, reducible] def Ent.arr {κ α : Type} (row : α) : Ent κ α := Sum.inl row
@[match_pattern, reducible] def Ent.dict {κ α : Type} (kv : List (κ × α)) : Ent κ α := Sum.inr (Sum.inl kv)
@[match_pattern, reducible] def Ent.tup {κ α : Type} (xs : List α) : Ent κ α := Sum.inr (Sum.inr xs)

/-- one field of a vectorised call: agent ↦ value -/
abbrev Field (κ α : Type) := List (κ × Val κ α)
/-- one field of ONE environment: agent ↦ entry -/
abbrev EnvField (κ α : Type) := List (κ × Ent κ α)
/-- one stored transition: one `EnvField` per field, in field order -/
abbrev Trans (κ α : Type) := List (EnvField κ α)

variable {κ α : Type}

/-- all-or-nothing: the list of values if every element is defined -/
def optAll {β : Type} : List (Option β) → Option (List β)
  | [] => some []
  | x :: r =>
    match x, optAll r with
    | some a, some as => some (a :: as)
    | _, _ => none

/-- column `i` (environment `i`) of one value; `none` = IndexError (an array with fewer than `i+1` rows) -/
def Val.col (i : Nat) : Val κ α → Option (Ent κ α)
  | Val.arr rows => match rows[i]? with | none => none | some r => some (Ent.arr r)
  | Val.dict kv =>
    match optAll (kv.map (fun p => match p.2[i]? with | none => none | some r => some (p.1, r))) with
    | none => none
    | some l => some (Ent.dict l)
  | Val.tup xs =>
    match optAll (xs.map (fun v => v[i]?)) with
    | none => none
    | some l => some (Ent.tup l)

/-- column `i` of one field: every agent's entry for environment `i`, keys and key order kept -/
def fieldCol (i : Nat) (f : Field κ α) : Option (EnvField κ α) :=
  optAll (f.map (fun p => match Val.col i p.2 with | none => none | some e => some (p.1, e)))

/-- the array whose length decides the number of environments: the value itself, the first member of a dict,
    member 0 of a tuple -/
def Val.first : Val κ α → Option (List α)
  | Val.arr rows => some rows
  | Val.dict kv => match kv with | [] => none | p :: _ => some p.2
  | Val.tup xs => xs.head?

/-- `num_entries`: read off the FIRST value of the FIRST field only -/
def numEntries (args : List (Field κ α)) : Option Nat :=
  match args with
  | [] => none
  | f :: _ => match f with
    | [] => none
    | p :: _ => match Val.first p.2 with | none => none | some a => some a.length

/-- the transition of environment `i`: column `i` of every field -/
def envTransition (args : List (Field κ α)) (i : Nat) : Option (Trans κ α) :=
  optAll (args.map (fieldCol i))

/-- the per-environment transitions of one vectorised call, in environment order (`none` = the call raises) -/
def perEnv (args : List (Field κ α)) : Option (List (Trans κ α)) :=
  match numEntries args with
  | none => none
  | some n => optAll ((List.range n).map (envTransition args))

/-- `m` lists, the `j`-th holding member `j` of every element of `es`, in order -/
def transposeTo {β : Type} (m : Nat) : List (List β) → List (List β)
  | [] => List.replicate m []
  | e :: es => List.zipWith (fun x r => x :: r) e (transposeTo m es)

/-- `_reorganize_dicts`: `results[field][env]` -/
def reorganizeDicts (args : List (Field κ α)) : Option (List (List (EnvField κ α))) :=
  match perEnv args with
  | none => none
  | some envs => some (transposeTo args.length envs)

/-! shape / key normalisation of single-agent transitions (`data.py`, reshape loop of `ReplayBuffer.add`) -/

/-- `Transition.__post_init__` on reward / done: a 0-dimensional value gets one trailing axis -/
def normLeaf (shape : List Nat) : List Nat := if shape.length = 0 then shape ++ [1] else shape

/-- reshape loop of `ReplayBuffer.add` for `n` transitions: a 1-dimensional leaf becomes `(n, 1)` -/
def addLeafShape (n : Nat) (shape : List Nat) : List Nat := if shape.length = 1 then [n, 1] else shape

/-- keys of the TensorDict made from a tuple observation of `n` members -/
def tupleKeys (n : Nat) : List String := (List.range n).map (fun i => "tuple_obs_" ++ toString i)

end Reorg
end Ring

/-! ### read side of `MultiAgentReplayBuffer`: `sample` / `_process_transition` / `stack_transitions`

The memory is the list of stored transitions (`Trans`: one agent ↦ entry dict per field, in `field_names` order);
the positions `random.sample` draws are an explicit list.  What `sample` returns for one (field, agent) is a `Val`:
the rows of the batch (a plain array), a dict member ↦ rows, or a tuple of row lists.  Values are exact (dtype
erased); the `uint8` cast of flag fields and the tensor conversion are the explicit functions `cast`, `tt`. -/
namespace Ring
section MaSample
variable {κ α : Type} [DecidableEq κ]

/-- `d[k]` (`none` = KeyError) -/
def dget {β : Type} : List (κ × β) → κ → Option β
  | [], _ => none
  | (k', v) :: r, k => if k' = k then some v else dget r k

def Ent.asArr : Ent κ α → Option α
  | Ent.arr x => some x
  | _ => none
def Ent.isDict : Ent κ α → Bool
  | Ent.dict _ => true
  | _ => false
def Ent.isTup : Ent κ α → Bool
  | Ent.tup _ => true
  | _ => false
/-- member `k` of a dict entry -/
def Ent.getKey (e : Ent κ α) (k : κ) : Option α :=
  match e with
  | Ent.dict kv => dget kv k
  | _ => none
/-- member `i` of a tuple entry -/
def Ent.getIdx (e : Ent κ α) (i : Nat) : Option α :=
  match e with
  | Ent.tup xs => xs[i]?
  | _ => none

/-- `stack_transitions`: the entries of one (field, agent), in batch order, regrouped per member.  The container
    kind, the dict keys and the tuple length are those of the FIRST entry; an empty batch raises (`transitions[0]`) -/
def stackEnts (es : List (Ent κ α)) : Option (Val κ α) :=
  match es with
  | [] => none
  | Ent.arr _ :: _ => (optAll (es.map Ent.asArr)).map Val.arr
  | Ent.dict kv :: _ =>
    if es.all Ent.isDict then
      (optAll (kv.map (fun p => (optAll (es.map (fun e => e.getKey p.1))).map (fun rows => (p.1, rows))))).map Val.dict
    else none
  | Ent.tup xs :: _ =>
    if es.all Ent.isTup then
      (optAll ((List.range xs.length).map (fun i => optAll (es.map (fun e => e.getIdx i))))).map Val.tup
    else none

/-- `getattr(e, f)` on the namedtuple over `names` -/
def getField {β : Type} : List String → List β → String → Option β
  | n :: ns, x :: xs, f => if n = f then some x else getField ns xs f
  | _, _, _ => none

/-- the fields whose stacked arrays are cast to `uint8` -/
def isFlag (f : String) : Bool := decide (f ∈ ["done", "termination", "terminated", "truncation", "truncated"])

/-- `.astype(np.uint8)` exists on arrays only -/
def Val.castArr (cast : α → α) : Val κ α → Option (Val κ α)
  | Val.arr rows => some (Val.arr (rows.map cast))
  | _ => none

/-- every leaf through `f` -/
def Val.mapLeaves (f : α → α) : Val κ α → Val κ α
  | Val.arr rows => Val.arr (rows.map f)
  | Val.dict kv => Val.dict (kv.map (fun p => (p.1, p.2.map f)))
  | Val.tup xs => Val.tup (xs.map (fun rows => rows.map f))

/-- the entries stored for (field `f`, agent `a`) in the given experiences, in order -/
def maColumn (names : List String) (exps : List (Trans κ α)) (f : String) (a : κ) : Option (List (Ent κ α)) :=
  optAll (exps.map (fun e => (getField names e f).bind (fun d => dget d a)))

/-- the cast of flag fields, then the tensor conversion -/
def maPost (cast tt : α → α) (f : String) (v : Val κ α) : Option (Val κ α) :=
  (if isFlag f then Val.castArr cast v else some v).map (Val.mapLeaves tt)

/-- what `_process_transition` puts at `transition[f][a]` -/
def maCell (cast tt : α → α) (names : List String) (exps : List (Trans κ α)) (f : String) (a : κ) : Option (Val κ α) :=
  ((maColumn names exps f a).bind stackEnts).bind (maPost cast tt f)

/-- `transition[f]`: agent ↦ stacked value, agents in `agents` order -/
def maFieldRow (cast tt : α → α) (names : List String) (agents : List κ) (exps : List (Trans κ α)) (f : String) :
    Option (Field κ α) :=
  optAll (agents.map (fun a => (maCell cast tt names exps f a).map (fun v => (a, v))))

/-- `_process_transition`: field ↦ agent ↦ stacked value, fields in `names` order -/
def maProcess (cast tt : α → α) (names : List String) (agents : List κ) (exps : List (Trans κ α)) :
    Option (List (String × Field κ α)) :=
  optAll (names.map (fun f => (maFieldRow cast tt names agents exps f).map (fun d => (f, d))))

/-- `sample(k)` with the drawn positions `draw`: ValueError unless `0 ≤ k ≤ len`; one `Field` per field name -/
def maSample (cast tt : α → α) (names : List String) (agents : List κ) (mem : List (Trans κ α)) (k : Int)
    (draw : List Nat) : Option (List (Field κ α)) :=
  if k < 0 ∨ k > (mem.length : Int) then none else
  (optAll (draw.map (fun i => mem[i]?))).bind (fun exps =>
    (maProcess cast tt names agents exps).map (fun t => t.map (fun p => p.2)))

end MaSample
end Ring

/-! ### line protocol -/
namespace Ring
open Util

structure IOState where
  buf : Buf := Buf.empty 1
  deq : Deq := Deq.empty 1

/-! wire format of `reorg` / `penv`: `N field^N`, field = `M (key val)^M`,
    val = `A n row^n` | `D m (key n row^n)^m` | `T m (n row^n)^m`; keys and rows are naturals -/
abbrev P (β : Type) := List String → Option (β × List String)

def pNat : P Nat
  | [] => none
  | w :: r => match parseNat? w with | none => none | some n => some (n, r)

def pRep {β : Type} (p : P β) : Nat → P (List β)
  | 0, ws => some ([], ws)
  | n + 1, ws =>
    match p ws with
    | none => none
    | some (x, r) => match pRep p n r with | none => none | some (xs, r') => some (x :: xs, r')

def pCounted {β : Type} (p : P β) : P (List β) := fun ws =>
  match pNat ws with | none => none | some (n, r) => pRep p n r

def pPair {β γ : Type} (p : P β) (q : P γ) : P (β × γ) := fun ws =>
  match p ws with
  | none => none
  | some (x, r) => match q r with | none => none | some (y, r') => some ((x, y), r')

def pVal : P (Val Nat Nat)
  | "A" :: r => match pCounted pNat r with | none => none | some (x, r') => some (Val.arr x, r')
  | "D" :: r => match pCounted (pPair pNat (pCounted pNat)) r with | none => none | some (x, r') => some (Val.dict x, r')
  | "T" :: r => match pCounted (pCounted pNat) r with | none => none | some (x, r') => some (Val.tup x, r')
  | _ => none

def pArgs : P (List (Field Nat Nat)) := pCounted (pCounted (pPair pNat pVal))

def showEnt : Ent Nat Nat → String
  | Ent.arr r => s!"A {r}"
  | Ent.dict kv => s!"D {kv.length}" ++ String.join (kv.map (fun p => s!" {p.1} {p.2}"))
  | Ent.tup xs => s!"T {xs.length}" ++ String.join (xs.map (fun r => s!" {r}"))

def showEnvField (f : EnvField Nat Nat) : String :=
  s!"{f.length}" ++ String.join (f.map (fun p => s!" {p.1} " ++ showEnt p.2))

def showMatrix (m : List (List (EnvField Nat Nat))) : String :=
  s!"{m.length}" ++ String.join (m.map (fun row => s!" {row.length}" ++ String.join (row.map (fun f => " " ++ showEnvField f))))

def showSlots (l : List (Option Nat)) : String := " ".intercalate (l.map showOptNat)

/-! wire format of `masample`: `N name^N  M agent^M  P trans^P  k  D pos^D`, trans = `F envfield^F`,
    envfield = `M (key ent)^M`, ent = `A row` | `D m (key row)^m` | `T m row^m`; answer: `N field^N` in the format of
    `pArgs` (or `reject`); the cast of flag fields and the tensor conversion are the identity on the naturals -/
def pStr : P String
  | [] => none
  | w :: r => some (w, r)

def pEnt : P (Ent Nat Nat)
  | "A" :: r => match pNat r with | none => none | some (x, r') => some (Ent.arr x, r')
  | "D" :: r => match pCounted (pPair pNat pNat) r with | none => none | some (x, r') => some (Ent.dict x, r')
  | "T" :: r => match pCounted pNat r with | none => none | some (x, r') => some (Ent.tup x, r')
  | _ => none

def pTrans : P (Trans Nat Nat) := pCounted (pCounted (pPair pNat pEnt))

def pInt : P Int
  | [] => none
  | w :: r => match parseInt? w with | none => none | some n => some (n, r)

def showRows (l : List Nat) : String := s!"{l.length}" ++ String.join (l.map (fun r => s!" {r}"))

def showVal : Val Nat Nat → String
  | Val.arr rows => "A " ++ showRows rows
  | Val.dict kv => s!"D {kv.length}" ++ String.join (kv.map (fun p => s!" {p.1} " ++ showRows p.2))
  | Val.tup xs => s!"T {xs.length}" ++ String.join (xs.map (fun r => " " ++ showRows r))

def showBatch (b : List (Field Nat Nat)) : String :=
  s!"{b.length}" ++ String.join (b.map (fun f => s!" {f.length}" ++ String.join (f.map (fun p => s!" {p.1} " ++ showVal p.2))))

def pMaSample : P (List String × List Nat × List (Trans Nat Nat) × Int × List Nat) :=
  pPair (pCounted pStr) (pPair (pCounted pNat) (pPair (pCounted pTrans) (pPair pInt (pCounted pNat))))

def step (s : IOState) : List String → IOState × String
  | "masample" :: ws =>
    match pMaSample ws with
    | some ((names, agents, mem, k, draw), []) =>
      (s, match maSample id id names agents mem k draw with | none => "reject" | some b => showBatch b)
    | _ => (s, "bad-op")
  | ["new", c] =>
    match parseNat? c with
    | some cap => if cap = 0 then (s, "bad-op") else ({ s with buf := Buf.empty cap }, "ok")
    | none => (s, "bad-op")
  | "add" :: ws =>
    match parseNats? ws with
    | some xs =>
      if xs.length = 0 ∨ xs.length > s.buf.cap then (s, "reject")   -- the real code rejects these
      else ({ s with buf := s.buf.add xs }, "ok")
    | none => (s, "bad-op")
  | ["len"] => (s, toString s.buf.size)
  | ["counter"] => (s, toString s.buf.counter)
  | ["dump"] => (s, showSlots s.buf.contents)
  | ["clear"] => ({ s with buf := s.buf.clear }, "ok")
  | "sample" :: k :: ws =>
    match parseNat? k, parseNats? ws with
    | some k, some perm => (s, showSlots (s.buf.sample perm k))
    | _, _ => (s, "bad-op")
  | ["dnew", c] =>
    match parseNat? c with
    | some cap => if cap = 0 then (s, "bad-op") else ({ s with deq := Deq.empty cap }, "ok")
    | none => (s, "bad-op")
  | "dadd" :: ws =>
    match parseNats? ws with
    | some xs => ({ s with deq := s.deq.pushMany xs }, "ok")
    | none => (s, "bad-op")
  | ["dlen"] => (s, toString s.deq.items.length)
  | ["dcounter"] => (s, toString s.deq.counter)
  | ["ddump"] => (s, showNats s.deq.items)
  | "reorg" :: ws =>
    match pArgs ws with
    | some (args, []) => (s, match reorganizeDicts args with | none => "reject" | some m => showMatrix m)
    | _ => (s, "bad-op")
  | "penv" :: ws =>
    match pArgs ws with
    | some (args, []) => (s, match perEnv args with | none => "reject" | some m => showMatrix m)
    | _ => (s, "bad-op")
  | _ => (s, "bad-op")

end Ring
