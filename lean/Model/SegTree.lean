import Model.Util
/-
  Model/SegTree.lean — executable model of `agilerl.components.segment_tree`
  (`SegmentTree.__setitem__ / _operate_helper / operate`, `SumSegmentTree.retrieve`,
  `MinSegmentTree`) and of `agilerl.components.replay_buffer.PrioritizedReplayBuffer`
  (`add`, `_update_priority`, `update_priorities`, `_sample_proportional`, `_calculate_weights`).

  The tree is the Python list `tree` of length `2 * capacity` (node 1 = root, leaves at
  `capacity + i`, slot 0 unused).  Loops / recursions of the Python are reproduced step by step;
  `fuel` arguments only make them structurally recursive (enough fuel is always supplied, which
  is proved in `Proofs/SegTree*.lean`).

  Not logic, hence parameters: `pw` = `p ↦ p ** alpha`, `f` = `x ↦ x ** (-beta)`, the uniform
  draws `torch.rand(1).item()`.  Numbers are exact rationals; `+∞` (initial value of the min
  tree) is `none`.  Core Lean only.
-/
namespace SegTree

/-! ### generic array segment tree -/
section generic
variable {α : Type}

/-- `tree[n]` (reads outside the list never happen on reachable states; `d` = initial value) -/
def nd (d : α) (t : List α) (n : Nat) : α := t.getD n d

/-- initial tree: `[init_value for _ in range(2 * capacity)]` -/
def initTree (cap : Nat) (d : α) : List α := List.replicate (2 * cap) d

/-- the `while idx >= 1:` loop of `__setitem__` -/
def fixUp (op : α → α → α) (d : α) : Nat → Nat → List α → List α
  | 0, _, t => t
  | fuel + 1, idx, t =>
    if idx ≥ 1 then
      fixUp op d fuel (idx / 2) (t.set idx (op (nd d t (2 * idx)) (nd d t (2 * idx + 1))))
    else t

/-- `SegmentTree.__setitem__(idx, val)` -/
def setItem (op : α → α → α) (d : α) (cap : Nat) (t : List α) (i : Nat) (v : α) : List α :=
  let p := i + cap
  fixUp op d p (p / 2) (t.set p v)

/-- `SegmentTree._operate_helper(start, end, node, node_start, node_end)`; `none` = out of fuel -/
def operateAux (op : α → α → α) (d : α) (t : List α) :
    Nat → Nat → Nat → Nat → Nat → Nat → Option α
  | 0, _, _, _, _, _ => none
  | fuel + 1, s, e, node, ns, ne =>
    if s = ns ∧ e = ne then some (nd d t node)
    else
      let mid := (ns + ne) / 2
      if e ≤ mid then operateAux op d t fuel s e (2 * node) ns mid
      else if mid + 1 ≤ s then operateAux op d t fuel s e (2 * node + 1) (mid + 1) ne
      else
        match operateAux op d t fuel s mid (2 * node) ns mid,
              operateAux op d t fuel (mid + 1) e (2 * node + 1) (mid + 1) ne with
        | some a, some b => some (op a b)
        | _, _ => none

/-- `SegmentTree.operate(start, end)`: `end <= 0 → end += capacity`, `end -= 1`.
    Infeasible ranges (`start > end` or `end ≥ capacity`: the Python ends in `RecursionError` /
    `IndexError`) answer `none`. -/
def operate (op : α → α → α) (d : α) (cap : Nat) (t : List α) (s e : Nat) : Option α :=
  let e1 := if e = 0 then e + cap else e
  let e2 := e1 - 1
  if s ≤ e2 ∧ e2 < cap then operateAux op d t (cap + 1) s e2 1 0 (cap - 1) else none

end generic

/-- `min` on floats with `+inf` = `none` -/
def minInf : Option Rat → Option Rat → Option Rat
  | none, b => b
  | a, none => a
  | some a, some b => some (if b < a then b else a)      -- Python `min(a, b)`

/-- the `while idx < self.capacity` loop of `SumSegmentTree.retrieve` -/
def retrieveLoop (cap : Nat) (t : List Rat) : Nat → Nat → Rat → Nat
  | 0, idx, _ => idx
  | fuel + 1, idx, u =>
    if idx < cap then
      let left := nd 0 t (2 * idx)
      if left > u then retrieveLoop cap t fuel (2 * idx) u
      else retrieveLoop cap t fuel (2 * idx + 1) (u - left)
    else idx

/-- the walk of `SumSegmentTree.retrieve` without its assertion -/
def retrieveWalk (cap : Nat) (t : List Rat) (u : Rat) : Nat := retrieveLoop cap t cap 1 u - cap

/-- the float `1e-5` (exact value 5902958103587057 / 2^69): slack of the assertion in `retrieve`
    and lower clamp of `update_priorities` -/
def eps : Rat := mkRat 5902958103587057 590295810358705651712

/-- `SumSegmentTree.retrieve(upperbound)`; `none` = the assertion fails -/
def retrieve (cap : Nat) (t : List Rat) (u : Rat) : Option Nat :=
  if 0 ≤ u ∧ u ≤ nd 0 t 1 + eps then some (retrieveWalk cap t u) else none

def setSum (cap : Nat) (t : List Rat) (i : Nat) (v : Rat) : List Rat :=
  setItem (· + ·) 0 cap t i v

def setMin (cap : Nat) (t : List (Option Rat)) (i : Nat) (v : Option Rat) : List (Option Rat) :=
  setItem minInf none cap t i v

/-! ### PrioritizedReplayBuffer -/

/-- `tree_capacity = 1; while tree_capacity < max_size: tree_capacity *= 2` -/
def capLoop (m : Nat) : Nat → Nat → Nat
  | 0, c => c
  | fuel + 1, c => if c < m then capLoop m fuel (2 * c) else c

def treeCapacity (maxSize : Nat) : Nat := capLoop maxSize maxSize 1

structure PER where
  maxSize : Nat
  cap : Nat                       -- capacity of both trees
  sumT : List Rat
  minT : List (Option Rat)
  maxPriority : Rat
  treePtr : Nat
  cursor : Nat                    -- `ReplayBuffer._cursor`
  size : Nat                      -- `len(buffer)`
deriving Repr, DecidableEq

def PER.new (maxSize : Nat) : PER :=
  let c := treeCapacity maxSize
  { maxSize := maxSize, cap := c, sumT := initTree c 0, minT := initTree c none,
    maxPriority := 1, treePtr := 0, cursor := 0, size := 0 }

def PER.leaf (b : PER) (i : Nat) : Rat := nd 0 b.sumT (b.cap + i)
def PER.minLeaf (b : PER) (i : Nat) : Option Rat := nd none b.minT (b.cap + i)
def PER.total (b : PER) : Rat := nd 0 b.sumT 1            -- `sum_tree.sum()` = `tree[1]`
def PER.minRoot (b : PER) : Option Rat := nd none b.minT 1 -- `min_tree.min()` = `tree[1]`

/-- `_update_priority(idx, priority)` after its assertion `0 <= idx < max_size` -/
def PER.updatePriority (pw : Rat → Rat) (b : PER) (idx : Nat) (p : Rat) : PER :=
  { b with sumT := setSum b.cap b.sumT idx (pw p),
           minT := setMin b.cap b.minT idx (some (pw p)),
           maxPriority := if b.maxPriority < p then p else b.maxPriority }

/-- one iteration of the loop in `add`: the new transition gets `max_priority` -/
def PER.addOne (pw : Rat → Rat) (b : PER) : PER :=
  let b1 := b.updatePriority pw b.treePtr b.maxPriority
  { b1 with treePtr := (b.treePtr + 1) % b.maxSize }

def PER.addLoop (pw : Rat → Rat) : Nat → PER → PER
  | 0, b => b
  | n + 1, b => PER.addLoop pw n (b.addOne pw)

/-- `PrioritizedReplayBuffer.add` of a batch of `n` transitions (`1 ≤ n ≤ max_size`):
    `ReplayBuffer.add` moves cursor and size, then the loop writes the priorities -/
def PER.add (pw : Rat → Rat) (b : PER) (n : Nat) : PER :=
  let b1 := { b with cursor := (b.cursor + n) % b.maxSize, size := min (b.size + n) b.maxSize }
  PER.addLoop pw n b1

/-- `priority = max(priority.item(), 1e-5)` -/
def clampPriority (p : Rat) : Rat := if p < eps then eps else p

/-- `update_priorities(indices, priorities)`: sequential; stops at the first index that fails
    the assertion of `_update_priority` (the earlier ones stay applied), flag = no assertion failed -/
def PER.updateMany (pw : Rat → Rat) : PER → List (Int × Rat) → PER × Bool
  | b, [] => (b, true)
  | b, (i, p) :: rest =>
    if 0 ≤ i ∧ i.toNat < b.maxSize then
      PER.updateMany pw (b.updatePriority pw i.toNat (clampPriority p)) rest
    else (b, false)

/-- the loop body of `_sample_proportional` for stratum `i`, `i+1`, … with draws `rs` -/
def strataAux (segment : Rat) : Nat → List Rat → List Rat
  | _, [] => []
  | i, r :: rs =>
    let a := segment * (i : Rat)
    let b := segment * ((i : Rat) + 1)
    (r * (b - a) + a) :: strataAux segment (i + 1) rs

/-- the stratified query masses of `_sample_proportional` for draws `rs` (`batch = rs.length`) -/
def strata (total : Rat) (rs : List Rat) : List Rat :=
  strataAux (total / (rs.length : Rat)) 0 rs

/-- `_sample_proportional(batch_size)` with explicit draws; `none` = the real code raises
    (batch size 0, empty buffer, assertion of `retrieve`, index outside the storage) -/
def PER.sampleIdx (b : PER) (rs : List Rat) : Option (List Nat) :=
  if rs.length = 0 ∨ b.size = 0 then none
  else
    let idxs := (strata b.total rs).map (retrieve b.cap b.sumT)
    if idxs.all (fun o => match o with | some i => decide (i < b.maxSize) | none => false)
    then some (idxs.filterMap id) else none

/-- the quantity raised to `-beta` for index `i`: `p_sample * size`, and for the maximum weight:
    `p_min * size` (first component) -/
def PER.bases (b : PER) (idxs : List Nat) : Option (Rat × List Rat) :=
  match b.minRoot with
  | none => none
  | some m =>
    if b.total = 0 then none
    else some (m / b.total * (b.size : Rat), idxs.map (fun i => b.leaf i / b.total * (b.size : Rat)))

/-- `_calculate_weights(indices, beta)` with `f x = x ** (-beta)` -/
def PER.weights (f : Rat → Rat) (b : PER) (idxs : List Nat) : Option (List Rat) :=
  match b.bases idxs with
  | none => none
  | some (xm, xs) => if xm = 0 ∨ xs.any (· = 0) ∨ idxs.any (fun i => decide (b.cap ≤ i)) then none
                     else some (xs.map (fun x => f x / f xm))

def powN (p : Rat) : Nat → Rat
  | 0 => 1
  | n + 1 => powN p n * p

/-- `x ** (-beta)` for a natural `beta` -/
def negPowN (beta : Nat) (x : Rat) : Rat := 1 / powN x beta

end SegTree

/-! ### line protocol -/
namespace SegTree
open Util

structure IOState where
  per : PER := PER.new 1
  alpha : Nat := 1

def showInf : Option Rat → String
  | none => "inf"
  | some q => showRat q

def parsePairs? : List String → Option (List (Int × Rat))
  | [] => some []
  | i :: p :: rest =>
    match parseInt? i, parseRat? p, parsePairs? rest with
    | some i, some p, some r => some ((i, p) :: r)
    | _, _, _ => none
  | _ => none

def isPow2 (c : Nat) : Bool := c > 0 && (c &&& (c - 1)) == 0

def step (s : IOState) : List String → IOState × String
  | ["new", m, a] =>
    match parseNat? m, parseNat? a with
    | some m, some a => if m = 0 then (s, "bad-op") else ({ per := PER.new m, alpha := a }, "ok")
    | _, _ => (s, "bad-op")
  | ["tnew", c] =>                       -- bare `SumSegmentTree(c)` / `MinSegmentTree(c)`
    match parseNat? c with
    | some c =>
      if isPow2 c then
        ({ s with per := { PER.new c with cap := c, sumT := initTree c 0, minT := initTree c none } }, "ok")
      else (s, "reject")
    | none => (s, "bad-op")
  | ["add", n] =>
    match parseNat? n with
    | some n =>
      if n = 0 ∨ n > s.per.maxSize then (s, "reject")
      else ({ s with per := s.per.add (powN · s.alpha) n }, "ok")
    | none => (s, "bad-op")
  | "update" :: ws =>
    match parsePairs? ws with
    | some ps =>
      let (b, ok) := PER.updateMany (powN · s.alpha) s.per ps
      ({ s with per := b }, if ok then "ok" else "reject")
    | none => (s, "bad-op")
  | "set" :: i :: v :: [] =>             -- `sum_tree[i] = v; min_tree[i] = v`
    match parseNat? i, parseRat? v with
    | some i, some v =>
      if i < s.per.cap then
        ({ s with per := { s.per with sumT := setSum s.per.cap s.per.sumT i v,
                                      minT := setMin s.per.cap s.per.minT i (some v) } }, "ok")
      else (s, "reject")
    | _, _ => (s, "bad-op")
  | "sample" :: ws =>
    match parseRats? ws with
    | some rs =>
      match s.per.sampleIdx rs with
      | some idxs => (s, showNats idxs)
      | none => (s, "reject")
    | none => (s, "bad-op")
  | "weights" :: beta :: ws =>
    match parseNat? beta, parseNats? ws with
    | some beta, some idxs =>
      match s.per.weights (negPowN beta) idxs with
      | some w => (s, showRats w)
      | none => (s, "reject")
    | _, _ => (s, "bad-op")
  | "bases" :: ws =>
    match parseNats? ws with
    | some idxs =>
      match s.per.bases idxs with
      | some (xm, xs) => (s, showRats (xm :: xs))
      | none => (s, "reject")
    | none => (s, "bad-op")
  | ["retrieve", u] =>
    match parseRat? u with
    | some u =>
      match retrieve s.per.cap s.per.sumT u with
      | some i => (s, toString i)
      | none => (s, "reject")
    | none => (s, "bad-op")
  | ["sum", a, b] =>
    match parseNat? a, parseNat? b with
    | some a, some b =>
      match operate (· + ·) 0 s.per.cap s.per.sumT a b with
      | some v => (s, showRat v)
      | none => (s, "reject")
    | _, _ => (s, "bad-op")
  | ["min", a, b] =>
    match parseNat? a, parseNat? b with
    | some a, some b =>
      match operate minInf none s.per.cap s.per.minT a b with
      | some v => (s, showInf v)
      | none => (s, "reject")
    | _, _ => (s, "bad-op")
  | ["leaves"] =>
    let b := s.per
    (s, showRat b.total ++ " " ++ showInf b.minRoot ++ " | " ++
        showRats ((List.range b.cap).map b.leaf) ++ " | " ++
        " ".intercalate ((List.range b.cap).map (fun i => showInf (b.minLeaf i))))
  | ["state"] =>
    let b := s.per
    (s, s!"{b.size} {b.cursor} {b.treePtr} {showRat b.maxPriority} {b.cap}")
  | ["eps"] => (s, showRat eps)
  | _ => (s, "bad-op")

end SegTree
