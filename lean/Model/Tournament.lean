import Model.Util
/-
  Model/Tournament.lean — executable model of `agilerl.hpo.tournament.TournamentSelection`.
  Core Lean only.

  What is modelled (tournament.py, line by line):

  * `_elitism`   : `last_fitness = [np.mean(a.fitness[-eval_loop:]) for a in population]`
                   `rank = np.argsort(last_fitness).argsort()`; `max_id = max(a.index …)`;
                   the elite is `population[np.argsort(rank)[-1]]`, i.e. the position holding the
                   largest rank; it is returned as `model.clone()` (index kept).
  * `_tournament`: `selection = np.random.randint(0, len(rank), size=tournament_size)` — k draws
                   *with replacement* from the positions of the population — then
                   `selection[np.argmax([rank[i] for i in selection])]` (first maximum).
  * `select`     : with elitism the first member is `elite.clone()` (index kept) and
                   `population_size - 1` tournaments follow, otherwise `population_size`
                   tournaments; the t-th tournament child is `parent.clone(max_id + 1 + t)`.

  What is a parameter, never a default:

  * the random draws (`draws t` = the list drawn for the t-th tournament),
  * the ranking: `np.argsort` is not a stable sort in general, so every theorem quantifies over
    *any* `rank` satisfying `IsRanking` (injective and consistent with `≤` on the means);
    `stableRank` is one executable instance, used by the driver.
  * `np.mean([])` is NaN (numpy warns, does not raise) and numpy sorts NaN last: a mean is a
    `Key := Option Rat` with `none` = NaN = top element of the order `kle`.

  Objects: `clone` allocates a fresh object; `selectHeap` threads an explicit store (address =
  position) so that "the old population is untouched" is a statement about the store.
-/
namespace Tournament

structure Agent where
  index   : Int
  fitness : List Rat
  tag     : Nat := 0            -- identity marker (whatever else a clone copies); never read by select
deriving Repr, DecidableEq, Inhabited

structure Cfg where
  tsize    : Nat
  elitism  : Bool
  popSize  : Nat
  evalLoop : Nat
deriving Repr, DecidableEq

/-- the constructor's assertions -/
def Cfg.valid (c : Cfg) : Prop := 0 < c.tsize ∧ 0 < c.popSize ∧ 0 < c.evalLoop

instance (c : Cfg) : Decidable c.valid := by unfold Cfg.valid; exact inferInstance

/-! ### means -/

/-- a mean as numpy computes it: `none` is NaN (mean of an empty slice) -/
abbrev Key := Option Rat

/-- the order numpy's sort uses on floats: NaN is larger than everything -/
def kle : Key → Key → Bool
  | _, none => true
  | none, some _ => false
  | some a, some b => decide (a ≤ b)

def klt (a b : Key) : Bool := kle a b && !kle b a

/-- Python `l[-w:]` for `w ≥ 1` -/
def lastN (w : Nat) (l : List Rat) : List Rat := l.drop (l.length - w)

/-- `np.mean` -/
def mean? (l : List Rat) : Key :=
  match l with
  | [] => none
  | _ => some (l.sum / (l.length : Rat))

def key (w : Nat) (a : Agent) : Key := mean? (lastN w a.fitness)

def keys (w : Nat) (pop : List Agent) : List Key := pop.map (key w)

/-! ### ranking -/

/-- position of the first maximum (`np.argmax`); 0 on the empty list -/
def argmaxFirst : List Nat → Nat
  | [] => 0
  | v :: vs =>
    match vs with
    | [] => 0
    | _ => let j := argmaxFirst vs
           if vs.getD j 0 > v then j + 1 else 0

/-- one concrete ranking: `rank[i]` = number of positions that a *stable* ascending sort puts
    before `i` (smaller mean, or equal mean and smaller position) -/
def before (ks : List Key) (j i : Nat) : Bool :=
  klt (ks.getD j none) (ks.getD i none) || (!klt (ks.getD i none) (ks.getD j none) && decide (j < i))

def stableRank (ks : List Key) : List Nat :=
  (List.range ks.length).map fun i => ((List.range ks.length).filter fun j => before ks j i).length

/-- What `np.argsort(x).argsort()` guarantees whatever sorting algorithm numpy picks and however
    it breaks ties: one rank per position, no rank used twice, and a smaller rank never belongs to
    a strictly larger mean.  (For numpy's result the ranks are moreover a permutation of
    `0 … n-1`; nothing below needs that.) -/
def IsRanking (ks : List Key) (rank : List Nat) : Prop :=
  rank.length = ks.length ∧
  (∀ i j, i < ks.length → j < ks.length → rank.getD i 0 = rank.getD j 0 → i = j) ∧
  (∀ i j, i < ks.length → j < ks.length → rank.getD i 0 < rank.getD j 0 →
      kle (ks.getD i none) (ks.getD j none) = true)

/-- executable form of `IsRanking` (`Proofs/TournamentRank.lean: isRankingB_iff`): the driver uses
    it to test the rank array numpy actually returned against the specification -/
def isRankingB (ks : List Key) (rank : List Nat) : Bool :=
  rank.length == ks.length &&
  (List.range ks.length).all fun i => (List.range ks.length).all fun j =>
    (rank.getD i 0 != rank.getD j 0 || i == j) &&
    (!(rank.getD i 0 < rank.getD j 0) || kle (ks.getD i none) (ks.getD j none))

/-- `population[np.argsort(rank)[-1]]`: the position holding the largest rank -/
def elitePos (rank : List Nat) : Nat := argmaxFirst rank

/-- `_tournament`: the drawn position with the largest rank (first one on equal rank, which can
    only be the same position drawn twice when `rank` is injective) -/
def winner (rank : List Nat) (ds : List Nat) : Nat :=
  ds.getD (argmaxFirst (ds.map fun d => rank.getD d 0)) 0

/-- `max([ind.index for ind in population])` -/
def maxId : List Agent → Int
  | [] => 0
  | a :: r => r.foldl (fun m b => max m b.index) a.index

/-! ### select -/

def selSize (c : Cfg) : Nat := if c.elitism then c.popSize - 1 else c.popSize

/-- `agent.clone(index)` as far as this property is concerned: everything copied, index replaced -/
def Agent.cloneAs (a : Agent) (idx : Int) : Agent := { a with index := idx }

/-- one member of the new generation: which old position it was cloned from, the index it got -/
structure Child where
  parent : Nat
  index  : Int
  isElite : Bool
deriving Repr, DecidableEq

/-- the tournament children, in order: child t comes from tournament t and gets `max_id + 1 + t` -/
def tournChildren (c : Cfg) (rank : List Nat) (pop : List Agent) (draws : Nat → List Nat) : List Child :=
  (List.range (selSize c)).map fun t =>
    { parent := winner rank (draws t), index := maxId pop + 1 + (t : Int), isElite := false }

/-- the plan of `select`: elite position and, per member of the new population, parent and index -/
def plan (c : Cfg) (rank : List Nat) (pop : List Agent) (draws : Nat → List Nat) : Nat × List Child :=
  let e := elitePos rank
  let kids := tournChildren c rank pop draws
  (e, if c.elitism then { parent := e, index := (pop.getD e default).index, isElite := true } :: kids
      else kids)

def Child.build (pop : List Agent) (ch : Child) : Agent := (pop.getD ch.parent default).cloneAs ch.index

/-- the returned elite (a clone of the best agent, index kept) -/
def eliteOf (rank : List Nat) (pop : List Agent) : Agent :=
  let a := pop.getD (elitePos rank) default
  a.cloneAs a.index

/-- the returned new population -/
def newPop (c : Cfg) (rank : List Nat) (pop : List Agent) (draws : Nat → List Nat) : List Agent :=
  (plan c rank pop draws).2.map (Child.build pop)

/-- `select` with objects: the store holds the old population at addresses `0 … pop.length-1`;
    every `clone()` allocates the next free address.  Returns the new store, the address of the
    returned elite and the addresses of the members of the new population. -/
def selectHeap (c : Cfg) (rank : List Nat) (store : List Agent) (draws : Nat → List Nat) :
    List Agent × Nat × List Nat :=
  let np := newPop c rank store draws
  (store ++ [eliteOf rank store] ++ np,
   store.length,
   (List.range np.length).map fun k => store.length + 1 + k)

/-- Repeated selection with one selector.  `Reach c p q`: population `q` is reachable from `p` by
    any number of `select` calls of the same configuration.  Between two calls *anything* may
    happen: evaluation appends fitness, training, mutation — but also re-indexing, resizing,
    restoring a checkpoint, or handing the selector a completely unrelated population (`q'` below
    is any non-empty population; index-preserving changes of `q` are the special case of one
    lineage).  `select` has no memory: `max_id` is recomputed from the population it is given. -/
inductive Reach (c : Cfg) : List Agent → List Agent → Prop
  | refl (p : List Agent) : Reach c p p
  | step {p q q' : List Agent} {rank : List Nat} {draws : Nat → List Nat} :
      Reach c p q → q' ≠ [] → IsRanking (keys c.evalLoop q') rank →
      Reach c p (newPop c rank q' draws)

/-! ### the initial population -/

/-- `create_population(…, population_size = n)` / `Algo.population(n, …)` as far as selection is concerned
    (`agilerl/utils/utils.py`, `EvolvableAlgorithm.population`): `n` agents that have never been evaluated; member
    `i` is constructed with `index = i`.  `Proofs/PopGenEq.lean` proves the population translated from the source
    text equal to this one, for every branch and every `n`. -/
def initialPop (n : Nat) : List Agent :=
  (List.range n).map fun (i : Nat) => { index := Int.ofNat i, fitness := [], tag := i }

end Tournament

/-! ### line protocol -/
namespace Tournament
open Util

structure IOState where
  cfg : Option Cfg := none
  pop : List Agent := []

def showKey : Key → String
  | none => "nan"
  | some q => showRat q

/-- canonical observable of one selection: elite (mean, index) then per member of the new
    population (mean of the parent, index, elite-slot flag) -/
def showSelection (c : Cfg) (pop : List Agent) (draws : Nat → List Nat) : String :=
  let ks := keys c.evalLoop pop
  let rank := stableRank ks
  let (e, kids) := plan c rank pop draws
  let el := eliteOf rank pop
  -- which of several tied agents is the elite is left open, hence so is the index it keeps:
  -- the elite slots show `keep` when the index is the parent's own, everything else the number
  let showIdx := fun (parent : Nat) (idx : Int) (slot : Bool) =>
    if slot && idx == (pop.getD parent default).index then "keep" else toString idx
  let head := "E " ++ showKey (ks.getD e none) ++ " " ++ showIdx e el.index true
  let rest := kids.map fun ch =>
    showKey (ks.getD ch.parent none) ++ " " ++ showIdx ch.parent ch.index ch.isElite ++ " " ++
      showBool ch.isElite
  " ; ".intercalate (head :: rest)

def step (s : IOState) : List String → IOState × String
  | ["cfg", t, e, p, w] =>
    match parseNat? t, parseNat? e, parseNat? p, parseNat? w with
    | some t, some e, some p, some w =>
      if e > 1 then (s, "bad-op") else
      let c : Cfg := { tsize := t, elitism := e == 1, popSize := p, evalLoop := w }
      if c.valid then ({ cfg := some c, pop := [] }, "ok") else (s, "reject")
    | _, _, _, _ => (s, "bad-op")
  | "agent" :: idx :: fs =>
    match parseInt? idx, parseRats? fs with
    | some i, some l => ({ s with pop := s.pop ++ [{ index := i, fitness := l, tag := s.pop.length }] }, "ok")
    | _, _ => (s, "bad-op")
  | ["clear"] => ({ s with pop := [] }, "ok")
  | ["means"] =>
    match s.cfg with
    | none => (s, "bad-op")
    | some c => (s, " ".intercalate ((keys c.evalLoop s.pop).map showKey))
  | "ranking" :: ws =>
    -- is the rank array the implementation computed a valid ranking of the current population,
    -- and what is `max_id`
    match s.cfg, parseNats? ws with
    | some c, some r =>
      if s.pop = [] then (s, "reject")
      else (s, showBool (isRankingB (keys c.evalLoop s.pop) r) ++ " " ++ toString (maxId s.pop))
    | _, _ => (s, "bad-op")
  | "select" :: ws =>
    match s.cfg, parseNats? ws with
    | some c, some ds =>
      if s.pop = [] then (s, "reject")                        -- `max([])` raises
      else if ds.length ≠ selSize c * c.tsize then (s, "bad-op")
      else if ds.any (fun d => d ≥ s.pop.length) then (s, "bad-op")
      else
        let cs := chunks c.tsize ds
        (s, showSelection c s.pop (fun t => cs.getD t []))
    | _, _ => (s, "bad-op")
  | _ => (s, "bad-op")

end Tournament
