/-
  Model/Util.lean — parsing / printing helpers shared by every executable model.
  Core Lean only (no Mathlib) so that `driver` links as a `lean_exe`.
-/
namespace Util

def words (s : String) : List String :=
  (s.splitOn " ").filter (fun w => w ≠ "")

def parseNat? (s : String) : Option Nat := s.toNat?
def parseInt? (s : String) : Option Int := s.toInt?

/-- exact rational `n`, `-n`, `n/d` -/
def parseRat? (s : String) : Option Rat :=
  match s.splitOn "/" with
  | [n] => (parseInt? n).map (fun k => (k : Rat))
  | [n, d] =>
    match parseInt? n, parseNat? d with
    | some k, some m => if m = 0 then none else some (mkRat k m)
    | _, _ => none
  | _ => none

def showRat (q : Rat) : String :=
  if q.den = 1 then toString q.num else toString q.num ++ "/" ++ toString q.den

def allSome {α} : List (Option α) → Option (List α)
  | [] => some []
  | none :: _ => none
  | some a :: r => (allSome r).map (a :: ·)

def parseNats? (ws : List String) : Option (List Nat) := allSome (ws.map parseNat?)
def parseInts? (ws : List String) : Option (List Int) := allSome (ws.map parseInt?)
def parseRats? (ws : List String) : Option (List Rat) := allSome (ws.map parseRat?)

def showNats (l : List Nat) : String := " ".intercalate (l.map toString)
def showInts (l : List Int) : String := " ".intercalate (l.map toString)
def showRats (l : List Rat) : String := " ".intercalate (l.map showRat)

def showOptNat : Option Nat → String
  | none => "_"
  | some n => toString n

def showBool (b : Bool) : String := if b then "1" else "0"

/-- split a word list in chunks of `k` -/
def chunks {α} (k : Nat) (l : List α) : List (List α) :=
  if h : k = 0 ∨ l = [] then [] else
    l.take k :: chunks k (l.drop k)
termination_by l.length
decreasing_by
  have : l ≠ [] := by intro e; exact h (Or.inr e)
  have : 0 < l.length := List.length_pos_iff.mpr this
  simp only [List.length_drop]; omega

end Util
