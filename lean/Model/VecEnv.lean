import Model.Util
/-
  Model/VecEnv.lean — executable model of `agilerl.vector.pz_async_vec_env.AsyncPettingZooVecEnv`
  (worker step with auto-reset, shared-memory slices, parent read), of the action transposition in
  `agilerl.vector.pz_vec_env.PettingZooVecEnv.step`, and of
  `agilerl.wrappers.pettingzoo_wrappers.PettingZooAutoResetParallelWrapper.step`.

  What is modelled
  * shared memory: one flat buffer per (agent, key); worker `i` owns `[i*size, (i+1)*size)` of each
    (`write_to_shared_memory`); the parent reads `reshape(num_envs, *shape)` (`Observations.__getitem__`).
    Reshaping *inside* a row is numpy's row-major inverse of `flatten()` and is not modelled: an
    observation member is its flat chunk.
  * a sub-environment is an arbitrary deterministic pair `reset/step`; agents may be absent from the
    dicts `step` returns (`none`); `process_transition` fills `get_placeholder_value`.
  * worker step = step, decide "every agent terminated or truncated", reset if so, choose what is
    written.  `Variant.repaired` returns the first observation (and info) of the new episode,
    `Variant.original` is the code before the repair (the transition tuple was captured before the
    reset): kept for the witness that it hides the first observation.
  * real process scheduling is modelled by `MicroOp`s (one slice write each) applied in any order.
  * shapes (§1b): `shapeSize`, the writer's slice `sliceOf`, the reader's `viewShape`, `bufLen`, `offsetOf`
    (`Gen/VecRecvGen.lean` is the translation of the corresponding source; `Proofs/VecRecvGenEq.lean`).
  Core Lean only.
-/
namespace VecEnv

/-! ## 1. shared memory -/

/-- `np.copyto(dest[start : start + len xs], xs)`: positions outside the slice keep their value -/
def writeSlice {α} (buf : List α) (start : Nat) (xs : List α) : List α :=
  buf.mapIdx (fun k v => if start ≤ k then (xs[k - start]?).getD v else v)

/-- row `i` of `buf.reshape(num_envs, size)` -/
def readRow {α} (buf : List α) (size i : Nat) : List α := (buf.drop (i * size)).take size

/-- `shared_memory[agent][key]` : one flat buffer per (agent, key) -/
abbrev Mem (α : Type) := List (List (List α))

def Mem.buf {α} (m : Mem α) (a k : Nat) : List α := ((m[a]?.getD [])[k]?).getD []

/-- declared flat size of member `k` of agent `a`'s observation space (`int(np.prod(subspace.shape))`) -/
def sizeAt (sizes : List (List Nat)) (a k : Nat) : Nat := ((sizes[a]?.getD [])[k]?).getD 0

def Mem.alloc {α} (z : α) (sizes : List (List Nat)) (n : Nat) : Mem α :=
  sizes.map (fun ks => ks.map (fun sz => List.replicate (n * sz) z))

/-- one slice write of one worker: `chunk` goes to slice `env` of buffer (agent, key) -/
structure MicroOp (α : Type) where
  agent : Nat
  key : Nat
  env : Nat
  size : Nat
  chunk : List α
deriving Repr, DecidableEq

def applyOp {α} (m : Mem α) (op : MicroOp α) : Mem α :=
  m.mapIdx (fun a row =>
    if a = op.agent then
      row.mapIdx (fun k buf => if k = op.key then writeSlice buf (op.env * op.size) op.chunk else buf)
    else row)

/-- `write_to_shared_memory(index = i, observation)` as its list of slice writes;
    `obs[a][k]` is the flat chunk of member `k` of agent `a` -/
def envOps {α} (sizes : List (List Nat)) (i : Nat) (obs : List (List (List α))) : List (MicroOp α) :=
  obs.zipIdx.flatMap (fun p => p.1.zipIdx.map (fun q => ⟨p.2, q.2, i, sizeAt sizes p.2 q.2, q.1⟩))

/-- the writes of all workers, in worker order (any other order gives the same memory:
    `C12_schedule_independent`) -/
def allOps {α} (sizes : List (List Nat)) (obsAll : List (List (List (List α)))) : List (MicroOp α) :=
  obsAll.zipIdx.flatMap (fun p => envOps sizes p.2 p.1)

def writeAll {α} (sizes : List (List Nat)) (m : Mem α) (obsAll : List (List (List (List α)))) : Mem α :=
  (allOps sizes obsAll).foldl applyOp m

/-- what the parent hands out: `[agent][key][env]` rows (`Observations.__getitem__`) -/
def parentObs {α} (m : Mem α) (sizes : List (List Nat)) (n : Nat) : List (List (List (List α))) :=
  sizes.mapIdx (fun a ks => ks.mapIdx (fun k sz => (List.range n).map (fun i => readRow (m.buf a k) sz i)))

/-! ## 1b. shapes, offsets: writer slice and reader row (`write_to_shared_memory`, `Observations.__getitem__`,
       `_create_memory_array`) -/

/-- `int(np.prod(shape))` -/
def shapeSize (shape : List Nat) : Nat := shape.foldl (· * ·) 1

/-- the slice `index * size : (index + 1) * size` the worker `i` writes -/
def sliceOf (size i : Nat) : Nat × Nat := (i * size, i * size + size)

/-- the shape the parent presents a row with: `shape if shape != () else (1,)` -/
def viewShape (shape : List Nat) : List Nat := if shape = [] then [1] else shape

/-- `num_envs * int(np.prod(shape))`: length of the buffer `_create_memory_array` allocates -/
def bufLen (n : Nat) (shape : List Nat) : Nat := n * shapeSize shape

/-- offset of element `j` of worker `i`'s observation in the flat buffer -/
def offsetOf (size i j : Nat) : Nat := i * size + j

/-- flat sizes of the members of every agent's observation space, from their shapes -/
def sizesOf (shapes : List (List (List Nat))) : List (List Nat) := shapes.map (·.map shapeSize)

/-! ## 2. sub-environment, placeholders, worker step -/

structure AgentOut (α R I : Type) where
  obs : List (List α)        -- one flat chunk per member of the agent's observation space
  rew : R
  term : Bool
  trunc : Bool
  info : I
deriving Repr, DecidableEq

/-- a deterministic PettingZoo `ParallelEnv`: `reset(seed)` returns (observation, info) per agent,
    `step(actions)` returns one entry per agent, `none` = the agent is absent from the dicts -/
structure Env (S A α R I : Type) where
  reset : S → Option Nat → S × List (List (List α) × I)
  step : S → List A → S × List (Option (AgentOut α R I))

/-- `get_placeholder_value` -/
structure Placeholder (α R I : Type) where
  obsVal : α
  rew : R
  info : I

variable {S A α R I : Type}

def phObs (P : Placeholder α R I) (ks : List Nat) : List (List α) :=
  ks.map (fun n => List.replicate n P.obsVal)

def phOut (P : Placeholder α R I) (ks : List Nat) : AgentOut α R I :=
  { obs := phObs P ks, rew := P.rew, term := true, trunc := false, info := P.info }

def fillAt (P : Placeholder α R I) (ks : List Nat) : Option (Option (AgentOut α R I)) → AgentOut α R I
  | some (some o) => o
  | _ => phOut P ks

/-- `process_transition` on a step result: one entry per agent of `agents`, placeholders for the absent -/
def fill (P : Placeholder α R I) (sizes : List (List Nat)) (out : List (Option (AgentOut α R I))) :
    List (AgentOut α R I) :=
  sizes.mapIdx (fun a ks => fillAt P ks out[a]?)

def fillResetAt (P : Placeholder α R I) (ks : List Nat) : Option (List (List α) × I) → List (List α) × I
  | some x => x
  | none => (phObs P ks, P.info)

/-- `process_transition` on a reset result -/
def fillReset (P : Placeholder α R I) (sizes : List (List Nat)) (r : List (List (List α) × I)) :
    List (List (List α) × I) :=
  sizes.mapIdx (fun a ks => fillResetAt P ks r[a]?)

/-- every agent terminated or truncated -/
def allDone (outs : List (AgentOut α R I)) : Bool := outs.all (fun o => o.term || o.trunc)

def showResetAt (o : AgentOut α R I) : Option (List (List α) × I) → AgentOut α R I
  | some x => { o with obs := x.1, info := x.2 }
  | none => o

/-- observation and info of the new episode, reward / termination / truncation of the finished step -/
def showReset (outs : List (AgentOut α R I)) (r : List (List (List α) × I)) : List (AgentOut α R I) :=
  outs.mapIdx (fun a o => showResetAt o r[a]?)

/-- SPECIFICATION: one sub-environment stepped alone under the auto-reset rule -/
def refStep (P : Placeholder α R I) (sizes : List (List Nat)) (E : Env S A α R I) (s : S) (acts : List A) :
    S × List (AgentOut α R I) :=
  let r := E.step s acts
  let outs := fill P sizes r.2
  if allDone outs then
    let q := E.reset r.1 none
    (q.1, showReset outs (fillReset P sizes q.2))
  else (r.1, outs)

inductive Variant | repaired | original
deriving Repr, DecidableEq

/-- `_async_worker`, command "step": new sub-env state and what is written / sent -/
def workerStep (v : Variant) (P : Placeholder α R I) (sizes : List (List Nat)) (E : Env S A α R I)
    (s : S) (acts : List A) : S × List (AgentOut α R I) :=
  let r := E.step s acts
  let outs := fill P sizes r.2
  if allDone outs then
    let q := E.reset r.1 none
    (q.1, match v with
          | .repaired => showReset outs (fillReset P sizes q.2)
          | .original => outs)            -- transition tuple captured before the reset
  else (r.1, outs)

/-! ## 3. parent: action transposition, gathering replies, step / reset of the vector env -/

/-- the actions of sub-environment `i`: `[actions[agent][i] for agent in agents]` -/
def col (dA : A) (acts : List (List A)) (i : Nat) : List A := acts.map (fun row => row.getD i dA)

/-- `PettingZooVecEnv.step`: dict agent → array over envs ↦ list over envs of per-agent lists -/
def transposeActs (dA : A) (n : Nat) (acts : List (List A)) : List (List A) :=
  (List.range n).map (col dA acts)

/-- `rewards[agent].append(env_step_return[0][agent])` for every pipe in index order -/
def gather {β γ} (f : β → γ) (nA : Nat) (replies : List (List β)) : List (List γ) :=
  (List.range nA).map (fun a => replies.filterMap (fun r => r[a]?.map f))

structure Batch (α R I : Type) where
  obs : List (List (List (List α)))      -- [agent][key][env] rows
  rew : List (List R)                    -- [agent][env]
  term : List (List Bool)
  trunc : List (List Bool)
  info : List (List I)
deriving Repr

structure ResetBatch (α I : Type) where
  obs : List (List (List (List α)))
  info : List (List I)
deriving Repr

structure Sys (S α : Type) where
  envs : List S          -- worker-local sub-environment states
  mem : Mem α
deriving Repr

def vecStep (v : Variant) (P : Placeholder α R I) (sizes : List (List Nat)) (E : Nat → Env S A α R I)
    (dA : A) (sys : Sys S α) (acts : List (List A)) : Sys S α × Batch α R I :=
  let n := sys.envs.length
  let perEnv := transposeActs dA n acts
  let results := sys.envs.mapIdx (fun i s => workerStep v P sizes (E i) s (perEnv.getD i []))
  let replies := results.map (·.2)
  let mem' := writeAll sizes sys.mem (replies.map (fun r => r.map (·.obs)))
  (⟨results.map (·.1), mem'⟩,
   { obs := parentObs mem' sizes n,
     rew := gather (·.rew) sizes.length replies,
     term := gather (·.term) sizes.length replies,
     trunc := gather (·.trunc) sizes.length replies,
     info := gather (·.info) sizes.length replies })

def vecReset (P : Placeholder α R I) (sizes : List (List Nat)) (E : Nat → Env S A α R I)
    (sys : Sys S α) (seed : Option Nat) : Sys S α × ResetBatch α I :=
  let n := sys.envs.length
  let results := sys.envs.mapIdx (fun i s =>
    let q := (E i).reset s (seed.map (· + i))
    (q.1, fillReset P sizes q.2))
  let replies := results.map (·.2)
  let mem' := writeAll sizes sys.mem (replies.map (fun r => r.map (·.1)))
  (⟨results.map (·.1), mem'⟩,
   { obs := parentObs mem' sizes n, info := gather (·.2) sizes.length replies })

/-- position `i` of the returned fields -/
def Batch.obsAt (B : Batch α R I) (a k i : Nat) : Option (List α) := (B.obs[a]?.bind (·[k]?)).bind (·[i]?)
def Batch.rewAt (B : Batch α R I) (a i : Nat) : Option R := B.rew[a]?.bind (·[i]?)
def Batch.termAt (B : Batch α R I) (a i : Nat) : Option Bool := B.term[a]?.bind (·[i]?)
def Batch.truncAt (B : Batch α R I) (a i : Nat) : Option Bool := B.trunc[a]?.bind (·[i]?)
def Batch.infoAt (B : Batch α R I) (a i : Nat) : Option I := B.info[a]?.bind (·[i]?)
def ResetBatch.obsAt (B : ResetBatch α I) (a k i : Nat) : Option (List α) := (B.obs[a]?.bind (·[k]?)).bind (·[i]?)
def ResetBatch.infoAt (B : ResetBatch α I) (a i : Nat) : Option I := B.info[a]?.bind (·[i]?)

/-- the vector env driven by a whole action sequence -/
def vecRun (v : Variant) (P : Placeholder α R I) (sizes : List (List Nat)) (E : Nat → Env S A α R I)
    (dA : A) : Sys S α → List (List (List A)) → List (Batch α R I)
  | _, [] => []
  | sys, acts :: rest =>
    let r := vecStep v P sizes E dA sys acts
    r.2 :: vecRun v P sizes E dA r.1 rest

/-- SPECIFICATION: one sub-environment alone, driven by its own action sequence -/
def refRun (P : Placeholder α R I) (sizes : List (List Nat)) (E : Env S A α R I) :
    S → List (List A) → List (List (AgentOut α R I))
  | _, [] => []
  | s, acts :: rest =>
    let r := refStep P sizes E s acts
    r.2 :: refRun P sizes E r.1 rest

/-! ## 4. the single-environment auto-reset wrapper -/

/-- every agent present in the dicts terminated or truncated -/
def presentDone (out : List (Option (AgentOut α R I))) : Bool :=
  out.all (fun | some o => o.term || o.trunc | none => true)

/-- `np.all(list(terminations.values()) or list(truncations.values()))`: a non-empty list is truthy,
    so only the terminations are looked at (truncations only when there is no agent at all) -/
def origWrapperCond (out : List (Option (AgentOut α R I))) : Bool :=
  out.all (fun | some o => o.term | none => true)

structure WrapOut (α R I : Type) where
  obsInfo : List (Option (List (List α) × I))      -- obs / info dicts
  rest : List (Option (R × Bool × Bool))           -- reward / termination / truncation dicts
deriving Repr, DecidableEq

def wrapperStep (v : Variant) (E : Env S A α R I) (s : S) (acts : List A) : S × WrapOut α R I :=
  let r := E.step s acts
  let rest := r.2.map (Option.map (fun o => (o.rew, o.term, o.trunc)))
  let cond := match v with | .repaired => presentDone r.2 | .original => origWrapperCond r.2
  if cond then
    let q := E.reset r.1 none
    (q.1, ⟨q.2.map some, rest⟩)
  else (r.1, ⟨r.2.map (Option.map (fun o => (o.obs, o.info))), rest⟩)

/-! ## 5. the scripted counting environment of `harness/envs.py` -/

inductive Ending | term | trunc | mixed | both
deriving Repr, DecidableEq

structure Script where
  id : Nat := 0
  lens : List Nat := [1]
  kinds : List Ending := [.term]
  leave : List Nat := []
  /-- per-episode leave vectors, cycled by episode like `lens` (episodes with different finishing orders of the
      agents); empty = `leave` applies to every episode -/
  leaves : List (List Nat) := []
  sizes : List (List Nat) := []
deriving Repr

structure EState where
  ep : Nat := 0
  t : Nat := 0
  salt : Nat := 0
deriving Repr, DecidableEq

inductive Info
  | none
  | step (e p t a : Nat) (acode : Rat)
  | reset (e p a : Nat) (seed : Int)
deriving Repr, DecidableEq

def chunkVals (e p t a k z n : Nat) : List Int :=
  (List.range n).map (fun j => ((([e, p, t, a, k, z].getD (j % 6) 0 + j / 6) % 100 : Nat) : Int))

def Script.lenOf (c : Script) (ep : Nat) : Nat := max 1 (c.lens.getD ((ep - 1) % c.lens.length) 1)
def Script.kindOf (c : Script) (ep : Nat) : Ending := c.kinds.getD ((ep - 1) % c.kinds.length) .term

/-- the step at which agent `a` leaves episode `ep` (0 = stays) -/
def Script.leaveOf (c : Script) (ep a : Nat) : Nat :=
  if c.leaves.isEmpty then c.leave.getD a 0
  else (c.leaves.getD ((ep - 1) % c.leaves.length) []).getD a 0

def Ending.flags : Ending → Nat → Bool × Bool
  | .term, _ => (true, false)
  | .trunc, _ => (false, true)
  | .both, _ => (true, true)
  | .mixed, a => if a % 2 = 0 then (true, false) else (false, true)

def Script.obsOf (c : Script) (s : EState) (a : Nat) : List (List Int) :=
  (c.sizes.getD a []).mapIdx (fun k n => chunkVals c.id s.ep s.t a k s.salt n)

def scripted (c : Script) : Env EState Rat Int Rat Info where
  reset := fun s seed =>
    let s' : EState := { ep := s.ep + 1, t := 0, salt := match seed with | some x => x % 50 | none => s.salt }
    (s', (List.range c.sizes.length).map (fun a =>
      (c.obsOf s' a, Info.reset c.id s'.ep a (match seed with | some x => (x : Int) | none => -1))))
  step := fun s acts =>
    let s' : EState := { s with t := s.t + 1 }
    let L := c.lenOf s.ep
    let kind := c.kindOf s.ep
    (s', (List.range c.sizes.length).map (fun a =>
      let k := c.leaveOf s.ep a
      let leaves := decide (0 < k) && decide (k < L)
      if leaves && decide (s'.t > k) then none
      else
        let fin := decide (s'.t ≥ L) || (leaves && decide (s'.t = k))
        let fl := if fin then kind.flags a else (false, false)
        let code := acts.getD a 0
        some { obs := c.obsOf s' a,
               rew := code + 100 * (s'.t : Rat) + 10000 * (a : Rat) + 100000 * (c.id : Rat),
               term := fl.1, trunc := fl.2,
               info := Info.step c.id s'.ep s'.t a code }))

def scriptedPh : Placeholder Int Rat Info := { obsVal := -1, rew := 0, info := .none }

end VecEnv

/-! ## 6. line protocol -/
namespace VecEnv
open Util

structure IOState where
  variant : Variant := .repaired
  nEnvs : Nat := 0
  sizes : List (List Nat) := []
  scripts : List Script := []
  sys : Sys EState Int := ⟨[], []⟩
  ready : Bool := false
  wscript : Script := {}
  wstate : EState := {}
  wready : Bool := false

def parseVariant? : String → Option Variant
  | "repaired" => some .repaired
  | "original" => some .original
  | _ => none

def parseEnding? : String → Option Ending
  | "term" => some .term
  | "trunc" => some .trunc
  | "mixed" => some .mixed
  | "both" => some .both
  | _ => none

def parseSeed? : String → Option (Option Nat)
  | "none" => some none
  | w => (parseNat? w).map some

/-- `<id> <nl> l_1 … l_nl <nk> k_1 … k_nk leave_0 … leave_{A-1}`, optionally followed by further groups of `A`
    leave steps: with `m > 1` groups, group `(p - 1) % m` applies to episode `p` -/
def parseScript? (sizes : List (List Nat)) (ws : List String) : Option Script :=
  match ws with
  | id :: nl :: rest =>
    match parseNat? id, parseNat? nl with
    | some id, some nl =>
      if nl = 0 ∨ rest.length < nl + 1 then none else
      match parseNats? (rest.take nl), parseNat? (rest.getD nl "") with
      | some lens, some nk =>
        let rest2 := rest.drop (nl + 1)
        let A := sizes.length
        if nk = 0 ∨ A = 0 ∨ rest2.length < nk + A ∨ (rest2.length - nk) % A ≠ 0 then none else
        match allSome ((rest2.take nk).map parseEnding?), parseNats? (rest2.drop nk) with
        | some kinds, some leave =>
          if lens.any (· = 0) then none
          else if leave.length = A then some { id := id, lens := lens, kinds := kinds, leave := leave, sizes := sizes }
          else some { id := id, lens := lens, kinds := kinds, leave := leave.take A, leaves := chunks A leave,
                      sizes := sizes }
        | _, _ => none
      | _, _ => none
    | _, _ => none
  | _ => none

/-- canonical text of one observation member: its provenance `e.p.t.a.k.z`, `PH` for the placeholder,
    `MIXED` when the chunk is not a chunk any scripted environment produces -/
def showChunk (c : List Int) : String :=
  if c.isEmpty then "EMPTY"
  else if c.all (· == -1) then "PH"
  else
    let base := (List.range 6).map (fun j => c.getD j (-1))
    let ok := (List.range c.length).all (fun j =>
      c.getD j (-2) == (((base.getD (j % 6) 0) + (j / 6 : Nat)) % 100))
    if ok && c.all (· ≥ 0) then ".".intercalate (base.map toString) else "MIXED"

def showInfo : Info → String
  | .none => "-"
  | .step e p t a code => s!"s:{e}.{p}.{t}.{a}:{showRat code}"
  | .reset e p a seed => s!"r:{e}.{p}.0.{a}:{seed}"

def showOpt {β} (f : β → String) : Option β → String
  | some x => f x
  | none => "?"

def showObs (chunks : List (Option (List Int))) : String :=
  ",".intercalate (chunks.map (showOpt showChunk))

def showStepBatch (sizes : List (List Nat)) (n : Nat) (B : Batch Int Rat Info) : String :=
  " | ".intercalate ((List.range n).map (fun i =>
    " ; ".intercalate (sizes.mapIdx (fun a ks =>
      s!"o={showObs ((List.range ks.length).map (fun k => B.obsAt a k i))} " ++
      s!"r={showOpt showRat (B.rewAt a i)} t={showOpt showBool (B.termAt a i)} " ++
      s!"u={showOpt showBool (B.truncAt a i)} n={showOpt showInfo (B.infoAt a i)}"))))

def showResetBatch (sizes : List (List Nat)) (n : Nat) (B : ResetBatch Int Info) : String :=
  " | ".intercalate ((List.range n).map (fun i =>
    " ; ".intercalate (sizes.mapIdx (fun a ks =>
      s!"o={showObs ((List.range ks.length).map (fun k => B.obsAt a k i))} " ++
      s!"n={showOpt showInfo (B.infoAt a i)}"))))

def showWrap (w : WrapOut Int Rat Info) : String :=
  " ; ".intercalate ((List.zip w.obsInfo w.rest).map (fun p =>
    (match p.1 with
     | some (o, inf) => s!"o={showObs (o.map some)} n={showInfo inf}"
     | none => "o=- n=-") ++ " " ++
    (match p.2 with
     | some (r, t, u) => s!"r={showRat r} t={showBool t} u={showBool u}"
     | none => "r=- t=- u=-")))

def envOf (s : IOState) (i : Nat) : Env EState Rat Int Rat Info :=
  scripted (s.scripts.getD i { sizes := s.sizes })

def step (s : IOState) : List String → IOState × String
  | ["new", n, v] =>
    match parseNat? n, parseVariant? v with
    | some n, some v => if n = 0 then (s, "reject") else ({ variant := v, nEnvs := n }, "ok")
    | _, _ => (s, "bad-op")
  | "sizes" :: a :: ws =>
    match parseNat? a, parseNats? ws with
    | some a, some ks =>
      if a ≠ s.sizes.length ∨ ks.isEmpty ∨ s.ready ∨ ¬ s.scripts.isEmpty then (s, "bad-op")
      else ({ s with sizes := s.sizes ++ [ks] }, "ok")
    | _, _ => (s, "bad-op")
  | "env" :: i :: ws =>
    match parseNat? i, parseScript? s.sizes ws with
    | some i, some c =>
      if i ≠ s.scripts.length ∨ i ≥ s.nEnvs ∨ s.sizes.isEmpty ∨ s.ready then (s, "bad-op")
      else ({ s with scripts := s.scripts ++ [c] }, "ok")
    | _, _ => (s, "bad-op")
  | ["alloc"] =>
    if s.scripts.length ≠ s.nEnvs ∨ s.nEnvs = 0 ∨ s.sizes.isEmpty then (s, "bad-op")
    else ({ s with sys := ⟨List.replicate s.nEnvs {}, Mem.alloc 0 s.sizes s.nEnvs⟩, ready := true }, "ok")
  | ["reset", seed] =>
    match parseSeed? seed with
    | some seed =>
      if ¬ s.ready then (s, "bad-op") else
      let r := vecReset scriptedPh s.sizes (envOf s) s.sys seed
      ({ s with sys := r.1 }, showResetBatch s.sizes s.nEnvs r.2)
    | none => (s, "bad-op")
  | "step" :: ws =>
    match parseRats? ws with
    | some xs =>
      if ¬ s.ready then (s, "bad-op")
      else if xs.length ≠ s.sizes.length * s.nEnvs then (s, "reject")
      else
        let acts := chunks s.nEnvs xs            -- agent-major: acts[agent][env]
        let r := vecStep s.variant scriptedPh s.sizes (envOf s) 0 s.sys acts
        ({ s with sys := r.1 }, showStepBatch s.sizes s.nEnvs r.2)
    | none => (s, "bad-op")
  | ["state"] =>
    (s, " ".intercalate (s.sys.envs.map (fun e => s!"{e.ep}.{e.t}.{e.salt}")))
  | "wnew" :: v :: ws =>
    match parseVariant? v, parseScript? s.sizes ws with
    | some v, some c =>
      if s.sizes.isEmpty then (s, "bad-op")
      else ({ s with variant := v, wscript := c, wstate := {}, wready := true }, "ok")
    | _, _ => (s, "bad-op")
  | ["wreset", seed] =>
    match parseSeed? seed with
    | some seed =>
      if ¬ s.wready then (s, "bad-op") else
      let q := (scripted s.wscript).reset s.wstate seed
      ({ s with wstate := q.1 }, showWrap ⟨q.2.map some, q.2.map (fun _ => none)⟩)
    | none => (s, "bad-op")
  | "wstep" :: ws =>
    match parseRats? ws with
    | some xs =>
      if ¬ s.wready then (s, "bad-op")
      else if xs.length ≠ s.sizes.length then (s, "reject")
      else
        let r := wrapperStep s.variant (scripted s.wscript) s.wstate xs
        ({ s with wstate := r.1 }, showWrap r.2)
    | none => (s, "bad-op")
  | ["wstate"] => (s, s!"{s.wstate.ep}.{s.wstate.t}.{s.wstate.salt}")
  | _ => (s, "bad-op")

end VecEnv
