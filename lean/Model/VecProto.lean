import Model.Util
/-
  Model/VecProto.lean — executable protocol model of
  `agilerl.vector.pz_async_vec_env.AsyncPettingZooVecEnv` (async state machine + worker faults).
  Core Lean only.

  What is modelled (read off the code, method by method):
    * `_state ∈ {DEFAULT, WAITING_RESET, WAITING_STEP, WAITING_CALL}`, the `closed` flag, the guards
      of every public method and the error class each guard raises;
    * per worker: process status, the parent's end of the pipe (`open` / `None` after
      `_raise_if_errors`), the replies readable from the pipe, the commands queued behind a
      sleeping command, the per-command counters the fault script refers to;
    * the global `error_queue`;
    * `_poll_pipe_envs`, the `recv` loops, `_raise_if_errors`, `set_attr`, `close`/`close_extras`.

  Explicit ASSUMPTIONS (OS / runtime behaviour, not derived; validated only by fault injection):
    A1  a live worker answers a command "at once" (before the parent's next call);
    A2  `send` to a worker whose process has ended raises `BrokenPipeError`, `send` to a pipe that
        `_raise_if_errors` replaced by `None` raises `AttributeError`;
    A3  `recv` from an ended worker returns what is still buffered, then raises `EOFError`;
        `poll` on such a pipe is `True`;
    A4  a scripted `sleep` outlasts every *timed* wait and is finite for an untimed one: a blocking
        `recv`/`join` on a sleeping worker wakes it; a timed `poll` on it is `False`;
    A5  `recv` from a live, idle worker with nothing buffered blocks forever (outcome `hang`);
        `error_queue.get()` on an empty queue blocks forever;
    A6  `Process.terminate()` ends a live or sleeping worker; `join` returns iff the process ends;
    A7  errors of one batch enter the error queue in worker order.

  `fixed = false` is the code before fixes/C13-close-after-worker-death.diff, `fixed = true` the
  repaired code (waits reset `_state` when a pipe is dead; `close_extras` never propagates a pipe
  or worker error and always terminates + joins).
-/
namespace VecProto

inductive AState | default | wreset | wstep | wcall
deriving DecidableEq, Repr

/-- commands a worker understands (`close` is never the target of a scripted fault) -/
inductive Cmd | reset | step | call | setattr | close
deriving DecidableEq, Repr

inductive Fault | raise (t : Nat) | sleep | kill
deriving DecidableEq, Repr

/-- at the `at`-th (0-based) `cmd` executed by this worker do `kind` -/
structure FaultAt where
  cmd : Cmd
  at_ : Nat
  kind : Fault
deriving DecidableEq, Repr

inductive WSt | alive | hung | exited
deriving DecidableEq, Repr

inductive Reply | okR | failR
deriving DecidableEq, Repr

/-- error classes seen by the caller -/
inductive Exc
  | alreadyPending      -- gymnasium.error.AlreadyPendingCallError
  | noAsyncCall         -- gymnasium.error.NoAsyncCallError
  | closedEnv           -- gymnasium.error.ClosedEnvironmentError
  | timeout             -- multiprocessing.TimeoutError
  | eof                 -- EOFError            (A3)
  | brokenPipe          -- BrokenPipeError     (A2)
  | attributeError      -- AttributeError      (A2: `None.send`)
  | worker (t : Nat)    -- the exception type `t` raised inside a sub-environment
deriving DecidableEq, Repr

inductive Outcome | ok | err (e : Exc) | hang
deriving DecidableEq, Repr

/-- the error queue: (worker index, exception type) -/
abbrev ErrQ := List (Nat × Nat)

structure Worker where
  idx : Nat
  st : WSt := .alive
  pipeOpen : Bool := true          -- parent's end: `false` = `None`/closed
  inbox : List Reply := []         -- replies the parent can `recv` now
  backlog : List Cmd := []         -- commands queued behind a sleeping command
  cReset : Nat := 0
  cStep : Nat := 0
  cCall : Nat := 0
  cSet : Nat := 0
  faults : List FaultAt := []
deriving DecidableEq, Repr

def Worker.count (w : Worker) : Cmd → Nat
  | .reset => w.cReset | .step => w.cStep | .call => w.cCall | .setattr => w.cSet | .close => 0

def Worker.bump (w : Worker) : Cmd → Worker
  | .reset => { w with cReset := w.cReset + 1 }
  | .step => { w with cStep := w.cStep + 1 }
  | .call => { w with cCall := w.cCall + 1 }
  | .setattr => { w with cSet := w.cSet + 1 }
  | .close => w

def lookupFault (fs : List FaultAt) (c : Cmd) (k : Nat) : Option Fault :=
  (fs.find? (fun f => f.cmd = c ∧ f.at_ = k)).map (·.kind)

/-- a live worker executes one command (`_async_worker` loop body + its `except`/`finally`) -/
def Worker.run (w : Worker) (c : Cmd) : Worker × ErrQ :=
  match c with
  | .close => ({ w with st := .exited, inbox := w.inbox ++ [.okR] }, [])
  | _ =>
    let w1 := w.bump c
    match lookupFault w.faults c (w.count c) with
    | none => ({ w1 with inbox := w1.inbox ++ [.okR] }, [])
    | some (.raise t) => ({ w1 with st := .exited, inbox := w1.inbox ++ [.failR] }, [(w.idx, t)])
    | some .kill => ({ w1 with st := .exited }, [])
    | some .sleep => ({ w1 with st := .hung, backlog := [] }, [])

/-- run queued commands while the worker stays alive; what is left stays queued if it sleeps again -/
def Worker.runList (w : Worker) : List Cmd → Worker × ErrQ
  | [] => (w, [])
  | c :: cs =>
    match w.st with
    | .alive =>
      let (w1, e1) := w.run c
      match w1.st with
      | .alive => let (w2, e2) := w1.runList cs; (w2, e1 ++ e2)
      | .hung => ({ w1 with backlog := cs }, e1)
      | .exited => (w1, e1)
    | _ => (w, [])

/-- the sleeping command finishes (reply ok), then the queued commands run -/
def Worker.wake (w : Worker) : Worker × ErrQ :=
  ({ w with st := .alive, inbox := w.inbox ++ [.okR], backlog := [] } : Worker).runList w.backlog

/-- the parent's `pipe.send` reached the worker -/
def Worker.deliver (w : Worker) (c : Cmd) : Worker × ErrQ :=
  match w.st with
  | .alive => w.run c
  | .hung => ({ w with backlog := w.backlog ++ [c] }, [])
  | .exited => (w, [])

/-- wake a sleeping worker again and again until it is alive or gone (`fuel` ≥ queued commands + 1) -/
def Worker.drain : Nat → Worker → Worker × ErrQ
  | 0, w => (w, [])
  | n + 1, w =>
    match w.st with
    | .hung => let (w1, e1) := w.wake; let (w2, e2) := Worker.drain n w1; (w2, e1 ++ e2)
    | _ => (w, [])

/-- `for pipe in parent_pipes: pipe.send(cmd)` — stops at the first failing send -/
def sendAll (c : Cmd) : List Worker → List Worker × ErrQ × Option Exc
  | [] => ([], [], none)
  | w :: ws =>
    if w.pipeOpen = false then (w :: ws, [], some .attributeError)
    else if w.st = .exited then (w :: ws, [], some .brokenPipe)
    else
      let (w1, e1) := w.deliver c
      let (ws1, e2, r) := sendAll c ws
      (w1 :: ws1, e1 ++ e2, r)

/-- close_extras: `if pipe is not None and not pipe.closed: pipe.send(("close", None))` -/
def sendClose : List Worker → List Worker × ErrQ × Option Exc
  | [] => ([], [], none)
  | w :: ws =>
    if w.pipeOpen = false then
      let (ws1, e2, r) := sendClose ws
      (w :: ws1, e2, r)
    else if w.st = .exited then (w :: ws, [], some .brokenPipe)
    else
      let (w1, e1) := w.deliver .close
      let (ws1, e2, r) := sendClose ws
      (w1 :: ws1, e1 ++ e2, r)

inductive Recv | got (r : Reply) | eof | block | noPipe
deriving DecidableEq, Repr

/-- one blocking `pipe.recv()` -/
def Worker.recv (w : Worker) : Worker × ErrQ × Recv :=
  if w.pipeOpen = false then (w, [], .noPipe)
  else match w.inbox with
    | r :: rest => ({ w with inbox := rest }, [], .got r)
    | [] =>
      match w.st with
      | .exited => (w, [], .eof)
      | .alive => (w, [], .block)
      | .hung =>
        let (w1, e1) := w.wake
        match w1.inbox with
        | r :: rest => ({ w1 with inbox := rest }, e1, .got r)
        | [] => (w1, e1, .block)

inductive RecvAll | done (rs : List Reply) | err (e : Exc) | hang
deriving DecidableEq, Repr

def RecvAll.cons (r : Reply) : RecvAll → RecvAll
  | .done rs => .done (r :: rs)
  | x => x

/-- `[pipe.recv() for pipe in parent_pipes]` — stops at the first exception -/
def recvAll : List Worker → List Worker × ErrQ × RecvAll
  | [] => ([], [], .done [])
  | w :: ws =>
    match w.recv with
    | (w1, e1, .got r) =>
      let (ws1, e2, res) := recvAll ws
      (w1 :: ws1, e1 ++ e2, res.cons r)
    | (w1, e1, .eof) => (w1 :: ws, e1, .err .eof)
    | (w1, e1, .block) => (w1 :: ws, e1, .hang)
    | (w1, e1, .noPipe) => (w1 :: ws, e1, .err .attributeError)

/-- close_extras: `if pipe is not None and not pipe.closed: pipe.recv()` -/
def recvClose : List Worker → List Worker × ErrQ × RecvAll
  | [] => ([], [], .done [])
  | w :: ws =>
    if w.pipeOpen = false then
      let (ws1, e2, res) := recvClose ws
      (w :: ws1, e2, res)
    else match w.recv with
    | (w1, e1, .got r) =>
      let (ws1, e2, res) := recvClose ws
      (w1 :: ws1, e1 ++ e2, res.cons r)
    | (w1, e1, .eof) => (w1 :: ws, e1, .err .eof)
    | (w1, e1, .block) => (w1 :: ws, e1, .hang)
    | (w1, e1, .noPipe) => (w1 :: ws, e1, .err .attributeError)

/-- `_poll_pipe_envs(timeout)` with a timeout: every pipe has something to read now -/
def Worker.ready (w : Worker) : Bool :=
  w.pipeOpen && (!w.inbox.isEmpty || w.st = .exited)

def pollAll (ws : List Worker) : Bool := ws.all Worker.ready

def closePipe (i : Nat) (ws : List Worker) : List Worker :=
  ws.map (fun w => if w.idx = i then { w with pipeOpen := false } else w)

def closePipes (is : List Nat) (ws : List Worker) : List Worker :=
  is.foldl (fun acc i => closePipe i acc) ws

def countFail (rs : List Reply) : Nat := rs.count .failR

structure State where
  fixed : Bool := true
  astate : AState := .default
  closed : Bool := false
  ws : List Worker := []
  errq : ErrQ := []
deriving DecidableEq, Repr

/-- `_raise_if_errors(successes)` followed by `self._state = DEFAULT` of the wait -/
def raiseIfErrors (s : State) (rs : List Reply) : State × Outcome :=
  let n := countFail rs
  if n = 0 then ({ s with astate := .default }, .ok)
  else if s.errq.length < n then (s, .hang)                       -- A5
  else
    let popped := s.errq.take n
    let ws' := closePipes (popped.map (·.1)) s.ws
    match popped.getLast? with
    | some (_, t) => ({ s with ws := ws', errq := s.errq.drop n, astate := .default }, .err (.worker t))
    | none => (s, .hang)

/-- body of `reset_wait` / `step_wait` / `call_wait` after the guards; also the tail of `set_attr` -/
def waitCore (s : State) (timed : Bool) : State × Outcome :=
  if timed && !pollAll s.ws then ({ s with astate := .default }, .err .timeout)
  else
    match recvAll s.ws with
    | (ws1, e, .hang) => ({ s with ws := ws1, errq := s.errq ++ e }, .hang)
    | (ws1, e, .err x) =>
      let st' := if s.fixed && x = .eof then AState.default else s.astate
      ({ s with ws := ws1, errq := s.errq ++ e, astate := st' }, .err x)
    | (ws1, e, .done rs) => raiseIfErrors { s with ws := ws1, errq := s.errq ++ e } rs

def asyncOp (s : State) (c : Cmd) (target : AState) : State × Outcome :=
  if s.closed then (s, .err .closedEnv)
  else if s.astate ≠ .default then (s, .err .alreadyPending)
  else
    match sendAll c s.ws with
    | (ws1, e, some x) => ({ s with ws := ws1, errq := s.errq ++ e }, .err x)
    | (ws1, e, none) => ({ s with ws := ws1, errq := s.errq ++ e, astate := target }, .ok)

def waitOp (s : State) (expected : AState) (timed : Bool) : State × Outcome :=
  if s.closed then (s, .err .closedEnv)
  else if s.astate ≠ expected then (s, .err .noAsyncCall)
  else waitCore s timed

def setAttrOp (s : State) : State × Outcome :=
  if s.closed then (s, .err .closedEnv)
  else if s.astate ≠ .default then (s, .err .alreadyPending)
  else
    match sendAll .setattr s.ws with
    | (ws1, e, some x) => ({ s with ws := ws1, errq := s.errq ++ e }, .err x)
    | (ws1, e, none) => waitCore { s with ws := ws1, errq := s.errq ++ e } false

def terminateAll (ws : List Worker) : List Worker :=
  ws.map (fun w => { w with st := .exited, pipeOpen := false })

/-- `pipe.close()` for all, then `process.join()` for all (A4, A6) -/
def joinAll : List Worker → List Worker × ErrQ × Bool
  | [] => ([], [], true)
  | w :: ws =>
    let (w1, e1) := Worker.drain (w.backlog.length + 1) w
    let (ws1, e2, okRest) := joinAll ws
    ({ w1 with pipeOpen := false } :: ws1, e1 ++ e2, decide (w1.st = .exited) && okRest)

/-- the graceful branch of `close_extras` and the final close/join.
    result: `none` = finished, `some o` = raised / hung with outcome `o` -/
def closeTail (s : State) (terminate : Bool) : State × Outcome :=
  if terminate then ({ s with ws := terminateAll s.ws, closed := true }, .ok)
  else
    match sendClose s.ws with
    | (ws1, e1, some x) =>
      let s1 := { s with ws := ws1, errq := s.errq ++ e1 }
      if s.fixed then ({ s1 with ws := terminateAll s1.ws, closed := true }, .ok)
      else (s1, .err x)
    | (ws1, e1, none) =>
      match recvClose ws1 with
      | (ws2, e2, .hang) => ({ s with ws := ws2, errq := s.errq ++ e1 ++ e2 }, .hang)
      | (ws2, e2, .err x) =>
        let s2 := { s with ws := ws2, errq := s.errq ++ e1 ++ e2 }
        if s.fixed then ({ s2 with ws := terminateAll s2.ws, closed := true }, .ok)
        else (s2, .err x)
      | (ws2, e2, .done _) =>
        match joinAll ws2 with
        | (ws3, e3, true) => ({ s with ws := ws3, errq := s.errq ++ e1 ++ e2 ++ e3, closed := true }, .ok)
        | (ws3, e3, false) => ({ s with ws := ws3, errq := s.errq ++ e1 ++ e2 ++ e3 }, .hang)

/-- `close(timeout=…, terminate=…)`; `timed` = a timeout was given -/
def closeOp (s : State) (timed terminate : Bool) : State × Outcome :=
  if s.closed then (s, .ok)
  else if s.astate = .default then closeTail s terminate
  else
    -- `function = getattr(self, f"{state}_wait"); function(timeout)`  (timeout = 0 if terminate)
    match waitCore s (timed || terminate) with
    | (s1, .ok) => closeTail s1 terminate
    | (s1, .err .timeout) => closeTail s1 true
    | (s1, .hang) => (s1, .hang)
    | (s1, .err x) =>
      if s.fixed then
        -- a dead pipe forces termination; a worker's own exception is logged and the rest is
        -- shut down gracefully
        closeTail s1 (terminate || x = .eof || x = .brokenPipe)
      else (s1, .err x)

inductive Op
  | resetAsync | resetWait (timed : Bool)
  | stepAsync | stepWait (timed : Bool)
  | callAsync | callWait (timed : Bool)
  | setAttr
  | close (timed terminate : Bool)
deriving DecidableEq, Repr

def State.step (s : State) : Op → State × Outcome
  | .resetAsync => asyncOp s .reset .wreset
  | .stepAsync => asyncOp s .step .wstep
  | .callAsync => asyncOp s .call .wcall
  | .resetWait t => waitOp s .wreset t
  | .stepWait t => waitOp s .wstep t
  | .callWait t => waitOp s .wcall t
  | .setAttr => setAttrOp s
  | .close t k => closeOp s t k

/-- a `hang` never returns: nothing after it is executed -/
def State.runOps (s : State) : List Op → State × List Outcome
  | [] => (s, [])
  | op :: ops =>
    match s.step op with
    | (s1, .hang) => (s1, [.hang])
    | (s1, o) => let (s2, os) := s1.runOps ops; (s2, o :: os)

def mkWorkers (n : Nat) (script : List (Nat × FaultAt)) : List Worker :=
  (List.range n).map (fun i =>
    { idx := i, faults := (script.filter (fun p => p.1 = i)).map (·.2) })

def init (fixed : Bool) (n : Nat) (script : List (Nat × FaultAt)) : State :=
  { fixed := fixed, ws := mkWorkers n script }

end VecProto

/-! ### line protocol -/
namespace VecProto
open Util

structure IOState where
  st : State := {}
  hung : Bool := false      -- a previous op never returned

def showAState : AState → String
  | .default => "default" | .wreset => "reset" | .wstep => "step" | .wcall => "call"

def showExc : Exc → String
  | .alreadyPending => "AlreadyPendingCallError"
  | .noAsyncCall => "NoAsyncCallError"
  | .closedEnv => "ClosedEnvironmentError"
  | .timeout => "mp.TimeoutError"
  | .eof => "EOFError"
  | .brokenPipe => "BrokenPipeError"
  | .attributeError => "AttributeError"
  | .worker t => "worker:" ++ toString t

def showOutcome : Outcome → String
  | .ok => "ok" | .err e => "err:" ++ showExc e | .hang => "hang"

def showState (s : State) : String :=
  showAState s.astate ++ " closed=" ++ showBool s.closed
    ++ " alive=" ++ String.join (s.ws.map (fun w => showBool (w.st ≠ .exited)))

def parseCmd? : String → Option Cmd
  | "reset" => some .reset | "step" => some .step | "call" => some .call
  | "set_attr" => some .setattr | _ => none

def parseBool? : String → Option Bool
  | "0" => some false | "1" => some true | _ => none

/-- `w cmd at kind arg` quintuples -/
def parseScript? : List String → Option (List (Nat × FaultAt))
  | [] => some []
  | w :: c :: a :: k :: x :: rest =>
    match parseNat? w, parseCmd? c, parseNat? a, parseNat? x, parseScript? rest with
    | some w, some c, some a, some x, some tl =>
      match k with
      | "raise" => some ((w, { cmd := c, at_ := a, kind := .raise x }) :: tl)
      | "sleep" => some ((w, { cmd := c, at_ := a, kind := .sleep }) :: tl)
      | "kill" => some ((w, { cmd := c, at_ := a, kind := .kill }) :: tl)
      | _ => none
    | _, _, _, _, _ => none
  | _ => none

def parseOp? : List String → Option Op
  | ["reset_async"] => some .resetAsync
  | ["step_async"] => some .stepAsync
  | ["call_async"] => some .callAsync
  | ["set_attr"] => some .setAttr
  | ["reset_wait", t] => (parseBool? t).map .resetWait
  | ["step_wait", t] => (parseBool? t).map .stepWait
  | ["call_wait", t] => (parseBool? t).map .callWait
  | ["close", t, k] =>
    match parseBool? t, parseBool? k with
    | some t, some k => some (.close t k)
    | _, _ => none
  | _ => none

def step (s : IOState) : List String → IOState × String
  | "new" :: f :: n :: rest =>
    match parseBool? f, parseNat? n, parseScript? rest with
    | some f, some n, some sc =>
      if n = 0 then (s, "reject")                  -- the real constructor needs ≥ 1 env_fn
      else if sc.any (fun p => p.1 ≥ n) then (s, "bad-op")
      else ({ st := init f n sc, hung := false }, "ok")
    | _, _, _ => (s, "bad-op")
  | "op" :: ws =>
    match parseOp? ws with
    | none => (s, "bad-op")
    | some op =>
      if s.hung then (s, "unreached")
      else
        let (st1, o) := s.st.step op
        ({ st := st1, hung := o = .hang }, showOutcome o ++ " " ++ showState st1)
  | _ => (s, "bad-op")

end VecProto
