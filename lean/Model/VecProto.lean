import Model.Util
/-
  Model/VecProto.lean — executable protocol model of
  `agilerl.vector.pz_async_vec_env.AsyncPettingZooVecEnv` (async state machine + worker faults).
  Core Lean only.

  What is modelled (read off the code, method by method):
    * `_state ∈ {DEFAULT, WAITING_RESET, WAITING_STEP, WAITING_CALL}`, the `closed` flag, the guards
      of every public method and the error class each guard raises;
    * per worker: process status, the parent's end of the pipe (`open` / `None` after
      `_raise_if_errors`), the replies readable from the pipe, the commands queued behind a
      sleeping command, the per-command counters the fault script refers to;
    * the global `error_queue`;
    * `_poll_pipe_envs`, the `recv` loops, `_raise_if_errors`, `set_attr`, `close`/`close_extras`;
    * the synchronous wrappers `reset()`, `step()`, `call()` (= `get_attr()`, `render()`) as
      `X_async` followed by `X_wait()`; garbage collection of an unclosed environment is
      `close(terminate=True)` (`__del__`).
  A wait's / close's `timed` flag stands for ANY timeout value, 0 included: `_poll_pipe_envs` polls
  for every `timeout is not None`.

  Explicit ASSUMPTIONS (OS / runtime behaviour, not derived; validated only by fault injection):
    A1  a live worker answers a command "at once" (before the parent's next call);
    A2  `send` to a worker whose process has ended raises `BrokenPipeError`, `send` to a pipe that
        `_raise_if_errors` replaced by `None` raises `AttributeError`;
    A3  `recv` from an ended worker returns what is still buffered, then raises `EOFError`;
        `poll` on such a pipe is `True`;
    A4  a scripted `sleep` outlasts every *timed* wait and is finite for an untimed one: a blocking
        `recv`/`join` on a sleeping worker wakes it; a timed `poll` on it is `False`;
    A5  `recv` from a live, idle worker with nothing buffered blocks forever (outcome `hang`);
        `error_queue.get()` on an empty queue blocks forever;
    A6  `Process.terminate()` ends a live or sleeping worker; `join` returns iff the process ends;
    A7  errors of one batch enter the error queue in worker order;
    A8  a worker's exception object survives the trip through the error queue and is re-raised with
        its own type (pickling / constructor signatures are NOT modelled; harness/c13.py sweeps
        exception classes and has two probes for the classes the current tree mishandles);
    A9  a `stuck` sub-environment never comes back: only a poll with a timeout, `terminate()` or
        SIGKILL gets past it; a blocking `recv` / `join` on it never returns (outcome `hang`).

  `fixed = false` is the code before fixes/C13-close-after-worker-death.diff, `fixed = true` the
  repaired code: every `*_wait` sets `_state = DEFAULT` as soon as its timeout check has passed (so
  no failure while receiving can leave a pending state behind), and `close_extras` treats a dead
  pipe (EOFError / OSError) as "terminate everybody", logs any other error of the pending call, and
  always closes the pipes and joins the processes.
  `fix2 = false` is the current tree, `fix2 = true` the code with
  fixes/C13-close-timeout-and-interrupt.diff: `close(timeout=t)` polls before each `recv` of the
  shutdown handshake and joins with the remaining budget, terminating whoever is still alive.
-/
namespace VecProto

inductive AState | default | wreset | wstep | wcall
deriving DecidableEq, Repr

/-- commands a worker understands (`close` is never the target of a scripted fault) -/
inductive Cmd | reset | step | call | setattr | close
deriving DecidableEq, Repr

/-- `stuck` = a sleep that never ends (a sub-environment blocked for good) -/
inductive Fault | raise (t : Nat) | sleep | kill | stuck
deriving DecidableEq, Repr

/-- at the `at`-th (0-based) `cmd` executed by this worker do `kind` -/
structure FaultAt where
  cmd : Cmd
  at_ : Nat
  kind : Fault
deriving DecidableEq, Repr

inductive WSt | alive | hung | exited
deriving DecidableEq, Repr

/-- a reply in a pipe: the payload of command `k`, or `(None, False)` -/
inductive Reply | okR (k : Cmd) | failR
deriving DecidableEq, Repr

/-- error classes seen by the caller -/
inductive Exc
  | alreadyPending      -- gymnasium.error.AlreadyPendingCallError
  | noAsyncCall         -- gymnasium.error.NoAsyncCallError
  | closedEnv           -- gymnasium.error.ClosedEnvironmentError
  | timeout             -- multiprocessing.TimeoutError
  | eof                 -- EOFError            (A3)
  | brokenPipe          -- BrokenPipeError     (A2)
  | attributeError      -- AttributeError      (A2: `None.send`; `reset_wait` decoding a stale reply)
  | keyError            -- KeyError            (`step_wait` decoding a stale `reset` reply)
  | typeError           -- TypeError           (`step_wait` decoding a stale `call`/`set_attr` reply)
  | worker (t : Nat)    -- the exception type `t` raised inside a sub-environment
deriving DecidableEq, Repr

inductive Outcome | ok | err (e : Exc) | hang
deriving DecidableEq, Repr

/-- the error queue: (worker index, exception type) -/
abbrev ErrQ := List (Nat × Nat)

structure Worker where
  idx : Nat
  st : WSt := .alive
  pipeOpen : Bool := true          -- parent's end: `false` = `None`/closed
  inbox : List Reply := []         -- replies the parent can `recv` now
  backlog : List Cmd := []         -- commands queued behind a sleeping command
  forever : Bool := false          -- the sleep it is in never ends (`stuck`)
  cReset : Nat := 0
  cStep : Nat := 0
  cCall : Nat := 0
  cSet : Nat := 0
  faults : List FaultAt := []
deriving DecidableEq, Repr

def Worker.count (w : Worker) : Cmd → Nat
  | .reset => w.cReset | .step => w.cStep | .call => w.cCall | .setattr => w.cSet | .close => 0

def Worker.bump (w : Worker) : Cmd → Worker
  | .reset => { w with cReset := w.cReset + 1 }
  | .step => { w with cStep := w.cStep + 1 }
  | .call => { w with cCall := w.cCall + 1 }
  | .setattr => { w with cSet := w.cSet + 1 }
  | .close => w

def lookupFault (fs : List FaultAt) (c : Cmd) (k : Nat) : Option Fault :=
  (fs.find? (fun f => f.cmd = c ∧ f.at_ = k)).map (·.kind)

/-- a live worker executes one command (`_async_worker` loop body + its `except`/`finally`) -/
def Worker.run (w : Worker) (c : Cmd) : Worker × ErrQ :=
  match c with
  | .close => ({ w with st := .exited, inbox := w.inbox ++ [.okR .close] }, [])
  | _ =>
    let w1 := w.bump c
    match lookupFault w.faults c (w.count c) with
    | none => ({ w1 with inbox := w1.inbox ++ [.okR c] }, [])
    | some (.raise t) => ({ w1 with st := .exited, inbox := w1.inbox ++ [.failR] }, [(w.idx, t)])
    | some .kill => ({ w1 with st := .exited }, [])
    | some .sleep => ({ w1 with st := .hung, backlog := [c] }, [])      -- head = the sleeping command
    | some .stuck => ({ w1 with st := .hung, backlog := [c], forever := true }, [])

/-- run queued commands while the worker stays alive; what is left stays queued if it sleeps again -/
def Worker.runList (w : Worker) : List Cmd → Worker × ErrQ
  | [] => (w, [])
  | c :: cs =>
    match w.st with
    | .alive =>
      let (w1, e1) := w.run c
      match w1.st with
      | .alive => let (w2, e2) := w1.runList cs; (w2, e1 ++ e2)
      | .hung => ({ w1 with backlog := w1.backlog ++ cs }, e1)
      | .exited => (w1, e1)
    | _ => (w, [])

/-- the sleeping command (head of `backlog`) finishes with its normal reply, then the queued
    commands run -/
def Worker.wake (w : Worker) : Worker × ErrQ :=
  match w.backlog with
  | [] => ({ w with st := .alive }, [])
  | c :: rest =>
    ({ w with st := (if c = .close then WSt.exited else WSt.alive), inbox := w.inbox ++ [.okR c],
              backlog := [] } : Worker).runList rest

/-- the parent's `pipe.send` reached the worker -/
def Worker.deliver (w : Worker) (c : Cmd) : Worker × ErrQ :=
  match w.st with
  | .alive => w.run c
  | .hung => ({ w with backlog := w.backlog ++ [c] }, [])
  | .exited => (w, [])

/-- wake a sleeping worker again and again until it is alive or gone (`fuel` ≥ queued commands + 1) -/
def Worker.drain : Nat → Worker → Worker × ErrQ
  | 0, w => (w, [])
  | n + 1, w =>
    match w.st with
    | .hung =>
      if w.forever then (w, [])
      else let (w1, e1) := w.wake; let (w2, e2) := Worker.drain n w1; (w2, e1 ++ e2)
    | _ => (w, [])

/-- one step of a loop over the workers: new worker, errors it put on the queue meanwhile,
    the reply obtained (if any), and whether the loop stops here with an outcome -/
abbrev StepRes := Worker × ErrQ × Option Reply × Option Outcome

/-- `for … in zip(parent_pipes, …): body` — runs `f` on the workers in order and stops at the
    first one whose body raises / blocks; the workers behind it are untouched -/
def mapUntil (f : Worker → StepRes) : List Worker → List Worker × ErrQ × List Reply × Option Outcome
  | [] => ([], [], [], none)
  | w :: ws =>
    match f w with
    | (w1, e1, r, some o) => (w1 :: ws, e1, r.toList, some o)
    | (w1, e1, r, none) =>
      match mapUntil f ws with
      | (ws1, e2, rs, o) => (w1 :: ws1, e1 ++ e2, r.toList ++ rs, o)

/-- `pipe.send(cmd)` (A2) -/
def sendOne (c : Cmd) (w : Worker) : StepRes :=
  if w.pipeOpen = false then (w, [], none, some (.err .attributeError))
  else if w.st = .exited then (w, [], none, some (.err .brokenPipe))
  else let (w1, e1) := w.deliver c; (w1, e1, none, none)

/-- close_extras: `if pipe is not None and not pipe.closed: pipe.send(("close", None))` -/
def sendCloseOne (w : Worker) : StepRes :=
  if w.pipeOpen = false then (w, [], none, none) else sendOne .close w

inductive Recv | got (r : Reply) | eof | block | noPipe
deriving DecidableEq, Repr

/-- one blocking `pipe.recv()` (A3, A4, A5) -/
def Worker.recv (w : Worker) : Worker × ErrQ × Recv :=
  if w.pipeOpen = false then (w, [], .noPipe)
  else match w.inbox with
    | r :: rest => ({ w with inbox := rest }, [], .got r)
    | [] =>
      match w.st with
      | .exited => (w, [], .eof)
      | .alive => (w, [], .block)
      | .hung =>
        if w.forever then (w, [], .block)
        else
          let (w1, e1) := w.wake
          match w1.inbox with
          | r :: rest => ({ w1 with inbox := rest }, e1, .got r)
          | [] => (w1, e1, .block)

/-- what decoding a reply as the payload of `expected` raises (`none` = decodes fine):
    `reset_wait` → `_add_info(infos, info, i)` needs a dict; `step_wait` → `ret[0][agent]` -/
def decodeErr (expected : Cmd) : Reply → Option Exc
  | .failR => none
  | .okR k =>
    if k = expected then none
    else match expected with
      | .reset => some .attributeError
      | .step => if k = .reset then some .keyError else some .typeError
      | _ => none

/-- `pipe.recv()` followed by what the loop body does with the reply *inside* the loop
    (`chk`: `step_wait` decodes there; the other waits only collect) -/
def recvOne (chk : Reply → Option Exc) (w : Worker) : StepRes :=
  match w.recv with
  | (w1, e1, .got r) =>
    match chk r with
    | some x => (w1, e1, none, some (.err x))
    | none => (w1, e1, some r, none)
  | (w1, e1, .eof) => (w1, e1, none, some (.err .eof))
  | (w1, e1, .block) => (w1, e1, none, some .hang)
  | (w1, e1, .noPipe) => (w1, e1, none, some (.err .attributeError))

/-- close_extras: `if pipe is not None and not pipe.closed: pipe.recv()` -/
def recvCloseOne (w : Worker) : StepRes :=
  if w.pipeOpen = false then (w, [], none, none) else recvOne (fun _ => none) w

/-- `pipe.close(); process.join()` (A4, A6): returns iff the process ends -/
def joinOne (w : Worker) : StepRes :=
  let (w1, e1) := Worker.drain (w.backlog.length + 1) w
  if w1.st = .exited then ({ w1 with pipeOpen := false }, e1, none, none)
  else (w1, e1, none, some .hang)

/-- `_poll_pipe_envs(timeout)` with a timeout: every pipe has something to read now -/
def Worker.ready (w : Worker) : Bool :=
  w.pipeOpen && (!w.inbox.isEmpty || w.st = .exited)

def pollAll (ws : List Worker) : Bool := ws.all Worker.ready

def closePipe (i : Nat) (ws : List Worker) : List Worker :=
  ws.map (fun w => if w.idx = i then { w with pipeOpen := false } else w)

def closePipes (is : List Nat) (ws : List Worker) : List Worker :=
  is.foldl (fun acc i => closePipe i acc) ws

def countFail (rs : List Reply) : Nat := rs.count .failR

structure State where
  fixed : Bool := true
  fix2 : Bool := true              -- `close(timeout=…)` also bounds its handshake and `join`
  astate : AState := .default
  closed : Bool := false
  ws : List Worker := []
  errq : ErrQ := []
deriving DecidableEq, Repr

/-- `_raise_if_errors(successes)`; `.ok` = all succeeded, nothing touched -/
def raiseIfErrors (s : State) (rs : List Reply) : State × Outcome :=
  let n := countFail rs
  if n = 0 then (s, .ok)
  else if s.errq.length < n then (s, .hang)                       -- A5
  else
    let popped := s.errq.take n
    let ws' := closePipes (popped.map (·.1)) s.ws
    match popped.getLast? with
    | some (_, t) => ({ s with ws := ws', errq := s.errq.drop n, astate := .default }, .err (.worker t))
    | none => (s, .hang)

def inlineChk (expected : Cmd) : Reply → Option Exc :=
  if expected = .step then decodeErr .step else fun _ => none

/-- body of `reset_wait` / `step_wait` / `call_wait` after the guards (`expected` = the command
    whose replies are awaited); also the tail of `set_attr`.
    Repaired code: `_state = DEFAULT` as soon as the timeout check has passed; original code: only
    on the success path (and inside `_raise_if_errors`). -/
def waitCore (s : State) (expected : Cmd) (timed : Bool) : State × Outcome :=
  if timed && !pollAll s.ws then ({ s with astate := .default }, .err .timeout)
  else
    let s0 := if s.fixed then { s with astate := .default } else s
    match mapUntil (recvOne (inlineChk expected)) s0.ws with
    | (ws1, e, _, some o) => ({ s0 with ws := ws1, errq := s0.errq ++ e }, o)
    | (ws1, e, rs, none) =>
      match raiseIfErrors { s0 with ws := ws1, errq := s0.errq ++ e } rs with
      | (s2, .ok) =>
        match (if expected = .reset then rs.findSome? (decodeErr .reset) else none) with
        | some x => (s2, .err x)
        | none => ({ s2 with astate := .default }, .ok)
      | r => r

def cmdOf : AState → Cmd
  | .default => .setattr | .wreset => .reset | .wstep => .step | .wcall => .call

def asyncOp (s : State) (c : Cmd) (target : AState) : State × Outcome :=
  if s.closed then (s, .err .closedEnv)
  else if s.astate ≠ .default then (s, .err .alreadyPending)
  else
    match mapUntil (sendOne c) s.ws with
    | (ws1, e, _, some o) => ({ s with ws := ws1, errq := s.errq ++ e }, o)
    | (ws1, e, _, none) => ({ s with ws := ws1, errq := s.errq ++ e, astate := target }, .ok)

def waitOp (s : State) (expected : AState) (timed : Bool) : State × Outcome :=
  if s.closed then (s, .err .closedEnv)
  else if s.astate ≠ expected then (s, .err .noAsyncCall)
  else waitCore s (cmdOf expected) timed

/-- the synchronous wrappers `reset()`, `step()`, `call()` (and `get_attr()`, `render()`, which
    are `call`): `X_async(...)` then `X_wait()` without timeout -/
def syncOp (s : State) (c : Cmd) (a : AState) : State × Outcome :=
  match asyncOp s c a with
  | (s1, .ok) => waitOp s1 a false
  | r => r

def setAttrOp (s : State) : State × Outcome :=
  if s.closed then (s, .err .closedEnv)
  else if s.astate ≠ .default then (s, .err .alreadyPending)
  else
    match mapUntil (sendOne .setattr) s.ws with
    | (ws1, e, _, some o) => ({ s with ws := ws1, errq := s.errq ++ e }, o)
    | (ws1, e, _, none) => waitCore { s with ws := ws1, errq := s.errq ++ e } .setattr false

def terminateAll (ws : List Worker) : List Worker :=
  ws.map (fun w => { w with st := .exited, pipeOpen := false })

/-- what the repaired `close_extras` does when a step of the graceful shutdown fails with `o`:
    a dead pipe ⇒ terminate everybody; the original code lets the error escape -/
def closeFail (s : State) (o : Outcome) : State × Outcome :=
  match o with
  | .hang => (s, .hang)
  | _ => if s.fixed then ({ s with ws := terminateAll s.ws, closed := true }, .ok) else (s, o)

/-- `fix2`: `if not pipe.poll(remaining): terminate = True; break` before each `pipe.recv()` of
    the close handshake — a pipe with nothing to read stops the loop instead of blocking -/
def recvReadyOne (w : Worker) : StepRes :=
  if w.pipeOpen = false then (w, [], none, none)
  else if w.ready = false then (w, [], none, some (.err .timeout))
  else recvOne (fun _ => none) w

/-- the graceful branch of `close_extras` (send `close`, receive one reply per open pipe), then
    `pipe.close()` / `process.join()` for every worker.
    With `fix2` and a timeout the handshake polls before it receives, and
    `join(remaining)`; whoever is still alive then is terminated (A6): everybody ends. -/
def closeTail (s : State) (timed terminate : Bool) : State × Outcome :=
  if terminate then ({ s with ws := terminateAll s.ws, closed := true }, .ok)
  else
    match mapUntil sendCloseOne s.ws with
    | (ws1, e1, _, some o) => closeFail { s with ws := ws1, errq := s.errq ++ e1 } o
    | (ws1, e1, _, none) =>
      if timed && s.fix2 then
        match mapUntil recvReadyOne ws1 with
        | (ws2, e2, _, some .hang) => ({ s with ws := ws2, errq := s.errq ++ e1 ++ e2 }, .hang)
        | (ws2, e2, _, _) =>
          ({ s with ws := terminateAll ws2, errq := s.errq ++ e1 ++ e2, closed := true }, .ok)
      else
      match mapUntil recvCloseOne ws1 with
      | (ws2, e2, _, some o) => closeFail { s with ws := ws2, errq := s.errq ++ e1 ++ e2 } o
      | (ws2, e2, _, none) =>
        match mapUntil joinOne ws2 with
        | (ws3, e3, _, some o) => ({ s with ws := ws3, errq := s.errq ++ e1 ++ e2 ++ e3 }, o)
        | (ws3, e3, _, none) =>
          ({ s with ws := ws3, errq := s.errq ++ e1 ++ e2 ++ e3, closed := true }, .ok)

/-- `close(timeout=…, terminate=…)`; `timed` = a timeout was given -/
def closeOp (s : State) (timed terminate : Bool) : State × Outcome :=
  if s.closed then (s, .ok)
  else if s.astate = .default then closeTail s timed terminate
  else
    -- `function = getattr(self, f"{state}_wait"); function(timeout)`  (timeout = 0 if terminate)
    match waitCore s (cmdOf s.astate) (timed || terminate) with
    | (s1, .ok) => closeTail s1 timed terminate
    | (s1, .err .timeout) => closeTail s1 timed true
    | (s1, .hang) => (s1, .hang)
    | (s1, .err x) =>
      if s.fixed then
        -- a dead pipe forces termination; a worker's own exception is logged and the rest is
        -- shut down gracefully
        closeTail s1 timed (terminate || x = .eof || x = .brokenPipe)
      else (s1, .err x)

inductive Op
  | resetAsync | resetWait (timed : Bool)
  | stepAsync | stepWait (timed : Bool)
  | callAsync | callWait (timed : Bool)
  | setAttr
  | close (timed terminate : Bool)
  | resetSync | stepSync | callSync     -- `reset()`, `step()`, `call()` / `get_attr()` / `render()`
deriving DecidableEq, Repr

def State.step (s : State) : Op → State × Outcome
  | .resetAsync => asyncOp s .reset .wreset
  | .stepAsync => asyncOp s .step .wstep
  | .callAsync => asyncOp s .call .wcall
  | .resetWait t => waitOp s .wreset t
  | .stepWait t => waitOp s .wstep t
  | .callWait t => waitOp s .wcall t
  | .setAttr => setAttrOp s
  | .close t k => closeOp s t k
  | .resetSync => syncOp s .reset .wreset
  | .stepSync => syncOp s .step .wstep
  | .callSync => syncOp s .call .wcall

/-- a `hang` never returns: nothing after it is executed -/
def State.runOps (s : State) : List Op → State × List Outcome
  | [] => (s, [])
  | op :: ops =>
    match s.step op with
    | (s1, .hang) => (s1, [.hang])
    | (s1, o) => let (s2, os) := s1.runOps ops; (s2, o :: os)

def mkWorkers (n : Nat) (script : List (Nat × FaultAt)) : List Worker :=
  (List.range n).map (fun i =>
    { idx := i, faults := (script.filter (fun p => p.1 = i)).map (·.2) })

def init (fixed : Bool) (n : Nat) (script : List (Nat × FaultAt)) (fix2 : Bool := true) : State :=
  { fixed := fixed, fix2 := fix2, ws := mkWorkers n script }

end VecProto

/-! ### line protocol -/
namespace VecProto
open Util

structure IOState where
  st : State := {}
  hung : Bool := false      -- a previous op never returned

def showAState : AState → String
  | .default => "default" | .wreset => "reset" | .wstep => "step" | .wcall => "call"

def showExc : Exc → String
  | .alreadyPending => "AlreadyPendingCallError"
  | .noAsyncCall => "NoAsyncCallError"
  | .closedEnv => "ClosedEnvironmentError"
  | .timeout => "mp.TimeoutError"
  | .eof => "EOFError"
  | .brokenPipe => "BrokenPipeError"
  | .attributeError => "AttributeError"
  | .keyError => "KeyError"
  | .typeError => "TypeError"
  | .worker t => "worker:" ++ toString t

def showOutcome : Outcome → String
  | .ok => "ok" | .err e => "err:" ++ showExc e | .hang => "hang"

def showState (s : State) : String :=
  showAState s.astate ++ " closed=" ++ showBool s.closed
    ++ " alive=" ++ String.join (s.ws.map (fun w => showBool (w.st ≠ .exited)))

def parseCmd? : String → Option Cmd
  | "reset" => some .reset | "step" => some .step | "call" => some .call
  | "set_attr" => some .setattr | _ => none

def parseBool? : String → Option Bool
  | "0" => some false | "1" => some true | _ => none

/-- code variant: 0 = before the fixes, 1 = close survives worker death, 2 = … and `close(timeout)`
    bounds its handshake and join -/
def parseVariant? : String → Option (Bool × Bool)
  | "0" => some (false, false) | "1" => some (true, false) | "2" => some (true, true) | _ => none

/-- `w cmd at kind arg` quintuples -/
def parseScript? : List String → Option (List (Nat × FaultAt))
  | [] => some []
  | w :: c :: a :: k :: x :: rest =>
    match parseNat? w, parseCmd? c, parseNat? a, parseNat? x, parseScript? rest with
    | some w, some c, some a, some x, some tl =>
      match k with
      | "raise" => some ((w, { cmd := c, at_ := a, kind := .raise x }) :: tl)
      | "sleep" => some ((w, { cmd := c, at_ := a, kind := .sleep }) :: tl)
      | "kill" => some ((w, { cmd := c, at_ := a, kind := .kill }) :: tl)
      | "stuck" => some ((w, { cmd := c, at_ := a, kind := .stuck }) :: tl)
      | _ => none
    | _, _, _, _, _ => none
  | _ => none

def parseOp? : List String → Option Op
  | ["reset_async"] => some .resetAsync
  | ["step_async"] => some .stepAsync
  | ["call_async"] => some .callAsync
  | ["set_attr"] => some .setAttr
  | ["reset"] => some .resetSync
  | ["step"] => some .stepSync
  | ["call"] => some .callSync
  | ["reset_wait", t] => (parseBool? t).map .resetWait
  | ["step_wait", t] => (parseBool? t).map .stepWait
  | ["call_wait", t] => (parseBool? t).map .callWait
  | ["close", t, k] =>
    match parseBool? t, parseBool? k with
    | some t, some k => some (.close t k)
    | _, _ => none
  | _ => none

def step (s : IOState) : List String → IOState × String
  | "new" :: f :: n :: rest =>
    match parseVariant? f, parseNat? n, parseScript? rest with
    | some (f, f2), some n, some sc =>
      if n = 0 then (s, "reject")                  -- the real constructor needs ≥ 1 env_fn
      else if sc.any (fun p => p.1 ≥ n) then (s, "bad-op")
      else ({ st := init f n sc f2, hung := false }, "ok")
    | _, _, _ => (s, "bad-op")
  | "op" :: ws =>
    match parseOp? ws with
    | none => (s, "bad-op")
    | some op =>
      if s.hung then (s, "unreached")
      else
        let (st1, o) := s.st.step op
        ({ st := st1, hung := o = .hang }, showOutcome o ++ " " ++ showState st1)
  | _ => (s, "bad-op")

end VecProto

/-! ## The worker's error path (section WorkerErr): what `_async_worker` does when the sub-environment raises

  `except (KeyboardInterrupt, Exception):` builds a report, hands it to the error queue, flushes the queue, announces
  the failure on the pipe with `(None, False)`; `finally:` closes the sub-environment.  The parent's
  `_raise_if_errors` does one `error_queue.get()` per announced failure.

  The multiprocessing queue is modelled explicitly (assumption A10, the documented behaviour of
  `multiprocessing.Queue`): `put` hands the item to the buffer of a feeder thread of the worker process; the item can
  be read by the parent only after the feeder has written it to the queue's pipe (a *flush*); `join_thread()` after
  `close()` returns only when everything buffered has been flushed; without it the feeder flushes at an arbitrary
  later point as long as the process lives (`spont`); a process that dies (SIGKILL, `os._exit`, a sub-environment
  `close()` that takes the process down) discards whatever is still buffered.  What has been flushed, and what has
  been sent on the pipe, survives the death of the process (A3).  `put` on a closed queue raises (nothing is
  buffered); `join_thread()` on a queue that is not closed guarantees nothing.
  A kill point `k` = the process dies after its `k`-th effect (0 = before the first; `k ≥` the number of effects =
  the worker finishes): this covers a death at any point after the announcement, including inside `env.close()`. -/
namespace VecProto

/-- class of the report the worker puts on the queue: the sub-environment's own class, or `RuntimeError` -/
inductive RCls | own | runtimeError
deriving DecidableEq, Repr

/-- message of the report: the exception object itself, `str(exception)`, or `f"{class name}: {exception}"` -/
inductive RMsg | own | strOfOwn | nameColonOwn
deriving DecidableEq, Repr

/-- `(index, cls, msg, trace)`: index (an int) and trace (a str) always survive pickling -/
structure Report where
  cls : RCls
  msg : RMsg
deriving DecidableEq, Repr

/-- the effects of the worker's error path -/
inductive WEff
  | put (r : Report) | qclose | qjoin | announce | envClose
deriving DecidableEq, Repr

/-- the downgrade decision: first on the CLASS (`clsOk` = the class survives pickling), then on the message -/
def Worker.report (clsOk msgOk : Bool) : Report :=
  if !clsOk then ⟨.runtimeError, .nameColonOwn⟩
  else if !msgOk then ⟨.own, .strOfOwn⟩
  else ⟨.own, .own⟩

/-- does the report survive pickling, given what survives of the original exception -/
def Report.picklable (clsOk msgOk : Bool) (r : Report) : Bool :=
  (match r.cls with | .own => clsOk | .runtimeError => true) &&
  (match r.msg with | .own => msgOk | .strOfOwn => true | .nameColonOwn => true)

/-- /repo HEAD: report, flush, announce; then the `finally` block -/
def Worker.errorPath (clsOk msgOk : Bool) : List WEff :=
  [.put (Worker.report clsOk msgOk), .qclose, .qjoin, .announce, .envClose]

/-- the order as found (before fixes/C13-error-report-lost-when-killed-in-cleanup): no flush -/
def Worker.errorPathAsFound (clsOk msgOk : Bool) : List WEff :=
  [.put (Worker.report clsOk msgOk), .announce, .envClose]

/-- the worker process seen from outside: reports in the feeder's buffer, reports flushed to the queue's pipe,
    failures announced on the worker's pipe -/
structure PSt where
  buffered : Nat := 0
  flushed : Nat := 0
  announced : Nat := 0
  qclosed : Bool := false
  envClosed : Bool := false
deriving DecidableEq, Repr

/-- the feeder thread writes everything buffered to the queue's pipe -/
def PSt.flush (s : PSt) : PSt := { s with flushed := s.flushed + s.buffered, buffered := 0 }

def PSt.exec (s : PSt) : WEff → PSt
  | .put _ => if s.qclosed then s else { s with buffered := s.buffered + 1 }
  | .qclose => { s with qclosed := true }
  | .qjoin => if s.qclosed then s.flush else s
  | .announce => { s with announced := s.announced + 1 }
  | .envClose => { s with envClosed := true }

/-- run the first `k` effects; `spont i = true`: the feeder thread happened to flush right after effect `i` -/
def PSt.runK (spont : Nat → Bool) : Nat → Nat → PSt → List WEff → PSt
  | _, 0, s, _ => s
  | _, _ + 1, s, [] => s
  | i, k + 1, s, e :: es =>
    PSt.runK spont (i + 1) k (if spont i then (s.exec e).flush else s.exec e) es

/-- the process dies: the feeder's buffer is gone -/
def PSt.die (s : PSt) : PSt := { s with buffered := 0 }

/-- `_raise_if_errors`: one `error_queue.get()` per announced failure; each returns iff a report has reached the
    queue's pipe (A5: `get()` on an empty queue of a dead worker blocks forever) -/
def PSt.parentFinds (s : PSt) : Bool := decide (s.announced ≤ s.flushed)

/-- the worker process is killed after `k` effects of `effs` (feeder schedule `spont`); what the parent is left with -/
def Worker.killedAt (spont : Nat → Bool) (k : Nat) (effs : List WEff) : PSt :=
  (PSt.runK spont 0 k {} effs).die

end VecProto
