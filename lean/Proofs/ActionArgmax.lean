import Mathlib.Algebra.Order.Field.Rat
import Mathlib.Tactic.Linarith
import Model.Action

/-!
# Specification of `argmaxFirst` (first index of the maximum, scores with −∞)
-/
namespace Action

theorem olt_irrefl (a : Option Rat) : olt a a = false := by
  cases a <;> simp [olt]

theorem olt_trans {a b c : Option Rat} (h1 : olt a b = true) (h2 : olt b c = true) :
    olt a c = true := by
  cases a <;> cases b <;> cases c <;> simp_all [olt]
  exact lt_trans h1 h2

/-- `a ≤ b < c → a < c` -/
theorem olt_of_le_of_lt {a b c : Option Rat} (h1 : olt b a = false) (h2 : olt b c = true) :
    olt a c = true := by
  cases a <;> cases b <;> cases c <;> simp_all [olt]
  exact lt_of_le_of_lt h1 h2

/-- `a < b ≤ c → ¬ c < a` -/
theorem not_olt_of_lt_of_le {a b c : Option Rat} (h1 : olt a b = true) (h2 : olt c b = false) :
    olt c a = false := by
  cases a <;> cases b <;> cases c <;> simp_all [olt]
  linarith

/-- score at index `j`; out of range counts as −∞ -/
def sc (l : List (Option Rat)) (j : Nat) : Option Rat := l.getD j none

theorem sc_append_left (p x : List (Option Rat)) (j : Nat) (h : j < p.length) :
    sc (p ++ x) j = sc p j := by
  simp [sc, List.getD_eq_getElem?_getD, List.getElem?_append_left h]

theorem sc_append_len (p : List (Option Rat)) (x : Option Rat) (xs : List (Option Rat)) :
    sc (p ++ x :: xs) p.length = x := by
  simp [sc, List.getD_eq_getElem?_getD]

theorem sc_oob (l : List (Option Rat)) (j : Nat) (h : l.length ≤ j) : sc l j = none := by
  simp [sc, List.getD_eq_getElem?_getD, List.getElem?_eq_none h]

/-- what it means to be the first index of the maximum -/
structure IsArgmaxFirst (l : List (Option Rat)) (k : Nat) : Prop where
  lt_len : k < l.length
  is_max : ∀ j, olt (sc l k) (sc l j) = false
  is_first : ∀ j, j < k → olt (sc l j) (sc l k) = true

theorem argmaxAux_spec (xs : List (Option Rat)) :
    ∀ (pre : List (Option Rat)) (best : Option Rat) (bi : Nat),
      bi < pre.length → sc pre bi = best →
      (∀ j, olt best (sc pre j) = false) →
      (∀ j, j < bi → olt (sc pre j) best = true) →
      IsArgmaxFirst (pre ++ xs) (argmaxAux best bi pre.length xs) := by
  induction xs with
  | nil =>
    intro pre best bi hbi hb hmax hfirst
    simp only [argmaxAux, List.append_nil]
    exact ⟨hbi, fun j => by rw [hb]; exact hmax j, fun j hj => by rw [hb]; exact hfirst j hj⟩
  | cons x xs ih =>
    intro pre best bi hbi hb hmax hfirst
    have hlen : (pre ++ [x]).length = pre.length + 1 := by simp
    have happ : pre ++ x :: xs = (pre ++ [x]) ++ xs := by simp
    have hx : sc (pre ++ [x]) pre.length = x := sc_append_len pre x []
    simp only [argmaxAux]
    by_cases hlt : olt best x = true
    · simp only [hlt, if_true]
      rw [happ, ← hlen]
      apply ih (pre ++ [x]) x pre.length
      · rw [hlen]; omega
      · exact hx
      · intro j
        by_cases hj : j < pre.length
        · rw [sc_append_left _ _ _ hj]
          cases h : olt x (sc pre j)
          · rfl
          · have := olt_trans hlt h
            rw [hmax j] at this; exact absurd this (by simp)
        · by_cases hj2 : j = pre.length
          · rw [hj2, hx]; exact olt_irrefl x
          · rw [sc_oob _ _ (by rw [hlen]; omega)]
            cases x <;> rfl
      · intro j hj
        rw [sc_append_left _ _ _ hj]
        exact olt_of_le_of_lt (hmax j) hlt
    · have hlt' : olt best x = false := by
        cases h : olt best x
        · rfl
        · exact absurd h hlt
      simp only [hlt', if_false, Bool.false_eq_true]
      rw [happ, ← hlen]
      apply ih (pre ++ [x]) best bi
      · rw [hlen]; omega
      · rw [sc_append_left _ _ _ hbi]; exact hb
      · intro j
        by_cases hj : j < pre.length
        · rw [sc_append_left _ _ _ hj]; exact hmax j
        · by_cases hj2 : j = pre.length
          · rw [hj2, hx]; exact hlt'
          · rw [sc_oob _ _ (by rw [hlen]; omega)]
            cases best <;> rfl
      · intro j hj
        rw [sc_append_left _ _ _ (by omega)]; exact hfirst j hj

/-- `argmaxFirst` returns the first index of the maximum of a non-empty row -/
theorem argmaxFirst_spec (l : List (Option Rat)) (hne : l ≠ []) : IsArgmaxFirst l (argmaxFirst l) := by
  cases l with
  | nil => exact absurd rfl hne
  | cons x xs =>
    have := argmaxAux_spec xs [x] x 0 (by simp) (by simp [sc]) (by
      intro j
      by_cases hj : j = 0
      · subst hj; simpa [sc] using olt_irrefl x
      · rw [sc_oob _ _ (by simp; omega)]; cases x <;> rfl) (by intro j hj; omega)
    simpa [argmaxFirst] using this

end Action
