import Mathlib.Algebra.Order.Field.Rat
import Mathlib.Tactic.Linarith
import Mathlib.Tactic.Ring
import Mathlib.Tactic.NormNum
import Model.Action

/-!
# Clipping, rescaling and scaling keep every dimension inside its bounds
-/
namespace Action

theorem zipWith3_getElem? {α β γ δ} (f : α → β → γ → δ) :
    ∀ (as : List α) (bs : List β) (cs : List γ) (i : Nat) (a : α) (b : β) (c : γ),
      as[i]? = some a → bs[i]? = some b → cs[i]? = some c →
      (zipWith3 f as bs cs)[i]? = some (f a b c) := by
  intro as
  induction as with
  | nil => intro bs cs i a b c h; simp at h
  | cons a0 as ih =>
    intro bs cs i a b c h1 h2 h3
    cases bs with
    | nil => simp at h2
    | cons b0 bs =>
      cases cs with
      | nil => simp at h3
      | cons c0 cs =>
        cases i with
        | zero => simp at h1 h2 h3; subst h1 h2 h3; simp [zipWith3]
        | succ i =>
          simp at h1 h2 h3
          simpa [zipWith3] using ih bs cs i a b c h1 h2 h3

theorem zipWith3_length {α β γ δ} (f : α → β → γ → δ) :
    ∀ (as : List α) (bs : List β) (cs : List γ) (n : Nat),
      as.length = n → bs.length = n → cs.length = n → (zipWith3 f as bs cs).length = n := by
  intro as
  induction as with
  | nil => intro bs cs n h1 h2 h3; subst h1; simp [zipWith3]
  | cons a0 as ih =>
    intro bs cs n h1 h2 h3
    cases bs with
    | nil => subst h2; simp at h1
    | cons b0 bs =>
      cases cs with
      | nil => subst h3; simp at h1
      | cons c0 cs =>
        cases n with
        | zero => simp at h1
        | succ n =>
          simp at h1 h2 h3
          simp [zipWith3, ih bs cs n h1 h2 h3]

theorem clip_bounds (lo hi x : Rat) (h : lo ≤ hi) : lo ≤ clip lo hi x ∧ clip lo hi x ≤ hi := by
  unfold clip
  constructor
  · exact le_min (le_max_right x lo) h
  · exact min_le_right _ _

/-- inside the bounds clipping changes nothing -/
theorem clip_id (lo hi x : Rat) (h1 : lo ≤ x) (h2 : x ≤ hi) : clip lo hi x = x := by
  unfold clip
  rw [max_eq_left h1, min_eq_left h2]

theorem rescaleWith_bounds (pmin pmax low high a : Rat) (hp : pmin < pmax) (h : low ≤ high)
    (h1 : pmin ≤ a) (h2 : a ≤ pmax) :
    low ≤ rescaleWith pmin pmax low high a ∧ rescaleWith pmin pmax low high a ≤ high := by
  unfold rescaleWith
  have hd : 0 < pmax - pmin := by linarith
  have ht0 : 0 ≤ (a - pmin) / (pmax - pmin) := div_nonneg (by linarith) hd.le
  have ht1 : (a - pmin) / (pmax - pmin) ≤ 1 := by
    rw [div_le_iff₀ hd]; linarith
  have e : (high - low) * (a - pmin) / (pmax - pmin) = (high - low) * ((a - pmin) / (pmax - pmin)) := by
    rw [mul_div_assoc]
  rw [e]
  have hw : 0 ≤ high - low := by linarith
  constructor
  · have := mul_nonneg hw ht0
    linarith
  · have := mul_le_mul_of_nonneg_left ht1 hw
    linarith

theorem prescaled_lt (act : OutAct) (pmin pmax : Rat) (h : prescaled act = some (pmin, pmax)) :
    pmin < pmax := by
  cases act <;> simp [prescaled] at h <;> obtain ⟨rfl, rfl⟩ := h <;> norm_num

theorem scaleAction_bounds (low high a : Rat) (h : low ≤ high) (h1 : -1 ≤ a) (h2 : a ≤ 1) :
    low ≤ scaleAction low high a ∧ scaleAction low high a ≤ high := by
  unfold scaleAction
  have hw : 0 ≤ high - low := by linarith
  have e : (1 / 2 : Rat) * (a + 1) * (high - low) = ((a + 1) / 2) * (high - low) := by ring
  rw [e]
  have t0 : (0 : Rat) ≤ (a + 1) / 2 := by linarith
  have t1 : (a + 1) / 2 ≤ (1 : Rat) := by linarith
  constructor
  · have := mul_nonneg t0 hw
    linarith
  · have := mul_le_mul_of_nonneg_right t1 hw
    linarith

theorem allSomeR_getElem? : ∀ (l : List (Option Rat)) (ls : List Rat) (i : Nat) (x : Rat),
    allSomeR l = some ls → l[i]? = some (some x) → ls[i]? = some x := by
  intro l
  induction l with
  | nil => intro ls i x _ h; simp at h
  | cons o l ih =>
    intro ls i x h hi
    cases o with
    | none => simp [allSomeR] at h
    | some v =>
      simp only [allSomeR, Option.map_eq_some_iff] at h
      obtain ⟨r, hr, rfl⟩ := h
      cases i with
      | zero => simp at hi; simp [hi]
      | succ i => simp at hi; simpa using ih r i x hr hi

theorem allSomeR_of_all : ∀ (l : List (Option Rat)), (∀ o ∈ l, o ≠ none) → ∃ ls, allSomeR l = some ls := by
  intro l
  induction l with
  | nil => intro _; exact ⟨[], rfl⟩
  | cons o l ih =>
    intro h
    cases o with
    | none => exact absurd rfl (h none (by simp))
    | some v =>
      obtain ⟨r, hr⟩ := ih (fun o ho => h o (by simp [ho]))
      exact ⟨v :: r, by simp [allSomeR, hr]⟩

theorem override_getElem? (xs : List Rat) (env : List (Option Rat)) (i : Nat) (x : Rat) (e : Option Rat)
    (h1 : xs[i]? = some x) (h2 : env[i]? = some e) : (override xs env)[i]? = some (e.getD x) := by
  simp [override, List.getElem?_zipWith, h1, h2]

theorem addVec_getElem? (xs ys : List Rat) (i : Nat) (x y : Rat)
    (h1 : xs[i]? = some x) (h2 : ys[i]? = some y) : (addVec xs ys)[i]? = some (x + y) := by
  simp [addVec, List.getElem?_zipWith, h1, h2]

end Action
