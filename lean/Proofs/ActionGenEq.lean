import Mathlib.Algebra.Order.Field.Rat
import Mathlib.Tactic.Ring
import Mathlib.Tactic.NormNum
import Model.Action
import Gen.ActionGen

set_option linter.unusedSimpArgs false
set_option linter.unusedTactic false
set_option linter.unreachableTactic false

/-!
# `Gen/ActionGen.lean` (translated from the source text of the learners) = `Model/Action.lean`
-/
namespace ActionGen
open Action

/-! ### the prelude of the generated file against the model's helpers -/

theorem oLt_eq (a b : Option Rat) : oLt a b = olt a b := by
  cases a <;> cases b <;> rfl

theorem argmaxGo_eq (xs : List (Option Rat)) : ∀ (best : Option Rat) (bi i : Nat),
    argmaxGo best bi i xs = argmaxAux best bi i xs := by
  induction xs with
  | nil => intro best bi i; rfl
  | cons x xs ih => intro best bi i; simp only [argmaxGo, argmaxAux, oLt_eq, ih]

theorem argmax_eq (l : List (Option Rat)) : argmax l = argmaxFirst l := by
  cases l with
  | nil => rfl
  | cons x xs => simp only [argmax, argmaxFirst, argmaxGo_eq]

/-- entry-wise operation on three rows, operands in any order the translator's canonical sorting produced -/
theorem zw3_eq_zipWith3 {α β γ δ : Type} (f : α → β → γ → δ) :
    ∀ (as : List α) (bs : List β) (cs : List γ), zw3 f as bs cs = zipWith3 f as bs cs := by
  intro as
  induction as with
  | nil => intro bs cs; simp [zw3, zipWith3]
  | cons a as ih =>
    intro bs cs
    cases bs with
    | nil => simp [zw3, zipWith3]
    | cons b bs =>
      cases cs with
      | nil => simp [zw3, zipWith3]
      | cons c cs => simp [zw3, zipWith3, ih]

theorem zw3_perm_bac {α β γ δ : Type} (f : α → β → γ → δ) (g : β → α → γ → δ) (h : ∀ a b c, f a b c = g b a c) :
    ∀ (as : List α) (bs : List β) (cs : List γ), zw3 f as bs cs = zipWith3 g bs as cs := by
  intro as
  induction as with
  | nil => intro bs cs; cases bs <;> simp [zw3, zipWith3]
  | cons a as ih =>
    intro bs cs
    cases bs with
    | nil => simp [zw3, zipWith3]
    | cons b bs =>
      cases cs with
      | nil => simp [zw3, zipWith3]
      | cons c cs => simp [zw3, zipWith3, ih, h]

/-- `(high, low, x)` in the generated order against the model's `(low, high, x)` -/
theorem zw3_perm_cab {α β γ δ : Type} (f : α → β → γ → δ) (g : γ → α → β → δ) (h : ∀ a b c, f a b c = g c a b) :
    ∀ (as : List α) (bs : List β) (cs : List γ), zw3 f as bs cs = zipWith3 g cs as bs := by
  intro as
  induction as with
  | nil => intro bs cs; cases cs <;> simp [zw3, zipWith3]
  | cons a as ih =>
    intro bs cs
    cases bs with
    | nil => cases cs <;> simp [zw3, zipWith3]
    | cons b bs =>
      cases cs with
      | nil => simp [zw3, zipWith3]
      | cons c cs => simp [zw3, zipWith3, ih, h]

theorem zw3_perm_cba {α β γ δ : Type} (f : α → β → γ → δ) (g : γ → β → α → δ) (h : ∀ a b c, f a b c = g c b a) :
    ∀ (as : List α) (bs : List β) (cs : List γ), zw3 f as bs cs = zipWith3 g cs bs as := by
  intro as
  induction as with
  | nil => intro bs cs; cases cs <;> cases bs <;> simp [zw3, zipWith3]
  | cons a as ih =>
    intro bs cs
    cases bs with
    | nil => cases cs <;> simp [zw3, zipWith3]
    | cons b bs =>
      cases cs with
      | nil => simp [zw3, zipWith3]
      | cons c cs => simp [zw3, zipWith3, ih, h]

/-- four rows `(high, low, noise, x)` against the model's clip of `x + noise` -/
theorem zw4_clip_add (f : Rat → Rat → Rat → Rat → Rat) (g : Rat → Rat → Rat → Rat)
    (h : ∀ a b c d, f a b c d = g b a (d + c)) :
    ∀ (as bs cs ds : List Rat), zw4 f as bs cs ds = zipWith3 g bs as (addVec ds cs) := by
  intro as
  induction as with
  | nil => intro bs cs ds; cases bs <;> simp [zw4, zipWith3]
  | cons a as ih =>
    intro bs cs ds
    cases bs with
    | nil => simp [zw4, zipWith3]
    | cons b bs =>
      cases cs with
      | nil => cases ds <;> simp [zw4, zipWith3, addVec]
      | cons c cs =>
        cases ds with
        | nil => simp [zw4, zipWith3, addVec]
        | cons d ds =>
          have := ih bs cs ds
          simp only [addVec] at this
          simp [zw4, zipWith3, addVec, this, h]

/-! ### masks: the source computes with 0/1 numbers, the model with Booleans -/

/-- a Boolean mask as the 0/1 row the library is given -/
def ofBools (m : List Bool) : List Rat := m.map (fun b => if b then 1 else 0)

theorem ofBools_replicate (n : Nat) : ofBools (List.replicate n true) = List.replicate n (1 : Rat) := by
  simp [ofBools]

theorem ofBools_length (m : List Bool) : (ofBools m).length = m.length := by simp [ofBools]

/-- a 0/1 row as second operand of an entry-wise operation: read the Booleans instead -/
theorem zipWith_ofBools {β : Type} (f : Rat → Rat → β) (q : List Rat) (m : List Bool) :
    List.zipWith f q (ofBools m) = List.zipWith (fun x b => f x (if b then 1 else 0)) q m := by
  simp [ofBools, List.zipWith_map_right]

theorem zipWith_ofBools_left {β : Type} (f : Rat → Rat → β) (q : List Rat) (m : List Bool) :
    List.zipWith f (ofBools m) q = List.zipWith (fun b x => f (if b then 1 else 0) x) m q := by
  simp [ofBools, List.zipWith_map_left]

/-- two masked score rows with the same entries have the same first maximum -/
theorem pick_congr (f g : Rat → Bool → Option Rat) (q : List Rat) (m : List Bool) (h : ∀ x b, f x b = g x b) :
    argmaxFirst (List.zipWith f q m) = argmaxFirst (List.zipWith g q m) := by
  have : f = g := funext fun x => funext fun b => h x b
  rw [this]

/-- closes `argmaxFirst (zipWith <translated entry expression> q m) = argmaxFirst (zipWith <model's> q m)`:
    the entry expressions agree on a legal (`1`) and on a masked (`0`) entry — whatever the order of the
    operands of `*`, and whether the source wrote `.bool()` or `≠ 0` -/
macro "mask_entries" : tactic =>
  `(tactic| (apply pick_congr; intro x b; cases b <;> simp))

/-! ### DQN / CQN / RainbowDQN -/

/-- `DQN.get_action` → `_get_action`, a mask given -/
theorem gen_dqn_get_action_some_eq (q r : List Rat) (m : List Bool) (eps u : Rat) (A : Nat) :
    DQN.get_action (epsilon := eps) (action_mask := some (ofBools m)) (self_action_dim := A)
      (self_actor_out := q) (rand_like := r) (uniform_ := u) = dqnRow q r m eps u := by
  simp only [DQN.get_action, dqnRow, maPick, explorePick, maskFill, randScores, argmax_eq, zipWith_ofBools,
    decide_eq_true_eq, gt_iff_lt]
  split <;> mask_entries

/-- `DQN.get_action`, no mask: `torch.ones((batch, action_dim))` is the all-legal mask -/
theorem gen_dqn_get_action_none_eq (q r : List Rat) (eps u : Rat) (A : Nat) :
    DQN.get_action (epsilon := eps) (action_mask := none) (self_action_dim := A)
      (self_actor_out := q) (rand_like := r) (uniform_ := u) = dqnRow q r (List.replicate A true) eps u := by
  simp only [DQN.get_action, dqnRow, maPick, explorePick, maskFill, randScores, argmax_eq, ← ofBools_replicate,
    zipWith_ofBools, decide_eq_true_eq, gt_iff_lt]
  split <;> mask_entries

theorem gen_cqn_get_action_some_eq (q r : List Rat) (m : List Bool) (eps u : Rat) (k : Nat) :
    CQN.get_action (epsilon := eps) (action_mask := some (ofBools m)) (self_actor_out := q)
      (np_random_randint := k) (np_random_uniform := r) (random_random := u) = cqnRow q r m eps u := by
  simp only [CQN.get_action, cqnRow, maPick, explorePick, maskFill, randScores, argmax_eq, zipWith_ofBools,
    decide_eq_true_eq]
  split <;> mask_entries

theorem gen_cqn_get_action_none_eq (q r : List Rat) (eps u : Rat) (k : Nat) :
    CQN.get_action (epsilon := eps) (action_mask := none) (self_actor_out := q)
      (np_random_randint := k) (np_random_uniform := r) (random_random := u) = cqnRowNoMask q k eps u := by
  simp only [CQN.get_action, cqnRowNoMask, plainPick, argmax_eq, decide_eq_true_eq]

theorem gen_rainbow_get_action_some_eq (q : List Rat) (m : List Bool) :
    Rainbow.get_action (action_mask := some (ofBools m)) (self_actor_out := q) = maPick q m := by
  simp only [Rainbow.get_action, maPick, maskFill, argmax_eq, zipWith_ofBools]
  mask_entries

theorem gen_rainbow_get_action_none_eq (q : List Rat) :
    Rainbow.get_action (action_mask := none) (self_actor_out := q) = plainPick q := by
  simp only [Rainbow.get_action, plainPick, argmax_eq]

/-! ### DDPG / TD3 -/

theorem gen_ddpg_get_action_eq (tr : Bool) (los his a noise : List Rat) :
    DDPG.get_action (training := tr) (self_action_space_high := his) (self_action_space_low := los)
      (self_actor_out := a) (self_action_noise := noise) = ddpgRow tr los his a noise := by
  have ha : List.zipWith (fun (x0 x1 : Rat) => x0 + x1) a noise = addVec a noise := rfl
  simp only [DDPG.get_action, ddpgRow, clipVec]
  first
    | (rw [ha]; exact zw3_perm_bac _ _ (fun _ _ _ => rfl) _ _ _)
    | (rw [show List.zipWith (fun (x0 x1 : Rat) => x1 + x0) a noise = addVec a noise from by
            simp only [addVec]; congr 1; funext x y; exact add_comm y x]
       exact zw3_perm_bac _ _ (fun _ _ _ => rfl) _ _ _)

theorem gen_td3_get_action_eq (tr : Bool) (los his a noise : List Rat) :
    TD3.get_action (training := tr) (self_action_space_high := his) (self_action_space_low := los)
      (self_actor_out := a) (self_action_noise := noise) = ddpgRow tr los his a noise := by
  have ha : List.zipWith (fun (x0 x1 : Rat) => x0 + x1) a noise = addVec a noise := rfl
  simp only [TD3.get_action, ddpgRow, clipVec]
  first
    | (rw [ha]; exact zw3_perm_bac _ _ (fun _ _ _ => rfl) _ _ _)
    | (rw [show List.zipWith (fun (x0 x1 : Rat) => x1 + x0) a noise = addVec a noise from by
            simp only [addVec]; congr 1; funext x y; exact add_comm y x]
       exact zw3_perm_bac _ _ (fun _ _ _ => rfl) _ _ _)

/-! ### PPO / IPPO evaluation mode, `StochasticActor.scale_action` -/

theorem scale_perm (hi lo x : Rat) : lo + (((1 : Rat) / 2) * (x + 1)) * (hi - lo) = scaleAction lo hi x := by
  simp [scaleAction]

/-- `StochasticActor.scale_action` = the model's `scaleAction` per dimension -/
theorem gen_scale_action_eq (los his xs : List Rat) :
    StochActor.scale_action (action := xs) (self_action_high := his) (self_action_low := los)
      = zipWith3 scaleAction los his xs := by
  simp only [StochActor.scale_action]
  exact zw3_perm_cba _ _ (by intro x hi lo; simp only [scaleAction]; try ring) _ _ _

/-- PPO in evaluation mode on a Box -/
theorem gen_ppo_get_action_eval_eq (sq : Bool) (los his xs : List Rat) :
    PPO.get_action (self_action_space_high := his) (self_action_space_is_Box := true) (self_action_space_low := los)
      (self_actor_forward_head_out_0 := xs) (self_actor_squash_output := sq) (self_training := false)
      = pgEvalBox sq los his xs := by
  cases sq <;>
    simp only [PPO.get_action, pgEvalBox, clipVec, Bool.not_false, Bool.and_true, Bool.true_and, Bool.and_self,
      Bool.false_eq_true, ↓reduceIte] <;>
    exact zw3_perm_bac _ _ (by intro hi lo x; first | rfl | (simp only [scaleAction]; try ring)) _ _ _

/-- PPO while training, or on a space that is not a Box: the sample is returned as it is -/
theorem gen_ppo_get_action_other_eq (sq box tr : Bool) (los his xs : List Rat) (h : tr = true ∨ box = false) :
    PPO.get_action (self_action_space_high := his) (self_action_space_is_Box := box) (self_action_space_low := los)
      (self_actor_forward_head_out_0 := xs) (self_actor_squash_output := sq) (self_training := tr) = xs := by
  rcases h with h | h <;> subst h <;> simp [PPO.get_action]

/-- IPPO, one agent, evaluation mode on a Box (the actor's bounds are those of the agent's space) -/
theorem gen_ippo_agent_action_eval_eq (sq : Bool) (los his xs : List Rat) :
    IPPO.agent_action (self_action_space_i_high := his) (self_action_space_i_is_Box := true)
      (self_action_space_i_low := los) (self_actors_i_action_high := his) (self_actors_i_action_low := los)
      (self_actors_i_out_0 := xs) (self_actors_i_squash_output := sq) (self_training := false)
      = pgEvalBox sq los his xs := by
  cases sq <;>
    simp only [IPPO.agent_action, pgEvalBox, clipVec, Bool.not_false, Bool.and_true, Bool.true_and, Bool.and_self,
      Bool.false_eq_true, ↓reduceIte] <;>
    exact zw3_perm_bac _ _ (by intro hi lo x; first | rfl | (simp only [scaleAction]; try ring)) _ _ _

theorem gen_ippo_agent_action_other_eq (sq box tr : Bool) (los his los' his' xs : List Rat) (h : tr = true ∨ box = false) :
    IPPO.agent_action (self_action_space_i_high := his) (self_action_space_i_is_Box := box)
      (self_action_space_i_low := los) (self_actors_i_action_high := his') (self_actors_i_action_low := los')
      (self_actors_i_out_0 := xs) (self_actors_i_squash_output := sq) (self_training := tr) = xs := by
  rcases h with h | h <;> subst h <;> simp [IPPO.agent_action]

/-! ### `DeterministicActor.forward` / `rescale_action` -/

/-- the string `output_activation` holds for each activation of the model (`none`: no output activation) -/
def actName : OutAct → Option String
  | .tanh => some "Tanh"
  | .softsign => some "Softsign"
  | .sigmoid => some "Sigmoid"
  | .softmax => some "Softmax"
  | .gumbel => some "GumbelSoftmax"
  | .unbounded => none

theorem allSomeR_map_some (l : List Rat) : allSomeR (l.map some) = some l := by
  induction l with
  | nil => rfl
  | cons a l ih => simp [allSomeR, ih]

theorem rescale_perm (act : OutAct) (pmin pmax : Rat) (h : prescaled act = some (pmin, pmax)) (hi lo a : Rat) :
    lo + (((hi - lo) * (a - pmin)) / (pmax - pmin)) = rescale act lo hi a := by
  simp [rescale, h, rescaleWith]

theorem zipWith3_third (los his : List Rat) : ∀ (h : List Rat), los.length = h.length → his.length = h.length →
    zipWith3 (fun (_ _ a : Rat) => a) los his h = h := by
  induction los generalizing his with
  | nil => intro h h1 _; cases h <;> simp_all [zipWith3]
  | cons l los ih =>
    intro h h1 h2
    cases his with
    | nil => cases h <;> simp_all
    | cons hi his =>
      cases h with
      | nil => simp at h1
      | cons a h => simp only [List.length_cons, Nat.add_right_cancel_iff] at h1 h2; simp [zipWith3, ih his h h1 h2]

/-- finite bounds (no `isinf` flag set): `forward` rescales the head's output exactly as the model's `actorOut` -/
theorem gen_actor_forward_eq (act : OutAct) (los his h : List Rat) (fl fh : List Bool)
    (hfl : fl.any (fun b => b) = false) (hfh : fh.any (fun b => b) = false)
    (hl : los.length = h.length) (hh : his.length = h.length) :
    Actor.forward (self_action_high := his) (self_action_high_isinf := fh) (self_action_low := los)
      (self_action_low_isinf := fl) (self_action_space_is_Box := true) (self_clip_actions := true)
      (self_head_net_out := h) (self_output_activation := actName act) = actorOut act los his h := by
  have e (pmin pmax : Rat) (hp : prescaled act = some (pmin, pmax)) :=
    zw3_perm_bac (fun (x0 x1 x2 : Rat) => (x1 + (((x0 - x1) * (x2 - pmin)) / (pmax - pmin))))
      (rescale act) (fun hi lo a => rescale_perm act pmin pmax hp hi lo a) his los h
  have e1 := e (-1) 1
  have e0 := e 0 1
  have hu : rescale OutAct.unbounded = fun (_ _ a : Rat) => a := by funext lo hi a; simp [rescale, prescaled]
  cases act <;>
    simp [Actor.forward, actorOut, rescaleVec, allSomeR_map_some, actName, hfl, hfh] <;>
    first
      | (simpa using e1 rfl)
      | (simpa using e0 rfl)
      | (rw [hu, zipWith3_third los his h hl hh])

/-- a non-finite bound anywhere, or `clip_actions` off, or no Box: the head's output is returned as it is -/
theorem gen_actor_forward_id (name : Option String) (los his h : List Rat) (fl fh : List Bool) (box clipA : Bool)
    (hc : box = false ∨ clipA = false ∨ fl.any (fun b => b) = true ∨ fh.any (fun b => b) = true) :
    Actor.forward (self_action_high := his) (self_action_high_isinf := fh) (self_action_low := los)
      (self_action_low_isinf := fl) (self_action_space_is_Box := box) (self_clip_actions := clipA)
      (self_head_net_out := h) (self_output_activation := name) = h := by
  rcases hc with hc | hc | hc | hc <;> simp [Actor.forward, hc]

/-! ### MADDPG / MATD3, one agent, not compiled (`torch_compiler is None`: the actor's `forward` has rescaled) -/

theorem zipWith_clamp01 (noise a : List Rat) :
    List.zipWith (fun (x0 : Rat) (x1 : Rat) => (min (max (x1 + x0) (0 : Rat)) (1 : Rat))) noise a
      = (addVec a noise).map (clip 0 1) := by
  simp only [addVec, List.map_zipWith, clip]
  rw [List.zipWith_comm]

/-- Box: training = noise then per-dimension clamp, evaluation = per-dimension clamp — the model's `ddpgRow`,
    which `maContRow true` overrides with the env-defined actions -/
theorem gen_maddpg_agent_action_box_eq (tr box : Bool) (los his a noise ah al : List Rat) (fh fl : List Bool)
    (name : Option String) :
    MADDPG.agent_action (training := tr) (self_action_spaces_i_is_Box := box) (self_actors_i_action_high := ah)
      (self_actors_i_action_high_isinf := fh) (self_actors_i_action_low := al) (self_actors_i_action_low_isinf := fl)
      (self_actors_i_out := a) (self_actors_i_output_activation := name) (self_discrete_actions := false)
      (self_max_action_i := his) (self_min_action_i := los) (self_torch_compiler_is_None := true)
      (self_action_noise := noise) = ddpgRow tr los his a noise := by
  have h1 := zw4_clip_add (fun (x0 x1 x2 x3 : Rat) => (min (max (x3 + x2) x1) x0)) clip (fun _ _ _ _ => rfl) his los noise a
  have h2 := zw3_perm_bac (fun (x0 x1 x2 : Rat) => (min (max x2 x1) x0)) clip (fun _ _ _ => rfl) his los a
  cases tr <;> simp [MADDPG.agent_action, ddpgRow, clipVec, h1, h2]

/-- discrete: the scores handed to the masked argmax are the model's (noisy, clamped to [0,1] when training) -/
theorem gen_maddpg_agent_action_discrete_eq (tr box : Bool) (los his p noise ah al : List Rat) (fh fl : List Bool)
    (name : Option String) :
    MADDPG.agent_action (training := tr) (self_action_spaces_i_is_Box := box) (self_actors_i_action_high := ah)
      (self_actors_i_action_high_isinf := fh) (self_actors_i_action_low := al) (self_actors_i_action_low_isinf := fl)
      (self_actors_i_out := p) (self_actors_i_output_activation := name) (self_discrete_actions := true)
      (self_max_action_i := his) (self_min_action_i := los) (self_torch_compiler_is_None := true)
      (self_action_noise := noise) = (if tr then (addVec p noise).map (clip 0 1) else p) := by
  cases tr <;> simp [MADDPG.agent_action, zipWith_clamp01]

theorem gen_matd3_agent_action_box_eq (tr box : Bool) (los his a noise ah al : List Rat) (fh fl : List Bool)
    (name : Option String) :
    MATD3.agent_action (training := tr) (self_action_spaces_i_is_Box := box) (self_actors_i_action_high := ah)
      (self_actors_i_action_high_isinf := fh) (self_actors_i_action_low := al) (self_actors_i_action_low_isinf := fl)
      (self_actors_i_out := a) (self_actors_i_output_activation := name) (self_discrete_actions := false)
      (self_max_action_i := his) (self_min_action_i := los) (self_torch_compiler_is_None := true)
      (self_action_noise := noise) = ddpgRow tr los his a noise := by
  have h1 := zw4_clip_add (fun (x0 x1 x2 x3 : Rat) => (min (max (x3 + x2) x1) x0)) clip (fun _ _ _ _ => rfl) his los noise a
  have h2 := zw3_perm_bac (fun (x0 x1 x2 : Rat) => (min (max x2 x1) x0)) clip (fun _ _ _ => rfl) his los a
  cases tr <;> simp [MATD3.agent_action, ddpgRow, clipVec, h1, h2]

theorem gen_matd3_agent_action_discrete_eq (tr box : Bool) (los his p noise ah al : List Rat) (fh fl : List Bool)
    (name : Option String) :
    MATD3.agent_action (training := tr) (self_action_spaces_i_is_Box := box) (self_actors_i_action_high := ah)
      (self_actors_i_action_high_isinf := fh) (self_actors_i_action_low := al) (self_actors_i_action_low_isinf := fl)
      (self_actors_i_out := p) (self_actors_i_output_activation := name) (self_discrete_actions := true)
      (self_max_action_i := his) (self_min_action_i := los) (self_torch_compiler_is_None := true)
      (self_action_noise := noise) = (if tr then (addVec p noise).map (clip 0 1) else p) := by
  cases tr <;> simp [MATD3.agent_action, zipWith_clamp01]

/-- the model's multi-agent row is `ddpgRow` followed by the env-defined override -/
theorem maContRow_eq_override (tr : Bool) (los his a noise : List Rat) (env : List (Option Rat)) :
    maContRow true tr los his a noise env = override (ddpgRow tr los his a noise) env := by
  cases tr <;> simp [maContRow, ddpgRow]

/-! ### the hypotheses are satisfiable: concrete evaluations of the generated definitions -/

example : DQN.get_action (epsilon := 0) (action_mask := some (ofBools [true, false, true, true])) (self_action_dim := 4)
    (self_actor_out := [5, 1000000, 7, 7]) (rand_like := [0, 0, 0, 0]) (uniform_ := 1 / 2) = 2 := by
  rw [gen_dqn_get_action_some_eq]
  simp [dqnRow, maPick, maskFill, argmaxFirst, argmaxAux, olt]; norm_num

example : DQN.get_action_draws_ok (self_actor_out := [5, 7]) (rand_like := [1 / 4, 0]) (uniform_ := 1 / 2) := by
  simp [DQN.get_action_draws_ok]; norm_num

example : CQN.get_action_draws_ok (self_action_dim := 2) (np_random_randint := 1) (np_random_uniform := [1 / 4, 0])
    (random_random := 1 / 2) := by
  simp [CQN.get_action_draws_ok]; norm_num

example : DDPG.get_action (training := true) (self_action_space_high := [1 / 2, 4]) (self_action_space_low := [-1, 2])
    (self_actor_out := [0, 0]) (self_action_noise := [3, -5]) = [1 / 2, 2] := by
  rw [gen_ddpg_get_action_eq]
  simp [ddpgRow, clipVec, zipWith3, addVec, clip]; norm_num

example : ([false, false] : List Bool).any (fun b => b) = false := by decide

end ActionGen
