import Proofs.ActionArgmax

/-!
# Masked greedy / exploring choices: what `argmaxFirst` picks under a mask
-/
namespace Action

theorem sc_maskFill {q : List Rat} {m : List Bool} {j : Nat} {x : Rat} {b : Bool}
    (h1 : q[j]? = some x) (h2 : m[j]? = some b) :
    sc (maskFill q m) j = if b then some x else none := by
  simp [sc, maskFill, List.getD_eq_getElem?_getD, List.getElem?_zipWith, h1, h2]

theorem sc_randScores {r : List Rat} {m : List Bool} {j : Nat} {x : Rat} {b : Bool}
    (h1 : r[j]? = some x) (h2 : m[j]? = some b) :
    sc (randScores r m) j = some (if b then x else 0) := by
  simp [sc, randScores, List.getD_eq_getElem?_getD, List.getElem?_zipWith, h1, h2]

theorem getElem?_of_lt {α} (l : List α) (i : Nat) (h : i < l.length) : ∃ x, l[i]? = some x :=
  ⟨l[i], List.getElem?_eq_getElem h⟩

theorem lt_of_getElem? {α} {l : List α} {i : Nat} {x : α} (h : l[i]? = some x) : i < l.length := by
  by_contra hc
  rw [List.getElem?_eq_none (by omega)] at h
  exact absurd h (by simp)

/-- the greedy choice under a mask with at least one allowed action: it is in range, allowed,
    its value is ≥ every allowed value, and strictly greater than every allowed value before it -/
theorem maPick_spec (q : List Rat) (m : List Bool) (hlen : q.length = m.length)
    (a : Nat) (ha : m[a]? = some true) :
    ∃ v, q[maPick q m]? = some v ∧ m[maPick q m]? = some true ∧
      (∀ (j : Nat) (x : Rat), m[j]? = some true → q[j]? = some x → x ≤ v) ∧
      (∀ (j : Nat) (x : Rat), j < maPick q m → m[j]? = some true → q[j]? = some x → x < v) := by
  have ham : a < m.length := lt_of_getElem? ha
  have hl : (maskFill q m).length = q.length := by simp [maskFill, List.length_zipWith, hlen]
  have hne : maskFill q m ≠ [] := by
    intro h; rw [h] at hl; simp at hl; omega
  have spec := argmaxFirst_spec (maskFill q m) hne
  have hk : maPick q m < q.length := by rw [← hl]; exact spec.lt_len
  obtain ⟨v, hv⟩ := getElem?_of_lt q _ hk
  obtain ⟨b, hb⟩ := getElem?_of_lt m (maPick q m) (by omega)
  obtain ⟨xa, hxa⟩ := getElem?_of_lt q a (by omega)
  have hsk : sc (maskFill q m) (argmaxFirst (maskFill q m)) = if b then some v else none :=
    sc_maskFill hv hb
  have hsa : sc (maskFill q m) a = some xa := by simpa using sc_maskFill hxa ha
  have hbt : b = true := by
    cases b with
    | true => rfl
    | false =>
      have := spec.is_max a
      rw [hsk, hsa] at this
      simp [olt] at this
  subst hbt
  refine ⟨v, hv, hb, ?_, ?_⟩
  · intro j x hmj hqj
    have := spec.is_max j
    rw [hsk, sc_maskFill hqj hmj] at this
    simpa [olt] using this
  · intro j x hjk hmj hqj
    have := spec.is_first j hjk
    rw [hsk, sc_maskFill hqj hmj] at this
    simpa [olt] using this

/-- the exploring choice is allowed as soon as one allowed action drew a positive score -/
theorem explorePick_spec (r : List Rat) (m : List Bool) (hlen : r.length = m.length)
    (a : Nat) (ra : Rat) (ha : m[a]? = some true) (hra : r[a]? = some ra) (hpos : 0 < ra) :
    m[explorePick r m]? = some true := by
  have ham : a < m.length := lt_of_getElem? ha
  have hl : (randScores r m).length = r.length := by simp [randScores, List.length_zipWith, hlen]
  have hne : randScores r m ≠ [] := by
    intro h; rw [h] at hl; simp at hl; omega
  have spec := argmaxFirst_spec (randScores r m) hne
  have hk : explorePick r m < r.length := by rw [← hl]; exact spec.lt_len
  obtain ⟨v, hv⟩ := getElem?_of_lt r _ hk
  obtain ⟨b, hb⟩ := getElem?_of_lt m (explorePick r m) (by omega)
  have hsk : sc (randScores r m) (argmaxFirst (randScores r m)) = some (if b then v else 0) :=
    sc_randScores hv hb
  have hsa : sc (randScores r m) a = some ra := by simpa using sc_randScores hra ha
  cases b with
  | true => exact hb
  | false =>
    have := spec.is_max a
    rw [hsk, hsa] at this
    simp [olt] at this
    linarith

/-- without a mask the greedy choice is in range and maximal -/
theorem plainPick_spec (q : List Rat) (hne : q ≠ []) :
    ∃ v, q[plainPick q]? = some v ∧ (∀ (j : Nat) (x : Rat), q[j]? = some x → x ≤ v) := by
  have hm : (List.replicate q.length true)[0]? = some true := by
    cases q with
    | nil => exact absurd rfl hne
    | cons x xs => simp [List.replicate]
  have hfill : maskFill q (List.replicate q.length true) = q.map some := by
    clear hm hne
    induction q with
    | nil => rfl
    | cons x xs ih => simp [maskFill, List.replicate] at ih ⊢; exact ih
  obtain ⟨v, hv, -, hmax, -⟩ := maPick_spec q (List.replicate q.length true) (by simp) 0 hm
  refine ⟨v, ?_, ?_⟩
  · simpa [maPick, plainPick, hfill] using hv
  · intro j x hj
    exact hmax j x (by
      have := lt_of_getElem? hj
      simp [this]) hj

end Action
