import Model.Arch
/-!
  Proofs/ArchBounds.lean — every mutation method keeps every block inside its declared bounds,
  with the exact guards of the code (helper lemmas for Props/C03.lean).  Core tactics only.
-/
namespace Arch

theorem forall_mem_set {P : Nat → Prop} (l : List Nat) (i x : Nat)
    (h : ∀ y ∈ l, P y) (hx : i < l.length → P x) : ∀ y ∈ l.set i x, P y := by
  intro y hy
  by_cases hi : i < l.length
  · rcases List.mem_or_eq_of_mem_set hy with hy | rfl
    · exact h y hy
    · exact hx hi
  · rw [List.set_eq_of_length_le (by omega)] at hy; exact h y hy

theorem getD_mem_of_lt (l : List Nat) (i d : Nat) (hi : i < l.length) : l.getD i d ∈ l := by
  rw [List.getD_eq_getElem?_getD, List.getElem?_eq_getElem hi]; exact List.getElem_mem hi

theorem getLastD_mem (l : List Nat) (d : Nat) (h : l ≠ []) : l.getLastD d ∈ l := by
  cases l with
  | nil => exact absurd rfl h
  | cons a t => rw [List.getLastD_cons]; exact List.getLastD_mem_cons

/-! ### MLP -/

theorem MLP.addNode_inBounds (m : MLP) (a : Args) (h : m.InBounds) : (m.addNode a).InBounds := by
  obtain ⟨h1, h2, h3⟩ := h
  unfold MLP.addNode
  simp only
  split
  · rename_i hg
    refine ⟨by simpa using h1, by simpa using h2, ?_⟩
    apply forall_mem_set _ _ _ h3
    intro hi
    have := h3 _ (getD_mem_of_lt m.hidden _ 0 hi)
    exact ⟨by omega, hg⟩
  · exact ⟨h1, h2, h3⟩

theorem MLP.removeNode_inBounds (m : MLP) (a : Args) (h : m.InBounds) : (m.removeNode a).InBounds := by
  obtain ⟨h1, h2, h3⟩ := h
  unfold MLP.removeNode
  simp only
  split
  · rename_i hg
    refine ⟨by simpa using h1, by simpa using h2, ?_⟩
    apply forall_mem_set _ _ _ h3
    intro hi
    have := h3 _ (getD_mem_of_lt m.hidden _ 0 hi)
    exact ⟨by omega, by omega⟩
  · exact ⟨h1, h2, h3⟩

theorem MLP.step_inBounds (m : MLP) (me : MlpMethod) (a : Args) (hw : m.WF) (h : m.InBounds) :
    (m.step me a).1.InBounds := by
  cases me <;> simp only [MLP.step]
  · split
    · rename_i hg
      obtain ⟨h1, h2, h3⟩ := h
      have hne : m.hidden ≠ [] := by
        intro e; rw [e] at h1; simp at h1; unfold MLP.WF at hw; omega
      refine ⟨by simp; omega, by simp; omega, ?_⟩
      intro y hy
      simp only [List.mem_append, List.mem_singleton] at hy
      rcases hy with hy | rfl
      · exact h3 y hy
      · exact h3 _ (getLastD_mem _ _ hne)
    · exact MLP.addNode_inBounds m a h
  · split
    · rename_i hg
      obtain ⟨h1, h2, h3⟩ := h
      refine ⟨by simp; omega, by simp; omega, ?_⟩
      intro y hy
      exact h3 y (List.dropLast_subset _ hy)
    · exact MLP.addNode_inBounds m a h
  · exact MLP.addNode_inBounds m a h
  · exact MLP.removeNode_inBounds m a h

theorem MLP.addNode_wf (m : MLP) (a : Args) : (m.addNode a).WF ↔ m.WF := by
  unfold MLP.addNode MLP.WF; simp only; split <;> rfl
theorem MLP.removeNode_wf (m : MLP) (a : Args) : (m.removeNode a).WF ↔ m.WF := by
  unfold MLP.removeNode MLP.WF; simp only; split <;> rfl

theorem MLP.step_wf (m : MLP) (me : MlpMethod) (a : Args) (hw : m.WF) : (m.step me a).1.WF := by
  cases me <;> simp only [MLP.step]
  · split
    · exact hw
    · exact (MLP.addNode_wf m a).2 hw
  · split
    · exact hw
    · exact (MLP.addNode_wf m a).2 hw
  · exact (MLP.addNode_wf m a).2 hw
  · exact (MLP.removeNode_wf m a).2 hw

/-! ### CNN -/

theorem CNN.addChannel_inBounds (c : CNN) (a : Args) (h : c.InBounds) : (c.addChannel a).InBounds := by
  obtain ⟨h1, h2, h3⟩ := h
  unfold CNN.addChannel
  simp only
  split
  · rename_i hg
    refine ⟨by simpa using h1, by simpa using h2, ?_⟩
    apply forall_mem_set _ _ _ h3
    intro hi
    have := h3 _ (getD_mem_of_lt c.channels _ 0 hi)
    exact ⟨by omega, hg⟩
  · exact ⟨h1, h2, h3⟩

theorem CNN.removeChannel_inBounds (c : CNN) (a : Args) (h : c.InBounds) : (c.removeChannel a).InBounds := by
  obtain ⟨h1, h2, h3⟩ := h
  unfold CNN.removeChannel
  simp only
  split
  · rename_i hg
    refine ⟨by simpa using h1, by simpa using h2, ?_⟩
    apply forall_mem_set _ _ _ h3
    intro hi
    have := h3 _ (getD_mem_of_lt c.channels _ 0 hi)
    exact ⟨by omega, by omega⟩
  · exact ⟨h1, h2, h3⟩

theorem CNN.addLayer_inBounds (c : CNN) (a : Args) (hw : c.WF) (h : c.InBounds) : (c.addLayer a).1.InBounds := by
  unfold CNN.addLayer
  split
  · rename_i hg
    obtain ⟨h1, h2, h3⟩ := h
    have hlt : c.channels.length < c.maxLayers := by
      unfold CNN.addLayerGuard at hg
      simp only [Bool.and_eq_true, decide_eq_true_eq] at hg
      exact hg.1.1
    have hne : c.channels ≠ [] := by
      intro e; rw [e] at h1; simp at h1; have := hw.1; omega
    refine ⟨by simp; omega, by simp; omega, ?_⟩
    intro y hy
    simp only [List.mem_append, List.mem_singleton] at hy
    rcases hy with hy | rfl
    · exact h3 y hy
    · exact h3 _ (getLastD_mem _ _ hne)
  · exact CNN.addChannel_inBounds c a h

theorem CNN.step_inBounds (p : Policy) (lo : Bool) (c : CNN) (me : CnnMethod) (a : Args) (hw : c.WF)
    (h : c.InBounds) : (c.step p lo me a).1.InBounds := by
  cases me <;> simp only [CNN.step]
  · exact CNN.addLayer_inBounds c a hw h
  · split
    · rename_i hg
      obtain ⟨h1, h2, h3⟩ := h
      refine ⟨by simp; omega, by simp; omega, ?_⟩
      intro y hy
      exact h3 y (List.dropLast_subset _ hy)
    · exact CNN.addChannel_inBounds c a h
  · split
    · exact h
    · split
      · exact CNN.addLayer_inBounds c a hw h
      · exact CNN.addChannel_inBounds c a h
  · exact CNN.addChannel_inBounds c a h
  · exact CNN.removeChannel_inBounds c a h

theorem CNN.addChannel_wf (c : CNN) (a : Args) (hw : c.WF) : (c.addChannel a).WF := by
  unfold CNN.addChannel; simp only; split
  · obtain ⟨h1, h2, h3⟩ := hw; exact ⟨h1, by simpa using h2, by simpa using h3⟩
  · exact hw
theorem CNN.removeChannel_wf (c : CNN) (a : Args) (hw : c.WF) : (c.removeChannel a).WF := by
  unfold CNN.removeChannel; simp only; split
  · obtain ⟨h1, h2, h3⟩ := hw; exact ⟨h1, by simpa using h2, by simpa using h3⟩
  · exact hw
theorem CNN.addLayer_wf (c : CNN) (a : Args) (hw : c.WF) : (c.addLayer a).1.WF := by
  unfold CNN.addLayer; split
  · obtain ⟨h1, h2, h3⟩ := hw; exact ⟨h1, by simp; omega, by simp; omega⟩
  · exact CNN.addChannel_wf c a hw

/-- the three lists keep equal lengths (so that the code's index arithmetic is meaningful) -/
theorem CNN.step_wf (p : Policy) (lo : Bool) (c : CNN) (me : CnnMethod) (a : Args) (hw : c.WF) :
    (c.step p lo me a).1.WF := by
  cases me <;> simp only [CNN.step]
  · exact CNN.addLayer_wf c a hw
  · split
    · obtain ⟨h1, h2, h3⟩ := hw; exact ⟨h1, by simp; omega, by simp; omega⟩
    · exact CNN.addChannel_wf c a hw
  · split
    · obtain ⟨h1, h2, h3⟩ := hw; exact ⟨h1, by simpa using h2, h3⟩
    · split
      · exact CNN.addLayer_wf c a hw
      · exact CNN.addChannel_wf c a hw
  · exact CNN.addChannel_wf c a hw
  · exact CNN.removeChannel_wf c a hw

/-! ### LSTM, SimBa, ResNet, latent width -/

theorem LSTM.step_inBounds (l : LSTM) (me : MlpMethod) (a : Args) (h : l.InBounds) : (l.step me a).1.InBounds := by
  obtain ⟨h1, h2, h3, h4⟩ := h
  cases me <;> simp only [LSTM.step, LSTM.addNode, LSTM.removeNode] <;>
    (repeat' split) <;> simp only [LSTM.InBounds] <;> omega

theorem SimBa.step_inBounds (s : SimBa) (me : BlockMethod) (a : Args) (h : s.InBounds) : (s.step me a).1.InBounds := by
  obtain ⟨h1, h2, h3, h4⟩ := h
  cases me <;> simp only [SimBa.step, SimBa.addNode, SimBa.removeNode] <;>
    (repeat' split) <;> simp only [SimBa.InBounds] <;> omega

theorem ResNet.step_inBounds (r : ResNet) (me : BlockMethod) (a : Args) (h : r.InBounds) : (r.step me a).1.InBounds := by
  obtain ⟨h1, h2, h3, h4⟩ := h
  cases me <;> simp only [ResNet.step, ResNet.addChannel, ResNet.removeChannel] <;>
    (repeat' split) <;> simp only [ResNet.InBounds] <;> omega

theorem Latent.step_inBounds (l : Latent) (me : LatentMethod) (a : Args) (h : l.InBounds) : (l.step me a).1.InBounds := by
  obtain ⟨h1, h2⟩ := h
  cases me <;> simp only [Latent.step] <;> (repeat' split) <;> simp only [Latent.InBounds] <;> omega

end Arch
