import Model.Arch
/-!
  Proofs/ArchCnn.lean — feature-map arithmetic of EvolvableCNN: monotonicity of the unpadded
  convolution chain, `calc_max_kernel_sizes` stays in [1, 9], and which mutations keep every
  feature map ≥ 1.  Core tactics only.
-/
namespace Arch

def mapOK (p : Int × Int) : Bool := decide (1 ≤ p.1) && decide (1 ≤ p.2)

theorem spatialOK_eq (c : CNN) : c.spatialOK = (mapsAux c.inH c.inW c.kernels c.strides).all mapOK := rfl

theorem convOut_mono (h h' : Int) (k s : Nat) (hh : h ≤ h') : convOut h k s ≤ convOut h' k s := by
  unfold convOut
  rcases Nat.eq_zero_or_pos s with rfl | hs
  · simp
  · have : (h - (k : Int)) / (s : Int) ≤ (h' - (k : Int)) / (s : Int) :=
      Int.ediv_le_ediv (by omega) (by omega)
    omega

theorem convOut_anti (h : Int) (k k' s : Nat) (hk : k' ≤ k) : convOut h k s ≤ convOut h k' s := by
  unfold convOut
  rcases Nat.eq_zero_or_pos s with rfl | hs
  · simp
  · have : (h - (k : Int)) / (s : Int) ≤ (h - (k' : Int)) / (s : Int) :=
      Int.ediv_le_ediv (by omega) (by omega)
    omega

/-- larger inputs give larger maps everywhere -/
theorem mapsAux_all_mono (ks : List Nat) : ∀ (ss : List Nat) (h w h' w' : Int), h ≤ h' → w ≤ w' →
    (mapsAux h w ks ss).all mapOK = true → (mapsAux h' w' ks ss).all mapOK = true := by
  induction ks with
  | nil => intro ss h w h' w' _ _ _; simp [mapsAux]
  | cons k t ih =>
    intro ss h w h' w' hh hw hall
    cases ss with
    | nil => simp [mapsAux]
    | cons s st =>
      simp only [mapsAux, List.all_cons, Bool.and_eq_true] at hall ⊢
      have h1 := convOut_mono h h' k s hh
      have h2 := convOut_mono w w' k s hw
      refine ⟨?_, ih st _ _ _ _ h1 h2 hall.2⟩
      have := hall.1
      simp only [mapOK, Bool.and_eq_true, decide_eq_true_eq] at this ⊢
      omega

/-- shrinking (or keeping) one kernel keeps every feature map ≥ 1 -/
theorem mapsAux_set_le (ks : List Nat) : ∀ (ss : List Nat) (i k : Nat) (h w : Int),
    (i < ks.length → k ≤ ks.getD i 0) →
    (mapsAux h w ks ss).all mapOK = true → (mapsAux h w (ks.set i k) ss).all mapOK = true := by
  induction ks with
  | nil => intro ss i k h w _ _; simp [mapsAux]
  | cons k0 t ih =>
    intro ss i k h w hk hall
    cases ss with
    | nil => cases i <;> simp [mapsAux]
    | cons s st =>
      cases i with
      | zero =>
        have hk' : k ≤ k0 := by simpa using hk (by simp)
        simp only [List.set_cons_zero, mapsAux, List.all_cons, Bool.and_eq_true] at hall ⊢
        have h1 := convOut_anti h k0 k s hk'
        have h2 := convOut_anti w k0 k s hk'
        refine ⟨?_, mapsAux_all_mono t st _ _ _ _ h1 h2 hall.2⟩
        have := hall.1
        simp only [mapOK, Bool.and_eq_true, decide_eq_true_eq] at this ⊢
        omega
      | succ j =>
        simp only [List.set_cons_succ, mapsAux, List.all_cons, Bool.and_eq_true] at hall ⊢
        refine ⟨hall.1, ih st j k _ _ ?_ hall.2⟩
        intro hj
        have := hk (by simp; omega)
        simpa using this

/-- removing the last layer removes the last feature map -/
theorem mapsAux_dropLast (ks : List Nat) : ∀ (ss : List Nat) (h w : Int), ss.length = ks.length →
    mapsAux h w ks.dropLast ss.dropLast = (mapsAux h w ks ss).dropLast := by
  induction ks with
  | nil => intro ss h w _; simp [mapsAux]
  | cons k t ih =>
    intro ss h w hl
    cases ss with
    | nil => simp at hl
    | cons s st =>
      cases t with
      | nil =>
        cases st with
        | nil => simp [mapsAux]
        | cons _ _ => simp at hl
      | cons k2 t2 =>
        cases st with
        | nil => simp at hl
        | cons s2 st2 =>
          have := ih (s2 :: st2) (convOut h k s) (convOut w k s) (by simpa using hl)
          simp only [List.dropLast_cons_cons, mapsAux] at this ⊢
          rw [this]

/-- appending a layer appends one feature map computed from the previous last one -/
theorem mapsAux_append (ks : List Nat) : ∀ (ss : List Nat) (h w : Int) (k s : Nat), ss.length = ks.length →
    mapsAux h w (ks ++ [k]) (ss ++ [s]) =
      mapsAux h w ks ss ++
        [(convOut ((mapsAux h w ks ss).getLastD (h, w)).1 k s, convOut ((mapsAux h w ks ss).getLastD (h, w)).2 k s)] := by
  induction ks with
  | nil =>
    intro ss h w k s hl
    cases ss with
    | nil => simp [mapsAux]
    | cons _ _ => simp at hl
  | cons k0 t ih =>
    intro ss h w k s hl
    cases ss with
    | nil => simp at hl
    | cons s0 st =>
      have := ih st (convOut h k0 s0) (convOut w k0 s0) k s (by simpa using hl)
      simp only [List.cons_append, mapsAux, List.getLastD_cons] at this ⊢
      rw [this]

theorem clampK_range (m : Int) : 1 ≤ clampK m ∧ clampK m ≤ 9 := by
  unfold clampK; split
  · omega
  · split <;> omega

/-- a quarter of the map, never more than the map itself once it exceeds 2 -/
theorem clampK_le (m : Int) (h : 2 < clampK m) : (clampK m : Int) ≤ m := by
  unfold clampK at h ⊢; split at h
  · omega
  · rename_i h4
    rw [if_neg h4]
    split at h
    · rename_i h9; rw [if_pos h9]; omega
    · rename_i h9; rw [if_neg h9]; omega

theorem maxKernels_range (c : CNN) : ∀ k ∈ c.maxKernels, 1 ≤ k ∧ k ≤ 9 := by
  intro k hk
  simp only [CNN.maxKernels, List.mem_map] at hk
  obtain ⟨p, _, rfl⟩ := hk
  exact clampK_range _

theorem getD_range (l : List Nat) (i : Nat) (h : ∀ k ∈ l, 1 ≤ k ∧ k ≤ 9) : 1 ≤ l.getD i 1 ∧ l.getD i 1 ≤ 9 := by
  rw [List.getD_eq_getElem?_getD]
  cases hi : l[i]? with
  | none => simp
  | some v => simpa using h v (List.mem_of_getElem? hi)

theorem getLastD_le9 (l : List Nat) (h : ∀ k ∈ l, 1 ≤ k ∧ k ≤ 9) : l.getLastD 0 ≤ 9 := by
  cases l with
  | nil => simp
  | cons a t =>
    have : (a :: t).getLastD 0 ∈ a :: t := by rw [List.getLastD_cons]; exact List.getLastD_mem_cons
    exact (h _ this).2

end Arch
