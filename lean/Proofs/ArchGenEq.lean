import Proofs.ArchBounds
import Gen.ArchGen
import Mathlib.Tactic.SplitIfs

/-!
  Proofs/ArchGenEq.lean — the definitions GENERATED from the source text of the `@mutation` methods of
  EvolvableMLP, EvolvableCNN (+ MutableKernelSizes), EvolvableLSTM, EvolvableSimBa, EvolvableResNet and
  EvolvableNetwork (`Gen/ArchGen.lean`, written by `harness/py2lean_arch.py` on every run of the C03 check)
  are EQUAL to the hand-written state machines of `Model/Arch.lean`: for every method, every state with a
  non-empty layer list, every argument (explicit, or omitted and drawn) the generated function returns
  `none` exactly when the model's `drawsOK` rejects the draw, and otherwise the model's next state (as the
  record of ints the code holds), the dict the code returns and the name of the method that took effect.

  The proofs unfold the generated text, move the list operations of the Python prelude onto lists of
  naturals, then split every test and close each case by linear arithmetic (`arch_fin`): nothing in them
  depends on the order of independent statements or on the names of locals.
-/
namespace Arch
open ArchGen

set_option linter.unusedSimpArgs false
set_option linter.unusedTactic false

/-! ## the Python prelude on lists of naturals -/

/-- naturals of the model as the ints of the code -/
def ofNats (l : List Nat) : List Int := l.map Int.ofNat

@[simp] theorem ofNats_length (l : List Nat) : (ofNats l).length = l.length := by simp [ofNats]
theorem ofNats_set (l : List Nat) (i x : Nat) : ofNats (l.set i x) = (ofNats l).set i (x : Int) := by
  simp [ofNats, List.map_set]
theorem ofNats_dropLast (l : List Nat) : ofNats l.dropLast = (ofNats l).dropLast := by
  simp [ofNats, List.map_dropLast]
theorem ofNats_append_one (l : List Nat) (x : Nat) : ofNats (l ++ [x]) = ofNats l ++ [(x : Int)] := by
  simp [ofNats]
theorem pyMin_cast (a b : Nat) : pyMin (a : Int) (b : Int) = ((min a b : Nat) : Int) := by
  unfold pyMin; split <;> omega
theorem pyMax_cast (a b : Nat) : pyMax (a : Int) (b : Int) = ((max a b : Nat) : Int) := by
  unfold pyMax; split <;> omega
theorem pyMin_lit_cast (a b : Nat) : pyMin (OfNat.ofNat a) (b : Int) = ((min a b : Nat) : Int) := pyMin_cast a b
theorem pyMax_lit_cast (a b : Nat) : pyMax (OfNat.ofNat a) (b : Int) = ((max a b : Nat) : Int) := pyMax_cast a b
theorem pyGet_ofNats_lt (l : List Nat) (i : Nat) (h : i < l.length) :
    pyGet (ofNats l) (i : Int) = some ((l.getD i 0 : Nat) : Int) := by
  simp [pyGet, ofNats, h]
theorem pySet_ofNats_lt (l : List Nat) (i : Nat) (z : Int) (h : i < l.length) :
    pySet (ofNats l) (i : Int) z = some ((ofNats l).set i z) := by
  simp [pySet, h]
theorem pyGet_ofNats_last (l : List Nat) (h : 1 ≤ l.length) :
    pyGet (ofNats l) (-1) = some ((l.getLastD 0 : Nat) : Int) := by
  have h1 : ¬ (0 : Int) ≤ -1 := by omega
  have h2 : (0 : Int) ≤ ((ofNats l).length : Int) + -1 := by simp; omega
  have h3 : (((ofNats l).length : Int) + -1).toNat = l.length - 1 := by simp; omega
  simp only [pyGet, h1, if_false, h2, if_true, h3]
  rw [List.getLastD_eq_getLast?, List.getLast?_eq_getElem?]
  have : l.length - 1 < l.length := by omega
  simp [ofNats, this]
theorem pySlice_dropLast (l : List Int) : pySlice l none (some (-1)) = l.dropLast := by
  simp only [pySlice, pyBound]
  have : ((-1 : Int) < 0) := by omega
  simp only [this, if_true, List.drop_zero]
  rw [List.dropLast_eq_take]
  congr 1
  omega
theorem min_pred_of_lt (k n : Nat) (h : k < n) : min k (n - 1) = k := by omega
theorem min_pred_of_lt' (k n : Nat) (h : k < n) : min (n - 1) k = k := by omega
theorem mem_choices3 (n a b c : Nat) :
    ((n : Int) ∈ [(a : Int), (b : Int), (c : Int)]) ↔ [a, b, c].contains n = true := by
  simp only [List.mem_cons, List.not_mem_nil, or_false, List.contains_cons, List.contains_nil, Bool.or_false,
    Bool.or_eq_true, beq_iff_eq]
  omega
/-- the literal choice lists of the code are the ones `nodeDrawOK` is called with in `Basic.drawsOK` -/
theorem mem16 (n : Nat) : ((n : Int) ∈ [(16 : Int), 32, 64]) ↔ [16, 32, 64].contains n = true := mem_choices3 n 16 32 64
theorem mem8 (n : Nat) : ((n : Int) ∈ [(8 : Int), 16, 32]) ↔ [8, 16, 32].contains n = true := mem_choices3 n 8 16 32

/-- a keyword argument as the code receives it: given explicitly, or omitted (then the draw is used);
    the model's `Args` holds the value either way and `Flags` says which -/
def argOpt (explicit : Bool) (v : Nat) : Option Int := if explicit then some (v : Int) else none

/-- the dict of a node / channel method: the clamped layer index and the amount -/
def nodeRet (key : String) (len : Nat) (a : Args) : Ret :=
  [("hidden_layer", ((min a.layer (len - 1) : Nat) : Int)), (key, (a.n : Int))]

/-- split every test, rewrite the prelude's list operations under the facts of the case, close by
    linear arithmetic -/
macro "arch_fin" : tactic => `(tactic|
  (repeat' first
    | rfl
    | omega
    | (guard_target = False; simp_all <;> omega)
    | split_ifs
    | simp (disch := omega) only [pyGet_ofNats_lt, pySet_ofNats_lt, pyGet_ofNats_last, min_pred_of_lt, min_pred_of_lt',
        Nat.min_comm,
        Int.natCast_sub, Int.natCast_add, Int.toNat_natCast, Option.some.injEq, Prod.mk.injEq, and_true, true_and] at *
    | (exfalso; grind)))

/-! ## EvolvableMLP -/

@[reducible] def MLP.toGen (m : MLP) : EvolvableMLP.State :=
  { hidden_size := ofNats m.hidden, max_hidden_layers := m.maxLayers, max_mlp_nodes := m.maxNodes,
    min_hidden_layers := m.minLayers, min_mlp_nodes := m.minNodes }

theorem MLP.addNode_toGen (m : MLP) (a : Args) :
    (m.addNode a).toGen =
      if m.hidden.getD (min a.layer (m.hidden.length - 1)) 0 + a.n ≤ m.maxNodes then
        { m.toGen with hidden_size := ofNats (m.hidden.set (min a.layer (m.hidden.length - 1))
            (m.hidden.getD (min a.layer (m.hidden.length - 1)) 0 + a.n)) }
      else m.toGen := by
  unfold MLP.addNode; simp only; split <;> rfl

theorem MLP.removeNode_toGen (m : MLP) (a : Args) :
    (m.removeNode a).toGen =
      if m.hidden.getD (min a.layer (m.hidden.length - 1)) 0 > m.minNodes + a.n then
        { m.toGen with hidden_size := ofNats (m.hidden.set (min a.layer (m.hidden.length - 1))
            (m.hidden.getD (min a.layer (m.hidden.length - 1)) 0 - a.n)) }
      else m.toGen := by
  unfold MLP.removeNode; simp only; split <;> rfl

theorem length_pos_of_ne_nil {α : Type} (l : List α) (h : l ≠ []) : 1 ≤ l.length := by
  cases l with
  | nil => exact absurd rfl h
  | cons a t => simp

theorem gen_mlp_add_node_eq (m : MLP) (hne : m.hidden ≠ []) (a : Args) (x : Flags) :
    EvolvableMLP.add_node m.toGen (argOpt x.xl a.layer) (argOpt x.xn a.n) a.layer a.n =
      if nodeDrawOK [16, 32, 64] m.hidden.length true a x then
        some ((m.addNode a).toGen, nodeRet "numb_new_nodes" m.hidden.length a, "add_node")
      else none := by
  have hlen := length_pos_of_ne_nil _ hne
  have hsub : ((m.hidden.length : Int) - 1) = ((m.hidden.length - 1 : Nat) : Int) := by omega
  rw [MLP.addNode_toGen]
  obtain ⟨xl, xn, xk, xkl⟩ := x
  cases xl <;> cases xn <;>
    simp only [EvolvableMLP.add_node, argOpt, nodeDrawOK, nodeRet, Bool.false_eq_true, if_false, if_true,
      Bool.not_true, Bool.false_or, Bool.true_or, Bool.or_true, Bool.and_true, Bool.true_and,
      Bool.or_false, decide_eq_true_eq, Bool.and_eq_true, mem16, hsub, pyMin_cast, Int.ofNat_eq_natCast,
      Int.natCast_nonneg, true_and, Int.ofNat_lt, MLP.toGen, ofNats_length, ofNats_set, Int.natCast_add]
  all_goals arch_fin

theorem gen_mlp_remove_node_eq (m : MLP) (hne : m.hidden ≠ []) (a : Args) (x : Flags) :
    EvolvableMLP.remove_node m.toGen (argOpt x.xl a.layer) (argOpt x.xn a.n) a.layer a.n =
      if nodeDrawOK [16, 32, 64] m.hidden.length true a x then
        some ((m.removeNode a).toGen, nodeRet "numb_new_nodes" m.hidden.length a, "remove_node")
      else none := by
  have hlen := length_pos_of_ne_nil _ hne
  have hsub : ((m.hidden.length : Int) - 1) = ((m.hidden.length - 1 : Nat) : Int) := by omega
  rw [MLP.removeNode_toGen]
  obtain ⟨xl, xn, xk, xkl⟩ := x
  cases xl <;> cases xn <;>
    simp only [EvolvableMLP.remove_node, argOpt, nodeDrawOK, nodeRet, Bool.false_eq_true, if_false, if_true,
      Bool.not_true, Bool.false_or, Bool.true_or, Bool.or_true, Bool.and_true, Bool.true_and,
      Bool.or_false, decide_eq_true_eq, Bool.and_eq_true, mem16, hsub, pyMin_cast, Int.ofNat_eq_natCast,
      Int.natCast_nonneg, true_and, Int.ofNat_lt, MLP.toGen, ofNats_length, ofNats_set]
  all_goals arch_fin

/-- the fallback call `self.add_node()`: no keyword argument, both values drawn -/
theorem gen_mlp_add_node_draws (m : MLP) (hne : m.hidden ≠ []) (a : Args) :
    EvolvableMLP.add_node m.toGen none none a.layer a.n =
      if nodeDrawOK [16, 32, 64] m.hidden.length true a {} then
        some ((m.addNode a).toGen, nodeRet "numb_new_nodes" m.hidden.length a, "add_node")
      else none := gen_mlp_add_node_eq m hne a {}

theorem gen_mlp_add_layer_eq (m : MLP) (hne : m.hidden ≠ []) (a : Args) :
    EvolvableMLP.add_layer m.toGen a.layer a.n =
      if m.hidden.length < m.maxLayers then
        some (({ m with hidden := m.hidden ++ [m.hidden.getLastD 0] } : MLP).toGen, [], "add_layer")
      else if nodeDrawOK [16, 32, 64] m.hidden.length true a {} then
        some ((m.addNode a).toGen, nodeRet "numb_new_nodes" m.hidden.length a, "add_node")
      else none := by
  have hlen := length_pos_of_ne_nil _ hne
  simp only [EvolvableMLP.add_layer, gen_mlp_add_node_draws m hne a]
  simp only [MLP.toGen, ofNats_length, ofNats_append_one, Int.ofNat_lt]
  arch_fin

theorem gen_mlp_remove_layer_eq (m : MLP) (hne : m.hidden ≠ []) (a : Args) :
    EvolvableMLP.remove_layer m.toGen a.layer a.n =
      if m.hidden.length > m.minLayers then
        some (({ m with hidden := m.hidden.dropLast } : MLP).toGen, [], "remove_layer")
      else if nodeDrawOK [16, 32, 64] m.hidden.length true a {} then
        some ((m.addNode a).toGen, nodeRet "numb_new_nodes" m.hidden.length a, "add_node")
      else none := by
  have hlen := length_pos_of_ne_nil _ hne
  simp only [EvolvableMLP.remove_layer, gen_mlp_add_node_draws m hne a]
  simp only [MLP.toGen, ofNats_length, ofNats_dropLast, pySlice_dropLast, Int.ofNat_lt, gt_iff_lt]
  arch_fin

def MlpMethod.str : MlpMethod → String
  | .addLayer => "add_layer" | .removeLayer => "remove_layer" | .addNode => "add_node" | .removeNode => "remove_node"

theorem mlpMethod_str (me : MlpMethod) : mlpMethod? me.str = some me := by cases me <;> rfl

/-- the layer methods take no keyword argument -/
def MlpMethod.flags (me : MlpMethod) (x : Flags) : Flags :=
  match me with
  | .addLayer | .removeLayer => {}
  | _ => x

/-- the translated method called the way `getattr(net, name)(**kwargs)` calls it: explicit keyword
    arguments where the flags say so, the recorded draws otherwise -/
def mlpCall (me : MlpMethod) (s : EvolvableMLP.State) (a : Args) (x : Flags) :
    Option (EvolvableMLP.State × Ret × String) :=
  match me with
  | .addLayer => EvolvableMLP.add_layer s a.layer a.n
  | .removeLayer => EvolvableMLP.remove_layer s a.layer a.n
  | .addNode => EvolvableMLP.add_node s (argOpt x.xl a.layer) (argOpt x.xn a.n) a.layer a.n
  | .removeNode => EvolvableMLP.remove_node s (argOpt x.xl a.layer) (argOpt x.xn a.n) a.layer a.n

/-- the dict the call returns: `None` for a layer method that took effect, else the node dict -/
def mlpRet (m : MLP) (me : MlpMethod) (a : Args) : Ret :=
  match me with
  | .addLayer => if m.hidden.length < m.maxLayers then [] else nodeRet "numb_new_nodes" m.hidden.length a
  | .removeLayer => if m.hidden.length > m.minLayers then [] else nodeRet "numb_new_nodes" m.hidden.length a
  | _ => nodeRet "numb_new_nodes" m.hidden.length a

/-- EvolvableMLP: every translated method = `MLP.step`, the draws it accepts = `Basic.drawsOK` -/
theorem gen_mlp_step_eq (p : Policy) (lo : Bool) (m : MLP) (hne : m.hidden ≠ []) (me : MlpMethod) (a : Args) (x : Flags) :
    mlpCall me m.toGen a x =
      if (Basic.mlp m).drawsOK p lo me.str a (me.flags x) then
        some ((m.step me a).1.toGen, mlpRet m me a, (m.step me a).2.name)
      else none := by
  cases me <;>
    simp only [mlpCall, gen_mlp_add_layer_eq m hne, gen_mlp_remove_layer_eq m hne, gen_mlp_add_node_eq m hne,
      gen_mlp_remove_node_eq m hne, Basic.drawsOK, MlpMethod.str, mlpMethod?, MlpMethod.flags, MLP.step, mlpRet,
      Applied.name] <;>
    split_ifs <;> first | rfl | (guard_target = False; simp_all; done)

/-! ## EvolvableLSTM, EvolvableSimBa, EvolvableResNet, latent width: scalar state machines -/

/-- the dict of a scalar node method -/
def amountRet (key : String) (a : Args) : Ret := [(key, (a.n : Int))]

@[reducible] def LSTM.toGen (l : LSTM) : EvolvableLSTM.State :=
  { hidden_size := l.hidden, max_hidden_size := l.maxHidden, max_layers := l.maxLayers,
    min_hidden_size := l.minHidden, min_layers := l.minLayers, num_layers := l.numLayers }

def lstmCall (me : MlpMethod) (s : EvolvableLSTM.State) (a : Args) (x : Flags) :
    Option (EvolvableLSTM.State × Ret × String) :=
  match me with
  | .addLayer => EvolvableLSTM.add_layer s a.n
  | .removeLayer => EvolvableLSTM.remove_layer s a.n
  | .addNode => EvolvableLSTM.add_node s (argOpt x.xn a.n) a.n
  | .removeNode => EvolvableLSTM.remove_node s (argOpt x.xn a.n) a.n

def lstmRet (l : LSTM) (me : MlpMethod) (a : Args) : Ret :=
  match me with
  | .addLayer => if l.numLayers < l.maxLayers then [] else amountRet "numb_new_nodes" a
  | .removeLayer => if l.numLayers > l.minLayers then [] else amountRet "numb_new_nodes" a
  | _ => amountRet "numb_new_nodes" a

theorem gen_lstm_step_eq (p : Policy) (lo : Bool) (l : LSTM) (me : MlpMethod) (a : Args) (x : Flags) :
    lstmCall me l.toGen a x =
      if (Basic.lstm l).drawsOK p lo me.str a (me.flags x) then
        some ((l.step me a).1.toGen, lstmRet l me a, (l.step me a).2.name)
      else none := by
  obtain ⟨xl, xn, xk, xkl⟩ := x
  cases me <;> cases xn <;>
    simp only [LSTM.step, LSTM.addNode, LSTM.removeNode, apply_ite LSTM.toGen, apply_ite Prod.fst, apply_ite Prod.snd,
      apply_ite Applied.name, lstmRet, amountRet, Applied.name] <;>
    simp only [lstmCall, EvolvableLSTM.add_layer, EvolvableLSTM.remove_layer, EvolvableLSTM.add_node,
      EvolvableLSTM.remove_node, argOpt, Basic.drawsOK, MlpMethod.str, mlpMethod?, MlpMethod.flags,
      nodeDrawOK, LSTM.toGen, mem16,
      Bool.false_eq_true, if_false, if_true, Bool.not_false, Bool.not_true, Bool.false_or, Bool.true_or,
      Bool.or_true, Bool.and_true, Bool.true_and, Bool.or_false, Int.ofNat_lt, gt_iff_lt, ge_iff_le] <;>
    arch_fin
@[reducible] def SimBa.toGen (s : SimBa) : EvolvableSimBa.State :=
  { hidden_size := s.hidden, max_blocks := s.maxBlocks, max_mlp_nodes := s.maxNodes, min_blocks := s.minBlocks,
    min_mlp_nodes := s.minNodes, num_blocks := s.numBlocks }

def BlockMethod.simbaStr : BlockMethod → String
  | .addBlock => "add_block" | .removeBlock => "remove_block" | .addNode => "add_node" | .removeNode => "remove_node"
def BlockMethod.resnetStr : BlockMethod → String
  | .addBlock => "add_block" | .removeBlock => "remove_block" | .addNode => "add_channel" | .removeNode => "remove_channel"
theorem simbaMethod_str (me : BlockMethod) : simbaMethod? me.simbaStr = some me := by cases me <;> rfl
theorem resnetMethod_str (me : BlockMethod) : resnetMethod? me.resnetStr = some me := by cases me <;> rfl

def BlockMethod.flags (me : BlockMethod) (x : Flags) : Flags :=
  match me with
  | .addBlock | .removeBlock => {}
  | _ => x

def simbaCall (me : BlockMethod) (s : EvolvableSimBa.State) (a : Args) (x : Flags) :
    Option (EvolvableSimBa.State × Ret × String) :=
  match me with
  | .addBlock => EvolvableSimBa.add_block s a.n
  | .removeBlock => EvolvableSimBa.remove_block s a.n
  | .addNode => EvolvableSimBa.add_node s (argOpt x.xn a.n) a.n
  | .removeNode => EvolvableSimBa.remove_node s (argOpt x.xn a.n) a.n

def simbaRet (s : SimBa) (me : BlockMethod) (a : Args) : Ret :=
  match me with
  | .addBlock => if s.numBlocks < s.maxBlocks then [] else amountRet "numb_new_nodes" a
  | .removeBlock => if s.numBlocks > s.minBlocks then [] else amountRet "numb_new_nodes" a
  | _ => amountRet "numb_new_nodes" a

theorem gen_simba_step_eq (p : Policy) (lo : Bool) (s : SimBa) (me : BlockMethod) (a : Args) (x : Flags) :
    simbaCall me s.toGen a x =
      if (Basic.simba s).drawsOK p lo me.simbaStr a (me.flags x) then
        some ((s.step me a).1.toGen, simbaRet s me a, (s.step me a).2.name)
      else none := by
  obtain ⟨xl, xn, xk, xkl⟩ := x
  cases me <;> cases xn <;>
    simp only [SimBa.step, SimBa.addNode, SimBa.removeNode, apply_ite SimBa.toGen, apply_ite Prod.fst, apply_ite Prod.snd,
      apply_ite Applied.name, simbaRet, amountRet, Applied.name] <;>
    simp only [simbaCall, EvolvableSimBa.add_block, EvolvableSimBa.remove_block, EvolvableSimBa.add_node,
      EvolvableSimBa.remove_node, argOpt, Basic.drawsOK, BlockMethod.simbaStr, simbaMethod?, BlockMethod.flags,
      nodeDrawOK, SimBa.toGen, mem16,
      Bool.false_eq_true, if_false, if_true, Bool.not_false, Bool.not_true, Bool.false_or, Bool.true_or,
      Bool.or_true, Bool.and_true, Bool.true_and, Bool.or_false, Int.ofNat_lt, gt_iff_lt, ge_iff_le] <;>
    arch_fin

@[reducible] def ResNet.toGen (r : ResNet) : EvolvableResNet.State :=
  { channel_size := r.channel, max_blocks := r.maxBlocks, max_channel_size := r.maxCh, min_blocks := r.minBlocks,
    min_channel_size := r.minCh, num_blocks := r.numBlocks }

def resnetCall (me : BlockMethod) (s : EvolvableResNet.State) (a : Args) (x : Flags) :
    Option (EvolvableResNet.State × Ret × String) :=
  match me with
  | .addBlock => EvolvableResNet.add_block s a.n
  | .removeBlock => EvolvableResNet.remove_block s a.n
  | .addNode => EvolvableResNet.add_channel s (argOpt x.xn a.n) a.n
  | .removeNode => EvolvableResNet.remove_channel s (argOpt x.xn a.n) a.n

def resnetRet (r : ResNet) (me : BlockMethod) (a : Args) : Ret :=
  match me with
  | .addBlock => if r.numBlocks < r.maxBlocks then [] else amountRet "numb_new_channels" a
  | .removeBlock => if r.numBlocks > r.minBlocks then [] else amountRet "numb_new_channels" a
  | _ => amountRet "numb_new_channels" a

theorem gen_resnet_step_eq (p : Policy) (lo : Bool) (r : ResNet) (me : BlockMethod) (a : Args) (x : Flags) :
    resnetCall me r.toGen a x =
      if (Basic.resnet r).drawsOK p lo me.resnetStr a (me.flags x) then
        some ((r.step me a).1.toGen, resnetRet r me a, (r.step me a).2.name)
      else none := by
  obtain ⟨xl, xn, xk, xkl⟩ := x
  cases me <;> cases xn <;>
    simp only [ResNet.step, ResNet.addChannel, ResNet.removeChannel, apply_ite ResNet.toGen, apply_ite Prod.fst,
      apply_ite Prod.snd, apply_ite Applied.name, resnetRet, amountRet, Applied.name] <;>
    simp only [resnetCall, EvolvableResNet.add_block, EvolvableResNet.remove_block, EvolvableResNet.add_channel,
      EvolvableResNet.remove_channel, argOpt, Basic.drawsOK, BlockMethod.resnetStr, resnetMethod?, BlockMethod.flags,
      nodeDrawOK, ResNet.toGen, mem8,
      Bool.false_eq_true, if_false, if_true, Bool.not_false, Bool.not_true, Bool.false_or, Bool.true_or,
      Bool.or_true, Bool.and_true, Bool.true_and, Bool.or_false, Int.ofNat_lt, gt_iff_lt, ge_iff_le] <;>
    arch_fin

@[reducible] def Latent.toGen (l : Latent) : EvolvableNetwork.State :=
  { latent_dim := l.dim, max_latent_dim := l.maxDim, min_latent_dim := l.minDim }

def latentCall (me : LatentMethod) (s : EvolvableNetwork.State) (a : Args) (x : Flags) :
    Option (EvolvableNetwork.State × Ret × String) :=
  match me with
  | .add => EvolvableNetwork.add_latent_node s (argOpt x.xn a.n) a.n
  | .remove => EvolvableNetwork.remove_latent_node s (argOpt x.xn a.n) a.n

theorem gen_latent_step_eq (l : Latent) (me : LatentMethod) (a : Args) (x : Flags) :
    latentCall me l.toGen a x =
      if latentDrawOK a x then
        some ((l.step me a).1.toGen, amountRet "numb_new_nodes" a, (l.step me a).2.name)
      else none := by
  obtain ⟨xl, xn, xk, xkl⟩ := x
  cases me <;> cases xn <;>
    simp only [Latent.step, apply_ite Latent.toGen, apply_ite Prod.fst,
      apply_ite Prod.snd, apply_ite Applied.name, amountRet, Applied.name] <;>
    simp only [latentCall, EvolvableNetwork.add_latent_node, EvolvableNetwork.remove_latent_node, argOpt,
      latentDrawOK, nodeDrawOK, Latent.toGen, mem8,
      Bool.false_eq_true, if_false, if_true, Bool.not_false, Bool.not_true, Bool.false_or, Bool.true_or,
      Bool.or_true, Bool.and_true, Bool.true_and, Bool.or_false, Int.ofNat_lt, gt_iff_lt, ge_iff_le] <;>
    arch_fin

/-! ## EvolvableCNN (integer kernel sizes) -/

/-- the last two entries of the shape `create_cnn` records in `cnn_output_size` -/
def CNN.lastMap (c : CNN) : List Int :=
  match c.maps.getLast? with
  | some p => [p.1, p.2]
  | none => []

/-- `out` = `self.cnn_output_size`, `mm` = `self.mutation_methods`: runtime attributes the translated
    methods read but never write -/
@[reducible] def CNN.toGen (c : CNN) (out : List Int) (mm : List String) : EvolvableCNN.State :=
  { channel_size := ofNats c.channels, cnn_output_size := out,
    input_shape := [(c.inC : Int), (c.inH : Int), (c.inW : Int)],
    max_channel_size := c.maxCh, max_hidden_layers := c.maxLayers, min_channel_size := c.minCh,
    min_hidden_layers := c.minLayers, mut_kernel_size := { sizes := ofNats c.kernels },
    mutation_methods := mm, stride_size := ofNats c.strides }

theorem CNN.addChannel_toGen (c : CNN) (a : Args) (out : List Int) (mm : List String) :
    (c.addChannel a).toGen out mm =
      if c.channels.getD (min a.layer (c.channels.length - 1)) 0 + a.n ≤ c.maxCh then
        { c.toGen out mm with channel_size := ofNats (c.channels.set (min a.layer (c.channels.length - 1))
            (c.channels.getD (min a.layer (c.channels.length - 1)) 0 + a.n)) }
      else c.toGen out mm := by
  unfold CNN.addChannel; simp only; split <;> rfl

theorem CNN.removeChannel_toGen (c : CNN) (a : Args) (out : List Int) (mm : List String) :
    (c.removeChannel a).toGen out mm =
      if c.channels.getD (min a.layer (c.channels.length - 1)) 0 ≥ c.minCh + a.n then
        { c.toGen out mm with channel_size := ofNats (c.channels.set (min a.layer (c.channels.length - 1))
            (c.channels.getD (min a.layer (c.channels.length - 1)) 0 - a.n)) }
      else c.toGen out mm := by
  unfold CNN.removeChannel; simp only; split <;> rfl

theorem gen_cnn_add_channel_eq (c : CNN) (hne : c.channels ≠ []) (out : List Int) (mm : List String)
    (a : Args) (x : Flags) :
    EvolvableCNN.add_channel (c.toGen out mm) (argOpt x.xl a.layer) (argOpt x.xn a.n) a.layer a.n =
      if nodeDrawOK [8, 16, 32] c.channels.length true a x then
        some ((c.addChannel a).toGen out mm, nodeRet "numb_new_channels" c.channels.length a, "add_channel")
      else none := by
  have hlen := length_pos_of_ne_nil _ hne
  have hsub : ((c.channels.length : Int) - 1) = ((c.channels.length - 1 : Nat) : Int) := by omega
  rw [CNN.addChannel_toGen]
  obtain ⟨xl, xn, xk, xkl⟩ := x
  cases xl <;> cases xn <;>
    simp only [EvolvableCNN.add_channel, argOpt, nodeDrawOK, nodeRet, Bool.false_eq_true, if_false, if_true,
      Bool.not_true, Bool.false_or, Bool.true_or, Bool.or_true, Bool.and_true, Bool.true_and,
      Bool.or_false, decide_eq_true_eq, Bool.and_eq_true, mem8, hsub, pyMin_cast, Int.ofNat_eq_natCast,
      Int.natCast_nonneg, true_and, Int.ofNat_lt, CNN.toGen, ofNats_length, ofNats_set, Int.natCast_add]
  all_goals arch_fin

/-- `remove_channel` reports the amount really removed: `0` when the minimum stops it -/
def removeChannelRet (c : CNN) (a : Args) : Ret :=
  [("hidden_layer", ((min a.layer (c.channels.length - 1) : Nat) : Int)),
   ("numb_new_channels",
     if c.channels.getD (min a.layer (c.channels.length - 1)) 0 ≥ c.minCh + a.n then (a.n : Int) else 0)]

theorem gen_cnn_remove_channel_eq (c : CNN) (hne : c.channels ≠ []) (out : List Int) (mm : List String)
    (a : Args) (x : Flags) :
    EvolvableCNN.remove_channel (c.toGen out mm) (argOpt x.xl a.layer) (argOpt x.xn a.n) a.layer a.n =
      if nodeDrawOK [8, 16, 32] c.channels.length true a x then
        some ((c.removeChannel a).toGen out mm, removeChannelRet c a, "remove_channel")
      else none := by
  have hlen := length_pos_of_ne_nil _ hne
  have hsub : ((c.channels.length : Int) - 1) = ((c.channels.length - 1 : Nat) : Int) := by omega
  rw [CNN.removeChannel_toGen]
  obtain ⟨xl, xn, xk, xkl⟩ := x
  cases xl <;> cases xn <;>
    simp only [EvolvableCNN.remove_channel, argOpt, nodeDrawOK, removeChannelRet, Bool.false_eq_true, if_false, if_true,
      Bool.not_true, Bool.false_or, Bool.true_or, Bool.or_true, Bool.and_true, Bool.true_and,
      Bool.or_false, decide_eq_true_eq, Bool.and_eq_true, mem8, hsub, pyMin_cast, Int.ofNat_eq_natCast,
      Int.natCast_nonneg, true_and, Int.ofNat_lt, CNN.toGen, ofNats_length, ofNats_set]
  all_goals arch_fin

theorem gen_cnn_add_channel_draws (c : CNN) (hne : c.channels ≠ []) (out : List Int) (mm : List String) (a : Args) :
    EvolvableCNN.add_channel (c.toGen out mm) none none a.layer a.n =
      if nodeDrawOK [8, 16, 32] c.channels.length true a {} then
        some ((c.addChannel a).toGen out mm, nodeRet "numb_new_channels" c.channels.length a, "add_channel")
      else none := gen_cnn_add_channel_eq c hne out mm a {}

theorem gen_cnn_remove_layer_eq (c : CNN) (hne : c.channels ≠ []) (out : List Int) (mm : List String) (a : Args) :
    EvolvableCNN.remove_layer (c.toGen out mm) a.layer a.n =
      if c.channels.length > c.minLayers then
        some (({ c with channels := c.channels.dropLast, kernels := c.kernels.dropLast,
                        strides := c.strides.dropLast } : CNN).toGen out mm, [], "remove_layer")
      else if nodeDrawOK [8, 16, 32] c.channels.length true a {} then
        some ((c.addChannel a).toGen out mm, nodeRet "numb_new_channels" c.channels.length a, "add_channel")
      else none := by
  have hlen := length_pos_of_ne_nil _ hne
  simp only [EvolvableCNN.remove_layer, gen_cnn_add_channel_draws c hne out mm a]
  simp only [CNN.toGen, MutableKernelSizes.remove_layer, ofNats_length, ofNats_dropLast, pySlice_dropLast,
    Int.ofNat_lt, gt_iff_lt]
  arch_fin

theorem mapsAux_length (ks : List Nat) : ∀ (ss : List Nat) (h w : Int), ss.length = ks.length →
    (mapsAux h w ks ss).length = ks.length := by
  induction ks with
  | nil => intro ss h w _; cases ss <;> rfl
  | cons k ks ih =>
    intro ss h w hl
    cases ss with
    | nil => simp at hl
    | cons s ss => simp only [mapsAux, List.length_cons]; rw [ih ss _ _ (by simpa using hl)]

theorem CNN.maxKernels_length (c : CNN) (hw : c.WF) : c.maxKernels.length = c.channels.length := by
  simp only [CNN.maxKernels, CNN.maps, List.length_map]
  rw [mapsAux_length _ _ _ _ (by rw [hw.2.2, hw.2.1]), hw.2.1]

/-- `not any(i <= 2 for i in cnn_output_size[-2:])` is the model's test on the last feature map -/
theorem CNN.lastMap_guard (c : CNN) (hw : c.WF) (hne : c.channels ≠ []) :
    (¬ (c.lastMap.any (fun g => decide (g ≤ 2)) = true)) ↔
      (match c.maps.getLast? with
       | some p => decide (2 < p.1) && decide (2 < p.2)
       | none => false) = true := by
  have hlen := length_pos_of_ne_nil _ hne
  have hm : c.maps.length = c.channels.length := by
    simp only [CNN.maps]; rw [mapsAux_length _ _ _ _ (by rw [hw.2.2, hw.2.1]), hw.2.1]
  unfold CNN.lastMap
  cases hl : c.maps.getLast? with
  | none =>
    rw [List.getLast?_eq_none_iff] at hl
    rw [hl] at hm; simp at hm; omega
  | some q =>
    simp only [List.any_cons, List.any_nil, Bool.or_false, Bool.or_eq_true, decide_eq_true_eq, Bool.and_eq_true]
    omega

theorem gen_cnn_add_layer_eq (kcalc : List Int → List Int → List Int → List Int → List Int) (c : CNN) (hw : c.WF)
    (hne : c.channels ≠ []) (out : List Int) (mm : List String)
    (hout : pySlice out (some (-2)) none = c.lastMap)
    (hcalc : kcalc (ofNats c.channels) (ofNats c.kernels) (ofNats c.strides) [(c.inC : Int), (c.inH : Int), (c.inW : Int)]
      = ofNats c.maxKernels) (a : Args) :
    EvolvableCNN.add_layer kcalc (c.toGen out mm) a.k a.stride a.layer a.n =
      if c.addLayerGuard then
        if c.drawOK .addLayer a then
          some (({ c with channels := c.channels ++ [c.channels.getLastD 0], kernels := c.kernels ++ [a.k],
                          strides := c.strides ++ [a.stride] } : CNN).toGen out mm, [], "add_layer")
        else none
      else if nodeDrawOK [8, 16, 32] c.channels.length true a {} then
        some ((c.addChannel a).toGen out mm, nodeRet "numb_new_channels" c.channels.length a, "add_channel")
      else none := by
  have hlen := length_pos_of_ne_nil _ hne
  have hmk : 1 ≤ c.maxKernels.length := by rw [CNN.maxKernels_length c hw]; exact hlen
  have hst : 1 ≤ c.strides.length := by rw [hw.2.2]; exact hlen
  have hg := CNN.lastMap_guard c hw hne
  have hfb : ∀ s : EvolvableCNN.State, s = c.toGen out mm →
      EvolvableCNN.add_channel s none none a.layer a.n =
        if nodeDrawOK [8, 16, 32] c.channels.length true a {} then
          some ((c.addChannel a).toGen out mm, nodeRet "numb_new_channels" c.channels.length a, "add_channel")
        else none := fun s e => e ▸ gen_cnn_add_channel_draws c hne out mm a
  simp only [EvolvableCNN.add_layer, MutableKernelSizes.calc_max_kernel_sizes, MutableKernelSizes.add_layer, hcalc, hout,
    hfb _ rfl, pyGet_ofNats_last _ hmk, pyGet_ofNats_last _ hst, pyGet_ofNats_last _ hlen, hg, CNN.addLayerGuard,
    CNN.drawOK, ofNats_length, Int.ofNat_lt, Bool.and_eq_true, decide_eq_true_eq]
  simp only [CNN.toGen, ofNats_append_one]
  clear hg hfb hout hcalc
  arch_fin

theorem pyMin_four (b : Nat) : pyMin 4 (b : Int) = ((min 4 b : Nat) : Int) := pyMin_cast 4 b
theorem pyMax_one (b : Nat) : pyMax 1 (b : Int) = ((max 1 b : Nat) : Int) := pyMax_cast 1 b
theorem pyGet_ofNats_lt1 (l : List Nat) (i : Nat) (h : i < l.length) :
    pyGet (ofNats l) (i : Int) = some ((l.getD i 1 : Nat) : Int) := by
  simp [pyGet, ofNats, h]

macro "arch_fin1" : tactic => `(tactic|
  (repeat' first
    | with_reducible rfl
    | omega
    | (guard_target = False; simp_all <;> omega)
    | split_ifs
    | simp (disch := omega) only [pyGet_ofNats_lt1, pySet_ofNats_lt, min_pred_of_lt, min_pred_of_lt', Nat.min_eq_left,
        Nat.max_eq_right, Nat.min_comm,
        pyMin_cast, pyMax_cast, pyMax_one, pyMin_four,
        Int.natCast_sub, Int.natCast_add, Int.natCast_one, Int.toNat_natCast, Option.some.injEq, Prod.mk.injEq, and_true, true_and] at *
    | (exfalso; grind)))

/-- the kernel `change_kernel_size` ends with (clamped candidate, then stepped down) -/
def stepFin (c : CNN) (a : Args) : Nat :=
  c.stepDown (min a.klayer (c.kernels.length - 1)) (c.kernels.getD (min a.klayer (c.kernels.length - 1)) 1)
    (max 1 (min a.k (c.maxKernels.getD (min a.klayer (c.kernels.length - 1)) 1)) -
      c.kernels.getD (min a.klayer (c.kernels.length - 1)) 1)
    (max 1 (min a.k (c.maxKernels.getD (min a.klayer (c.kernels.length - 1)) 1)))

macro "arch_fin2" h:ident : tactic => `(tactic|
  (repeat' first
    | with_reducible rfl
    | omega
    | (guard_target = False; simp_all <;> omega)
    | split_ifs
    | simp (disch := omega) only [pyGet_ofNats_lt1, pySet_ofNats_lt, min_pred_of_lt, min_pred_of_lt', Nat.min_eq_left,
        Nat.max_eq_right, Nat.min_comm, $h:ident, Int.toNat_sub,
        pyMin_cast, pyMax_cast, pyMax_one, pyMin_four,
        Int.natCast_sub, Int.natCast_add, Int.natCast_one, Int.toNat_natCast, Option.some.injEq, Prod.mk.injEq, and_true, true_and] at *
    | (exfalso; grind)))

/-- the translated `while new > current and not self._later_layers_fit(…): new -= 1` is `CNN.stepDown` -/
theorem gen_while_eq (kcalc : List Int → List Int → List Int → List Int → List Int) (kfit : MutableKernelSizes.State → Int → Int → List Int → List Int → Option Bool) (c : CNN)
    (hfit : ∀ j knew : Nat, kfit { sizes := ofNats c.kernels } (j : Int) (knew : Int) (ofNats c.strides)
      [(c.inC : Int), (c.inH : Int), (c.inW : Int)] = some (c.laterFit j knew)) (j cur : Nat) :
    ∀ (n knew : Nat), MutableKernelSizes.change_kernel_size.while0 kcalc kfit { sizes := ofNats c.kernels } (cur : Int) (j : Int)
        (ofNats c.strides) [(c.inC : Int), (c.inH : Int), (c.inW : Int)] n (knew : Int)
      = some ((c.stepDown j cur n knew : Nat) : Int) := by
  intro n
  induction n with
  | zero => intro knew; rfl
  | succ n ih =>
    intro knew
    simp only [MutableKernelSizes.change_kernel_size.while0, CNN.stepDown, hfit, gt_iff_lt, Int.ofNat_lt]
    by_cases h1 : cur < knew
    · have e : (knew : Int) - 1 = ((knew - 1 : Nat) : Int) := by omega
      cases h2 : c.laterFit j knew <;> simp [h1, h2, e, ih]
    · simp [h1]

theorem gen_cnn_change_kernel_eq (kcalc : List Int → List Int → List Int → List Int → List Int) (kfit : MutableKernelSizes.State → Int → Int → List Int → List Int → Option Bool) (c : CNN) (hw : c.WF)
    (hne : c.channels ≠ []) (out : List Int) (mm : List String)
    (hcalc : kcalc (ofNats c.channels) (ofNats c.kernels) (ofNats c.strides) [(c.inC : Int), (c.inH : Int), (c.inW : Int)]
      = ofNats c.maxKernels)
    (hfit : ∀ j knew : Nat, kfit { sizes := ofNats c.kernels } (j : Int) (knew : Int) (ofNats c.strides)
      [(c.inC : Int), (c.inH : Int), (c.inW : Int)] = some (c.laterFit j knew)) (a : Args) (x : Flags) :
    EvolvableCNN.change_kernel kcalc kfit (c.toGen out mm) (argOpt x.xk a.k) (argOpt x.xkl a.klayer)
        a.klayer a.k a.k a.stride a.layer a.n a.layer a.n =
      if c.channels.length > 1 then
        if (if x.xkl then true else decide (1 ≤ a.klayer) && decide (a.klayer < min 4 c.channels.length)) &&
           (x.xk || (decide (1 ≤ a.k) &&
              decide (a.k ≤ c.maxKernels.getD (if x.xkl then min a.klayer (c.kernels.length - 1) else a.klayer) 1))) then
          some (({ c with kernels := c.kernels.set (min a.klayer (c.kernels.length - 1)) (stepFin c a) } : CNN).toGen out mm,
                [("hidden_layer", ((min a.klayer (c.kernels.length - 1) : Nat) : Int)),
                 ("kernel_size", ((stepFin c a : Nat) : Int))],
                "change_kernel")
        else none
      else if "add_layer" ∈ mm then
        EvolvableCNN.add_layer kcalc (c.toGen out mm) a.k a.stride a.layer a.n
      else EvolvableCNN.add_channel (c.toGen out mm) none none a.layer a.n := by
  have hlen := length_pos_of_ne_nil _ hne
  have hk : c.kernels.length = c.channels.length := hw.2.1
  have hmk : c.maxKernels.length = c.channels.length := CNN.maxKernels_length c hw
  have hsub : ((c.channels.length : Int) - 1) = ((c.channels.length - 1 : Nat) : Int) := by omega
  have hwh := gen_while_eq kcalc kfit c hfit
  obtain ⟨xl, xn, xk, xkl⟩ := x
  cases xk <;> cases xkl <;>
    simp only [EvolvableCNN.change_kernel, MutableKernelSizes.change_kernel_size, MutableKernelSizes.calc_max_kernel_sizes,
      hcalc, argOpt, Bool.false_eq_true, if_false, if_true, Bool.true_or, Bool.false_or, Bool.and_true, Bool.true_and,
      Bool.and_eq_true, decide_eq_true_eq, hsub, pyMin_cast, pyMin_four, pyMax_one, ofNats_length, Int.ofNat_lt, gt_iff_lt,
      CNN.toGen, ofNats_set, hk, stepFin]
  all_goals clear hcalc hfit
  all_goals arch_fin2 hwh

def CnnMethod.str : CnnMethod → String
  | .addLayer => "add_layer" | .removeLayer => "remove_layer" | .changeKernel => "change_kernel"
  | .addChannel => "add_channel" | .removeChannel => "remove_channel"
theorem cnnMethod_str (me : CnnMethod) : cnnMethod? me.str = some me := by cases me <;> rfl

/-- the layer methods take no keyword argument, `change_kernel` only its own two -/
def CnnMethod.flags (me : CnnMethod) (x : Flags) : Flags :=
  match me with
  | .addLayer | .removeLayer => {}
  | .changeKernel => { x with xl := false, xn := false }
  | _ => x

def cnnCall (kcalc : List Int → List Int → List Int → List Int → List Int)
    (kfit : MutableKernelSizes.State → Int → Int → List Int → List Int → Option Bool) (me : CnnMethod) (s : EvolvableCNN.State)
    (a : Args) (x : Flags) : Option (EvolvableCNN.State × Ret × String) :=
  match me with
  | .addLayer => EvolvableCNN.add_layer kcalc s a.k a.stride a.layer a.n
  | .removeLayer => EvolvableCNN.remove_layer s a.layer a.n
  | .changeKernel =>
    EvolvableCNN.change_kernel kcalc kfit s (argOpt x.xk a.k) (argOpt x.xkl a.klayer) a.klayer a.k a.k a.stride a.layer a.n
      a.layer a.n
  | .addChannel => EvolvableCNN.add_channel s (argOpt x.xl a.layer) (argOpt x.xn a.n) a.layer a.n
  | .removeChannel => EvolvableCNN.remove_channel s (argOpt x.xl a.layer) (argOpt x.xn a.n) a.layer a.n

/-- the dict the call returns, by the method that took effect -/
def cnnRet (p : Policy) (lo : Bool) (c : CNN) (me : CnnMethod) (a : Args) : Ret :=
  match (c.step p lo me a).2 with
  | .addLayer | .removeLayer => []
  | .changeKernel => [("hidden_layer", ((c.kernelTarget p a).1 : Int)), ("kernel_size", ((c.kernelTarget p a).2 : Int))]
  | .removeChannel => removeChannelRet c a
  | _ => nodeRet "numb_new_channels" c.channels.length a

/-- EvolvableCNN: every translated method = `CNN.step` under the clamping policy, the draws it accepts =
    `Basic.drawsOK`; `cnn_output_size`, the external `calc_max_kernel_sizes` and `_later_layers_fit` agree with the
    feature-map arithmetic of the model for THIS state (hypotheses `hout`, `hcalc`, `hfit`; the last two are
    discharged for the translated functions in `Proofs/KernelGenEq.lean`) -/
theorem gen_cnn_step_eq (kcalc : List Int → List Int → List Int → List Int → List Int)
    (kfit : MutableKernelSizes.State → Int → Int → List Int → List Int → Option Bool) (p : Policy)
    (hp : p.clampKernel = true) (hp2 : p.fitLater = true) (c : CNN) (hw : c.WF)
    (hne : c.channels ≠ []) (out : List Int) (mm : List String)
    (hout : pySlice out (some (-2)) none = c.lastMap)
    (hcalc : kcalc (ofNats c.channels) (ofNats c.kernels) (ofNats c.strides) [(c.inC : Int), (c.inH : Int), (c.inW : Int)]
      = ofNats c.maxKernels)
    (hfit : ∀ j knew : Nat, kfit { sizes := ofNats c.kernels } (j : Int) (knew : Int) (ofNats c.strides)
      [(c.inC : Int), (c.inH : Int), (c.inW : Int)] = some (c.laterFit j knew)) (me : CnnMethod) (a : Args) (x : Flags) :
    cnnCall kcalc kfit me (c.toGen out mm) a x =
      if (Basic.cnn c).drawsOK p (decide ("add_layer" ∈ mm)) me.str a (me.flags x) then
        some ((c.step p (decide ("add_layer" ∈ mm)) me a).1.toGen out mm, cnnRet p (decide ("add_layer" ∈ mm)) c me a,
              (c.step p (decide ("add_layer" ∈ mm)) me a).2.name)
      else none := by
  have hk : c.kernels.length = c.channels.length := hw.2.1
  cases me
  · simp only [cnnCall, gen_cnn_add_layer_eq kcalc c hw hne out mm hout hcalc, Basic.drawsOK, CnnMethod.str, cnnMethod?,
      CnnMethod.flags, CNN.step, CNN.addLayer, cnnRet, Applied.name]
    split_ifs <;> first | rfl | (exfalso; simp_all; done)
  · simp only [cnnCall, gen_cnn_remove_layer_eq c hne out mm, Basic.drawsOK, CnnMethod.str, cnnMethod?,
      CnnMethod.flags, CNN.step, cnnRet, Applied.name]
    split_ifs <;> first | rfl | (exfalso; simp_all; done)
  · simp only [cnnCall, gen_cnn_change_kernel_eq kcalc kfit c hw hne out mm hcalc hfit,
      gen_cnn_add_layer_eq kcalc c hw hne out mm hout hcalc, gen_cnn_add_channel_draws c hne out mm,
      Basic.drawsOK, CnnMethod.str, cnnMethod?, stepFin,
      CnnMethod.flags, CNN.step, CNN.addLayer, CNN.kernelTarget, cnnRet, Applied.name, hp, hp2, if_true, Bool.true_or, hk]
    by_cases h1 : c.channels.length > 1 <;> by_cases h2 : "add_layer" ∈ mm <;> by_cases h3 : c.addLayerGuard = true <;>
      simp only [h1, h2, h3, if_true, if_false, decide_true, decide_false, Bool.false_eq_true, nodeDrawOK] <;>
      split_ifs <;> (try simp only [*, if_true, if_false]) <;> first | rfl | (guard_target = False; simp_all; done)
  · simp only [cnnCall, gen_cnn_add_channel_eq c hne out mm, Basic.drawsOK, CnnMethod.str, cnnMethod?,
      CnnMethod.flags, CNN.step, cnnRet, Applied.name]
  · simp only [cnnCall, gen_cnn_remove_channel_eq c hne out mm, Basic.drawsOK, CnnMethod.str, cnnMethod?,
      CnnMethod.flags, CNN.step, cnnRet, Applied.name]

/-! ## the kinds of the advertised methods (`@mutation(MutationType.X)`) -/

def kindNames (tbl : List (String × String)) (k : String) : List String := (tbl.filter (fun e => e.2 == k)).map (·.1)

theorem gen_mutation_types_eq (m : MLP) (c : CNN) (l : LSTM) (s : SimBa) (r : ResNet) :
    (kindNames EvolvableMLP.mutationTypes "LAYER" = (Basic.mlp m).layerMethods ∧
     kindNames EvolvableMLP.mutationTypes "NODE" = (Basic.mlp m).nodeMethods) ∧
    (kindNames EvolvableCNN.mutationTypes "LAYER" = (Basic.cnn c).layerMethods ∧
     kindNames EvolvableCNN.mutationTypes "NODE" = (Basic.cnn c).nodeMethods) ∧
    (kindNames EvolvableLSTM.mutationTypes "LAYER" = (Basic.lstm l).layerMethods ∧
     kindNames EvolvableLSTM.mutationTypes "NODE" = (Basic.lstm l).nodeMethods) ∧
    (kindNames EvolvableSimBa.mutationTypes "LAYER" = (Basic.simba s).layerMethods ∧
     kindNames EvolvableSimBa.mutationTypes "NODE" = (Basic.simba s).nodeMethods) ∧
    (kindNames EvolvableResNet.mutationTypes "LAYER" = (Basic.resnet r).layerMethods ∧
     kindNames EvolvableResNet.mutationTypes "NODE" = (Basic.resnet r).nodeMethods) ∧
    kindNames EvolvableNetwork.mutationTypes "NODE" = ["add_latent_node", "remove_latent_node"] := by
  refine ⟨⟨?_, ?_⟩, ⟨?_, ?_⟩, ⟨?_, ?_⟩, ⟨?_, ?_⟩, ⟨?_, ?_⟩, ?_⟩ <;>
    first | decide | (simp only [Basic.layerMethods, Basic.nodeMethods]; decide)

/-! ## bounds, stated on the record of ints the code holds -/

def mlpStateOK (s : EvolvableMLP.State) : Prop :=
  1 ≤ s.min_hidden_layers ∧ s.min_hidden_layers ≤ (s.hidden_size.length : Int) ∧
  (s.hidden_size.length : Int) ≤ s.max_hidden_layers ∧
  ∀ h ∈ s.hidden_size, s.min_mlp_nodes ≤ h ∧ h ≤ s.max_mlp_nodes

def cnnStateOK (s : EvolvableCNN.State) : Prop :=
  1 ≤ s.min_hidden_layers ∧ s.min_hidden_layers ≤ (s.channel_size.length : Int) ∧
  (s.channel_size.length : Int) ≤ s.max_hidden_layers ∧
  s.mut_kernel_size.sizes.length = s.channel_size.length ∧ s.stride_size.length = s.channel_size.length ∧
  ∀ h ∈ s.channel_size, s.min_channel_size ≤ h ∧ h ≤ s.max_channel_size

def lstmStateOK (s : EvolvableLSTM.State) : Prop :=
  s.min_layers ≤ s.num_layers ∧ s.num_layers ≤ s.max_layers ∧ s.min_hidden_size ≤ s.hidden_size ∧
  s.hidden_size ≤ s.max_hidden_size
def simbaStateOK (s : EvolvableSimBa.State) : Prop :=
  s.min_blocks ≤ s.num_blocks ∧ s.num_blocks ≤ s.max_blocks ∧ s.min_mlp_nodes ≤ s.hidden_size ∧
  s.hidden_size ≤ s.max_mlp_nodes
def resnetStateOK (s : EvolvableResNet.State) : Prop :=
  s.min_blocks ≤ s.num_blocks ∧ s.num_blocks ≤ s.max_blocks ∧ s.min_channel_size ≤ s.channel_size ∧
  s.channel_size ≤ s.max_channel_size
def latentStateOK (s : EvolvableNetwork.State) : Prop :=
  s.min_latent_dim ≤ s.latent_dim ∧ s.latent_dim ≤ s.max_latent_dim

theorem mem_ofNats (l : List Nat) (z : Int) : z ∈ ofNats l ↔ ∃ n ∈ l, z = (n : Int) := by
  simp only [ofNats, List.mem_map]
  constructor
  · rintro ⟨n, hn, rfl⟩; exact ⟨n, hn, rfl⟩
  · rintro ⟨n, hn, rfl⟩; exact ⟨n, hn, rfl⟩

theorem MLP.toGen_ok (m : MLP) (hw : m.WF) (h : m.InBounds) : mlpStateOK m.toGen := by
  obtain ⟨h1, h2, h3⟩ := h
  unfold MLP.WF at hw
  refine ⟨by simp only [MLP.toGen]; omega, by simp only [MLP.toGen, ofNats_length]; omega,
          by simp only [MLP.toGen, ofNats_length]; omega, ?_⟩
  intro z hz
  obtain ⟨n, hn, rfl⟩ := (mem_ofNats _ _).1 hz
  have := h3 n hn
  simp only [MLP.toGen]; omega

theorem CNN.toGen_ok (c : CNN) (out : List Int) (mm : List String) (hw : c.WF) (h : c.InBounds) :
    cnnStateOK (c.toGen out mm) := by
  obtain ⟨h1, h2, h3⟩ := h
  obtain ⟨w1, w2, w3⟩ := hw
  refine ⟨by simp only [CNN.toGen]; omega, by simp only [CNN.toGen, ofNats_length]; omega,
          by simp only [CNN.toGen, ofNats_length]; omega, by simp only [CNN.toGen, ofNats_length]; exact w2,
          by simp only [CNN.toGen, ofNats_length]; exact w3, ?_⟩
  intro z hz
  obtain ⟨n, hn, rfl⟩ := (mem_ofNats _ _).1 hz
  have := h3 n hn
  simp only [CNN.toGen]; omega

theorem LSTM.toGen_ok (l : LSTM) (h : l.InBounds) : lstmStateOK l.toGen := by
  obtain ⟨h1, h2, h3, h4⟩ := h; simp only [lstmStateOK, LSTM.toGen]; omega
theorem SimBa.toGen_ok (s : SimBa) (h : s.InBounds) : simbaStateOK s.toGen := by
  obtain ⟨h1, h2, h3, h4⟩ := h; simp only [simbaStateOK, SimBa.toGen]; omega
theorem ResNet.toGen_ok (r : ResNet) (h : r.InBounds) : resnetStateOK r.toGen := by
  obtain ⟨h1, h2, h3, h4⟩ := h; simp only [resnetStateOK, ResNet.toGen]; omega
theorem Latent.toGen_ok (l : Latent) (h : l.InBounds) : latentStateOK l.toGen := by
  obtain ⟨h1, h2⟩ := h; simp only [latentStateOK, Latent.toGen]; omega

theorem MLP.hidden_ne_nil (m : MLP) (hw : m.WF) (h : m.InBounds) : m.hidden ≠ [] := by
  intro e; have := h.1; rw [e] at this; unfold MLP.WF at hw; simp at this; omega
theorem CNN.channels_ne_nil (c : CNN) (hw : c.WF) (h : c.InBounds) : c.channels ≠ [] := by
  intro e; have := h.1; rw [e] at this; have := hw.1; simp at *; omega

/-! ## the external pieces are satisfiable: a `calc_max_kernel_sizes` and a `cnn_output_size` that agree
    with the feature-map arithmetic of the model for EVERY architecture -/

def toNats (l : List Int) : List Nat := l.map Int.toNat
theorem toNats_ofNats (l : List Nat) : toNats (ofNats l) = l := by
  simp only [toNats, ofNats, List.map_map]
  conv => rhs; rw [← List.map_id l]
  congr 1

/-- the integer arithmetic `calc_max_kernel_sizes` is modelled by (`Model/Arch.lean`: `mapsAux`, `clampK`) -/
def refCalc (_ch ks ss inp : List Int) : List Int :=
  match inp with
  | [_, h, w] => ofNats ((mapsAux h w (toNats ks) (toNats ss)).map (fun p => clampK (min p.1 p.2)))
  | _ => []

theorem refCalc_spec (c : CNN) :
    refCalc (ofNats c.channels) (ofNats c.kernels) (ofNats c.strides) [(c.inC : Int), (c.inH : Int), (c.inW : Int)]
      = ofNats c.maxKernels := by
  simp only [refCalc, toNats_ofNats, CNN.maxKernels, CNN.maps]

/-- the integer walk `_later_layers_fit` is modelled by (`Model/Arch.lean`: `fitsAux`) -/
def refFit (s : MutableKernelSizes.State) (j knew : Int) (ss inp : List Int) : Option Bool :=
  match inp with
  | [_, h, w] => some (fitsAux h w ((toNats s.sizes).set j.toNat knew.toNat) (toNats ss))
  | _ => none

theorem refFit_spec (c : CNN) (j knew : Nat) :
    refFit { sizes := ofNats c.kernels } (j : Int) (knew : Int) (ofNats c.strides)
      [(c.inC : Int), (c.inH : Int), (c.inW : Int)] = some (c.laterFit j knew) := by
  simp only [refFit, toNats_ofNats, CNN.laterFit, Int.toNat_natCast]

/-- what `recreate_network` leaves in `cnn_output_size`, from the fields alone -/
def refOut (s : EvolvableCNN.State) : List Int :=
  match s.input_shape with
  | [_, h, w] =>
    (match (mapsAux h w (toNats s.mut_kernel_size.sizes) (toNats s.stride_size)).getLast? with
     | some p => [p.1, p.2]
     | none => [])
  | _ => []

theorem refOut_spec (c : CNN) (out : List Int) (mm : List String) :
    pySlice (refOut (c.toGen out mm)) (some (-2)) none = c.lastMap := by
  simp only [refOut, CNN.toGen, toNats_ofNats, CNN.lastMap, CNN.maps]
  cases (mapsAux (↑c.inH) (↑c.inW) c.kernels c.strides).getLast? with
  | none => rfl
  | some p => rfl

end Arch
