import Proofs.ArchCnn

/-!
  Proofs/ArchKernelSpatial.lean — spatial validity of `change_kernel` (C03).

  `fitsAux` (the walk of `MutableKernelSizes._later_layers_fit`) implies that every feature map is ≥ 1;
  the `while` loop of the repaired `change_kernel_size` (`CNN.stepDown`) ends with a kernel that is not
  larger than the current one or with `laterFit` true, never above its start value and never below
  `min start current`.  Together with the monotonicity of the map walk in the kernel
  (`mapsAux_set_le`, Proofs/ArchCnn.lean) this gives the full statement for the repaired code.
-/
namespace Arch

/-- a kernel that fits its input leaves a map ≥ 1, whatever the stride -/
theorem convOut_pos_of_fit (h : Int) (k s : Nat) (hk : (k : Int) ≤ h) : 1 ≤ convOut h k s := by
  unfold convOut
  have : 0 ≤ (h - (k : Int)) / (s : Int) := Int.ediv_nonneg (by omega) (by omega)
  omega

/-- `_later_layers_fit` true ⇒ every feature map ≥ 1 -/
theorem fitsAux_spatial (ks : List Nat) : ∀ (ss : List Nat) (h w : Int),
    fitsAux h w ks ss = true → (mapsAux h w ks ss).all mapOK = true := by
  induction ks with
  | nil => intro ss h w _; simp [mapsAux]
  | cons k t ih =>
    intro ss h w hf
    cases ss with
    | nil => simp [mapsAux]
    | cons s st =>
      simp only [fitsAux] at hf
      split at hf
      · cases hf
      · rename_i hn
        simp only [mapsAux, List.all_cons, Bool.and_eq_true]
        refine ⟨?_, ih st _ _ hf⟩
        simp only [mapOK, Bool.and_eq_true, decide_eq_true_eq]
        exact ⟨convOut_pos_of_fit h k s (by omega), convOut_pos_of_fit w k s (by omega)⟩

/-- with strides ≥ 1 the converse holds too: `_later_layers_fit` IS spatial validity -/
theorem spatial_fitsAux (ks : List Nat) : ∀ (ss : List Nat) (h w : Int), (∀ s ∈ ss, 1 ≤ s) →
    (mapsAux h w ks ss).all mapOK = true → fitsAux h w ks ss = true := by
  induction ks with
  | nil => intro ss h w _ _; cases ss <;> rfl
  | cons k t ih =>
    intro ss h w hs hall
    cases ss with
    | nil => rfl
    | cons s st =>
      simp only [mapsAux, List.all_cons, Bool.and_eq_true, mapOK, decide_eq_true_eq] at hall
      have hs1 : 1 ≤ s := hs s (by simp)
      have fit : ∀ x : Int, 1 ≤ convOut x k s → (k : Int) ≤ x := by
        intro x hx
        unfold convOut at hx
        rcases Int.lt_or_le x (k : Int) with hc | hc
        · have hneg : x - (k : Int) < 0 := by omega
          have : (x - (k : Int)) / (s : Int) < 0 := Int.ediv_neg_of_neg_of_pos hneg (by omega)
          omega
        · exact hc
      have h1 := fit h hall.1.1
      have h2 := fit w hall.1.2
      simp only [fitsAux]
      rw [if_neg (by omega)]
      exact ih st _ _ (fun s' hs' => hs s' (by simp [hs'])) hall.2

theorem CNN.laterFit_spatial (c : CNN) (j knew : Nat) (h : c.laterFit j knew = true) :
    ({ c with kernels := c.kernels.set j knew } : CNN).spatialOK = true := by
  rw [spatialOK_eq]; exact fitsAux_spatial _ _ _ _ h

theorem CNN.stepDown_le (c : CNN) (j cur : Nat) : ∀ n k, c.stepDown j cur n k ≤ k := by
  intro n
  induction n with
  | zero => intro k; simp [CNN.stepDown]
  | succ n ih =>
    intro k
    simp only [CNN.stepDown]
    split
    · have := ih (k - 1); omega
    · omega

theorem CNN.stepDown_ge (c : CNN) (j cur : Nat) : ∀ n k, min k cur ≤ c.stepDown j cur n k := by
  intro n
  induction n with
  | zero => intro k; simp [CNN.stepDown]; omega
  | succ n ih =>
    intro k
    simp only [CNN.stepDown]
    split
    · rename_i hc
      have := ih (k - 1); omega
    · omega

/-- the loop's exit condition: with enough fuel it ends at or below the current kernel, or with a kernel
    for which `_later_layers_fit` holds -/
theorem CNN.stepDown_spec (c : CNN) (j cur : Nat) : ∀ n k, k - cur ≤ n →
    c.stepDown j cur n k ≤ cur ∨ c.laterFit j (c.stepDown j cur n k) = true := by
  intro n
  induction n with
  | zero => intro k hk; left; simp only [CNN.stepDown]; omega
  | succ n ih =>
    intro k hk
    simp only [CNN.stepDown]
    split
    · exact ih (k - 1) (by omega)
    · rename_i hc
      by_cases h1 : k > cur
      · right
        by_cases h2 : c.laterFit j k = true
        · exact h2
        · exact absurd ⟨h1, h2⟩ hc
      · left; omega

/-- a kernel that is not enlarged, or for which `_later_layers_fit` holds, leaves a valid configuration -/
theorem CNN.set_kernel_spatial (c : CNN) (j k : Nat) (hsp : c.spatialOK = true)
    (h : k ≤ c.kernels.getD j 1 ∨ c.laterFit j k = true) :
    ({ c with kernels := c.kernels.set j k } : CNN).spatialOK = true := by
  rcases h with h | h
  · rw [spatialOK_eq] at hsp ⊢
    refine mapsAux_set_le c.kernels c.strides j k _ _ ?_ hsp
    intro hj
    have : c.kernels.getD j 1 = c.kernels.getD j 0 := by
      simp [List.getD_eq_getElem?_getD, List.getElem?_eq_getElem hj]
    omega
  · exact CNN.laterFit_spatial c j k h

end Arch
