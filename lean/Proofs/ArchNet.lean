import Proofs.ArchBounds
/-!
  Proofs/ArchNet.lean — composite objects: basic block / multi-input encoder / network.
  Bounds of every component and the encoder–latent–head interface are preserved by every
  advertised (dotted) method.
-/
namespace Arch

def Basic.InBounds : Basic → Prop
  | .mlp m => m.WF ∧ m.InBounds
  | .cnn c => c.WF ∧ c.InBounds
  | .lstm l => l.InBounds
  | .simba s => s.InBounds
  | .resnet r => r.InBounds

def Enc.InBounds : Enc → Prop
  | .basic b => b.InBounds
  | .multi m => m.lat.InBounds ∧ ∀ e ∈ m.subs, e.2.InBounds

def Net.InBounds (n : Net) : Prop := n.lat.InBounds ∧ n.enc.InBounds ∧ n.head.WF ∧ n.head.InBounds

theorem Basic.setNumOutputs_inBounds (k : Nat) (b : Basic) (h : b.InBounds) : (b.setNumOutputs k).InBounds := by
  cases b <;> exact h

theorem Basic.setNumOutputs_numOutputs (k : Nat) (b : Basic) : (b.setNumOutputs k).numOutputs = k := by
  cases b <;> rfl

theorem Basic.step_inBounds (p : Policy) (lo : Bool) (b b' : Basic) (meth : String) (a : Args) (ap : Applied)
    (hs : b.step p lo meth a = some (b', ap)) (h : b.InBounds) : b'.InBounds := by
  cases b with
  | mlp m =>
    simp only [Basic.step, Option.map_eq_some_iff] at hs
    obtain ⟨me, _, he⟩ := hs
    simp only [Prod.mk.injEq] at he
    rw [← he.1]
    exact ⟨MLP.step_wf m me a h.1, MLP.step_inBounds m me a h.1 h.2⟩
  | cnn c =>
    simp only [Basic.step, Option.map_eq_some_iff] at hs
    obtain ⟨me, _, he⟩ := hs
    simp only [Prod.mk.injEq] at he
    rw [← he.1]
    exact ⟨CNN.step_wf p lo c me a h.1, CNN.step_inBounds p lo c me a h.1 h.2⟩
  | lstm l =>
    simp only [Basic.step, Option.map_eq_some_iff] at hs
    obtain ⟨me, _, he⟩ := hs
    simp only [Prod.mk.injEq] at he
    rw [← he.1]
    exact LSTM.step_inBounds l me a h
  | simba s =>
    simp only [Basic.step, Option.map_eq_some_iff] at hs
    obtain ⟨me, _, he⟩ := hs
    simp only [Prod.mk.injEq] at he
    rw [← he.1]
    exact SimBa.step_inBounds s me a h
  | resnet r =>
    simp only [Basic.step, Option.map_eq_some_iff] at hs
    obtain ⟨me, _, he⟩ := hs
    simp only [Prod.mk.injEq] at he
    rw [← he.1]
    exact ResNet.step_inBounds r me a h

/-- no mutation touches the declared output width of a block -/
theorem Basic.step_numOutputs (p : Policy) (lo : Bool) (b b' : Basic) (meth : String) (a : Args) (ap : Applied)
    (hs : b.step p lo meth a = some (b', ap)) : b'.numOutputs = b.numOutputs := by
  cases b with
  | mlp m =>
    simp only [Basic.step, Option.map_eq_some_iff] at hs
    obtain ⟨me, _, he⟩ := hs
    simp only [Prod.mk.injEq] at he
    rw [← he.1]
    cases me <;> simp only [MLP.step, MLP.addNode, MLP.removeNode, Basic.numOutputs] <;> (repeat' split) <;> rfl
  | cnn c =>
    simp only [Basic.step, Option.map_eq_some_iff] at hs
    obtain ⟨me, _, he⟩ := hs
    simp only [Prod.mk.injEq] at he
    rw [← he.1]
    cases me <;>
      simp only [CNN.step, CNN.addLayer, CNN.addChannel, CNN.removeChannel, Basic.numOutputs] <;>
      (repeat' split) <;> rfl
  | lstm l =>
    simp only [Basic.step, Option.map_eq_some_iff] at hs
    obtain ⟨me, _, he⟩ := hs
    simp only [Prod.mk.injEq] at he
    rw [← he.1]
    cases me <;> simp only [LSTM.step, LSTM.addNode, LSTM.removeNode, Basic.numOutputs] <;> (repeat' split) <;> rfl
  | simba s =>
    simp only [Basic.step, Option.map_eq_some_iff] at hs
    obtain ⟨me, _, he⟩ := hs
    simp only [Prod.mk.injEq] at he
    rw [← he.1]
    cases me <;> simp only [SimBa.step, SimBa.addNode, SimBa.removeNode, Basic.numOutputs] <;> (repeat' split) <;> rfl
  | resnet r =>
    simp only [Basic.step, Option.map_eq_some_iff] at hs
    obtain ⟨me, _, he⟩ := hs
    simp only [Prod.mk.injEq] at he
    rw [← he.1]
    cases me <;> simp only [ResNet.step, ResNet.addChannel, ResNet.removeChannel, Basic.numOutputs] <;>
      (repeat' split) <;> rfl

theorem stepSub_inBounds (p : Policy) (lo : Bool) (key meth : String) (a : Args) :
    ∀ (subs subs' : List (String × Basic)) (ap : Applied),
      stepSub p lo key meth a subs = some (subs', ap) →
      (∀ e ∈ subs, e.2.InBounds) → ∀ e ∈ subs', e.2.InBounds := by
  intro subs
  induction subs with
  | nil => intro subs' ap hs; simp [stepSub] at hs
  | cons e rest ih =>
    intro subs' ap hs hall
    obtain ⟨k, b⟩ := e
    simp only [stepSub] at hs
    split at hs
    · simp only [Option.map_eq_some_iff] at hs
      obtain ⟨r, hr, he⟩ := hs
      simp only [Prod.mk.injEq] at he
      rw [← he.1]
      intro e he'
      simp only [List.mem_cons] at he'
      rcases he' with rfl | he'
      · exact Basic.step_inBounds p lo b r.1 meth a r.2 hr (hall (k, b) (by simp))
      · exact hall e (by simp [he'])
    · simp only [Option.map_eq_some_iff] at hs
      obtain ⟨r, hr, he⟩ := hs
      simp only [Prod.mk.injEq] at he
      rw [← he.1]
      intro e he'
      simp only [List.mem_cons] at he'
      rcases he' with rfl | he'
      · exact hall (k, b) (by simp)
      · exact ih r.1 r.2 hr (fun e he => hall e (by simp [he])) e he'

theorem Multi.step_inBounds (p : Policy) (lo : Bool) (m m' : Multi) (path : List String) (a : Args) (s : String)
    (hs : m.step p lo path a = some (m', s)) (h : (Enc.multi m).InBounds) : (Enc.multi m').InBounds := by
  unfold Multi.step at hs
  split at hs
  · simp only [Option.map_eq_some_iff] at hs
    obtain ⟨me, _, he⟩ := hs
    simp only [Prod.mk.injEq] at he
    rw [← he.1]
    refine ⟨Latent.step_inBounds m.lat me a h.1, ?_⟩
    intro e he'
    simp only [List.mem_map] at he'
    obtain ⟨e0, he0, rfl⟩ := he'
    exact Basic.setNumOutputs_inBounds _ _ (h.2 e0 he0)
  · simp only [Option.map_eq_some_iff] at hs
    obtain ⟨r, hr, he⟩ := hs
    simp only [Prod.mk.injEq] at he
    rw [← he.1]
    exact ⟨h.1, stepSub_inBounds p lo _ _ a m.subs r.1 r.2 hr h.2⟩
  · simp at hs

theorem Multi.step_numOutputs (p : Policy) (lo : Bool) (m m' : Multi) (path : List String) (a : Args) (s : String)
    (hs : m.step p lo path a = some (m', s)) : m'.numOutputs = m.numOutputs := by
  unfold Multi.step at hs
  split at hs
  · simp only [Option.map_eq_some_iff] at hs
    obtain ⟨me, _, he⟩ := hs
    simp only [Prod.mk.injEq] at he
    rw [← he.1]
  · simp only [Option.map_eq_some_iff] at hs
    obtain ⟨r, hr, he⟩ := hs
    simp only [Prod.mk.injEq] at he
    rw [← he.1]
  · simp at hs

theorem Enc.step_inBounds (p : Policy) (lo : Bool) (e e' : Enc) (path : List String) (a : Args) (s : String)
    (hs : e.step p lo path a = some (e', s)) (h : e.InBounds) : e'.InBounds := by
  cases e with
  | basic b =>
    simp only [Enc.step] at hs
    split at hs
    · simp only [Option.map_eq_some_iff] at hs
      obtain ⟨r, hr, he⟩ := hs
      simp only [Prod.mk.injEq] at he
      rw [← he.1]
      exact Basic.step_inBounds p lo b r.1 _ a r.2 hr h
    · simp at hs
  | multi m =>
    simp only [Enc.step, Option.map_eq_some_iff] at hs
    obtain ⟨r, hr, he⟩ := hs
    simp only [Prod.mk.injEq] at he
    rw [← he.1]
    exact Multi.step_inBounds p lo m r.1 path a r.2 hr h

theorem Enc.step_numOutputs (p : Policy) (lo : Bool) (e e' : Enc) (path : List String) (a : Args) (s : String)
    (hs : e.step p lo path a = some (e', s)) : e'.numOutputs = e.numOutputs := by
  cases e with
  | basic b =>
    simp only [Enc.step] at hs
    split at hs
    · simp only [Option.map_eq_some_iff] at hs
      obtain ⟨r, hr, he⟩ := hs
      simp only [Prod.mk.injEq] at he
      rw [← he.1]
      exact Basic.step_numOutputs p lo b r.1 _ a r.2 hr
    · simp at hs
  | multi m =>
    simp only [Enc.step, Option.map_eq_some_iff] at hs
    obtain ⟨r, hr, he⟩ := hs
    simp only [Prod.mk.injEq] at he
    rw [← he.1]
    exact Multi.step_numOutputs p lo m r.1 path a r.2 hr

theorem Enc.setNumOutputs_inBounds (k : Nat) (e : Enc) (h : e.InBounds) : (e.setNumOutputs k).InBounds := by
  cases e with
  | basic b => exact Basic.setNumOutputs_inBounds k b h
  | multi m => exact h

theorem Enc.setNumOutputs_numOutputs (k : Nat) (e : Enc) : (e.setNumOutputs k).numOutputs = k := by
  cases e with
  | basic b => exact Basic.setNumOutputs_numOutputs k b
  | multi m => rfl

theorem MLP.step_io (m : MLP) (me : MlpMethod) (a : Args) :
    (m.step me a).1.numInputs = m.numInputs ∧ (m.step me a).1.numOutputs = m.numOutputs := by
  cases me <;> simp only [MLP.step, MLP.addNode, MLP.removeNode] <;> (repeat' split) <;> exact ⟨rfl, rfl⟩

theorem Net.step_inBounds (p : Policy) (n n' : Net) (path : List String) (a : Args) (s : String)
    (hs : n.step p path a = some (n', s)) (h : n.InBounds) : n'.InBounds := by
  obtain ⟨h1, h2, h3, h4⟩ := h
  unfold Net.step at hs
  split at hs
  · simp only [Option.map_eq_some_iff] at hs
    obtain ⟨me, _, he⟩ := hs
    simp only [Prod.mk.injEq] at he
    rw [← he.1]
    exact ⟨Latent.step_inBounds n.lat me a h1, Enc.setNumOutputs_inBounds _ _ h2, h3, h4⟩
  · simp only [Option.map_eq_some_iff] at hs
    obtain ⟨r, hr, he⟩ := hs
    simp only [Prod.mk.injEq] at he
    rw [← he.1]
    exact ⟨h1, Enc.step_inBounds p n.encLayer n.enc r.1 _ a r.2 hr h2, h3, h4⟩
  · simp only [Option.map_eq_some_iff] at hs
    obtain ⟨me, _, he⟩ := hs
    split at he
    · simp only [Prod.mk.injEq] at he
      rw [← he.1]
      exact ⟨h1, h2, MLP.step_wf n.head me a h3, MLP.step_inBounds n.head me a h3 h4⟩
    · simp only [Prod.mk.injEq] at he
      rw [← he.1]
      exact ⟨h1, h2, h3, h4⟩
  · simp at hs

/-- encoder output = latent width = head input (− extra) survives every advertised method -/
theorem Net.step_coherent (p : Policy) (n n' : Net) (path : List String) (a : Args) (s : String)
    (hs : n.step p path a = some (n', s)) (h : n.Coherent) :
    n'.Coherent ∧ n'.head.numOutputs = n.head.numOutputs ∧ n'.headExtra = n.headExtra := by
  obtain ⟨h1, h2⟩ := h
  unfold Net.step at hs
  split at hs
  · simp only [Option.map_eq_some_iff] at hs
    obtain ⟨me, _, he⟩ := hs
    simp only [Prod.mk.injEq] at he
    rw [← he.1]
    exact ⟨⟨Enc.setNumOutputs_numOutputs _ _, rfl⟩, rfl, rfl⟩
  · simp only [Option.map_eq_some_iff] at hs
    obtain ⟨r, hr, he⟩ := hs
    simp only [Prod.mk.injEq] at he
    rw [← he.1]
    exact ⟨⟨(Enc.step_numOutputs p n.encLayer n.enc r.1 _ a r.2 hr).trans h1, h2⟩, rfl, rfl⟩
  · simp only [Option.map_eq_some_iff] at hs
    obtain ⟨me, _, he⟩ := hs
    split at he
    · simp only [Prod.mk.injEq] at he
      rw [← he.1]
      have := MLP.step_io n.head me a
      exact ⟨⟨h1, this.1.trans h2⟩, this.2, rfl⟩
    · simp only [Prod.mk.injEq] at he
      rw [← he.1]
      exact ⟨⟨h1, h2⟩, rfl, rfl⟩
  · simp at hs

end Arch
