import Proofs.BanditRefine

/-!
  Proofs/BanditAgent.lean — invariants of the bookkeeping state machine of `Model/Bandit.lean`
  (`init_params`, `get_action`, `learn`, `Mutations.mutation`, `clone`, `load`).
-/
open Matrix

namespace Bandit

/-! ### sizes (no assumption on `lamb`) -/

/-- `agent.numel` is the parameter count of the current output layer and `sigma_inv` is
    `numel × numel` -/
def Agent.Sized (a : Agent) : Prop := a.numel = a.outNumel ∧ WellShaped a.numel a.sigmaInv

instance (a : Agent) : Decidable a.Sized := by unfold Agent.Sized; infer_instance

theorem sigma0_wellShaped (sem : Sem) (lamb : Rat) (n : Nat) : WellShaped n (sigma0 sem lamb n) := by
  cases sem <;> exact scaledIdentity_wellShaped _ _

theorem z0_wellShaped (sem : Sem) (lamb : Rat) (n : Nat) : WellShaped n (z0 sem lamb n) := by
  cases sem <;> exact scaledIdentity_wellShaped _ _

theorem Agent.clone_eq (a : Agent) : a.clone = a := by cases a; rfl
theorem Agent.loadFrom_eq (target saved : Agent) (h : target.sem = saved.sem) :
    target.loadFrom saved = saved := by
  cases target; cases saved; simp only at h; subst h; rfl
theorem Agent.reload_eq (a : Agent) : a.reload = a := Agent.loadFrom_eq _ a rfl

theorem Agent.sized_initParams (a : Agent) : a.initParams.Sized :=
  ⟨rfl, sigma0_wellShaped _ _ _⟩

theorem Agent.sized_update {a : Agent} (h : a.Sized) (g : Vec) : (a.update g).Sized := by
  unfold Agent.update
  split
  · exact ⟨h.1, smUpdate_wellShaped g h.2⟩
  · exact h

theorem Agent.sized_setLamb {a : Agent} (h : a.Sized) (q : Rat) : (a.setLamb q).Sized := by
  unfold Agent.setLamb; split <;> exact h

theorem Agent.sized_step {a : Agent} (h : a.Sized) (op : Op) : (a.step op).Sized := by
  cases op with
  | update g => exact Agent.sized_update h g
  | learn => exact h
  | mutate n' => exact Agent.sized_initParams _
  | clone => rw [Agent.step, Agent.clone_eq]; exact h
  | reload => rw [Agent.step, Agent.reload_eq]; exact h
  | init => exact Agent.sized_initParams _
  | setLamb q => exact Agent.sized_setLamb h q
  | evaluate => exact h

theorem Agent.sized_run {a : Agent} (h : a.Sized) (ops : List Op) : (a.run ops).Sized := by
  induction ops generalizing a with
  | nil => exact h
  | cons op rest ih => exact ih (Agent.sized_step h op)

/-! ### the inverse invariant (needs `lamb > 0`, which the constructor asserts) -/

structure Agent.Good (a : Agent) : Prop where
  lamb_pos : 0 < a.lamb
  sized : a.Sized
  hist_len : ∀ g ∈ a.hist, g.length = a.numel
  gram_shape : WellShaped a.numel a.gram
  inv : BanditM.IsInvPD (toMatrix a.numel a.gram) (toMatrix a.numel a.sigmaInv)

theorem isInvPD_init (sem : Sem) {lamb : Rat} (hl : 0 < lamb) (n : Nat) :
    BanditM.IsInvPD (toMatrix n (z0 sem lamb n)) (toMatrix n (sigma0 sem lamb n)) := by
  cases sem with
  | code =>
    simp only [z0, sigma0, toMatrix_scaledIdentity]
    have := BanditM.isInvPD_scalar (n := n) lamb⁻¹ (inv_pos.mpr hl)
    rwa [inv_inv] at this
  | paper =>
    simp only [z0, sigma0, toMatrix_scaledIdentity]
    exact BanditM.isInvPD_scalar lamb hl

theorem Agent.good_initParams (a : Agent) (hl : 0 < a.lamb) : a.initParams.Good where
  lamb_pos := hl
  sized := Agent.sized_initParams a
  hist_len := by intro g hg; simp [Agent.initParams] at hg
  gram_shape := z0_wellShaped _ _ _
  inv := isInvPD_init a.sem hl a.outNumel

theorem gram_append (Z0 : Mat) (hist : List Vec) (g : Vec) :
    gram Z0 (hist ++ [g]) = addOuter (gram Z0 hist) g := by
  simp [gram, List.foldl_append]

theorem Agent.good_update {a : Agent} (h : a.Good) (g : Vec) : (a.update g).Good := by
  unfold Agent.update
  split
  · rename_i hacc
    have hg : g.length = a.numel := by
      simp only [Agent.accepts, Bool.and_eq_true, decide_eq_true_eq] at hacc
      omega
    refine ⟨h.lamb_pos, ⟨h.sized.1, smUpdate_wellShaped g h.sized.2⟩, ?_, ?_, ?_⟩
    · intro x hx
      simp only [List.mem_append, List.mem_singleton] at hx
      rcases hx with hx | rfl
      · exact h.hist_len x hx
      · exact hg
    · show WellShaped a.numel (Bandit.gram (z0 a.sem a.lamb0 a.numel) (a.hist ++ [g]))
      rw [gram_append]
      exact addOuter_wellShaped h.gram_shape hg
    · show BanditM.IsInvPD (toMatrix a.numel (Bandit.gram (z0 a.sem a.lamb0 a.numel) (a.hist ++ [g])))
        (toMatrix a.numel (smUpdate a.sigmaInv g))
      rw [gram_append, show Bandit.gram (z0 a.sem a.lamb0 a.numel) a.hist = a.gram from rfl,
        toMatrix_addOuter h.gram_shape hg, toMatrix_smUpdate h.sized.2 hg]
      exact h.inv.step _
  · exact h

/-- changing `lamb` leaves the matrix, its Gram matrix (built from `lamb0`) and all sizes alone -/
theorem Agent.good_setLamb {a : Agent} (h : a.Good) (q : Rat) : (a.setLamb q).Good := by
  unfold Agent.setLamb
  split
  · rename_i hq
    exact ⟨hq, h.sized, h.hist_len, h.gram_shape, h.inv⟩
  · exact h

theorem Agent.good_step {a : Agent} (h : a.Good) (op : Op) : (a.step op).Good := by
  cases op with
  | update g => exact Agent.good_update h g
  | learn => exact h
  | mutate n' => exact Agent.good_initParams _ h.lamb_pos
  | clone => rw [Agent.step, Agent.clone_eq]; exact h
  | reload => rw [Agent.step, Agent.reload_eq]; exact h
  | init => exact Agent.good_initParams _ h.lamb_pos
  | setLamb q => exact Agent.good_setLamb h q
  | evaluate => exact h

theorem Agent.good_run {a : Agent} (h : a.Good) (ops : List Op) : (a.run ops).Good := by
  induction ops generalizing a with
  | nil => exact h
  | cons op rest ih => exact ih (Agent.good_step h op)

theorem Agent.good_mk0 (sem : Sem) {lamb : Rat} (hl : 0 < lamb) (n : Nat) :
    (Agent.mk0 sem lamb n).Good :=
  Agent.good_initParams _ hl

theorem identity_wellShaped (n : Nat) : WellShaped n (identity n) := scaledIdentity_wellShaped n 1

/-! ### consequences of `Good`, stated on the executable lists -/

theorem Agent.Good.inverse_lists {a : Agent} (h : a.Good) :
    matMul a.numel a.gram a.sigmaInv = identity a.numel ∧
    matMul a.numel a.sigmaInv a.gram = identity a.numel := by
  constructor
  · apply toMatrix_injective (matMul_wellShaped _ h.gram_shape.1) (identity_wellShaped _)
    rw [toMatrix_matMul h.gram_shape h.sized.2, toMatrix_identity]
    exact h.inv.1
  · apply toMatrix_injective (matMul_wellShaped _ h.sized.2.1) (identity_wellShaped _)
    rw [toMatrix_matMul h.sized.2 h.gram_shape, toMatrix_identity]
    exact h.inv.left

theorem toVec_ne_zero {n : Nat} {x : Vec} (hx : x.length = n) (hne : ∃ c ∈ x, c ≠ 0) :
    toVec n x ≠ 0 := by
  obtain ⟨c, hc, hc0⟩ := hne
  obtain ⟨k, hk, rfl⟩ := List.getElem_of_mem hc
  intro h0
  have := congrFun h0 ⟨k, by rw [← hx]; exact hk⟩
  simp [toVec, List.getD_eq_getElem?_getD, List.getElem?_eq_getElem hk] at this
  exact hc0 this

theorem Agent.Good.bonus_nonneg {a : Agent} (h : a.Good) {g : Vec} (hg : g.length = a.numel) :
    0 ≤ bonus a.sigmaInv g := by
  rw [bonus_eq h.sized.2 hg, ← dotProduct_mulVec]
  exact h.inv.posDef.nonneg _

theorem Agent.Good.bonus_pos {a : Agent} (h : a.Good) {g : Vec} (hg : g.length = a.numel)
    (hne : ∃ c ∈ g, c ≠ 0) : 0 < bonus a.sigmaInv g := by
  rw [bonus_eq h.sized.2 hg, ← dotProduct_mulVec]
  exact h.inv.posDef.2 _ (toVec_ne_zero hg hne)

theorem Agent.Good.symm_entries {a : Agent} (h : a.Good) {i j : Nat} (hi : i < a.numel)
    (hj : j < a.numel) : a.sigmaInv.get i j = a.sigmaInv.get j i := by
  have := congrFun (congrFun h.inv.posDef.1 ⟨i, hi⟩) ⟨j, hj⟩
  simpa [toMatrix, Matrix.transpose_apply] using this.symm

end Bandit
