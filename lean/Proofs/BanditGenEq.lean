import Gen.BanditGen
import Proofs.BanditAgent
import Proofs.ActionArgmax

/-!
  Proofs/BanditGenEq.lean — the definitions `harness/py2lean_bandit.py` generates from the source text of
  `NeuralUCB` / `NeuralTS` (`Gen/BanditGen.lean`: a generic tensor prelude `mm`, `tr`, `unsq1`, entry-wise maps
  over `List (List Rat)`, and per class `numel0`, `sigma0`, `init`, `sqrt_arg`, `scores`, `arm`, `update`, `act`)
  are equal to the specialised functions of the hand-written `Model/Bandit.lean`:

    numel0 ps               = layerNumel ps                       (number of trainable scalars of the layer)
    sigma0 lamb n           = sigma0 .paper lamb n                (`I / lamb`: the repaired initialisation)
    init lamb ps            = (numel, sigmaInv) of `Agent.initParams` for an output layer of `layerNumel ps` scalars
    sqrt_arg n S feat       = per arm `[bonus S row]`             if `S` has `n` rows
    scores …                = `mu + γ·sqrt(q)` / `normal mu (γ·sqrt(q))` entry-wise
    arm mask sc             = `pickArm sc.flatten mask`           (`Action.plainPick` / `Action.maPick`: first maximum)
    update n S feat a       = smUpdate S feat[a]                  if `S` has `n` rows and `feat[a]` `n` entries
    act … n S mu feat mask  = (a, smUpdate S feat[a]), a = pickArm (scores …).flatten mask

  The shape invariant (`S.length = n`, chosen row of length `n`) is what `C19_size_matches_output_layer` and the
  allocation `torch.zeros((action_dim, numel))` give; it is satisfiable (examples at the end).
  The proofs rewrite with lemmas about the prelude (`mm 1 S (unsq1 v) = unsq1 (matVec S v)`, …) and close by
  `rfl`: a changed sign, constant or operand order leaves a goal that is false, so they fail.  Absorbed on
  purpose: the numerator associated as `(S v)(vᵀ S)` (`matMul_outer`), commuted operands of `+` / `*` in the scores.
-/

-- the fallback alternatives of `first` below are there for harmless rewrites of the source, not for today's text
set_option linter.unusedTactic false
set_option linter.unreachableTactic false
set_option linter.unusedSimpArgs false

namespace Bandit
open BanditGen

/-! ### the generic prelude against the specialised functions of the model -/

theorem gen_mm_eq (p : Nat) (A B : Mat) : mm p A B = matMul p A B := rfl

theorem colAt_unsq1 (v : Vec) : colAt (unsq1 v) 0 = v := by
  simp [colAt, unsq1, List.map_map, Function.comp_def]

theorem mm_one_unsq1 (S : Mat) (v : Vec) : mm 1 S (unsq1 v) = unsq1 (matVec S v) := by
  simp only [mm, List.range_one, List.map_cons, List.map_nil, colAt_unsq1]
  simp [unsq1, matVec, List.map_map, Function.comp_def, BanditGen.dot, Bandit.dot]

theorem tr_one_unsq1 (v : Vec) : tr 1 (unsq1 v) = [v] := by
  simp only [tr, List.range_one, List.map_cons, List.map_nil, colAt_unsq1]

theorem range_map_getD (f : Rat → Rat) {n : Nat} {v : Vec} (h : v.length = n) :
    (List.range n).map (fun j => f (v.getD j 0)) = v.map f := by
  subst h
  apply List.ext_getElem (by simp)
  intro i h1 h2
  simp at h1
  simp [List.getD_eq_getElem?_getD, List.getElem?_eq_getElem h1]

theorem mm_col_row {n : Nat} (a : Vec) {v : Vec} (hv : v.length = n) : mm n (unsq1 a) [v] = outer a v := by
  simp only [mm, unsq1, outer, List.map_map, Function.comp_def]
  congr 1
  funext x
  have : ∀ j, BanditGen.dot [x] (colAt [v] j) = x * v.getD j 0 := by
    intro j; simp [BanditGen.dot, colAt]
  simp only [this]
  exact range_map_getD (fun y => x * y) hv

theorem mm_row (n : Nat) (v : Vec) (S : Mat) : mm n [v] S = [vecMat n v S] := rfl

theorem mm_row_col (w v : Vec) : mm 1 [w] (unsq1 v) = [[Bandit.dot w v]] := by
  simp only [mm, List.range_one, List.map_cons, List.map_nil, colAt_unsq1]
  rfl

theorem vecMat_one_unsq1 (w v : Vec) : vecMat 1 w (unsq1 v) = [Bandit.dot w v] := by
  have := mm_row_col w v
  simpa [mm_row] using this

theorem dot_map_mul_left (x : Rat) : ∀ (v c : Vec), Bandit.dot (v.map (fun y => x * y)) c = x * Bandit.dot v c := by
  intro v
  induction v with
  | nil => intro c; simp [Bandit.dot]
  | cons y v ih =>
    intro c
    cases c with
    | nil => simp [Bandit.dot]
    | cons z c => rw [List.map_cons, dot_cons, dot_cons, ih]; ring

/-- `(a vᵀ) S = a (vᵀ S)`: the two ways of associating the numerator of the update -/
theorem matMul_outer (n : Nat) (a v : Vec) (S : Mat) : matMul n (outer a v) S = outer a (vecMat n v S) := by
  simp only [matMul, outer, vecMat, List.map_map, Function.comp_def, dot_map_mul_left]

theorem mm_col_vecMat (n : Nat) (a v : Vec) (S : Mat) : mm n (unsq1 a) [vecMat n v S] = outer a (vecMat n v S) :=
  mm_col_row a (vecMat_length n v S)

theorem e00_single (x : Rat) : e00 [[x]] = x := by simp [e00, rowOf]

theorem emap2_single (f : Rat → Rat) (x : Rat) : emap2 f [[x]] = [[f x]] := by simp [emap2, emap1]

theorem ew2_emap2 (f : Rat → Rat → Rat) (g : Rat → Rat) (S N : Mat) :
    ew2 f S (emap2 g N) = matZip (fun s x => f s (g x)) S N := by
  simp only [ew2, emap2, matZip, List.zipWith_map_right]
  congr 1
  funext a b
  simp [ew1, emap1, List.zipWith_map_right]

/-! ### argmax -/

theorem gen_oLt_eq : oLt = Action.olt := by
  funext a b; cases a <;> cases b <;> rfl

theorem gen_argmaxGo_eq (l : List (Option Rat)) : ∀ best bi i, argmaxGo best bi i l = Action.argmaxAux best bi i l := by
  induction l with
  | nil => intro best bi i; rfl
  | cons x xs ih => intro best bi i; simp only [argmaxGo, Action.argmaxAux, gen_oLt_eq, ih]

theorem gen_npArgmax_eq (l : List (Option Rat)) : npArgmax l = Action.argmaxFirst l := by
  cases l with
  | nil => rfl
  | cons x xs => exact gen_argmaxGo_eq xs x 0 1

/-- an arm is allowed iff its mask entry is 1 (`1 - mask` is the numpy mask: non-zero = hidden) -/
def allowed (m : Rat) : Bool := decide (m = 1)

/-- the arm `get_action` picks from the flattened scores: first maximum, among the allowed arms under a mask -/
def pickArm (q : List Rat) : Option (List Rat) → Nat
  | none => Action.plainPick q
  | some m => Action.maPick q (m.map allowed)

theorem gen_maArray_eq (q m : List Rat) :
    maArray q (emap1 (fun x => (1 : Rat) - x) m) = Action.maskFill q (m.map allowed) := by
  simp only [maArray, emap1, Action.maskFill, List.zipWith_map_right]
  congr 1
  funext x k
  by_cases h : k = 1
  · subst h; simp [allowed]
  · have : (1 : Rat) - k ≠ 0 := fun h0 => h (by linarith)
    simp [allowed, h, this]

theorem sc_map_some (q : List Rat) {j : Nat} (hj : j < q.length) :
    Action.sc (q.map some) j = some (q.getD j 0) := by
  simp [Action.sc, List.getD_eq_getElem?_getD, List.getElem?_eq_getElem hj]

theorem sc_maskFill (q m : List Rat) {j : Nat} (hq : j < q.length) (hm : j < m.length) :
    Action.sc (Action.maskFill q (m.map allowed)) j = if m.getD j 0 = 1 then some (q.getD j 0) else none := by
  simp [Action.sc, Action.maskFill, List.getD_eq_getElem?_getD, List.getElem?_zipWith, List.getElem?_eq_getElem hq,
    List.getElem?_eq_getElem hm, allowed]

/-- without a mask the returned arm is the first maximum of the scores -/
theorem pickArm_none_spec (q : List Rat) (hq : q ≠ []) :
    pickArm q none < q.length ∧ (∀ j, j < q.length → q.getD j 0 ≤ q.getD (pickArm q none) 0) ∧
    (∀ j, j < pickArm q none → q.getD j 0 < q.getD (pickArm q none) 0) := by
  have h := Action.argmaxFirst_spec (q.map some) (by simpa using hq)
  have hk : pickArm q none < q.length := by simpa [pickArm, Action.plainPick] using h.lt_len
  refine ⟨hk, fun j hj => ?_, fun j hj => ?_⟩
  · have := h.is_max j
    rw [show Action.argmaxFirst (q.map some) = pickArm q none from rfl, sc_map_some q hk, sc_map_some q hj] at this
    simpa [Action.olt, not_lt] using this
  · have := h.is_first j hj
    rw [show Action.argmaxFirst (q.map some) = pickArm q none from rfl, sc_map_some q hk,
      sc_map_some q (Nat.lt_trans hj hk)] at this
    simpa [Action.olt] using this

/-- under a mask with at least one allowed arm (`mask = 1`) the returned arm is allowed and is the first
    maximum among the allowed arms -/
theorem pickArm_some_spec (q m : List Rat) (hlen : m.length = q.length) (i : Nat) (hi : i < q.length)
    (hall : m.getD i 0 = 1) :
    pickArm q (some m) < q.length ∧ m.getD (pickArm q (some m)) 0 = 1 ∧
    (∀ j, j < q.length → m.getD j 0 = 1 → q.getD j 0 ≤ q.getD (pickArm q (some m)) 0) ∧
    (∀ j, j < pickArm q (some m) → m.getD j 0 = 1 → q.getD j 0 < q.getD (pickArm q (some m)) 0) := by
  have hne : Action.maskFill q (m.map allowed) ≠ [] := by
    intro h0
    have h1 := congrArg List.length h0
    simp only [Action.maskFill, List.length_zipWith, List.length_map, hlen, Nat.min_self, List.length_nil] at h1
    omega
  have h := Action.argmaxFirst_spec _ hne
  have hdef : Action.argmaxFirst (Action.maskFill q (m.map allowed)) = pickArm q (some m) := rfl
  rw [hdef] at h
  have hk : pickArm q (some m) < q.length := by
    have := h.lt_len
    simpa [Action.maskFill, hlen] using this
  have hsk := sc_maskFill q m hk (by rw [hlen]; exact hk)
  have hal : m.getD (pickArm q (some m)) 0 = 1 := by
    by_contra hno
    have := h.is_max i
    rw [hsk, sc_maskFill q m hi (by rw [hlen]; exact hi), if_neg hno, if_pos hall] at this
    simp [Action.olt] at this
  rw [if_pos hal] at hsk
  refine ⟨hk, hal, fun j hj hjm => ?_, fun j hj hjm => ?_⟩
  · have := h.is_max j
    rw [hsk, sc_maskFill q m hj (by rw [hlen]; exact hj), if_pos hjm] at this
    simpa [Action.olt, not_lt] using this
  · have := h.is_first j hj
    have hj' : j < q.length := Nat.lt_trans hj hk
    rw [hsk, sc_maskFill q m hj' (by rw [hlen]; exact hj'), if_pos hjm] at this
    simpa [Action.olt] using this

/-! ### specifications the generated definitions are compared with, where `Model/Bandit.lean` has none -/

/-- number of trainable scalars of a layer -/
def layerNumel (ps : List LayerParam) : Nat := ((ps.filter (·.requires_grad)).map (·.numel)).sum

/-- per arm, the 1-vector holding `gᵀ S g` -/
def bonusRows (S : Mat) (feat : Mat) : Mat := feat.map (fun r => [bonus S r])

/-- NeuralUCB: `mu + gamma * sqrt(q)`, entry-wise -/
def ucbScores (sqrt : Rat → Rat) (γ : Rat) (mu q : Mat) : Mat :=
  List.zipWith (List.zipWith (fun m b => m + γ * sqrt b)) mu q

/-- NeuralTS: a sample with mean `mu` and standard deviation `gamma * sqrt(q)`, entry-wise -/
def tsScores (normal : Mat → Mat → Mat) (sqrt : Rat → Rat) (γ : Rat) (mu q : Mat) : Mat :=
  normal mu (q.map (·.map (fun b => γ * sqrt b)))

/-! ### UCB: the generated definitions of `NeuralUCB` -/

/-- `self.numel = sum(w.numel() for w in self.exp_layer.parameters() if w.requires_grad)` -/
theorem gen_ucb_numel0_eq (ps : List LayerParam) : UCB.numel0 ps = layerNumel ps := rfl

/-- `torch.eye(self.numel).to(self.device) / self.lamb` is the `paper` initialisation `I / lamb` -/
theorem gen_ucb_sigma0_eq (lamb : Rat) (n : Nat) : UCB.sigma0 lamb n = sigma0 .paper lamb n := by
  simp only [UCB.sigma0, emap2, emap1, eye, sigma0, scaledIdentity, List.map_map, Function.comp_def]
  congr 1; funext i; congr 1; funext j
  split <;> simp

/-- `init_params` leaves the sizes and the matrix of the model's `Agent.initParams` -/
theorem gen_ucb_init_eq (lamb : Rat) (ps : List LayerParam) (a : Agent) (hs : a.sem = .paper) (hl : a.lamb = lamb) :
    UCB.init lamb ps = ((a.setArch (layerNumel ps)).initParams.numel, (a.setArch (layerNumel ps)).initParams.sigmaInv) := by
  simp only [UCB.init, gen_ucb_numel0_eq, gen_ucb_sigma0_eq, Agent.setArch, Agent.initParams, hs, hl]

/-- the argument of `torch.sqrt`: per arm `[gᵀ S g]` -/
theorem gen_ucb_sqrt_arg_eq {n : Nat} {S : Mat} (feat : Mat) (hS : S.length = n) :
    UCB.sqrt_arg n S feat = bonusRows S feat := by
  subst hS
  simp only [UCB.sqrt_arg, sel3, bmm, bmmR, insDim1, insDim2, List.map_map, Function.comp_def,
    List.zipWith_map_left, List.zipWith_map_right, List.zipWith_self, mm_row, vecMat_one_unsq1, rowOf, bonusRows, bonus,
    List.getD_cons_zero]

/-- `self.actor(obs) + self.gamma * torch.sqrt(·)` -/
theorem gen_ucb_scores_eq (sqrt : Rat → Rat) (γ : Rat) (mu q : Mat) : UCB.scores sqrt γ mu q = ucbScores sqrt γ mu q := by
  simp only [UCB.scores, ew2, ew1, emap2, emap1, ucbScores, List.map_map, Function.comp_def, List.zipWith_map_right,
    List.zipWith_map_left] <;> first      -- the alternatives absorb commuted operands of `+` and `*`
  | rfl
  | (congr 1; funext a b; congr 1; funext x y; ring1)
  | (rw [List.zipWith_comm]; congr 1; funext a b; rw [List.zipWith_comm]; congr 1; funext x y; ring1)

/-- the masked / unmasked `np.argmax` -/
theorem gen_ucb_arm_eq (mask : Option (List Rat)) (sc : Mat) : UCB.arm mask sc = pickArm sc.flatten mask := by
  cases mask with
  | none => simp only [UCB.arm, flat2, gen_npArgmax_eq, pickArm, Action.plainPick]
  | some m => simp only [UCB.arm, flat2, gen_npArgmax_eq, gen_maArray_eq, pickArm, Action.maPick]

/-- the Sherman–Morrison statement of `get_action` is `smUpdate` on the chosen feature row, under the shape
    invariant: `sigma_inv` has `numel` rows and the chosen row `numel` entries -/
theorem gen_ucb_update_eq {n : Nat} {S : Mat} (feat : Mat) (a : Nat) (hS : S.length = n)
    (hv : (feat.getD a []).length = n) : UCB.update n S feat a = smUpdate S (feat.getD a []) := by
  subst hS
  simp only [UCB.update, rowOf, tr_one_unsq1, mm_one_unsq1, mm_col_row _ hv, mm_row, mm_col_vecMat, vecMat_one_unsq1,
    emap2_single, e00_single, ew2_emap2]
  first
  | rfl
  | (rw [← matMul_outer]; rfl)      -- numerator associated as `(S v) (vᵀ S)`

/-- the whole method: (the arm it returns, `sigma_inv` afterwards) -/
theorem gen_ucb_act_eq (sqrt : Rat → Rat) (γ : Rat) {n : Nat} {S : Mat} (mu feat : Mat)
    (mask : Option (List Rat)) (hS : S.length = n) (hrows : ∀ a, (feat.getD a []).length = n) :
    UCB.act sqrt γ n S mu feat mask =
      (let a := pickArm (ucbScores sqrt γ mu (bonusRows S feat)).flatten mask
       (a, smUpdate S (feat.getD a []))) := by
  simp only [UCB.act, gen_ucb_sqrt_arg_eq feat hS, gen_ucb_scores_eq, gen_ucb_arm_eq, gen_ucb_update_eq feat _ hS (hrows _)]

/-! ### TS: the generated definitions of `NeuralTS` -/

/-- `self.numel = sum(w.numel() for w in self.exp_layer.parameters() if w.requires_grad)` -/
theorem gen_ts_numel0_eq (ps : List LayerParam) : TS.numel0 ps = layerNumel ps := rfl

/-- `torch.eye(self.numel).to(self.device) / self.lamb` is the `paper` initialisation `I / lamb` -/
theorem gen_ts_sigma0_eq (lamb : Rat) (n : Nat) : TS.sigma0 lamb n = sigma0 .paper lamb n := by
  simp only [TS.sigma0, emap2, emap1, eye, sigma0, scaledIdentity, List.map_map, Function.comp_def]
  congr 1; funext i; congr 1; funext j
  split <;> simp

/-- `init_params` leaves the sizes and the matrix of the model's `Agent.initParams` -/
theorem gen_ts_init_eq (lamb : Rat) (ps : List LayerParam) (a : Agent) (hs : a.sem = .paper) (hl : a.lamb = lamb) :
    TS.init lamb ps = ((a.setArch (layerNumel ps)).initParams.numel, (a.setArch (layerNumel ps)).initParams.sigmaInv) := by
  simp only [TS.init, gen_ts_numel0_eq, gen_ts_sigma0_eq, Agent.setArch, Agent.initParams, hs, hl]

/-- the argument of `torch.sqrt`: per arm `[gᵀ S g]` -/
theorem gen_ts_sqrt_arg_eq {n : Nat} {S : Mat} (feat : Mat) (hS : S.length = n) :
    TS.sqrt_arg n S feat = bonusRows S feat := by
  subst hS
  simp only [TS.sqrt_arg, sel3, bmm, bmmR, insDim1, insDim2, List.map_map, Function.comp_def,
    List.zipWith_map_left, List.zipWith_map_right, List.zipWith_self, mm_row, vecMat_one_unsq1, rowOf, bonusRows, bonus,
    List.getD_cons_zero]

/-- `torch.normal(mean=self.actor(obs), std=self.gamma * torch.sqrt(·))` -/
theorem gen_ts_scores_eq (normal : Mat → Mat → Mat) (sqrt : Rat → Rat) (γ : Rat) (mu q : Mat) :
    TS.scores normal sqrt γ mu q = tsScores normal sqrt γ mu q := by
  simp only [TS.scores, emap2, emap1, tsScores, List.map_map, Function.comp_def] <;> first
  | rfl
  | (congr 2; funext r; congr 1; funext b; ring1)

/-- the masked / unmasked `np.argmax` -/
theorem gen_ts_arm_eq (mask : Option (List Rat)) (sc : Mat) : TS.arm mask sc = pickArm sc.flatten mask := by
  cases mask with
  | none => simp only [TS.arm, flat2, gen_npArgmax_eq, pickArm, Action.plainPick]
  | some m => simp only [TS.arm, flat2, gen_npArgmax_eq, gen_maArray_eq, pickArm, Action.maPick]

/-- the Sherman–Morrison statement of `get_action` is `smUpdate` on the chosen feature row, under the shape
    invariant: `sigma_inv` has `numel` rows and the chosen row `numel` entries -/
theorem gen_ts_update_eq {n : Nat} {S : Mat} (feat : Mat) (a : Nat) (hS : S.length = n)
    (hv : (feat.getD a []).length = n) : TS.update n S feat a = smUpdate S (feat.getD a []) := by
  subst hS
  simp only [TS.update, rowOf, tr_one_unsq1, mm_one_unsq1, mm_col_row _ hv, mm_row, mm_col_vecMat, vecMat_one_unsq1,
    emap2_single, e00_single, ew2_emap2]
  first
  | rfl
  | (rw [← matMul_outer]; rfl)      -- numerator associated as `(S v) (vᵀ S)`

/-- the whole method: (the arm it returns, `sigma_inv` afterwards) -/
theorem gen_ts_act_eq (normal : Mat → Mat → Mat) (sqrt : Rat → Rat) (γ : Rat) {n : Nat} {S : Mat} (mu feat : Mat)
    (mask : Option (List Rat)) (hS : S.length = n) (hrows : ∀ a, (feat.getD a []).length = n) :
    TS.act normal sqrt γ n S mu feat mask =
      (let a := pickArm (tsScores normal sqrt γ mu (bonusRows S feat)).flatten mask
       (a, smUpdate S (feat.getD a []))) := by
  simp only [TS.act, gen_ts_sqrt_arg_eq feat hS, gen_ts_scores_eq, gen_ts_arm_eq, gen_ts_update_eq feat _ hS (hrows _)]

/-! ### histories: folding the generated update is running the model -/

theorem smUpdate_length (S : Mat) (v : Vec) : (smUpdate S v).length = S.length := by
  simp [smUpdate, matZip, smNumer, matMul, outer, matVec]

/-- the model agent after a run of accepted decisions: sizes, reading of `lamb` and `lamb` stay, the history
    grows by the features, the matrix is the fold of `smUpdate` -/
theorem run_updates (vs : List Vec) : ∀ (a : Agent), a.numel = a.outNumel → (∀ v ∈ vs, v.length = a.numel) →
    (a.run (vs.map Op.update)).numel = a.numel ∧ (a.run (vs.map Op.update)).sem = a.sem ∧
    (a.run (vs.map Op.update)).lamb = a.lamb ∧ (a.run (vs.map Op.update)).lamb0 = a.lamb0 ∧
    (a.run (vs.map Op.update)).hist = a.hist ++ vs ∧
    (a.run (vs.map Op.update)).sigmaInv = vs.foldl smUpdate a.sigmaInv := by
  induction vs with
  | nil => intro a _ _; simp [Agent.run]
  | cons v rest ih =>
    intro a hn hv
    have hacc : a.accepts v = true := by
      simp only [Agent.accepts, Bool.and_eq_true, decide_eq_true_eq]
      exact ⟨by rw [hv v (by simp), hn], hn.symm⟩
    have hstep : a.update v = { a with sigmaInv := smUpdate a.sigmaInv v, hist := a.hist ++ [v] } := by
      simp [Agent.update, hacc]
    have := ih (a.update v) (by rw [hstep]; exact hn) (by
      intro w hw; rw [hstep]; exact hv w (by simp [hw]))
    simp only [List.map_cons, Agent.run, List.foldl_cons, Agent.step] at this ⊢
    rw [hstep] at this ⊢
    simpa [List.append_assoc] using this

/-- `init`, then one `update` per decision `(feature matrix, chosen arm)` -/
def genRun (upd : Nat → Mat → Mat → Nat → Mat) (init : Nat × Mat) (hist : List (Mat × Nat)) : Mat :=
  hist.foldl (fun S d => upd init.1 S d.1 d.2) init.2

/-- the feature rows a history chose, oldest first -/
def chosen (hist : List (Mat × Nat)) : List Vec := hist.map (fun d => d.1.getD d.2 [])

theorem foldl_update_eq (upd : Nat → Mat → Mat → Nat → Mat) (n : Nat)
    (hupd : ∀ (S feat : Mat) (a : Nat), S.length = n → (feat.getD a []).length = n → upd n S feat a = smUpdate S (feat.getD a []))
    (hist : List (Mat × Nat)) : ∀ (S : Mat), S.length = n → (∀ d ∈ hist, (d.1.getD d.2 []).length = n) →
    hist.foldl (fun S d => upd n S d.1 d.2) S = (chosen hist).foldl smUpdate S := by
  induction hist with
  | nil => intro S _ _; rfl
  | cons d rest ih =>
    intro S hS h
    simp only [List.foldl_cons, chosen, List.map_cons]
    rw [hupd S d.1 d.2 hS (h d (by simp))]
    exact ih _ (by rw [smUpdate_length, hS]) (fun e he => h e (by simp [he]))

/-- the history of `get_action` calls: inputs `(actor_out, feat, action_mask)` per call; result: the feature
    rows of the arms the code itself picked, and the final matrix -/
def actRun (act : Mat → Mat → Mat → Option (List Rat) → Nat × Mat) :
    Mat → List (Mat × Mat × Option (List Rat)) → List Vec × Mat
  | S, [] => ([], S)
  | S, (mu, feat, mask) :: rest =>
    let r := act S mu feat mask
    let out := actRun act r.2 rest
    (feat.getD r.1 [] :: out.1, out.2)

theorem actRun_eq (act : Mat → Mat → Mat → Option (List Rat) → Nat × Mat) (n : Nat)
    (hact : ∀ (S mu feat : Mat) (mask : Option (List Rat)), S.length = n →
      (feat.getD (act S mu feat mask).1 []).length = n →
      (act S mu feat mask).2 = smUpdate S (feat.getD (act S mu feat mask).1 []))
    (inputs : List (Mat × Mat × Option (List Rat))) : ∀ (S : Mat), S.length = n →
    (∀ v ∈ (actRun act S inputs).1, v.length = n) →
    (actRun act S inputs).2 = (actRun act S inputs).1.foldl smUpdate S := by
  induction inputs with
  | nil => intro S _ _; rfl
  | cons d rest ih =>
    obtain ⟨mu, feat, mask⟩ := d
    intro S hS h
    simp only [actRun, List.foldl_cons] at h ⊢
    have h0 := h _ List.mem_cons_self
    rw [← hact S mu feat mask hS h0]
    exact ih _ (by rw [hact S mu feat mask hS h0, smUpdate_length, hS]) (fun v hv => h v (List.mem_cons_of_mem _ hv))

/-- the model agent whose matrix a fold of `smUpdate` from the repaired initialisation is -/
theorem foldl_smUpdate_model (lamb : Rat) (n : Nat) (vs : List Vec) (hv : ∀ v ∈ vs, v.length = n) :
    let a := (Agent.mk0 .paper lamb n).run (vs.map Op.update)
    vs.foldl smUpdate (sigma0 .paper lamb n) = a.sigmaInv ∧ a.numel = n ∧
      a.gram = gram (scaledIdentity n lamb) vs := by
  have := run_updates vs (Agent.mk0 .paper lamb n) rfl hv
  obtain ⟨h1, h2, _, h3, h4, h5⟩ := this
  refine ⟨h5.symm, h1, ?_⟩
  simp only [Agent.gram, h1, h2, h3, h4]
  rfl

/-! ### the invariants are satisfiable; the generated definitions compute -/

example : UCB.init 2 [⟨2, true⟩, ⟨5, false⟩] = (2, [[1/2, 0], [0, 1/2]]) := by decide +kernel
example : ([[1/2, 0], [0, 1/2]] : Mat).length = 2 ∧ (([[0, 0], [1, 1/2]] : Mat).getD 1 []).length = 2 := by decide
example : UCB.update 2 [[1/2, 0], [0, 1/2]] [[0, 0], [1, 1/2]] 1 = [[9/26, -1/13], [-1/13, 6/13]] := by decide +kernel
example : TS.update 2 [[9/26, -1/13], [-1/13, 6/13]] [[0, 3], [7, 7]] 0 = [[45/134, -1/67], [-1/67, 6/67]] := by
  decide +kernel
example : UCB.sqrt_arg 2 [[1/2, 0], [0, 1/2]] [[0, 0], [1, 1/2], [0, 3]] = [[0], [5/8], [9/2]] := by decide +kernel
/-- with `sqrt := id`, γ = 1: arm 2 has the highest score; under the mask `[1, 1, 0]` arm 1 is taken -/
example : UCB.act id 1 2 [[1/2, 0], [0, 1/2]] [[1], [0], [0]] [[0, 0], [1, 1/2], [0, 3]] none
    = (2, [[1/2, 0], [0, 1/11]]) := by decide +kernel
example : (UCB.act id 1 2 [[1/2, 0], [0, 1/2]] [[1], [0], [0]] [[0, 0], [1, 1/2], [0, 3]] (some [1, 1, 0])).1 = 0 := by
  decide +kernel
example : (UCB.act id 1 2 [[1/2, 0], [0, 1/2]] [[1/2], [0], [0]] [[0, 0], [1, 1/2], [0, 3]] (some [1, 1, 0])).1 = 1 := by
  decide +kernel

end Bandit
