import Mathlib.LinearAlgebra.Matrix.NonsingularInverse
import Mathlib.Tactic.Ring
import Mathlib.Tactic.Linarith
import Mathlib.Tactic.FieldSimp

/-!
  Proofs/BanditMatrix.lean — the algebra of C19 on `Matrix (Fin n) (Fin n) ℚ`:
  Sherman–Morrison, symmetry and positive definiteness of the inverse, the step invariant.
  Everything is elementary (no spectral theory): positive definiteness is the explicit
  statement `Aᵀ = A ∧ ∀ x ≠ 0, 0 < xᵀ A x`.
-/
open Matrix

namespace BanditM
variable {n : Nat}

/-- Sherman–Morrison step on matrices, associated as the code does. -/
def smM (B : Matrix (Fin n) (Fin n) ℚ) (v : Fin n → ℚ) : Matrix (Fin n) (Fin n) ℚ :=
  B - (1 + v ᵥ* B ⬝ᵥ v)⁻¹ • (vecMulVec (B *ᵥ v) v * B)

theorem smM_eq (B : Matrix (Fin n) (Fin n) ℚ) (v : Fin n → ℚ) :
    smM B v = B - (1 + v ᵥ* B ⬝ᵥ v)⁻¹ • vecMulVec (B *ᵥ v) (v ᵥ* B) := by
  rw [smM, vecMulVec_mul]

theorem sm_right (A B : Matrix (Fin n) (Fin n) ℚ) (v : Fin n → ℚ) (hAB : A * B = 1)
    (hd : 1 + v ᵥ* B ⬝ᵥ v ≠ 0) : (A + vecMulVec v v) * smM B v = 1 := by
  rw [smM_eq]
  have h1 : A * vecMulVec (B *ᵥ v) (v ᵥ* B) = vecMulVec v (v ᵥ* B) := by
    rw [mul_vecMulVec, mulVec_mulVec, hAB, one_mulVec]
  have h2 : vecMulVec v v * vecMulVec (B *ᵥ v) (v ᵥ* B)
      = vecMulVec v ((v ᵥ* B ⬝ᵥ v) • (v ᵥ* B)) := by
    rw [vecMulVec_mul_vecMulVec, dotProduct_mulVec]
  have h3 : vecMulVec v v * B = vecMulVec v (v ᵥ* B) := vecMulVec_mul _ _ _
  rw [Matrix.mul_sub, Matrix.add_mul, Matrix.mul_smul, Matrix.add_mul, h1, h2, h3, hAB]
  generalize v ᵥ* B ⬝ᵥ v = s at hd ⊢
  generalize v ᵥ* B = w
  ext i j
  simp only [Matrix.add_apply, Matrix.sub_apply, Matrix.smul_apply, vecMulVec_apply, Pi.smul_apply,
    smul_eq_mul]
  field_simp
  ring

theorem sm_left (A B : Matrix (Fin n) (Fin n) ℚ) (v : Fin n → ℚ) (hAB : A * B = 1)
    (hd : 1 + v ᵥ* B ⬝ᵥ v ≠ 0) : smM B v * (A + vecMulVec v v) = 1 :=
  mul_eq_one_comm.mp (sm_right A B v hAB hd)

/-- symmetric positive definite, spelled out -/
def PosDefQ (A : Matrix (Fin n) (Fin n) ℚ) : Prop :=
  Aᵀ = A ∧ ∀ x : Fin n → ℚ, x ≠ 0 → 0 < x ⬝ᵥ A *ᵥ x

theorem PosDefQ.nonneg {A : Matrix (Fin n) (Fin n) ℚ} (h : PosDefQ A) (x : Fin n → ℚ) :
    0 ≤ x ⬝ᵥ A *ᵥ x := by
  by_cases hx : x = 0
  · subst hx; simp
  · exact le_of_lt (h.2 x hx)

theorem quad_outer (v x : Fin n → ℚ) : x ⬝ᵥ vecMulVec v v *ᵥ x = (x ⬝ᵥ v) * (x ⬝ᵥ v) := by
  have h : vecMulVec v v *ᵥ x = (v ⬝ᵥ x) • v := by
    ext i
    simp only [mulVec, vecMulVec_apply, dotProduct, Pi.smul_apply, smul_eq_mul,
      Finset.sum_mul]
    exact Finset.sum_congr rfl (fun j _ => by ring)
  rw [h, dotProduct_smul, smul_eq_mul, dotProduct_comm v x]

theorem PosDefQ.add_outer {A : Matrix (Fin n) (Fin n) ℚ} (h : PosDefQ A) (v : Fin n → ℚ) :
    PosDefQ (A + vecMulVec v v) := by
  refine ⟨?_, fun x hx => ?_⟩
  · rw [transpose_add, h.1, transpose_vecMulVec]
  · rw [add_mulVec, dotProduct_add, quad_outer]
    have := h.2 x hx
    have := mul_self_nonneg (x ⬝ᵥ v)
    linarith

/-- the inverse of a symmetric matrix is symmetric -/
theorem symm_of_inverse {A B : Matrix (Fin n) (Fin n) ℚ} (hA : Aᵀ = A) (hAB : A * B = 1) :
    Bᵀ = B := by
  have h1 : Bᵀ * A = 1 := by
    have := congrArg transpose hAB
    rwa [transpose_mul, hA, transpose_one] at this
  calc Bᵀ = Bᵀ * (A * B) := by rw [hAB, Matrix.mul_one]
    _ = (Bᵀ * A) * B := by rw [Matrix.mul_assoc]
    _ = B := by rw [h1, Matrix.one_mul]

/-- the inverse of a symmetric positive definite matrix is symmetric positive definite -/
theorem PosDefQ.inverse {A B : Matrix (Fin n) (Fin n) ℚ} (h : PosDefQ A) (hAB : A * B = 1) :
    PosDefQ B := by
  refine ⟨symm_of_inverse h.1 hAB, fun x hx => ?_⟩
  have hxy : A *ᵥ (B *ᵥ x) = x := by rw [mulVec_mulVec, hAB, one_mulVec]
  have hy : B *ᵥ x ≠ 0 := by
    intro h0; rw [h0, mulVec_zero] at hxy; exact hx hxy.symm
  have := h.2 (B *ᵥ x) hy
  rw [hxy, dotProduct_comm] at this
  exact this

/-- the invariant carried along a history: `Z` is symmetric positive definite and `B` is its inverse -/
def IsInvPD (Z B : Matrix (Fin n) (Fin n) ℚ) : Prop := Z * B = 1 ∧ PosDefQ Z

theorem IsInvPD.posDef {Z B : Matrix (Fin n) (Fin n) ℚ} (h : IsInvPD Z B) : PosDefQ B :=
  h.2.inverse h.1

theorem IsInvPD.left {Z B : Matrix (Fin n) (Fin n) ℚ} (h : IsInvPD Z B) : B * Z = 1 :=
  mul_eq_one_comm.mp h.1

theorem IsInvPD.eq_inv {Z B : Matrix (Fin n) (Fin n) ℚ} (h : IsInvPD Z B) : B = Z⁻¹ :=
  (inv_eq_right_inv h.1).symm

theorem IsInvPD.denom_pos {Z B : Matrix (Fin n) (Fin n) ℚ} (h : IsInvPD Z B) (v : Fin n → ℚ) :
    0 < 1 + v ᵥ* B ⬝ᵥ v := by
  have := h.posDef.nonneg v
  rw [dotProduct_mulVec] at this
  linarith

theorem IsInvPD.step {Z B : Matrix (Fin n) (Fin n) ℚ} (h : IsInvPD Z B) (v : Fin n → ℚ) :
    IsInvPD (Z + vecMulVec v v) (smM B v) :=
  ⟨sm_right Z B v h.1 (ne_of_gt (h.denom_pos v)), h.2.add_outer v⟩

theorem isInvPD_scalar (c : ℚ) (hc : 0 < c) :
    IsInvPD (c • (1 : Matrix (Fin n) (Fin n) ℚ)) (c⁻¹ • (1 : Matrix (Fin n) (Fin n) ℚ)) := by
  refine ⟨?_, ?_, fun x hx => ?_⟩
  · rw [Matrix.smul_mul, Matrix.mul_smul, Matrix.one_mul, smul_smul, mul_inv_cancel₀ (ne_of_gt hc),
      one_smul]
  · rw [transpose_smul, transpose_one]
  · rw [smul_mulVec, one_mulVec, dotProduct_smul, smul_eq_mul]
    obtain ⟨i, hi⟩ : ∃ i, x i ≠ 0 := Function.ne_iff.mp hx
    have hpos : 0 < x ⬝ᵥ x := by
      unfold dotProduct
      have hnn : ∀ j ∈ Finset.univ, 0 ≤ x j * x j := fun j _ => mul_self_nonneg (x j)
      have hi' : 0 < x i * x i := mul_self_pos.mpr hi
      exact lt_of_lt_of_le hi' (Finset.single_le_sum hnn (Finset.mem_univ i))
    positivity

end BanditM
