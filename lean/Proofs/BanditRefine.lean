import Model.Bandit
import Proofs.BanditMatrix

/-!
  Proofs/BanditRefine.lean — refinement from the executable list matrices of `Model/Bandit.lean`
  to `Matrix (Fin n) (Fin n) ℚ`: under `WellShaped n`, `toMatrix` commutes with every building
  block of the model and with the Sherman–Morrison step itself.
-/

open Matrix

namespace Bandit

def toVec (n : Nat) (v : Vec) : Fin n → ℚ := fun i => v.getD i 0
def toMatrix (n : Nat) (M : Mat) : Matrix (Fin n) (Fin n) ℚ := fun i j => M.get i j

theorem dot_nil_left (b : Vec) : dot [] b = 0 := by simp [dot]

theorem dot_cons (x y : Rat) (a b : Vec) : dot (x :: a) (y :: b) = x * y + dot a b := by
  simp [dot]

theorem dot_eq (n : Nat) : ∀ (a b : Vec), a.length = n → b.length = n →
    dot a b = ∑ i : Fin n, a.getD i 0 * b.getD i 0 := by
  induction n with
  | zero =>
    intro a b ha _
    have : a = [] := List.eq_nil_of_length_eq_zero ha
    subst this; simp [dot]
  | succ n ih =>
    intro a b ha hb
    match a, b, ha, hb with
    | x :: a', y :: b', ha, hb =>
      rw [dot_cons, Fin.sum_univ_succ, ih a' b' (by simpa using ha) (by simpa using hb)]
      simp

theorem dot_eq_dotProduct {n : Nat} {a b : Vec} (ha : a.length = n) (hb : b.length = n) :
    dot a b = toVec n a ⬝ᵥ toVec n b := by
  rw [dot_eq n a b ha hb]; rfl

/-! ### indexing -/

theorem getD_map_zero {α} (f : α → Rat) (d : α) (hd : f d = 0) (l : List α) (i : Nat) :
    (l.map f).getD i 0 = f (l.getD i d) := by
  simp only [List.getD_eq_getElem?_getD, List.getElem?_map]
  cases l[i]? <;> simp [hd]

theorem row_length {n : Nat} {M : Mat} (h : WellShaped n M) {i : Nat} (hi : i < n) :
    (M.getD i []).length = n := by
  have hi' : i < M.length := by rw [h.1]; exact hi
  rw [List.getD_eq_getElem?_getD, List.getElem?_eq_getElem hi', Option.getD_some]
  exact h.2 _ (List.getElem_mem hi')

theorem col_length (M : Mat) (j : Nat) : (col M j).length = M.length := by simp [col]

theorem col_getD (M : Mat) (i j : Nat) : (col M j).getD i 0 = M.get i j := by
  unfold col Mat.get
  exact getD_map_zero (fun r => r.getD j 0) [] (by simp) M i

theorem matVec_length (M : Mat) (v : Vec) : (matVec M v).length = M.length := by simp [matVec]

theorem matVec_getD (M : Mat) (v : Vec) (i : Nat) : (matVec M v).getD i 0 = dot (M.getD i []) v := by
  unfold matVec
  exact getD_map_zero (fun r => dot r v) [] (dot_nil_left v) M i

theorem vecMat_length (n : Nat) (v : Vec) (M : Mat) : (vecMat n v M).length = n := by simp [vecMat]

theorem vecMat_getD (n : Nat) (v : Vec) (M : Mat) {j : Nat} (hj : j < n) :
    (vecMat n v M).getD j 0 = dot v (col M j) := by
  simp [vecMat, List.getD_eq_getElem?_getD, List.getElem?_map, List.getElem?_range hj]

/-! ### refinement of the building blocks -/

theorem toVec_matVec {n : Nat} {M : Mat} {v : Vec} (hM : WellShaped n M) (hv : v.length = n) :
    toVec n (matVec M v) = toMatrix n M *ᵥ toVec n v := by
  funext i
  simp only [toVec, matVec_getD]
  rw [dot_eq_dotProduct (row_length hM i.isLt) hv]
  rfl

theorem toVec_vecMat {n : Nat} {M : Mat} {v : Vec} (hM : WellShaped n M) (hv : v.length = n) :
    toVec n (vecMat n v M) = toVec n v ᵥ* toMatrix n M := by
  funext j
  simp only [toVec, vecMat_getD n v M j.isLt]
  rw [dot_eq_dotProduct hv (by rw [col_length, hM.1])]
  simp only [dotProduct, vecMul, toVec, col_getD, toMatrix]

theorem outer_wellShaped {n : Nat} {a b : Vec} (ha : a.length = n) (hb : b.length = n) :
    WellShaped n (outer a b) := by
  refine ⟨by simp [outer, ha], ?_⟩
  intro r hr
  simp only [outer, List.mem_map] at hr
  obtain ⟨x, _, rfl⟩ := hr
  simp [hb]

theorem toMatrix_outer {n : Nat} {a : Vec} (b : Vec) (ha : a.length = n) :
    toMatrix n (outer a b) = vecMulVec (toVec n a) (toVec n b) := by
  funext i j
  simp only [toMatrix, Mat.get, outer, vecMulVec_apply, toVec]
  rw [show ((a.map fun x => b.map fun y => x * y).getD i []) = b.map (fun y => a.getD i 0 * y) from by
    have hi : (i : Nat) < a.length := by rw [ha]; exact i.isLt
    simp [List.getD_eq_getElem?_getD, List.getElem?_map, List.getElem?_eq_getElem hi]]
  exact getD_map_zero (fun y => a.getD i 0 * y) 0 (by simp) b j

theorem matMul_wellShaped {n : Nat} {A : Mat} (B : Mat) (hA : A.length = n) :
    WellShaped n (matMul n A B) := by
  refine ⟨by simp [matMul, hA], ?_⟩
  intro r hr
  simp only [matMul, List.mem_map] at hr
  obtain ⟨x, _, rfl⟩ := hr
  exact vecMat_length _ _ _

theorem toMatrix_matMul {n : Nat} {A B : Mat} (hA : WellShaped n A) (hB : WellShaped n B) :
    toMatrix n (matMul n A B) = toMatrix n A * toMatrix n B := by
  funext i j
  simp only [toMatrix, Mat.get, matMul, Matrix.mul_apply]
  rw [show ((A.map fun r => vecMat n r B).getD i []) = vecMat n (A.getD i []) B from by
    have hi : (i : Nat) < A.length := by rw [hA.1]; exact i.isLt
    simp [List.getD_eq_getElem?_getD, List.getElem?_map, List.getElem?_eq_getElem hi]]
  rw [vecMat_getD n _ B j.isLt, dot_eq n _ _ (row_length hA i.isLt) (by rw [col_length, hB.1])]
  simp only [col_getD, Mat.get]

theorem matZip_wellShaped {n : Nat} (f : Rat → Rat → Rat) {A B : Mat} (hA : WellShaped n A)
    (hB : WellShaped n B) : WellShaped n (matZip f A B) := by
  refine ⟨by simp [matZip, hA.1, hB.1], ?_⟩
  intro r hr
  obtain ⟨i, hi, rfl⟩ := List.getElem_of_mem hr
  simp only [matZip, List.length_zipWith] at hi
  simp only [matZip, List.getElem_zipWith, List.length_zipWith]
  rw [hA.2 _ (List.getElem_mem _), hB.2 _ (List.getElem_mem _)]
  exact Nat.min_self n

theorem toMatrix_matZip {n : Nat} (f : Rat → Rat → Rat) {A B : Mat} (hA : WellShaped n A)
    (hB : WellShaped n B) (i j : Fin n) :
    toMatrix n (matZip f A B) i j = f (toMatrix n A i j) (toMatrix n B i j) := by
  have hiA : (i : Nat) < A.length := by rw [hA.1]; exact i.isLt
  have hiB : (i : Nat) < B.length := by rw [hB.1]; exact i.isLt
  have hjA : (j : Nat) < A[(i : Nat)].length := by rw [hA.2 _ (List.getElem_mem _)]; exact j.isLt
  have hjB : (j : Nat) < B[(i : Nat)].length := by rw [hB.2 _ (List.getElem_mem _)]; exact j.isLt
  simp [toMatrix, Mat.get, matZip, List.getD_eq_getElem?_getD, List.getElem?_zipWith,
    List.getElem?_eq_getElem hiA, List.getElem?_eq_getElem hiB, List.getElem?_eq_getElem hjA,
    List.getElem?_eq_getElem hjB]

theorem scaledIdentity_wellShaped (n : Nat) (c : Rat) : WellShaped n (scaledIdentity n c) := by
  refine ⟨by simp [scaledIdentity], ?_⟩
  intro r hr
  simp only [scaledIdentity, List.mem_map] at hr
  obtain ⟨x, _, rfl⟩ := hr
  simp

theorem toMatrix_scaledIdentity (n : Nat) (c : Rat) :
    toMatrix n (scaledIdentity n c) = c • (1 : Matrix (Fin n) (Fin n) ℚ) := by
  funext i j
  simp only [toMatrix, Mat.get, scaledIdentity, Matrix.smul_apply, Matrix.one_apply, smul_eq_mul]
  simp [List.getD_eq_getElem?_getD, Fin.ext_iff]

theorem toMatrix_identity (n : Nat) : toMatrix n (identity n) = 1 := by
  rw [identity, toMatrix_scaledIdentity, one_smul]

/-! ### the update itself -/

theorem bonus_eq {n : Nat} {S : Mat} {g : Vec} (hS : WellShaped n S) (hg : g.length = n) :
    bonus S g = toVec n g ᵥ* toMatrix n S ⬝ᵥ toVec n g := by
  unfold bonus
  rw [hS.1, dot_eq_dotProduct (vecMat_length n g S) hg, toVec_vecMat hS hg]

theorem smNumer_wellShaped {n : Nat} {S : Mat} (v : Vec) (hS : WellShaped n S) :
    WellShaped n (smNumer S v) := by
  unfold smNumer
  rw [hS.1]
  exact matMul_wellShaped S (by simp [outer, matVec, hS.1])

theorem toMatrix_smNumer {n : Nat} {S : Mat} {v : Vec} (hS : WellShaped n S) (hv : v.length = n) :
    toMatrix n (smNumer S v) = vecMulVec (toMatrix n S *ᵥ toVec n v) (toVec n v) * toMatrix n S := by
  unfold smNumer
  have hl : (matVec S v).length = n := by rw [matVec_length, hS.1]
  rw [hS.1, toMatrix_matMul (outer_wellShaped hl hv) hS, toMatrix_outer v hl, toVec_matVec hS hv]

theorem smUpdate_wellShaped {n : Nat} {S : Mat} (v : Vec) (hS : WellShaped n S) :
    WellShaped n (smUpdate S v) :=
  matZip_wellShaped _ hS (smNumer_wellShaped v hS)

/-- the executable update refines the matrix-level Sherman–Morrison step -/
theorem toMatrix_smUpdate {n : Nat} {S : Mat} {v : Vec} (hS : WellShaped n S) (hv : v.length = n) :
    toMatrix n (smUpdate S v) = BanditM.smM (toMatrix n S) (toVec n v) := by
  funext i j
  unfold smUpdate
  rw [toMatrix_matZip _ hS (smNumer_wellShaped v hS), toMatrix_smNumer hS hv]
  simp only [smDenom, bonus_eq hS hv, BanditM.smM, Matrix.sub_apply, Matrix.smul_apply, smul_eq_mul]
  rw [div_eq_inv_mul]

theorem addOuter_wellShaped {n : Nat} {A : Mat} {v : Vec} (hA : WellShaped n A) (hv : v.length = n) :
    WellShaped n (addOuter A v) :=
  matZip_wellShaped _ hA (outer_wellShaped hv hv)

theorem toMatrix_addOuter {n : Nat} {A : Mat} {v : Vec} (hA : WellShaped n A) (hv : v.length = n) :
    toMatrix n (addOuter A v) = toMatrix n A + vecMulVec (toVec n v) (toVec n v) := by
  funext i j
  unfold addOuter
  rw [toMatrix_matZip _ hA (outer_wellShaped hv hv), toMatrix_outer v hv]
  rfl

/-- well-shaped list matrices are determined by their `toMatrix` image -/
theorem toMatrix_injective {n : Nat} {A B : Mat} (hA : WellShaped n A) (hB : WellShaped n B)
    (h : toMatrix n A = toMatrix n B) : A = B := by
  apply List.ext_getElem (by rw [hA.1, hB.1])
  intro i hiA hiB
  have hi : i < n := by rw [← hA.1]; exact hiA
  apply List.ext_getElem (by rw [hA.2 _ (List.getElem_mem _), hB.2 _ (List.getElem_mem _)])
  intro j hjA hjB
  have hj : j < n := by rw [← hA.2 _ (List.getElem_mem hiA)]; exact hjA
  have := congrFun (congrFun h ⟨i, hi⟩) ⟨j, hj⟩
  simpa [toMatrix, Mat.get, List.getD_eq_getElem?_getD, List.getElem?_eq_getElem hiA,
    List.getElem?_eq_getElem hiB, List.getElem?_eq_getElem hjA, List.getElem?_eq_getElem hjB] using this

end Bandit
