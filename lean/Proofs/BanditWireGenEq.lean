import Proofs.BanditAgent
import Gen.BanditWireGen
/-!
  Proofs/BanditWireGenEq.lean — the event lists generated from the source (Gen/BanditWireGen.lean) run to the ops of
  the hand-written wiring model (`Bandit.Wire`, Model/Bandit.lean).

  `Sem of an event` is fixed here (the assumed meaning of the Python statement kinds the translator keeps); the ORDER,
  the receivers, the written fields and their sources come from the generated text.  Every runner returns a flag
  `bad` that is raised by any event the semantics has no meaning for in that position (a tracked write in `learn`,
  a hook called on an unknown object, a guarded tracked statement, …): the equalities state `bad = false`.
-/
set_option linter.unusedSimpArgs false
set_option linter.unnecessarySeqFocus false
namespace Bandit
open BanditWireGen

inductive Cls where
  | ucb | ts
deriving Repr, DecidableEq

def Cls.ctor : Cls → List Ev | .ucb => UCB.ctor | .ts => TS.ctor
def Cls.initParams : Cls → List Ev | .ucb => UCB.initParams | .ts => TS.initParams
def Cls.getAction : Cls → List Ev | .ucb => UCB.getAction | .ts => TS.getAction
def Cls.learn : Cls → List Ev | .ucb => UCB.learn | .ts => TS.learn

abbrev WB := Wire × Bool

/-- one statement of `init_params` (receiver `self`) -/
def initEv (wb : WB) : Ev → WB
  | .write "self" "exp_layer" (.outputOf "self.actor") =>
      ({ wb.1 with exp := wb.1.layer, expN := wb.1.a.outNumel }, wb.2)
  | .write "self" "numel" (.countOf "self.exp_layer") =>
      ({ wb.1 with a := { wb.1.a with numel := wb.1.expN } }, wb.2)
  | .write "self" "sigma_inv" (.eyeOf "self.numel") =>
      ({ wb.1 with a := { wb.1.a with sigmaInv := sigma0 wb.1.a.sem wb.1.a.lamb wb.1.a.numel,
                                      lamb0 := wb.1.a.lamb, hist := [] } }, wb.2)
  | .write "self" "theta_0" _ => wb
  | _ => (wb.1, true)

def runInit (c : Cls) (wb : WB) : WB := c.initParams.foldl initEv wb

/-- `r.mutation_hook()`: the body of `EvolvableAlgorithm.mutation_hook` with `self := r` -/
def hookEv (c : Cls) (wb : WB) : Ev → WB
  | .runHooks "self" => if wb.1.hooked then runInit c wb else wb
  | _ => (wb.1, true)

def runHook (c : Cls) (wb : WB) : WB := Base.mutationHook.foldl (hookEv c) wb

/-- one statement of `__init__`: the actor the constructor builds is object `id` with `n` output parameters -/
def ctorEv (c : Cls) (id n : Nat) (wb : WB) : Ev → WB
  | .write "self" "actor" _ => (wb.1.setNet id n, wb.2)
  | .call "self" "init_params" => runInit c wb
  | .register h => ({ wb.1 with hooked := h == "init_params" }, wb.2)
  | _ => (wb.1, true)

/-- nothing bound, nothing allocated -/
def blank (sem : Sem) (lamb : Rat) (next : Nat) : Wire :=
  { a := { sem := sem, lamb := lamb, lamb0 := lamb, outNumel := 0, numel := 0, sigmaInv := [], hist := [] },
    layer := 0, exp := 0, expN := 0, hooked := false, next := next }

def runCtor (c : Cls) (sem : Sem) (lamb : Rat) (id n next : Nat) : WB :=
  c.ctor.foldl (ctorEv c id n) (blank sem lamb next, false)

/-- a call frame of `clone` / `load_checkpoint` / `load` / `Mutations.mutation` -/
structure Fr where
  cls     : Cls
  src     : Wire            -- the parent (`clone`) / the agent whose checkpoint is read
  tgt     : Wire            -- the object the function produces / works on
  srcName : String
  tgtName : String
  built   : Nat             -- identity / parameter count of the output layer of the network prepared in this call
  builtN  : Nat
  ctorId  : Nat             -- the same for the network a constructor call builds by itself
  ctorN   : Nat
  q       : Option Rat      -- new value if the mutated hyper-parameter is `lamb`
  skip    : Bool := false   -- the pending `continue` guard keeps references into the live networks
  bad     : Bool := false

def Fr.upd (f : Fr) (r : String) (g : WB → WB) : Fr :=
  if r = f.tgtName then let x := g (f.tgt, f.bad); { f with tgt := x.1, bad := x.2 }
  else if r = f.srcName then let x := g (f.src, f.bad); { f with src := x.1, bad := x.2 }
  else { f with bad := true }

/-- what a `setattr(r, name, …)` inside a loop over `iter` assigns -/
inductive Slot where
  | network | optimizer | attributes | hyper | unknown
deriving DecidableEq

def slotOf (name iter : String) : Slot :=
  if iter = "self.evolvable_attributes(networks_only=True).items()" ∨ iter = "network_names"
      ∨ iter = "loaded_modules.items()" ∨ name = "to_device_and_set_individual" ∨ name = "registry.policy"
      ∨ name = "network_group.eval" then .network
  else if iter = "self.registry.optimizers" ∨ iter = "optimizer_names" ∨ iter = "loaded_optimizers.items()" then .optimizer
  else if iter = "checkpoint.keys()" ∨ iter = "EvolvableAlgorithm.inspect_attributes(self).keys()" then .attributes
  else if name = "mutate_attr" ∧ iter = "" then .hyper
  else .unknown

/-- the plain attributes `copy_attributes` / the restore loop carry over (`exp_layer` is a module: kept by
    `copy_attributes` (callable), and by the restore loop iff the `is_network_submodule` guard precedes it) -/
def carry (dst src : Wire) (keepLive : Bool) : Wire :=
  { dst with a := { dst.a with lamb := src.a.lamb, lamb0 := src.a.lamb0, numel := src.a.numel,
                               sigmaInv := src.a.sigmaInv, hist := src.a.hist },
             exp := if keepLive then dst.exp else 0, expN := if keepLive then dst.expN else src.expN }

def frEv (f : Fr) : Ev → Fr
  | .construct x =>
      if x = f.tgtName then
        let r := runCtor f.cls f.src.a.sem f.src.a.lamb f.ctorId f.ctorN f.tgt.next
        { f with tgt := r.1, bad := f.bad || r.2 }
      else { f with bad := true }
  | .write r "registry" _ => f.upd r (fun wb => ({ wb.1 with hooked := f.src.hooked }, wb.2))
  | .write r "exp_layer" (.outputOf "eval_module") =>
      f.upd r (fun wb => ({ wb.1 with exp := f.built, expN := f.builtN }, wb.2))
  | .call r "mutation_hook" => f.upd r (runHook f.cls)
  | .copyAttrs s d =>
      if s = f.srcName ∧ d = f.tgtName then { f with tgt := { carry f.tgt f.src true with hooked := f.src.hooked } }
      else { f with bad := true }
  | .skipWhen t => if t = "is_network_submodule" then { f with skip := true } else f
  | .setattr r name iter =>
      match slotOf name iter with
      | .network => f.upd r (fun wb => (wb.1.setNet f.built f.builtN, wb.2))
      | .optimizer => f
      | .attributes => { f.upd r (fun wb => (carry wb.1 f.src f.skip, wb.2)) with skip := false }
      | .hyper => match f.q with
          | some q => f.upd r (fun wb => ({ wb.1 with a := wb.1.a.setLamb q }, wb.2))
          | none => f
      | .unknown => { f with bad := true }
  | .guarded (.setattr _ _ _) => f       -- shared networks / wrapper plumbing: absent for the bandits
  | _ => { f with bad := true }

def Kind.events : Kind → List Ev
  | .none => Mut.kindNone | .arch => Mut.kindArch | .param => Mut.kindParam | .act => Mut.kindAct
  | .rlhp => Mut.kindRlHp

def mutEv (k : Kind) (f : Fr) : Ev → Fr
  | .applyKind r => if r = f.tgtName then k.events.foldl frEv f else { f with bad := true }
  | e => frEv f e

/-! ### the ops, run from the generated lists -/

def genUpdate (c : Cls) (w : Wire) (g : Vec) : WB :=
  c.getAction.foldl (fun wb e => match e with
    | .write "self" "sigma_inv" .inplace => ({ wb.1 with a := wb.1.a.update g }, wb.2)
    | _ => (wb.1, true)) (w, false)

def genLearn (c : Cls) (w : Wire) : WB := c.learn.foldl (fun wb _ => (wb.1, true)) (w, false)

def finish (f : Fr) (next : Nat) : WB := ({ f.tgt with next := next + 2 }, f.bad)

def genMutate (c : Cls) (w : Wire) (k : Kind) (n' : Nat) (q : Option Rat) : WB :=
  finish (Mut.mutation.foldl (mutEv k)
    { cls := c, src := w, tgt := w, srcName := "", tgtName := "individual", built := w.next, builtN := n',
      ctorId := w.next + 1, ctorN := 0, q := q }) w.next

def cloneWith (evs : List Ev) (c : Cls) (w : Wire) (n0 : Nat) : WB :=
  finish (evs.foldl frEv
    { cls := c, src := w, tgt := blank w.a.sem w.a.lamb w.next, srcName := "self", tgtName := "clone", built := w.next,
      builtN := w.a.outNumel, ctorId := w.next + 1, ctorN := n0, q := none }) w.next

def genLoadCheckpoint (c : Cls) (target saved : Wire) : WB :=
  finish (Base.loadCheckpoint.foldl frEv
    { cls := c, src := saved, tgt := target, srcName := "", tgtName := "self", built := target.next,
      builtN := saved.a.outNumel, ctorId := target.next + 1, ctorN := 0, q := none }) target.next

def loadWith (evs : List Ev) (c : Cls) (saved : Wire) (n0 : Nat) : WB :=
  finish (evs.foldl frEv
    { cls := c, src := saved, tgt := blank saved.a.sem saved.a.lamb saved.next, srcName := "", tgtName := "self",
      built := saved.next, builtN := saved.a.outNumel, ctorId := saved.next + 1, ctorN := n0, q := none }) saved.next

/-- `clone()`; `n0` = output parameters of the network the constructor call builds by itself -/
def genClone (c : Cls) (w : Wire) (n0 : Nat) : WB := cloneWith Base.clone c w n0
/-- classmethod `load` of a checkpoint holding `saved` -/
def genLoad (c : Cls) (saved : Wire) (n0 : Nat) : WB := loadWith Base.load c saved n0

/-! ### generated = model -/

theorem gen_initParams_eq (c : Cls) (w : Wire) (b : Bool) : runInit c (w, b) = (w.initParams, b) := by
  cases c <;> rfl

theorem gen_hook_eq (c : Cls) (w : Wire) (b : Bool) : runHook c (w, b) = (w.hook, b) := by
  cases c <;> simp [runHook, Base.mutationHook, hookEv, Wire.hook, gen_initParams_eq] <;> split <;> rfl

theorem gen_ctor_eq (c : Cls) (sem : Sem) (lamb : Rat) (id n next : Nat) :
    runCtor c sem lamb id n next = ({ Wire.mk0 sem lamb n id with next := next }, false) := by
  cases c <;> rfl

theorem gen_update_eq (c : Cls) (w : Wire) (g : Vec) : genUpdate c w g = (w.update g, false) := by
  cases c <;> rfl

theorem gen_learn_eq (c : Cls) (w : Wire) : genLearn c w = (w.learn, false) := by
  cases c <;> rfl

theorem Wire.hook_hook (w : Wire) : w.hook.hook = w.hook := by
  unfold Wire.hook; split <;> simp_all [Wire.initParams, Agent.initParams]

theorem gen_mutate_eq (c : Cls) (w : Wire) (k : Kind) (n' : Nat) (q : Option Rat) (hh : w.hooked = true) :
    genMutate c w k n' q = (w.mutate k n' q, false) := by
  cases c <;> cases k <;> cases q <;>
  simp [genMutate, Mut.mutation, mutEv, Kind.events, Mut.kindNone, Mut.kindArch, Mut.kindParam, Mut.kindAct, Mut.kindRlHp,
    frEv, Fr.upd, slotOf, finish, gen_hook_eq, Wire.mutate, Kind.setsNet, Wire.hook, Wire.initParams, Wire.setNet, hh,
    Agent.initParams, Agent.setArch]

theorem gen_clone_eq (c : Cls) (w : Wire) (n0 : Nat) : genClone c w n0 = (w.clone, false) := by
  cases c <;>
  simp [genClone, genLoad, cloneWith, loadWith, genLoadCheckpoint, genMutate, Base.clone, Base.load, Base.loadCheckpoint, Mut.mutation, mutEv,
    frEv, Fr.upd, slotOf, finish, gen_ctor_eq, gen_hook_eq, carry, Wire.clone, Wire.reload, Wire.loadFrom,
    Wire.mk0, Wire.hook, Wire.initParams, Wire.setNet, blank] <;> exact ⟨rfl, rfl⟩

theorem gen_loadCheckpoint_eq (c : Cls) (target saved : Wire) (hh : target.hooked = true) :
    genLoadCheckpoint c target saved = (target.loadFrom saved, false) := by
  cases c <;>
  simp [genClone, genLoad, cloneWith, loadWith, genLoadCheckpoint, genMutate, Base.clone, Base.load, Base.loadCheckpoint, Mut.mutation, mutEv,
    frEv, Fr.upd, slotOf, finish, gen_ctor_eq, gen_hook_eq, carry, Wire.clone, Wire.reload, Wire.loadFrom,
    Wire.mk0, Wire.hook, Wire.initParams, Wire.setNet, blank, hh] <;> exact ⟨rfl, rfl⟩

theorem gen_load_eq (c : Cls) (w : Wire) (n0 : Nat) (hh : w.hooked = true) : genLoad c w n0 = (w.reload, false) := by
  cases c <;>
  simp [genClone, genLoad, cloneWith, loadWith, genLoadCheckpoint, genMutate, Base.clone, Base.load, Base.loadCheckpoint, Mut.mutation, mutEv,
    frEv, Fr.upd, slotOf, finish, gen_ctor_eq, gen_hook_eq, carry, Wire.clone, Wire.reload, Wire.loadFrom,
    Wire.mk0, Wire.hook, Wire.initParams, Wire.setNet, blank, hh] <;> exact ⟨rfl, rfl⟩

/-! ### op sequences over the generated lists -/

/-- one op of a history, run from the generated lists (`n0`: what a bare constructor call would build) -/
def wireStep (c : Cls) (n0 : Nat) (w : Wire) : WOp → WB
  | .update g => genUpdate c w g
  | .learn => genLearn c w
  | .mutate k n' q => genMutate c w k n' q
  | .clone => genClone c w n0
  | .reload => genLoad c w n0
  | .loadInto t => genLoadCheckpoint c t w

def wireRun (c : Cls) (n0 : Nat) (w : Wire) (ops : List WOp) : WB :=
  ops.foldl (fun wb op => let r := wireStep c n0 wb.1 op; (r.1, wb.2 || r.2)) (w, false)

/-- `load_checkpoint` targets are agents of the same class (constructed: hook registered; same reading of `lamb`) -/
def WOp.valid (sem : Sem) : WOp → Prop
  | .loadInto t => t.hooked = true ∧ t.a.sem = sem
  | _ => True

def Wire.Inv (sem : Sem) (w : Wire) : Prop := w.hooked = true ∧ w.a.sem = sem

theorem Wire.inv_mk0 (sem : Sem) (lamb : Rat) (n id : Nat) : (Wire.mk0 sem lamb n id).Inv sem := ⟨rfl, rfl⟩

theorem Wire.hook_of_hooked {w : Wire} (h : w.hooked = true) : w.hook = w.initParams := by simp [Wire.hook, h]

theorem Wire.inv_step {sem : Sem} {w : Wire} (h : w.Inv sem) (op : WOp) (hv : op.valid sem) : (w.step op).Inv sem := by
  obtain ⟨h1, h2⟩ := h
  cases op with
  | update g => refine ⟨h1, ?_⟩; simp only [Wire.step, Wire.update, Agent.update]; split <;> exact h2
  | learn => exact ⟨h1, h2⟩
  | mutate k n' q =>
    cases k <;> cases q <;>
    simp [Wire.Inv, Wire.step, Wire.mutate, Kind.setsNet, Wire.hook, Wire.setNet, Wire.initParams, h1, h2,
      Agent.initParams, Agent.setArch, Agent.setLamb] <;> (try split) <;> simp [h2]
  | clone => exact ⟨h1, by rw [Wire.step, Wire.clone, Agent.clone_eq]; exact h2⟩
  | reload => exact ⟨h1, by rw [Wire.step, Wire.reload, Agent.reload_eq]; exact h2⟩
  | loadInto t => exact ⟨hv.1, by rw [Wire.step, Wire.loadFrom, Agent.loadFrom_eq _ _ (hv.2.trans h2.symm)]; exact h2⟩

theorem wire_step_eq (c : Cls) (n0 : Nat) {sem : Sem} {w : Wire} (h : w.Inv sem) (op : WOp) (hv : op.valid sem) :
    wireStep c n0 w op = (w.step op, false) := by
  cases op with
  | update g => exact gen_update_eq c w g
  | learn => exact gen_learn_eq c w
  | mutate k n' q => exact gen_mutate_eq c w k n' q h.1
  | clone => exact gen_clone_eq c w n0
  | reload => exact gen_load_eq c w n0 h.1
  | loadInto t => exact gen_loadCheckpoint_eq c t w hv.1

theorem wire_run_eq (c : Cls) (n0 : Nat) {sem : Sem} (ops : List WOp) (hv : ∀ op ∈ ops, op.valid sem) :
    ∀ {w : Wire}, w.Inv sem → wireRun c n0 w ops = (w.run ops, false) ∧ (w.run ops).Inv sem := by
  induction ops with
  | nil => intro w h; exact ⟨rfl, h⟩
  | cons op ops ih =>
    intro w h
    have hop := hv op (List.mem_cons_self ..)
    have ih' := ih (fun o ho => hv o (List.mem_cons_of_mem _ ho)) (Wire.inv_step h op hop)
    refine ⟨?_, ih'.2⟩
    have := ih'.1
    simp only [wireRun, List.foldl_cons, wire_step_eq c n0 h op hop, Bool.or_false] at this ⊢
    exact this

/-! ### the model's ops: binding, sizes, and the projection to the bookkeeping agent -/

/-- the bookkeeping ops (`Bandit.Op`) an op of the wiring model amounts to -/
def WOp.erase : WOp → List Op
  | .update g => [.update g]
  | .learn => [.learn]
  | .mutate k n' q =>
      if k.setsNet then [.mutate n'] else match k, q with
        | .rlhp, some q => [.setLamb q, .init]
        | _, _ => [.init]
  | .clone => [.clone]
  | .reload => [.reload]
  | .loadInto _ => []

theorem Wire.step_a {sem : Sem} {w : Wire} (h : w.Inv sem) (op : WOp) (hv : op.valid sem) :
    (w.step op).a = w.a.run op.erase := by
  obtain ⟨h1, h2⟩ := h
  cases op with
  | mutate k n' q =>
    cases k <;> cases q <;>
    simp [Wire.step, Wire.mutate, Kind.setsNet, Wire.hook, Wire.setNet, Wire.initParams, h1, WOp.erase, Agent.run,
      Agent.step, Agent.mutate]
  | loadInto t => simp [Wire.step, Wire.loadFrom, Agent.loadFrom_eq _ _ (hv.2.trans h2.symm), WOp.erase, Agent.run]
  | _ => rfl

theorem Wire.run_a {sem : Sem} (ops : List WOp) (hv : ∀ op ∈ ops, op.valid sem) :
    ∀ {w : Wire}, w.Inv sem → (w.run ops).a = w.a.run (ops.flatMap WOp.erase) := by
  induction ops with
  | nil => intro w _; rfl
  | cons op ops ih =>
    intro w h
    have hop := hv op (List.mem_cons_self ..)
    have := ih (fun o ho => hv o (List.mem_cons_of_mem _ ho)) (Wire.inv_step h op hop)
    simp only [Wire.run, List.foldl_cons, List.flatMap_cons, Agent.run, List.foldl_append] at this ⊢
    rw [this, Wire.step_a h op hop]; rfl

theorem Wire.bound_step {sem : Sem} {w : Wire} (h : w.Inv sem) (hb : w.Bound) (op : WOp) (hv : op.valid sem) :
    (w.step op).Bound := by
  obtain ⟨h1, h2⟩ := h
  obtain ⟨b1, b2, b3⟩ := hb
  cases op with
  | update g =>
    refine ⟨b1, ?_, ?_⟩ <;> simp only [Wire.step, Wire.update, Agent.update] <;> split <;> assumption
  | learn => exact ⟨b1, b2, b3⟩
  | mutate k n' q =>
    cases k <;> cases q <;>
    simp [Wire.Bound, Wire.step, Wire.mutate, Kind.setsNet, Wire.hook, Wire.setNet, Wire.initParams, h1,
      Agent.initParams, Agent.setArch]
  | clone => simp only [Wire.step, Wire.clone, Wire.Bound, Agent.clone_eq]; exact ⟨trivial, trivial, b3⟩
  | reload => simp only [Wire.step, Wire.reload, Wire.Bound, Agent.reload_eq]; exact ⟨trivial, trivial, b3⟩
  | loadInto t =>
    simp only [Wire.step, Wire.loadFrom, Wire.Bound, Agent.loadFrom_eq _ _ (hv.2.trans h2.symm)]; exact ⟨trivial, trivial, b3⟩

theorem Wire.bound_run {sem : Sem} (ops : List WOp) (hv : ∀ op ∈ ops, op.valid sem) :
    ∀ {w : Wire}, w.Inv sem → w.Bound → (w.run ops).Bound := by
  induction ops with
  | nil => intro w _ hb; exact hb
  | cons op ops ih =>
    intro w h hb
    have hop := hv op (List.mem_cons_self ..)
    exact ih (fun o ho => hv o (List.mem_cons_of_mem _ ho)) (Wire.inv_step h op hop) (Wire.bound_step h hb op hop)

end Bandit
