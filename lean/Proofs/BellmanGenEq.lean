import Gen.BellmanGen
import Proofs.BellmanLemmas

/-!
  Proofs/BellmanGenEq.lean — the definitions `harness/py2lean_bellman.py` generates from the source text of DQN, CQN,
  RainbowDQN, DDPG, TD3, MADDPG, MATD3 (`Gen/BellmanGen.lean`) are equal to the functions of the hand-written
  `Model/Bellman.lean`:

    rowMax / rowArgmax / rowGather / tmin       = maxL / argmaxL / gather / rmin
    L.soft_update_body τ e t                     = (e, τ·e + (1−τ)·t)            (the first zipped entry is read, the second written)
    L.soft_update τ θ θt                         = (θ, blendK τ θ θt),   blendK = blend (++ what the zip does not reach; = blend
                                                   when the target has at most as many entries as the online network)
    L.soft_updates … s                           = s with exactly the TARGET entries of the learner's pairs replaced by blendK of
                                                   the pair (single networks: nested `Nets.put`; multi-agent: for every agent j < n)
    L.updates_on …                               = fires pf c                    (DDPG, TD3; MATD3 on the LAST agent's counter)
                                                 = fires 1 c = true              (DQN, CQN, RainbowDQN, MADDPG)
    L.learn_counter_after c                      = c + 1
    L.learn_nets … s                             : online entries unchanged, target entries = (runTargets pf τ c [online] target).2
    genRun (L.learn_nets …) (L.learn_counter_after) over any list of online weights = runTargets      (`gen_*_run_eq`)
    L.target …                                   = y r γ d q'   with q' = maxL / gather∘argmaxL (DQN, CQN), the critic target's value
                                                   (DDPG, MADDPG), rmin of the twin targets (TD3, MATD3)
    L.pred …                                     = the online network's value (gathered at the action for DQN / CQN)

  The inputs of the generated `target` / `pred` / `updates_on` are passed BY NAME: the names encode which network was
  evaluated on what (`critic_target_of_actor_target_next_obs`), so a source edit that evaluates another network, or the
  same network on another observation, renames a parameter and the statement below stops elaborating.
  The proofs normalise with `ring` inside the body and decide the string keys of `Nets`; they absorb commuted operands,
  re-associated products, exchanged zip operands (`zipLoop_blend_swap`) and a different order of independent
  `soft_update` calls; a changed constant, `tau` ↔ `1 - tau`, exchanged roles, a dropped `(1 - done)`, a dropped or
  added soft-update call, `% policy_freq == 1` leave a false goal.
-/


namespace Bellman
open BellmanGen

theorem gen_tmin_eq (a b : Rat) : tmin a b = rmin a b := rfl
theorem gen_tmax_eq (a b : Rat) : tmax a b = rmax a b := rfl

theorem gen_rowMax_eq : ∀ l : List Rat, rowMax l = maxL l
  | [] => rfl
  | [_] => rfl
  | x :: y :: r => by simp only [rowMax, maxL, gen_rowMax_eq (y :: r), gen_tmax_eq]

theorem gen_rowArgmax_eq : ∀ l : List Rat, rowArgmax l = argmaxL l
  | [] => rfl
  | [_] => rfl
  | x :: y :: r => by simp only [rowArgmax, argmaxL, gen_rowArgmax_eq (y :: r), gen_rowMax_eq]

theorem gen_rowGather_eq (l : List Rat) (i : Nat) : rowGather l i = gather l i := rfl

/-- what the loop leaves in the written network: blended where the zip reaches, untouched beyond -/
def blendK (τ : Rat) (θ θt : List Rat) : List Rat := blend τ θ θt ++ θt.drop θ.length

theorem blendK_eq_blend (τ : Rat) (θ θt : List Rat) (h : θt.length ≤ θ.length) : blendK τ θ θt = blend τ θ θt := by
  simp [blendK, List.drop_eq_nil_of_le h]

theorem zipWith_left_drop : ∀ (θ θt : List Rat), List.zipWith (fun x _ => x) θ θt ++ θ.drop θt.length = θ
  | [], _ => by simp
  | _ :: _, [] => by simp
  | e :: θ, t :: θt => by simp [zipWith_left_drop θ θt]

theorem zipWith_right_drop : ∀ (θ θt : List Rat), List.zipWith (fun _ y => y) θ θt ++ θt.drop θ.length = θt
  | [], _ => by simp
  | _ :: _, [] => by simp
  | e :: θ, t :: θt => by simp [zipWith_right_drop θ θt]

/-- the zip loop with a body that leaves the first entry and blends it into the second -/
theorem zipLoop_blend (τ : Rat) (body : Rat → Rat → Rat × Rat)
    (hb : ∀ e t, body e t = (e, τ * e + (1 - τ) * t)) (θ θt : List Rat) :
    zipLoop body θ θt = (θ, blendK τ θ θt) := by
  simp only [zipLoop, hb, zipWith_left_drop, blendK, blend]

/-- the same loop written with the zip operands (and the loop variables) exchanged -/
theorem zipLoop_blend_swap (τ : Rat) (body : Rat → Rat → Rat × Rat)
    (hb : ∀ t e, body t e = (τ * e + (1 - τ) * t, e)) (θ θt : List Rat) :
    zipLoop body θt θ = (blendK τ θ θt, θ) := by
  simp only [zipLoop, hb, zipWith_right_drop, blendK, blend]
  congr 2
  induction θt generalizing θ with
  | nil => simp
  | cons t r ih => cases θ with
    | nil => simp
    | cons e θ => simp [ih]

theorem Nets.put_self (s : Nets) (a : String) (i : Nat) : s.put a i (s a i) = s := by
  funext b j; simp only [Nets.put]; split
  · next h => rw [h.1, h.2]
  · rfl

/-- a loop over the agents whose iteration `i` rewrites only the agent-`i` entries, from the agent-`i` entries -/
theorem foldl_range_pointwise (f : Nat → Nets → Nets) (g : Nets → String → Nat → List Rat)
    (hf : ∀ i s a j, f i s a j = if j = i then g s a i else s a j)
    (hg : ∀ i s s', (∀ a, s a i = s' a i) → ∀ a, g s a i = g s' a i) :
    ∀ n s a j, ((List.range n).foldl (fun s i => f i s) s) a j = if j < n then g s a j else s a j := by
  intro n
  induction n with
  | zero => intro s a j; simp
  | succ n ih =>
    intro s a j
    rw [List.range_succ, List.foldl_append]
    simp only [List.foldl_cons, List.foldl_nil, hf]
    by_cases hj : j = n
    · subst hj
      simp only [if_true, Nat.lt_succ_self]
      apply hg
      intro a; rw [ih]; simp
    · simp only [hj, if_false, ih]
      by_cases h : j < n
      · have h' : j < n + 1 := by omega
        simp only [h, h', if_true]
      · have h' : ¬ j < n + 1 := by omega
        simp only [h, h', if_false]


-- the fallback alternatives of `first` are there for harmless rewrites of the source, not for today's text
set_option linter.unusedTactic false
set_option linter.unreachableTactic false
set_option linter.unusedSimpArgs false
set_option linter.unnecessarySeqFocus false
set_option linter.unusedVariables false

/-! ### consecutive learn steps of the generated code against `runTargets` -/

/-- consecutive learn steps as the generated `learn_nets` / `<counter>_after` perform them; before each step
    the optimiser has set the online weights `(on, k)` to the next element of the list -/
def genRun (step : Nat → Nets → Nets) (cnt : Nat → Nat) (on : String) (k : Nat) :
    Nat → List (List Rat) → Nets → Nat × Nets
  | c, [], s => (c, s)
  | c, θ :: rest, s => genRun step cnt on k (cnt c) rest (step c (s.put on k θ))

theorem runTargets_one (pf : Nat) (τ : Rat) (c : Nat) (θ t : List Rat) :
    runTargets pf τ c [θ] t = (c + 1, if fires pf c then blend τ θ t else t) := by
  simp [runTargets]

theorem runTargets_one_length (pf : Nat) (τ : Rat) (c : Nat) (θ t : List Rat) (h : t.length ≤ θ.length) :
    (runTargets pf τ c [θ] t).2.length = t.length := by
  rw [runTargets_one]; dsimp only; split
  · rw [blend_length]; omega
  · rfl

theorem genRun_eq_runTargets (pf : Nat) (τ : Rat) (step : Nat → Nets → Nets) (cnt : Nat → Nat)
    (on tg : String) (k : Nat) (hne : on ≠ tg) (hcnt : ∀ c, cnt c = c + 1)
    (hstep : ∀ c s, (s tg k).length ≤ (s on k).length →
        step c s tg k = (runTargets pf τ c [s on k] (s tg k)).2) :
    ∀ (θs : List (List Rat)) (c : Nat) (s : Nets), (∀ θ ∈ θs, (s tg k).length ≤ θ.length) →
      (genRun step cnt on k c θs s).1 = (runTargets pf τ c θs (s tg k)).1 ∧
      (genRun step cnt on k c θs s).2 tg k = (runTargets pf τ c θs (s tg k)).2
  | [], c, s, _ => by simp [genRun, runTargets]
  | θ :: rest, c, s, h => by
    have hθ : (s tg k).length ≤ θ.length := h θ List.mem_cons_self
    have e1 : (s.put on k θ) on k = θ := by simp [Nets.put]
    have e2 : (s.put on k θ) tg k = s tg k := by
      simp only [Nets.put]; rw [if_neg]; intro hh; exact hne hh.1.symm
    have hs := hstep c (s.put on k θ) (by rw [e1, e2]; exact hθ)
    rw [e1, e2] at hs
    have hl : (step c (s.put on k θ) tg k).length = (s tg k).length := by
      rw [hs]; exact runTargets_one_length pf τ c θ _ hθ
    have ih := genRun_eq_runTargets pf τ step cnt on tg k hne hcnt hstep rest (cnt c) (step c (s.put on k θ))
      (fun θ' h' => by rw [hl]; exact h θ' (List.mem_cons_of_mem _ h'))
    simp only [genRun]
    rw [ih.1, ih.2, hs, hcnt, runTargets_one]
    simp [runTargets]

theorem rmin_comm (a b : Rat) : rmin a b = rmin b a := by
  unfold rmin; split <;> split <;> first | rfl | linarith

/-- with fixed online weights: the counter advances by the number of steps, the target has received exactly
    `(c+n)/pf − c/pf` soft updates, in closed form `θ + (1−τ)^m (θ⁻ − θ)` -/
theorem genRun_fixed (pf : Nat) (τ : Rat) (step : Nat → Nets → Nets) (cnt : Nat → Nat)
    (on tg : String) (k : Nat) (hne : on ≠ tg) (hcnt : ∀ c, cnt c = c + 1)
    (hstep : ∀ c s, (s tg k).length ≤ (s on k).length →
        step c s tg k = (runTargets pf τ c [s on k] (s tg k)).2)
    (θ : List Rat) (n c : Nat) (s : Nets) (hlen : θ.length = (s tg k).length) :
    (genRun step cnt on k c (List.replicate n θ) s).1 = c + n ∧
    (genRun step cnt on k c (List.replicate n θ) s).2 tg k = softN τ θ ((c + n) / pf - c / pf) (s tg k) ∧
    (genRun step cnt on k c (List.replicate n θ) s).2 tg k = closedN τ θ ((c + n) / pf - c / pf) (s tg k) := by
  have h := genRun_eq_runTargets pf τ step cnt on tg k hne hcnt hstep (List.replicate n θ) c s
    (fun θ' h' => by rw [List.eq_of_mem_replicate h']; omega)
  rw [h.1, h.2, runTargets_counter, runTargets_fixed, List.length_replicate]
  exact ⟨rfl, rfl, softN_eq_closedN τ θ _ hlen _⟩


/-! ### DQN -/

/-- the loop body reads the online entry and writes the blend into the target entry (either the online network is
    zipped first, as in today's source, or — the same loop written the other way round — second) -/
theorem gen_dqn_soft_update_body_eq (τ : Rat) :
    (∀ e t, DQN.soft_update_body (self_tau := τ) e t = (e, τ * e + (1 - τ) * t)) ∨
    (∀ t e, DQN.soft_update_body (self_tau := τ) t e = (τ * e + (1 - τ) * t, e)) := by
  first
    | (left; intro e t; unfold DQN.soft_update_body; refine Prod.ext ?_ ?_ <;> dsimp only <;> ring1)
    | (right; intro t e; unfold DQN.soft_update_body; refine Prod.ext ?_ ?_ <;> dsimp only <;> ring1)

theorem gen_dqn_soft_update_eq (τ : Rat) (θ θt : List Rat) :
    DQN.soft_update (self_tau := τ) θ θt = (θ, blendK τ θ θt) := by
  simp only [DQN.soft_update]
  first
    | (have hb : ∀ e t, DQN.soft_update_body (self_tau := τ) e t = (e, τ * e + (1 - τ) * t) := by
         intro e t; unfold DQN.soft_update_body; refine Prod.ext ?_ ?_ <;> dsimp only <;> ring1
       rw [zipLoop_blend τ _ hb])
    | (have hb : ∀ t e, DQN.soft_update_body (self_tau := τ) t e = (τ * e + (1 - τ) * t, e) := by
         intro t e; unfold DQN.soft_update_body; refine Prod.ext ?_ ?_ <;> dsimp only <;> ring1
       rw [zipLoop_blend_swap τ _ hb])

theorem gen_dqn_soft_updates_eq (τ : Rat) (s : Nets) :
    DQN.soft_updates (self_tau := τ) s =
      s.put "actor_target" 0 (blendK τ (s "actor" 0) (s "actor_target" 0)) := by
  funext a j
  simp [DQN.soft_updates, gen_dqn_soft_update_eq, Nets.put]
  try (split_ifs <;> simp_all)

theorem gen_dqn_updates_on_eq (c : Nat) : DQN.updates_on = fires 1 c := by
  simp [DQN.updates_on, fires, Nat.mod_one]

theorem gen_dqn_learn_nets_eq (τ : Rat) (c : Nat) (s : Nets) :
    ∀ p ∈ [("actor", "actor_target")],
      DQN.learn_nets (self_tau := τ) s p.1 0 = s p.1 0 ∧
      ((s p.2 0).length ≤ (s p.1 0).length →
        DQN.learn_nets (self_tau := τ) s p.2 0 = (runTargets 1 τ c [s p.1 0] (s p.2 0)).2) := by
  intro p hp
  simp only [List.mem_cons, List.mem_nil_iff, or_false, List.mem_singleton] at hp
  simp only [DQN.learn_nets, gen_dqn_updates_on_eq c, gen_dqn_soft_updates_eq, runTargets_one]
  rcases hp with rfl <;>
    exact ⟨by split <;> simp [Nets.put], fun h => by split <;> simp [Nets.put, blendK_eq_blend τ _ _ h]⟩

/-- any number of consecutive `learn` steps of the generated code = `runTargets` of the model -/
theorem gen_dqn_run_eq (τ : Rat) :
    ∀ p ∈ [("actor", "actor_target")], ∀ (θs : List (List Rat)) (c : Nat) (s : Nets),
      (∀ θ ∈ θs, (s p.2 0).length ≤ θ.length) →
      (genRun (fun c s => DQN.learn_nets (self_tau := τ) s) (fun c => c + 1) p.1 0 c θs s).1 = (runTargets 1 τ c θs (s p.2 0)).1 ∧
      (genRun (fun c s => DQN.learn_nets (self_tau := τ) s) (fun c => c + 1) p.1 0 c θs s).2 p.2 0 = (runTargets 1 τ c θs (s p.2 0)).2 := by
  intro p hp
  have hne : p.1 ≠ p.2 := by
    simp only [List.mem_cons, List.mem_nil_iff, or_false, List.mem_singleton] at hp
    rcases hp with rfl <;> decide
  exact genRun_eq_runTargets 1 τ _ _ p.1 p.2 0 hne (fun _ => rfl)
    (fun c s h => (gen_dqn_learn_nets_eq τ c s p hp).2 h)

/-- … with fixed online weights: `(c+n)/pf − c/pf` soft updates, closed form -/
theorem gen_dqn_run_fixed (τ : Rat) :
    ∀ p ∈ [("actor", "actor_target")], ∀ (θ : List Rat) (n c : Nat) (s : Nets), θ.length = (s p.2 0).length →
      (genRun (fun c s => DQN.learn_nets (self_tau := τ) s) (fun c => c + 1) p.1 0 c (List.replicate n θ) s).1 = c + n ∧
      (genRun (fun c s => DQN.learn_nets (self_tau := τ) s) (fun c => c + 1) p.1 0 c (List.replicate n θ) s).2 p.2 0 =
        softN τ θ ((c + n) / 1 - c / 1) (s p.2 0) ∧
      (genRun (fun c s => DQN.learn_nets (self_tau := τ) s) (fun c => c + 1) p.1 0 c (List.replicate n θ) s).2 p.2 0 =
        closedN τ θ ((c + n) / 1 - c / 1) (s p.2 0) := by
  intro p hp
  have hne : p.1 ≠ p.2 := by
    simp only [List.mem_cons, List.mem_nil_iff, or_false, List.mem_singleton] at hp
    rcases hp with rfl <;> decide
  exact genRun_fixed 1 τ _ _ p.1 p.2 0 hne (fun _ => rfl)
    (fun c s h => (gen_dqn_learn_nets_eq τ c s p hp).2 h)


theorem gen_dqn_target_eq (dbl : Bool) (γ r d : Rat) (on tg : List Rat) :
    DQN.target (self_double := dbl) (self_gamma := γ) (reward := r) (done := d)
      (actor_of_next_obs := on) (actor_target_of_next_obs := tg)
    = y r γ d (if dbl then gather tg (argmaxL on) else maxL tg) := by
  simp only [DQN.target, y, gen_rowMax_eq, gen_rowArgmax_eq, gen_rowGather_eq]
  cases dbl <;> simp <;> ring1

theorem gen_dqn_pred_eq (a : Rat) (q : List Rat) :
    DQN.pred (action := a) (actor_of_obs := q) = gather q a.floor.toNat := rfl


/-! ### CQN -/

/-- the loop body reads the online entry and writes the blend into the target entry (either the online network is
    zipped first, as in today's source, or — the same loop written the other way round — second) -/
theorem gen_cqn_soft_update_body_eq (τ : Rat) :
    (∀ e t, CQN.soft_update_body (self_tau := τ) e t = (e, τ * e + (1 - τ) * t)) ∨
    (∀ t e, CQN.soft_update_body (self_tau := τ) t e = (τ * e + (1 - τ) * t, e)) := by
  first
    | (left; intro e t; unfold CQN.soft_update_body; refine Prod.ext ?_ ?_ <;> dsimp only <;> ring1)
    | (right; intro t e; unfold CQN.soft_update_body; refine Prod.ext ?_ ?_ <;> dsimp only <;> ring1)

theorem gen_cqn_soft_update_eq (τ : Rat) (θ θt : List Rat) :
    CQN.soft_update (self_tau := τ) θ θt = (θ, blendK τ θ θt) := by
  simp only [CQN.soft_update]
  first
    | (have hb : ∀ e t, CQN.soft_update_body (self_tau := τ) e t = (e, τ * e + (1 - τ) * t) := by
         intro e t; unfold CQN.soft_update_body; refine Prod.ext ?_ ?_ <;> dsimp only <;> ring1
       rw [zipLoop_blend τ _ hb])
    | (have hb : ∀ t e, CQN.soft_update_body (self_tau := τ) t e = (τ * e + (1 - τ) * t, e) := by
         intro t e; unfold CQN.soft_update_body; refine Prod.ext ?_ ?_ <;> dsimp only <;> ring1
       rw [zipLoop_blend_swap τ _ hb])

theorem gen_cqn_soft_updates_eq (τ : Rat) (s : Nets) :
    CQN.soft_updates (self_tau := τ) s =
      s.put "actor_target" 0 (blendK τ (s "actor" 0) (s "actor_target" 0)) := by
  funext a j
  simp [CQN.soft_updates, gen_cqn_soft_update_eq, Nets.put]
  try (split_ifs <;> simp_all)

theorem gen_cqn_updates_on_eq (c : Nat) : CQN.updates_on = fires 1 c := by
  simp [CQN.updates_on, fires, Nat.mod_one]

theorem gen_cqn_learn_nets_eq (τ : Rat) (c : Nat) (s : Nets) :
    ∀ p ∈ [("actor", "actor_target")],
      CQN.learn_nets (self_tau := τ) s p.1 0 = s p.1 0 ∧
      ((s p.2 0).length ≤ (s p.1 0).length →
        CQN.learn_nets (self_tau := τ) s p.2 0 = (runTargets 1 τ c [s p.1 0] (s p.2 0)).2) := by
  intro p hp
  simp only [List.mem_cons, List.mem_nil_iff, or_false, List.mem_singleton] at hp
  simp only [CQN.learn_nets, gen_cqn_updates_on_eq c, gen_cqn_soft_updates_eq, runTargets_one]
  rcases hp with rfl <;>
    exact ⟨by split <;> simp [Nets.put], fun h => by split <;> simp [Nets.put, blendK_eq_blend τ _ _ h]⟩

/-- any number of consecutive `learn` steps of the generated code = `runTargets` of the model -/
theorem gen_cqn_run_eq (τ : Rat) :
    ∀ p ∈ [("actor", "actor_target")], ∀ (θs : List (List Rat)) (c : Nat) (s : Nets),
      (∀ θ ∈ θs, (s p.2 0).length ≤ θ.length) →
      (genRun (fun c s => CQN.learn_nets (self_tau := τ) s) (fun c => c + 1) p.1 0 c θs s).1 = (runTargets 1 τ c θs (s p.2 0)).1 ∧
      (genRun (fun c s => CQN.learn_nets (self_tau := τ) s) (fun c => c + 1) p.1 0 c θs s).2 p.2 0 = (runTargets 1 τ c θs (s p.2 0)).2 := by
  intro p hp
  have hne : p.1 ≠ p.2 := by
    simp only [List.mem_cons, List.mem_nil_iff, or_false, List.mem_singleton] at hp
    rcases hp with rfl <;> decide
  exact genRun_eq_runTargets 1 τ _ _ p.1 p.2 0 hne (fun _ => rfl)
    (fun c s h => (gen_cqn_learn_nets_eq τ c s p hp).2 h)

/-- … with fixed online weights: `(c+n)/pf − c/pf` soft updates, closed form -/
theorem gen_cqn_run_fixed (τ : Rat) :
    ∀ p ∈ [("actor", "actor_target")], ∀ (θ : List Rat) (n c : Nat) (s : Nets), θ.length = (s p.2 0).length →
      (genRun (fun c s => CQN.learn_nets (self_tau := τ) s) (fun c => c + 1) p.1 0 c (List.replicate n θ) s).1 = c + n ∧
      (genRun (fun c s => CQN.learn_nets (self_tau := τ) s) (fun c => c + 1) p.1 0 c (List.replicate n θ) s).2 p.2 0 =
        softN τ θ ((c + n) / 1 - c / 1) (s p.2 0) ∧
      (genRun (fun c s => CQN.learn_nets (self_tau := τ) s) (fun c => c + 1) p.1 0 c (List.replicate n θ) s).2 p.2 0 =
        closedN τ θ ((c + n) / 1 - c / 1) (s p.2 0) := by
  intro p hp
  have hne : p.1 ≠ p.2 := by
    simp only [List.mem_cons, List.mem_nil_iff, or_false, List.mem_singleton] at hp
    rcases hp with rfl <;> decide
  exact genRun_fixed 1 τ _ _ p.1 p.2 0 hne (fun _ => rfl)
    (fun c s h => (gen_cqn_learn_nets_eq τ c s p hp).2 h)


theorem gen_cqn_target_eq (dbl : Bool) (γ r d : Rat) (on tg : List Rat) :
    CQN.target (self_double := dbl) (self_gamma := γ) (reward := r) (done := d)
      (actor_of_next_obs := on) (actor_target_of_next_obs := tg)
    = y r γ d (if dbl then gather tg (argmaxL on) else maxL tg) := by
  simp only [CQN.target, y, gen_rowMax_eq, gen_rowArgmax_eq, gen_rowGather_eq]
  cases dbl <;> simp <;> ring1

theorem gen_cqn_pred_eq (a : Rat) (q : List Rat) :
    CQN.pred (action := a) (actor_of_obs := q) = gather q a.floor.toNat := rfl


/-! ### Rainbow -/

/-- the loop body reads the online entry and writes the blend into the target entry (either the online network is
    zipped first, as in today's source, or — the same loop written the other way round — second) -/
theorem gen_rainbow_soft_update_body_eq (τ : Rat) :
    (∀ e t, Rainbow.soft_update_body (self_tau := τ) e t = (e, τ * e + (1 - τ) * t)) ∨
    (∀ t e, Rainbow.soft_update_body (self_tau := τ) t e = (τ * e + (1 - τ) * t, e)) := by
  first
    | (left; intro e t; unfold Rainbow.soft_update_body; refine Prod.ext ?_ ?_ <;> dsimp only <;> ring1)
    | (right; intro t e; unfold Rainbow.soft_update_body; refine Prod.ext ?_ ?_ <;> dsimp only <;> ring1)

theorem gen_rainbow_soft_update_eq (τ : Rat) (θ θt : List Rat) :
    Rainbow.soft_update (self_tau := τ) θ θt = (θ, blendK τ θ θt) := by
  simp only [Rainbow.soft_update]
  first
    | (have hb : ∀ e t, Rainbow.soft_update_body (self_tau := τ) e t = (e, τ * e + (1 - τ) * t) := by
         intro e t; unfold Rainbow.soft_update_body; refine Prod.ext ?_ ?_ <;> dsimp only <;> ring1
       rw [zipLoop_blend τ _ hb])
    | (have hb : ∀ t e, Rainbow.soft_update_body (self_tau := τ) t e = (τ * e + (1 - τ) * t, e) := by
         intro t e; unfold Rainbow.soft_update_body; refine Prod.ext ?_ ?_ <;> dsimp only <;> ring1
       rw [zipLoop_blend_swap τ _ hb])

theorem gen_rainbow_soft_updates_eq (τ : Rat) (s : Nets) :
    Rainbow.soft_updates (self_tau := τ) s =
      s.put "actor_target" 0 (blendK τ (s "actor" 0) (s "actor_target" 0)) := by
  funext a j
  simp [Rainbow.soft_updates, gen_rainbow_soft_update_eq, Nets.put]
  try (split_ifs <;> simp_all)

theorem gen_rainbow_updates_on_eq (c : Nat) : Rainbow.updates_on = fires 1 c := by
  simp [Rainbow.updates_on, fires, Nat.mod_one]

theorem gen_rainbow_learn_nets_eq (τ : Rat) (c : Nat) (s : Nets) :
    ∀ p ∈ [("actor", "actor_target")],
      Rainbow.learn_nets (self_tau := τ) s p.1 0 = s p.1 0 ∧
      ((s p.2 0).length ≤ (s p.1 0).length →
        Rainbow.learn_nets (self_tau := τ) s p.2 0 = (runTargets 1 τ c [s p.1 0] (s p.2 0)).2) := by
  intro p hp
  simp only [List.mem_cons, List.mem_nil_iff, or_false, List.mem_singleton] at hp
  simp only [Rainbow.learn_nets, gen_rainbow_updates_on_eq c, gen_rainbow_soft_updates_eq, runTargets_one]
  rcases hp with rfl <;>
    exact ⟨by split <;> simp [Nets.put], fun h => by split <;> simp [Nets.put, blendK_eq_blend τ _ _ h]⟩

/-- any number of consecutive `learn` steps of the generated code = `runTargets` of the model -/
theorem gen_rainbow_run_eq (τ : Rat) :
    ∀ p ∈ [("actor", "actor_target")], ∀ (θs : List (List Rat)) (c : Nat) (s : Nets),
      (∀ θ ∈ θs, (s p.2 0).length ≤ θ.length) →
      (genRun (fun c s => Rainbow.learn_nets (self_tau := τ) s) (fun c => c + 1) p.1 0 c θs s).1 = (runTargets 1 τ c θs (s p.2 0)).1 ∧
      (genRun (fun c s => Rainbow.learn_nets (self_tau := τ) s) (fun c => c + 1) p.1 0 c θs s).2 p.2 0 = (runTargets 1 τ c θs (s p.2 0)).2 := by
  intro p hp
  have hne : p.1 ≠ p.2 := by
    simp only [List.mem_cons, List.mem_nil_iff, or_false, List.mem_singleton] at hp
    rcases hp with rfl <;> decide
  exact genRun_eq_runTargets 1 τ _ _ p.1 p.2 0 hne (fun _ => rfl)
    (fun c s h => (gen_rainbow_learn_nets_eq τ c s p hp).2 h)

/-- … with fixed online weights: `(c+n)/pf − c/pf` soft updates, closed form -/
theorem gen_rainbow_run_fixed (τ : Rat) :
    ∀ p ∈ [("actor", "actor_target")], ∀ (θ : List Rat) (n c : Nat) (s : Nets), θ.length = (s p.2 0).length →
      (genRun (fun c s => Rainbow.learn_nets (self_tau := τ) s) (fun c => c + 1) p.1 0 c (List.replicate n θ) s).1 = c + n ∧
      (genRun (fun c s => Rainbow.learn_nets (self_tau := τ) s) (fun c => c + 1) p.1 0 c (List.replicate n θ) s).2 p.2 0 =
        softN τ θ ((c + n) / 1 - c / 1) (s p.2 0) ∧
      (genRun (fun c s => Rainbow.learn_nets (self_tau := τ) s) (fun c => c + 1) p.1 0 c (List.replicate n θ) s).2 p.2 0 =
        closedN τ θ ((c + n) / 1 - c / 1) (s p.2 0) := by
  intro p hp
  have hne : p.1 ≠ p.2 := by
    simp only [List.mem_cons, List.mem_nil_iff, or_false, List.mem_singleton] at hp
    rcases hp with rfl <;> decide
  exact genRun_fixed 1 τ _ _ p.1 p.2 0 hne (fun _ => rfl)
    (fun c s h => (gen_rainbow_learn_nets_eq τ c s p hp).2 h)


/-! ### DDPG -/

/-- the loop body reads the online entry and writes the blend into the target entry (either the online network is
    zipped first, as in today's source, or — the same loop written the other way round — second) -/
theorem gen_ddpg_soft_update_body_eq (τ : Rat) :
    (∀ e t, DDPG.soft_update_body (self_tau := τ) e t = (e, τ * e + (1 - τ) * t)) ∨
    (∀ t e, DDPG.soft_update_body (self_tau := τ) t e = (τ * e + (1 - τ) * t, e)) := by
  first
    | (left; intro e t; unfold DDPG.soft_update_body; refine Prod.ext ?_ ?_ <;> dsimp only <;> ring1)
    | (right; intro t e; unfold DDPG.soft_update_body; refine Prod.ext ?_ ?_ <;> dsimp only <;> ring1)

theorem gen_ddpg_soft_update_eq (τ : Rat) (θ θt : List Rat) :
    DDPG.soft_update (self_tau := τ) θ θt = (θ, blendK τ θ θt) := by
  simp only [DDPG.soft_update]
  first
    | (have hb : ∀ e t, DDPG.soft_update_body (self_tau := τ) e t = (e, τ * e + (1 - τ) * t) := by
         intro e t; unfold DDPG.soft_update_body; refine Prod.ext ?_ ?_ <;> dsimp only <;> ring1
       rw [zipLoop_blend τ _ hb])
    | (have hb : ∀ t e, DDPG.soft_update_body (self_tau := τ) t e = (τ * e + (1 - τ) * t, e) := by
         intro t e; unfold DDPG.soft_update_body; refine Prod.ext ?_ ?_ <;> dsimp only <;> ring1
       rw [zipLoop_blend_swap τ _ hb])

theorem gen_ddpg_soft_updates_eq (τ : Rat) (s : Nets) :
    DDPG.soft_updates (self_tau := τ) s =
      (s.put "actor_target" 0 (blendK τ (s "actor" 0) (s "actor_target" 0))).put "critic_target" 0 (blendK τ (s "critic" 0) (s "critic_target" 0)) := by
  funext a j
  simp [DDPG.soft_updates, gen_ddpg_soft_update_eq, Nets.put]
  try (split_ifs <;> simp_all)

theorem gen_ddpg_updates_on_eq (c pf : Nat) :
    DDPG.updates_on (self_learn_counter := c) (self_policy_freq := pf) = fires pf c := by
  rw [Bool.eq_iff_iff]; simp [DDPG.updates_on, fires]

theorem gen_ddpg_learn_counter_after_eq (c : Nat) : DDPG.learn_counter_after (self_learn_counter := c) = c + 1 := by
  unfold DDPG.learn_counter_after; omega

theorem gen_ddpg_learn_nets_eq (τ : Rat) (c : Nat) (pf : Nat) (s : Nets) :
    ∀ p ∈ [("actor", "actor_target"), ("critic", "critic_target")],
      DDPG.learn_nets (self_learn_counter := c) (self_policy_freq := pf) (self_tau := τ) s p.1 0 = s p.1 0 ∧
      ((s p.2 0).length ≤ (s p.1 0).length →
        DDPG.learn_nets (self_learn_counter := c) (self_policy_freq := pf) (self_tau := τ) s p.2 0 = (runTargets pf τ c [s p.1 0] (s p.2 0)).2) := by
  intro p hp
  simp only [List.mem_cons, List.mem_nil_iff, or_false, List.mem_singleton] at hp
  simp only [DDPG.learn_nets, gen_ddpg_updates_on_eq, gen_ddpg_soft_updates_eq, runTargets_one]
  rcases hp with rfl | rfl <;>
    exact ⟨by split <;> simp [Nets.put], fun h => by split <;> simp [Nets.put, blendK_eq_blend τ _ _ h]⟩

/-- any number of consecutive `learn` steps of the generated code = `runTargets` of the model -/
theorem gen_ddpg_run_eq (τ : Rat) (pf : Nat) :
    ∀ p ∈ [("actor", "actor_target"), ("critic", "critic_target")], ∀ (θs : List (List Rat)) (c : Nat) (s : Nets),
      (∀ θ ∈ θs, (s p.2 0).length ≤ θ.length) →
      (genRun (fun c s => DDPG.learn_nets (self_learn_counter := c) (self_policy_freq := pf) (self_tau := τ) s) (fun c => DDPG.learn_counter_after (self_learn_counter := c)) p.1 0 c θs s).1 = (runTargets pf τ c θs (s p.2 0)).1 ∧
      (genRun (fun c s => DDPG.learn_nets (self_learn_counter := c) (self_policy_freq := pf) (self_tau := τ) s) (fun c => DDPG.learn_counter_after (self_learn_counter := c)) p.1 0 c θs s).2 p.2 0 = (runTargets pf τ c θs (s p.2 0)).2 := by
  intro p hp
  have hne : p.1 ≠ p.2 := by
    simp only [List.mem_cons, List.mem_nil_iff, or_false, List.mem_singleton] at hp
    rcases hp with rfl | rfl <;> decide
  exact genRun_eq_runTargets pf τ _ _ p.1 p.2 0 hne (fun c => gen_ddpg_learn_counter_after_eq c)
    (fun c s h => (gen_ddpg_learn_nets_eq τ c pf s p hp).2 h)

/-- … with fixed online weights: `(c+n)/pf − c/pf` soft updates, closed form -/
theorem gen_ddpg_run_fixed (τ : Rat) (pf : Nat) :
    ∀ p ∈ [("actor", "actor_target"), ("critic", "critic_target")], ∀ (θ : List Rat) (n c : Nat) (s : Nets), θ.length = (s p.2 0).length →
      (genRun (fun c s => DDPG.learn_nets (self_learn_counter := c) (self_policy_freq := pf) (self_tau := τ) s) (fun c => DDPG.learn_counter_after (self_learn_counter := c)) p.1 0 c (List.replicate n θ) s).1 = c + n ∧
      (genRun (fun c s => DDPG.learn_nets (self_learn_counter := c) (self_policy_freq := pf) (self_tau := τ) s) (fun c => DDPG.learn_counter_after (self_learn_counter := c)) p.1 0 c (List.replicate n θ) s).2 p.2 0 =
        softN τ θ ((c + n) / pf - c / pf) (s p.2 0) ∧
      (genRun (fun c s => DDPG.learn_nets (self_learn_counter := c) (self_policy_freq := pf) (self_tau := τ) s) (fun c => DDPG.learn_counter_after (self_learn_counter := c)) p.1 0 c (List.replicate n θ) s).2 p.2 0 =
        closedN τ θ ((c + n) / pf - c / pf) (s p.2 0) := by
  intro p hp
  have hne : p.1 ≠ p.2 := by
    simp only [List.mem_cons, List.mem_nil_iff, or_false, List.mem_singleton] at hp
    rcases hp with rfl | rfl <;> decide
  exact genRun_fixed pf τ _ _ p.1 p.2 0 hne (fun c => gen_ddpg_learn_counter_after_eq c)
    (fun c s h => (gen_ddpg_learn_nets_eq τ c pf s p hp).2 h)


theorem gen_ddpg_target_eq (γ r d q' : Rat) :
    DDPG.target (self_gamma := γ) (reward := r) (done := d) (critic_target_of_actor_target_next_obs := q') = y r γ d q' := by
  simp only [DDPG.target, y]; ring1

theorem gen_ddpg_pred_eq (q : Rat) : DDPG.pred (critic_of_action_obs := q) = q := rfl


/-! ### TD3 -/

/-- the loop body reads the online entry and writes the blend into the target entry (either the online network is
    zipped first, as in today's source, or — the same loop written the other way round — second) -/
theorem gen_td3_soft_update_body_eq (τ : Rat) :
    (∀ e t, TD3.soft_update_body (self_tau := τ) e t = (e, τ * e + (1 - τ) * t)) ∨
    (∀ t e, TD3.soft_update_body (self_tau := τ) t e = (τ * e + (1 - τ) * t, e)) := by
  first
    | (left; intro e t; unfold TD3.soft_update_body; refine Prod.ext ?_ ?_ <;> dsimp only <;> ring1)
    | (right; intro t e; unfold TD3.soft_update_body; refine Prod.ext ?_ ?_ <;> dsimp only <;> ring1)

theorem gen_td3_soft_update_eq (τ : Rat) (θ θt : List Rat) :
    TD3.soft_update (self_tau := τ) θ θt = (θ, blendK τ θ θt) := by
  simp only [TD3.soft_update]
  first
    | (have hb : ∀ e t, TD3.soft_update_body (self_tau := τ) e t = (e, τ * e + (1 - τ) * t) := by
         intro e t; unfold TD3.soft_update_body; refine Prod.ext ?_ ?_ <;> dsimp only <;> ring1
       rw [zipLoop_blend τ _ hb])
    | (have hb : ∀ t e, TD3.soft_update_body (self_tau := τ) t e = (τ * e + (1 - τ) * t, e) := by
         intro t e; unfold TD3.soft_update_body; refine Prod.ext ?_ ?_ <;> dsimp only <;> ring1
       rw [zipLoop_blend_swap τ _ hb])

theorem gen_td3_soft_updates_eq (τ : Rat) (s : Nets) :
    TD3.soft_updates (self_tau := τ) s =
      ((s.put "actor_target" 0 (blendK τ (s "actor" 0) (s "actor_target" 0))).put "critic_target_1" 0 (blendK τ (s "critic_1" 0) (s "critic_target_1" 0))).put "critic_target_2" 0 (blendK τ (s "critic_2" 0) (s "critic_target_2" 0)) := by
  funext a j
  simp [TD3.soft_updates, gen_td3_soft_update_eq, Nets.put]
  try (split_ifs <;> simp_all)

theorem gen_td3_updates_on_eq (c pf : Nat) :
    TD3.updates_on (self_learn_counter := c) (self_policy_freq := pf) = fires pf c := by
  rw [Bool.eq_iff_iff]; simp [TD3.updates_on, fires]

theorem gen_td3_learn_counter_after_eq (c : Nat) : TD3.learn_counter_after (self_learn_counter := c) = c + 1 := by
  unfold TD3.learn_counter_after; omega

theorem gen_td3_learn_nets_eq (τ : Rat) (c : Nat) (pf : Nat) (s : Nets) :
    ∀ p ∈ [("actor", "actor_target"), ("critic_1", "critic_target_1"), ("critic_2", "critic_target_2")],
      TD3.learn_nets (self_learn_counter := c) (self_policy_freq := pf) (self_tau := τ) s p.1 0 = s p.1 0 ∧
      ((s p.2 0).length ≤ (s p.1 0).length →
        TD3.learn_nets (self_learn_counter := c) (self_policy_freq := pf) (self_tau := τ) s p.2 0 = (runTargets pf τ c [s p.1 0] (s p.2 0)).2) := by
  intro p hp
  simp only [List.mem_cons, List.mem_nil_iff, or_false, List.mem_singleton] at hp
  simp only [TD3.learn_nets, gen_td3_updates_on_eq, gen_td3_soft_updates_eq, runTargets_one]
  rcases hp with rfl | rfl | rfl <;>
    exact ⟨by split <;> simp [Nets.put], fun h => by split <;> simp [Nets.put, blendK_eq_blend τ _ _ h]⟩

/-- any number of consecutive `learn` steps of the generated code = `runTargets` of the model -/
theorem gen_td3_run_eq (τ : Rat) (pf : Nat) :
    ∀ p ∈ [("actor", "actor_target"), ("critic_1", "critic_target_1"), ("critic_2", "critic_target_2")], ∀ (θs : List (List Rat)) (c : Nat) (s : Nets),
      (∀ θ ∈ θs, (s p.2 0).length ≤ θ.length) →
      (genRun (fun c s => TD3.learn_nets (self_learn_counter := c) (self_policy_freq := pf) (self_tau := τ) s) (fun c => TD3.learn_counter_after (self_learn_counter := c)) p.1 0 c θs s).1 = (runTargets pf τ c θs (s p.2 0)).1 ∧
      (genRun (fun c s => TD3.learn_nets (self_learn_counter := c) (self_policy_freq := pf) (self_tau := τ) s) (fun c => TD3.learn_counter_after (self_learn_counter := c)) p.1 0 c θs s).2 p.2 0 = (runTargets pf τ c θs (s p.2 0)).2 := by
  intro p hp
  have hne : p.1 ≠ p.2 := by
    simp only [List.mem_cons, List.mem_nil_iff, or_false, List.mem_singleton] at hp
    rcases hp with rfl | rfl | rfl <;> decide
  exact genRun_eq_runTargets pf τ _ _ p.1 p.2 0 hne (fun c => gen_td3_learn_counter_after_eq c)
    (fun c s h => (gen_td3_learn_nets_eq τ c pf s p hp).2 h)

/-- … with fixed online weights: `(c+n)/pf − c/pf` soft updates, closed form -/
theorem gen_td3_run_fixed (τ : Rat) (pf : Nat) :
    ∀ p ∈ [("actor", "actor_target"), ("critic_1", "critic_target_1"), ("critic_2", "critic_target_2")], ∀ (θ : List Rat) (n c : Nat) (s : Nets), θ.length = (s p.2 0).length →
      (genRun (fun c s => TD3.learn_nets (self_learn_counter := c) (self_policy_freq := pf) (self_tau := τ) s) (fun c => TD3.learn_counter_after (self_learn_counter := c)) p.1 0 c (List.replicate n θ) s).1 = c + n ∧
      (genRun (fun c s => TD3.learn_nets (self_learn_counter := c) (self_policy_freq := pf) (self_tau := τ) s) (fun c => TD3.learn_counter_after (self_learn_counter := c)) p.1 0 c (List.replicate n θ) s).2 p.2 0 =
        softN τ θ ((c + n) / pf - c / pf) (s p.2 0) ∧
      (genRun (fun c s => TD3.learn_nets (self_learn_counter := c) (self_policy_freq := pf) (self_tau := τ) s) (fun c => TD3.learn_counter_after (self_learn_counter := c)) p.1 0 c (List.replicate n θ) s).2 p.2 0 =
        closedN τ θ ((c + n) / pf - c / pf) (s p.2 0) := by
  intro p hp
  have hne : p.1 ≠ p.2 := by
    simp only [List.mem_cons, List.mem_nil_iff, or_false, List.mem_singleton] at hp
    rcases hp with rfl | rfl | rfl <;> decide
  exact genRun_fixed pf τ _ _ p.1 p.2 0 hne (fun c => gen_td3_learn_counter_after_eq c)
    (fun c s h => (gen_td3_learn_nets_eq τ c pf s p hp).2 h)


theorem gen_td3_target_eq (γ r d n1 n2 : Rat) :
    TD3.target (self_gamma := γ) (reward := r) (done := d) (critic_target_1_of_actor_target_next_obs := n1) (critic_target_2_of_actor_target_next_obs := n2)
    = y r γ d (rmin n1 n2) := by
  simp only [TD3.target, y, gen_tmin_eq]; first | ring1 | (rw [rmin_comm n2 n1]; ring1)

theorem gen_td3_pred_eq (q1 q2 : Rat) :
    TD3.pred (critic_1_of_action_obs := q1) = q1 ∧ TD3.pred1 (critic_2_of_action_obs := q2) = q2 := ⟨rfl, rfl⟩


/-! ### MADDPG -/

/-- the loop body reads the online entry and writes the blend into the target entry (either the online network is
    zipped first, as in today's source, or — the same loop written the other way round — second) -/
theorem gen_maddpg_soft_update_body_eq (τ : Rat) :
    (∀ e t, MADDPG.soft_update_body (self_tau := τ) e t = (e, τ * e + (1 - τ) * t)) ∨
    (∀ t e, MADDPG.soft_update_body (self_tau := τ) t e = (τ * e + (1 - τ) * t, e)) := by
  first
    | (left; intro e t; unfold MADDPG.soft_update_body; refine Prod.ext ?_ ?_ <;> dsimp only <;> ring1)
    | (right; intro t e; unfold MADDPG.soft_update_body; refine Prod.ext ?_ ?_ <;> dsimp only <;> ring1)

theorem gen_maddpg_soft_update_eq (τ : Rat) (θ θt : List Rat) :
    MADDPG.soft_update (self_tau := τ) θ θt = (θ, blendK τ θ θt) := by
  simp only [MADDPG.soft_update]
  first
    | (have hb : ∀ e t, MADDPG.soft_update_body (self_tau := τ) e t = (e, τ * e + (1 - τ) * t) := by
         intro e t; unfold MADDPG.soft_update_body; refine Prod.ext ?_ ?_ <;> dsimp only <;> ring1
       rw [zipLoop_blend τ _ hb])
    | (have hb : ∀ t e, MADDPG.soft_update_body (self_tau := τ) t e = (τ * e + (1 - τ) * t, e) := by
         intro t e; unfold MADDPG.soft_update_body; refine Prod.ext ?_ ?_ <;> dsimp only <;> ring1
       rw [zipLoop_blend_swap τ _ hb])

/-- what one iteration of the loop over the agents leaves at agent `i`'s entries -/
def maddpgAt (τ : Rat) (s : Nets) (a : String) (i : Nat) : List Rat :=
  if a = "actor_targets" then blendK τ (s "actors" i) (s "actor_targets" i)
  else if a = "critic_targets" then blendK τ (s "critics" i) (s "critic_targets" i)
  else s a i

theorem gen_maddpg_soft_updates_at_eq (τ : Rat) (i : Nat) (s : Nets) (a : String) (j : Nat) :
    MADDPG.soft_updates_at (self_tau := τ) i s a j = if j = i then maddpgAt τ s a i else s a j := by
  simp [MADDPG.soft_updates_at, gen_maddpg_soft_update_eq, Nets.put, maddpgAt]
  try (split_ifs <;> simp_all)

/-- the loop over the agents: every agent `j < n_agents` gets its own blend, nothing else changes -/
theorem gen_maddpg_soft_updates_eq (τ : Rat) (n : Nat) (s : Nets) (a : String) (j : Nat) :
    MADDPG.soft_updates (self_tau := τ) (n_agents := n) s a j = if j < n then maddpgAt τ s a j else s a j := by
  simp only [MADDPG.soft_updates]
  exact foldl_range_pointwise (fun i s => MADDPG.soft_updates_at τ i s) (maddpgAt τ)
    (gen_maddpg_soft_updates_at_eq τ)
    (fun i s s' h a => by simp only [maddpgAt, h]) n s a j

theorem gen_maddpg_updates_on_eq (c : Nat) : MADDPG.updates_on = fires 1 c := by
  simp [MADDPG.updates_on, fires, Nat.mod_one]

theorem gen_maddpg_learn_nets_eq (τ : Rat) (c : Nat) (n : Nat) (s : Nets) (k : Nat) (hk : k < n) :
    ∀ p ∈ [("actors", "actor_targets"), ("critics", "critic_targets")],
      MADDPG.learn_nets (self_tau := τ) (n_agents := n) s p.1 k = s p.1 k ∧
      ((s p.2 k).length ≤ (s p.1 k).length →
        MADDPG.learn_nets (self_tau := τ) (n_agents := n) s p.2 k = (runTargets 1 τ c [s p.1 k] (s p.2 k)).2) := by
  intro p hp
  simp only [List.mem_cons, List.mem_nil_iff, or_false, List.mem_singleton] at hp
  simp only [MADDPG.learn_nets, gen_maddpg_updates_on_eq c, runTargets_one]
  rcases hp with rfl | rfl <;>
    exact ⟨by split <;> simp [gen_maddpg_soft_updates_eq, maddpgAt, hk],
      fun h => by split <;> simp [gen_maddpg_soft_updates_eq, maddpgAt, hk, blendK_eq_blend τ _ _ h]⟩

/-- any number of consecutive `learn` steps of the generated code = `runTargets` of the model, for every agent -/
theorem gen_maddpg_run_eq (τ : Rat) (n k : Nat) (hk : k < n) :
    ∀ p ∈ [("actors", "actor_targets"), ("critics", "critic_targets")], ∀ (θs : List (List Rat)) (c : Nat) (s : Nets),
      (∀ θ ∈ θs, (s p.2 k).length ≤ θ.length) →
      (genRun (fun c s => MADDPG.learn_nets (self_tau := τ) (n_agents := n) s) (fun c => c + 1) p.1 k c θs s).1 = (runTargets 1 τ c θs (s p.2 k)).1 ∧
      (genRun (fun c s => MADDPG.learn_nets (self_tau := τ) (n_agents := n) s) (fun c => c + 1) p.1 k c θs s).2 p.2 k = (runTargets 1 τ c θs (s p.2 k)).2 := by
  intro p hp
  have hne : p.1 ≠ p.2 := by
    simp only [List.mem_cons, List.mem_nil_iff, or_false, List.mem_singleton] at hp
    rcases hp with rfl | rfl <;> decide
  exact genRun_eq_runTargets 1 τ _ _ p.1 p.2 k hne (fun _ => rfl)
    (fun c s h => (gen_maddpg_learn_nets_eq τ c n s k hk p hp).2 h)

/-- … with fixed online weights: `(c+n)/pf − c/pf` soft updates, closed form -/
theorem gen_maddpg_run_fixed (τ : Rat) (n k : Nat) (hk : k < n) :
    ∀ p ∈ [("actors", "actor_targets"), ("critics", "critic_targets")], ∀ (θ : List Rat) (m c : Nat) (s : Nets), θ.length = (s p.2 k).length →
      (genRun (fun c s => MADDPG.learn_nets (self_tau := τ) (n_agents := n) s) (fun c => c + 1) p.1 k c (List.replicate m θ) s).1 = c + m ∧
      (genRun (fun c s => MADDPG.learn_nets (self_tau := τ) (n_agents := n) s) (fun c => c + 1) p.1 k c (List.replicate m θ) s).2 p.2 k =
        softN τ θ ((c + m) / 1 - c / 1) (s p.2 k) ∧
      (genRun (fun c s => MADDPG.learn_nets (self_tau := τ) (n_agents := n) s) (fun c => c + 1) p.1 k c (List.replicate m θ) s).2 p.2 k =
        closedN τ θ ((c + m) / 1 - c / 1) (s p.2 k) := by
  intro p hp
  have hne : p.1 ≠ p.2 := by
    simp only [List.mem_cons, List.mem_nil_iff, or_false, List.mem_singleton] at hp
    rcases hp with rfl | rfl <;> decide
  exact genRun_fixed 1 τ _ _ p.1 p.2 k hne (fun _ => rfl)
    (fun c s h => (gen_maddpg_learn_nets_eq τ c n s k hk p hp).2 h)


theorem gen_maddpg_target_eq (γ r d q' : Rat) :
    MADDPG.target (self_gamma := γ) (reward_i := r) (done_i := d) (critic_targets_i_of_actor_targets_next_obs := q') = y r γ d q' := by
  simp only [MADDPG.target, y]; ring1

theorem gen_maddpg_pred_eq (q : Rat) : MADDPG.pred (critics_i_of_action_obs := q) = q := rfl


/-! ### MATD3 -/

/-- the loop body reads the online entry and writes the blend into the target entry (either the online network is
    zipped first, as in today's source, or — the same loop written the other way round — second) -/
theorem gen_matd3_soft_update_body_eq (τ : Rat) :
    (∀ e t, MATD3.soft_update_body (self_tau := τ) e t = (e, τ * e + (1 - τ) * t)) ∨
    (∀ t e, MATD3.soft_update_body (self_tau := τ) t e = (τ * e + (1 - τ) * t, e)) := by
  first
    | (left; intro e t; unfold MATD3.soft_update_body; refine Prod.ext ?_ ?_ <;> dsimp only <;> ring1)
    | (right; intro t e; unfold MATD3.soft_update_body; refine Prod.ext ?_ ?_ <;> dsimp only <;> ring1)

theorem gen_matd3_soft_update_eq (τ : Rat) (θ θt : List Rat) :
    MATD3.soft_update (self_tau := τ) θ θt = (θ, blendK τ θ θt) := by
  simp only [MATD3.soft_update]
  first
    | (have hb : ∀ e t, MATD3.soft_update_body (self_tau := τ) e t = (e, τ * e + (1 - τ) * t) := by
         intro e t; unfold MATD3.soft_update_body; refine Prod.ext ?_ ?_ <;> dsimp only <;> ring1
       rw [zipLoop_blend τ _ hb])
    | (have hb : ∀ t e, MATD3.soft_update_body (self_tau := τ) t e = (τ * e + (1 - τ) * t, e) := by
         intro t e; unfold MATD3.soft_update_body; refine Prod.ext ?_ ?_ <;> dsimp only <;> ring1
       rw [zipLoop_blend_swap τ _ hb])

/-- what one iteration of the loop over the agents leaves at agent `i`'s entries -/
def matd3At (τ : Rat) (s : Nets) (a : String) (i : Nat) : List Rat :=
  if a = "actor_targets" then blendK τ (s "actors" i) (s "actor_targets" i)
  else if a = "critic_targets_1" then blendK τ (s "critics_1" i) (s "critic_targets_1" i)
  else if a = "critic_targets_2" then blendK τ (s "critics_2" i) (s "critic_targets_2" i)
  else s a i

theorem gen_matd3_soft_updates_at_eq (τ : Rat) (i : Nat) (s : Nets) (a : String) (j : Nat) :
    MATD3.soft_updates_at (self_tau := τ) i s a j = if j = i then matd3At τ s a i else s a j := by
  simp [MATD3.soft_updates_at, gen_matd3_soft_update_eq, Nets.put, matd3At]
  try (split_ifs <;> simp_all)

/-- the loop over the agents: every agent `j < n_agents` gets its own blend, nothing else changes -/
theorem gen_matd3_soft_updates_eq (τ : Rat) (n : Nat) (s : Nets) (a : String) (j : Nat) :
    MATD3.soft_updates (self_tau := τ) (n_agents := n) s a j = if j < n then matd3At τ s a j else s a j := by
  simp only [MATD3.soft_updates]
  exact foldl_range_pointwise (fun i s => MATD3.soft_updates_at τ i s) (matd3At τ)
    (gen_matd3_soft_updates_at_eq τ)
    (fun i s s' h a => by simp only [matd3At, h]) n s a j

/-- the condition reads the counter of the LAST agent of `agent_ids` (the loop variable left behind by the loop that
    ran the per-agent learn steps), after that loop has incremented it -/
theorem gen_matd3_updates_on_eq (c pf : Nat) :
    MATD3.updates_on (self_learn_counter_last := c) (self_policy_freq := pf) = fires pf c := by
  rw [Bool.eq_iff_iff]; simp [MATD3.updates_on, fires]

theorem gen_matd3_learn_counter_after_eq (c : Nat) : MATD3.learn_counter_after (self_learn_counter_i := c) = c + 1 := by
  unfold MATD3.learn_counter_after; omega

theorem gen_matd3_learn_nets_eq (τ : Rat) (c : Nat) (pf : Nat) (n : Nat) (s : Nets) (k : Nat) (hk : k < n) :
    ∀ p ∈ [("actors", "actor_targets"), ("critics_1", "critic_targets_1"), ("critics_2", "critic_targets_2")],
      MATD3.learn_nets (self_learn_counter_last := c) (self_policy_freq := pf) (self_tau := τ) (n_agents := n) s p.1 k = s p.1 k ∧
      ((s p.2 k).length ≤ (s p.1 k).length →
        MATD3.learn_nets (self_learn_counter_last := c) (self_policy_freq := pf) (self_tau := τ) (n_agents := n) s p.2 k = (runTargets pf τ c [s p.1 k] (s p.2 k)).2) := by
  intro p hp
  simp only [List.mem_cons, List.mem_nil_iff, or_false, List.mem_singleton] at hp
  simp only [MATD3.learn_nets, gen_matd3_updates_on_eq, runTargets_one]
  rcases hp with rfl | rfl | rfl <;>
    exact ⟨by split <;> simp [gen_matd3_soft_updates_eq, matd3At, hk],
      fun h => by split <;> simp [gen_matd3_soft_updates_eq, matd3At, hk, blendK_eq_blend τ _ _ h]⟩

/-- any number of consecutive `learn` steps of the generated code = `runTargets` of the model, for every agent -/
theorem gen_matd3_run_eq (τ : Rat) (pf : Nat) (n k : Nat) (hk : k < n) :
    ∀ p ∈ [("actors", "actor_targets"), ("critics_1", "critic_targets_1"), ("critics_2", "critic_targets_2")], ∀ (θs : List (List Rat)) (c : Nat) (s : Nets),
      (∀ θ ∈ θs, (s p.2 k).length ≤ θ.length) →
      (genRun (fun c s => MATD3.learn_nets (self_learn_counter_last := c) (self_policy_freq := pf) (self_tau := τ) (n_agents := n) s) (fun c => MATD3.learn_counter_after (self_learn_counter_i := c)) p.1 k c θs s).1 = (runTargets pf τ c θs (s p.2 k)).1 ∧
      (genRun (fun c s => MATD3.learn_nets (self_learn_counter_last := c) (self_policy_freq := pf) (self_tau := τ) (n_agents := n) s) (fun c => MATD3.learn_counter_after (self_learn_counter_i := c)) p.1 k c θs s).2 p.2 k = (runTargets pf τ c θs (s p.2 k)).2 := by
  intro p hp
  have hne : p.1 ≠ p.2 := by
    simp only [List.mem_cons, List.mem_nil_iff, or_false, List.mem_singleton] at hp
    rcases hp with rfl | rfl | rfl <;> decide
  exact genRun_eq_runTargets pf τ _ _ p.1 p.2 k hne (fun c => gen_matd3_learn_counter_after_eq c)
    (fun c s h => (gen_matd3_learn_nets_eq τ c pf n s k hk p hp).2 h)

/-- … with fixed online weights: `(c+n)/pf − c/pf` soft updates, closed form -/
theorem gen_matd3_run_fixed (τ : Rat) (pf : Nat) (n k : Nat) (hk : k < n) :
    ∀ p ∈ [("actors", "actor_targets"), ("critics_1", "critic_targets_1"), ("critics_2", "critic_targets_2")], ∀ (θ : List Rat) (m c : Nat) (s : Nets), θ.length = (s p.2 k).length →
      (genRun (fun c s => MATD3.learn_nets (self_learn_counter_last := c) (self_policy_freq := pf) (self_tau := τ) (n_agents := n) s) (fun c => MATD3.learn_counter_after (self_learn_counter_i := c)) p.1 k c (List.replicate m θ) s).1 = c + m ∧
      (genRun (fun c s => MATD3.learn_nets (self_learn_counter_last := c) (self_policy_freq := pf) (self_tau := τ) (n_agents := n) s) (fun c => MATD3.learn_counter_after (self_learn_counter_i := c)) p.1 k c (List.replicate m θ) s).2 p.2 k =
        softN τ θ ((c + m) / pf - c / pf) (s p.2 k) ∧
      (genRun (fun c s => MATD3.learn_nets (self_learn_counter_last := c) (self_policy_freq := pf) (self_tau := τ) (n_agents := n) s) (fun c => MATD3.learn_counter_after (self_learn_counter_i := c)) p.1 k c (List.replicate m θ) s).2 p.2 k =
        closedN τ θ ((c + m) / pf - c / pf) (s p.2 k) := by
  intro p hp
  have hne : p.1 ≠ p.2 := by
    simp only [List.mem_cons, List.mem_nil_iff, or_false, List.mem_singleton] at hp
    rcases hp with rfl | rfl | rfl <;> decide
  exact genRun_fixed pf τ _ _ p.1 p.2 k hne (fun c => gen_matd3_learn_counter_after_eq c)
    (fun c s h => (gen_matd3_learn_nets_eq τ c pf n s k hk p hp).2 h)


theorem gen_matd3_target_eq (γ r d n1 n2 : Rat) :
    MATD3.target (self_gamma := γ) (reward_i := r) (done_i := d) (critic_targets_1_i_of_actor_targets_next_obs := n1) (critic_targets_2_i_of_actor_targets_next_obs := n2)
    = y r γ d (rmin n1 n2) := by
  simp only [MATD3.target, y, gen_tmin_eq]; first | ring1 | (rw [rmin_comm n2 n1]; ring1)

theorem gen_matd3_pred_eq (q1 q2 : Rat) :
    MATD3.pred (critics_1_i_of_action_obs := q1) = q1 ∧ MATD3.pred1 (critics_2_i_of_action_obs := q2) = q2 := ⟨rfl, rfl⟩


/-! ### the invariants are satisfiable: concrete weights, counters and rows -/

example : (DDPG.soft_update (1/4) [1, 2] [5, 6]) = ([1, 2], [4, 5]) := by decide +kernel
example : DDPG.updates_on 2 3 = true ∧ DDPG.updates_on 3 3 = false := by decide +kernel
example : DQN.target true (1/2) 0 1 [2, 3] [9, 1] = 3/2 ∧ DQN.target false (1/2) 0 1 [2, 3] [9, 1] = 11/2 := by decide +kernel
example : TD3.target 1 1 7 5 3 = 7 ∧ TD3.target 1 0 7 5 3 = 10 := by decide +kernel
example : (MADDPG.soft_updates (1/2) 2 (fun a _ => if a = "actors" then [8] else [0])) "actor_targets" 1 = [4] := by
  decide +kernel

end Bellman
