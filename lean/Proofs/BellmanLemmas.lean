import Mathlib.Tactic.Ring
import Mathlib.Tactic.Linarith
import Model.Bellman

/-!
# Helper lemmas for C08 (selectors, mean-squared error, soft update, delay schedule)
-/
namespace Bellman

/-! ### selectors -/

theorem le_rmax_left (a b : Rat) : a ≤ rmax a b := by
  unfold rmax; split
  · assumption
  · exact le_refl a

theorem le_rmax_right (a b : Rat) : b ≤ rmax a b := by
  unfold rmax; split
  · exact le_refl b
  · rename_i h; exact le_of_lt (not_le.mp h)

theorem rmax_eq_or (a b : Rat) : rmax a b = a ∨ rmax a b = b := by
  unfold rmax; split
  · exact Or.inr rfl
  · exact Or.inl rfl

theorem rmin_le_left (a b : Rat) : rmin a b ≤ a := by
  unfold rmin; split
  · exact le_refl a
  · rename_i h; exact le_of_lt (not_le.mp h)

theorem rmin_le_right (a b : Rat) : rmin a b ≤ b := by
  unfold rmin; split
  · assumption
  · exact le_refl b

theorem rmin_eq_or (a b : Rat) : rmin a b = a ∨ rmin a b = b := by
  unfold rmin; split
  · exact Or.inl rfl
  · exact Or.inr rfl

theorem maxL_mem : ∀ (l : List Rat), l ≠ [] → maxL l ∈ l
  | [], h => absurd rfl h
  | [x], _ => by simp [maxL]
  | x :: y :: r, _ => by
    have ih := maxL_mem (y :: r) (by simp)
    rcases rmax_eq_or x (maxL (y :: r)) with h | h
    · simp only [maxL, h]; exact List.mem_cons_self
    · simp only [maxL, h]; exact List.mem_cons_of_mem _ ih

theorem le_maxL : ∀ (l : List Rat) (x : Rat), x ∈ l → x ≤ maxL l
  | [], _, h => by simp at h
  | [a], x, h => by simp at h; simp [maxL, h]
  | a :: b :: r, x, h => by
    simp only [maxL]
    rcases List.mem_cons.mp h with rfl | h'
    · exact le_rmax_left _ _
    · exact le_trans (le_maxL (b :: r) x h') (le_rmax_right _ _)

theorem argmaxL_lt : ∀ (l : List Rat), l ≠ [] → argmaxL l < l.length
  | [], h => absurd rfl h
  | [_], _ => by simp [argmaxL]
  | x :: y :: r, _ => by
    have ih := argmaxL_lt (y :: r) (by simp)
    simp only [argmaxL]
    split
    · simp
    · simp only [List.length_cons] at ih ⊢; omega

/-- the value found at the arg-max index is the maximum -/
theorem gather_argmaxL : ∀ (l : List Rat), l ≠ [] → gather l (argmaxL l) = maxL l
  | [], h => absurd rfl h
  | [x], _ => by simp [gather, argmaxL, maxL]
  | x :: y :: r, _ => by
    have ih := gather_argmaxL (y :: r) (by simp)
    simp only [argmaxL, maxL]
    split
    · rename_i h
      simp only [gather, List.getD_cons_zero]
      unfold rmax
      split
      · rename_i h2; exact le_antisymm h2 h
      · rfl
    · rename_i h
      have : gather (x :: y :: r) (argmaxL (y :: r) + 1) = gather (y :: r) (argmaxL (y :: r)) := by
        simp [gather]
      rw [this, ih]
      unfold rmax
      split
      · rfl
      · rename_i h2; exact absurd (le_of_lt (not_le.mp h2)) h

/-- ties go to the first index: everything strictly before the arg-max is strictly smaller -/
theorem before_argmaxL_lt : ∀ (l : List Rat) (j : Nat), j < argmaxL l → gather l j < maxL l
  | [], j, h => by simp [argmaxL] at h
  | [_], j, h => by simp [argmaxL] at h
  | x :: y :: r, j, h => by
    simp only [argmaxL] at h
    split at h
    · omega
    · rename_i hx
      have hx' : x < maxL (y :: r) := not_le.mp hx
      have hm : maxL (x :: y :: r) = maxL (y :: r) := by
        simp only [maxL]; unfold rmax; split
        · rfl
        · rename_i h2; exact absurd (le_of_lt hx') h2
      rw [hm]
      cases j with
      | zero => simpa [gather] using hx'
      | succ j =>
        have := before_argmaxL_lt (y :: r) j (by omega)
        simpa [gather] using this

/-! ### mean squared error -/

theorem mse_map {α} (f g : α → Rat) (rows : List α) :
    mse (rows.map f) (rows.map g) =
      (rows.map (fun t => (f t - g t) * (f t - g t))).sum / (rows.length : Rat) := by
  unfold mse
  rw [List.zipWith_map, List.length_map]
  congr 2
  induction rows with
  | nil => rfl
  | cons a r ih => simp only [List.zipWith_cons_cons, List.map_cons, ih]

/-- row-wise related batches with equal per-row terms have equal sums -/
theorem sum_map_congr_forall₂ {α} (R : α → α → Prop) (f : α → Rat)
    (hf : ∀ a b, R a b → f a = f b) :
    ∀ (as bs : List α), List.Forall₂ R as bs → (as.map f).sum = (bs.map f).sum
  | _, _, .nil => rfl
  | _, _, .cons h t => by
    simp only [List.map_cons, List.sum_cons]
    rw [hf _ _ h, sum_map_congr_forall₂ R f hf _ _ t]

theorem map_congr_forall₂ {α β} (R : α → α → Prop) (f : α → β)
    (hf : ∀ a b, R a b → f a = f b) :
    ∀ (as bs : List α), List.Forall₂ R as bs → as.map f = bs.map f
  | _, _, .nil => rfl
  | _, _, .cons h t => by
    simp only [List.map_cons]
    rw [hf _ _ h, map_congr_forall₂ R f hf _ _ t]

/-! ### soft update -/

theorem blend_length (τ : Rat) (θ θt : List Rat) :
    (blend τ θ θt).length = min θ.length θt.length := by
  simp [blend]

theorem blend_getElem? (τ : Rat) (θ θt : List Rat) (i : Nat) (e t : Rat)
    (he : θ[i]? = some e) (ht : θt[i]? = some t) :
    (blend τ θ θt)[i]? = some (τ * e + (1 - τ) * t) := by
  simp [blend, List.getElem?_zipWith, he, ht]

theorem closedN_zero (τ : Rat) : ∀ (θ θt : List Rat), θ.length = θt.length → closedN τ θ 0 θt = θt
  | [], [], _ => rfl
  | [], _ :: _, h => by simp at h
  | _ :: _, [], h => by simp at h
  | e :: θ, t :: θt, h => by
    have ih := closedN_zero τ θ θt (by simpa using h)
    unfold closedN at ih ⊢
    simp only [List.zipWith_cons_cons, ih]
    congr 1
    ring

theorem blend_closedN (τ : Rat) (n : Nat) : ∀ (θ θt : List Rat),
    blend τ θ (closedN τ θ n θt) = closedN τ θ (n + 1) θt
  | [], _ => by simp [blend, closedN]
  | _ :: _, [] => by simp [blend, closedN]
  | e :: θ, t :: θt => by
    have ih := blend_closedN τ n θ θt
    unfold blend closedN at ih ⊢
    simp only [List.zipWith_cons_cons, ih]
    congr 1
    ring

theorem softN_eq_closedN (τ : Rat) (θ θt : List Rat) (h : θ.length = θt.length) :
    ∀ n, softN τ θ n θt = closedN τ θ n θt
  | 0 => by rw [closedN_zero τ θ θt h]; rfl
  | n + 1 => by
    show blend τ θ (softN τ θ n θt) = _
    rw [softN_eq_closedN τ θ θt h n, blend_closedN]

theorem softN_blend_comm (τ : Rat) (θ : List Rat) : ∀ (n : Nat) (t : List Rat),
    softN τ θ n (blend τ θ t) = blend τ θ (softN τ θ n t)
  | 0, _ => rfl
  | n + 1, t => by
    show blend τ θ (softN τ θ n (blend τ θ t)) = blend τ θ (blend τ θ (softN τ θ n t))
    rw [softN_blend_comm τ θ n t]

theorem softN_succ_blend (τ : Rat) (θ : List Rat) (n : Nat) (t : List Rat) :
    softN τ θ n (blend τ θ t) = softN τ θ (n + 1) t := softN_blend_comm τ θ n t

theorem blend_one : ∀ (θ θt : List Rat), θ.length = θt.length → blend 1 θ θt = θ
  | [], [], _ => rfl
  | [], _ :: _, h => by simp at h
  | _ :: _, [], h => by simp at h
  | e :: θ, t :: θt, h => by
    have ih := blend_one θ θt (by simpa using h)
    unfold blend at ih ⊢
    simp only [List.zipWith_cons_cons, ih]
    congr 1
    ring

theorem closedN_getElem? (τ : Rat) (θ θt : List Rat) (n i : Nat) (e t : Rat)
    (he : θ[i]? = some e) (ht : θt[i]? = some t) :
    (closedN τ θ n θt)[i]? = some (e + (1 - τ) ^ n * (t - e)) := by
  simp [closedN, List.getElem?_zipWith, he, ht]

/-! ### "the same batch except for the next-state values of rows marked done" -/

def QRow.SameButDoneNext (a b : QRow) : Prop :=
  a.r = b.r ∧ a.d = b.d ∧ a.q = b.q ∧ (a.d ≠ 1 → a.nextOn = b.nextOn ∧ a.nextTg = b.nextTg)

def CRow.SameButDoneNext (a b : CRow) : Prop :=
  a.r = b.r ∧ a.d = b.d ∧ a.q = b.q ∧ (a.d ≠ 1 → a.q' = b.q')

def TRow.SameButDoneNext (a b : TRow) : Prop :=
  a.r = b.r ∧ a.d = b.d ∧ a.q1 = b.q1 ∧ a.q2 = b.q2 ∧ (a.d ≠ 1 → a.n1 = b.n1 ∧ a.n2 = b.n2)

theorem y_done (r γ q' : Rat) : y r γ 1 q' = r := by unfold y; ring

/-- the target of a row does not change when only its next-value changes and the row is done -/
theorem y_congr_done (r γ d q1 q2 : Rat) (h : d ≠ 1 → q1 = q2) : y r γ d q1 = y r γ d q2 := by
  by_cases hd : d = 1
  · subst hd; rw [y_done, y_done]
  · rw [h hd]

/-! ### delay schedule -/

theorem fires_iff (pf c : Nat) : fires pf c = true ↔ (c + 1) % pf = 0 := by
  simp [fires]

theorem runTargets_counter (pf : Nat) (τ : Rat) : ∀ (θs : List (List Rat)) (c : Nat) (t : List Rat),
    (runTargets pf τ c θs t).1 = c + θs.length
  | [], c, t => by simp [runTargets]
  | θ :: rest, c, t => by
    simp only [runTargets, List.length_cons]
    rw [runTargets_counter pf τ rest]
    omega

theorem succ_div_fires (pf c : Nat) :
    (c + 1) / pf = c / pf + (if fires pf c then 1 else 0) := by
  rw [Nat.succ_div]
  congr 1
  simp only [fires, beq_iff_eq, Nat.dvd_iff_mod_eq_zero]

theorem runTargets_fixed (pf : Nat) (τ : Rat) (θ : List Rat) : ∀ (n c : Nat) (t : List Rat),
    (runTargets pf τ c (List.replicate n θ) t).2 = softN τ θ ((c + n) / pf - c / pf) t
  | 0, c, t => by simp [runTargets, softN]
  | n + 1, c, t => by
    simp only [List.replicate_succ, runTargets]
    rw [runTargets_fixed pf τ θ n (c + 1)]
    have hmono : (c + 1) / pf ≤ (c + 1 + n) / pf := Nat.div_le_div_right (by omega)
    have hs := succ_div_fires pf c
    have e1 : c + (n + 1) = c + 1 + n := by omega
    rw [e1]
    generalize (c + 1 + n) / pf = A at *
    generalize (c + 1) / pf = B at *
    generalize c / pf = C at *
    cases hf : fires pf c
    · simp only [hf] at hs ⊢
      have : B = C := by simpa using hs
      subst this; rfl
    · simp only [hf, if_true] at hs ⊢
      rw [softN_succ_blend]
      congr 1
      omega

end Bellman
