import Gen.BellmanShapeGen
import Model.Bellman

/-!
  Proofs/BellmanShapeGenEq.lean — the shape definitions `harness/py2lean_bellmanshape.py` generates from the source of
  DQN, CQN, DDPG, TD3, MADDPG, MATD3 (`Gen/BellmanShapeGen.lean`) equal the hand model of `Model/Bellman.lean`:

    the shape operations (bcast, sReduce, sUnsqueeze, sSqueeze, sSqueezeAll, sView, sGather, sAll, sNdim) = the model's
    L.target_shape …    = tdTargetShape reward done q'      for ALL shapes of the batch fields and network outputs, with
                          q' = maxNextShape / doubleNextShape (DQN, CQN), the target critic's output (DDPG, MADDPG),
                          the broadcast of the twin target critics' outputs (TD3, MATD3)
    L.loss_elem_shape … = tdLossShape pred reward done q'
  The proofs remove the 0-d operands (`bcast scalarS s = s`) and use commutativity of `bcast`; they absorb commuted
  operands (`bcast_comm` as an ordered rewrite), renamed locals and a different placement of `gamma`; a dropped `unsqueeze`, another axis, a `squeeze()` leave a false goal.
-/
set_option linter.unusedSimpArgs false

namespace Bellman
open BellmanShapeGen

theorem gen_bcastRev_eq : ∀ s t, BellmanShapeGen.bcastRev s t = Bellman.bcastRev s t
  | [], _ => by simp [BellmanShapeGen.bcastRev, Bellman.bcastRev]
  | _ :: _, [] => by simp [BellmanShapeGen.bcastRev, Bellman.bcastRev]
  | a :: as, b :: bs => by
    simp only [BellmanShapeGen.bcastRev, Bellman.bcastRev, gen_bcastRev_eq as bs]; rfl

theorem gen_bcast_eq (s t) : BellmanShapeGen.bcast s t = Bellman.bcast s t := by
  cases s <;> cases t <;> simp [BellmanShapeGen.bcast, Bellman.bcast, gen_bcastRev_eq]

theorem gen_scalarS_eq : BellmanShapeGen.scalarS = Bellman.scalarS := rfl

theorem gen_normDim_eq (n d) : BellmanShapeGen.normDim n d = Bellman.normDim n d := rfl

theorem gen_eraseAt_eq : ∀ s k, BellmanShapeGen.eraseAt s k = Bellman.eraseAt s k
  | [], _ => by simp [BellmanShapeGen.eraseAt, Bellman.eraseAt]
  | _ :: _, 0 => by simp [BellmanShapeGen.eraseAt, Bellman.eraseAt]
  | a :: r, k + 1 => by simp [BellmanShapeGen.eraseAt, Bellman.eraseAt, gen_eraseAt_eq r k]

theorem gen_insertAt_eq : ∀ s k v, BellmanShapeGen.insertAt s k v = Bellman.insertAt s k v
  | _, 0, _ => by simp [BellmanShapeGen.insertAt, Bellman.insertAt]
  | [], _ + 1, _ => by simp [BellmanShapeGen.insertAt, Bellman.insertAt]
  | a :: r, k + 1, v => by simp [BellmanShapeGen.insertAt, Bellman.insertAt, gen_insertAt_eq r k v]

theorem gen_setAt_eq : ∀ s k v, BellmanShapeGen.setAt s k v = Bellman.setAt s k v
  | [], _, _ => by simp [BellmanShapeGen.setAt, Bellman.setAt]
  | _ :: _, 0, _ => by simp [BellmanShapeGen.setAt, Bellman.setAt]
  | a :: r, k + 1, v => by simp [BellmanShapeGen.setAt, Bellman.setAt, gen_setAt_eq r k v]

theorem gen_sReduce_eq (d k s) : BellmanShapeGen.sReduce d k s = Bellman.sReduce d k s := by
  cases s <;> simp only [BellmanShapeGen.sReduce, Bellman.sReduce, gen_normDim_eq, gen_eraseAt_eq, gen_setAt_eq]
  split <;> simp_all

theorem gen_sUnsqueeze_eq (d s) : BellmanShapeGen.sUnsqueeze d s = Bellman.sUnsqueeze d s := by
  cases s <;> simp only [BellmanShapeGen.sUnsqueeze, Bellman.sUnsqueeze, gen_normDim_eq, gen_insertAt_eq]

theorem gen_sSqueeze_eq (d s) : BellmanShapeGen.sSqueeze d s = Bellman.sSqueeze d s := by
  cases s <;> simp only [BellmanShapeGen.sSqueeze, Bellman.sSqueeze, gen_normDim_eq, gen_eraseAt_eq]

theorem gen_sSqueezeAll_eq (s) : BellmanShapeGen.sSqueezeAll s = Bellman.sSqueezeAll s := by
  cases s <;> rfl

theorem gen_numel_eq (s) : BellmanShapeGen.numel s = Bellman.numel s := rfl

theorem gen_sView_eq (n s) : BellmanShapeGen.sView n s = Bellman.sView n s := by
  cases s <;> rfl

theorem gen_gatherFits_eq : ∀ k s i j, BellmanShapeGen.gatherFits k s i j = Bellman.gatherFits k s i j
  | _, [], [], _ => by simp [BellmanShapeGen.gatherFits, Bellman.gatherFits]
  | _, [], _ :: _, _ => by simp [BellmanShapeGen.gatherFits, Bellman.gatherFits]
  | _, _ :: _, [], _ => by simp [BellmanShapeGen.gatherFits, Bellman.gatherFits]
  | k, a :: as, b :: bs, j => by
    simp [BellmanShapeGen.gatherFits, Bellman.gatherFits, gen_gatherFits_eq k as bs (j + 1)]

theorem gen_sGather_eq (d s i) : BellmanShapeGen.sGather d s i = Bellman.sGather d s i := by
  cases s <;> cases i <;>
    simp only [BellmanShapeGen.sGather, Bellman.sGather, gen_normDim_eq, gen_gatherFits_eq]
  split <;> simp_all

theorem gen_sAll_eq (s) : BellmanShapeGen.sAll s = Bellman.sAll s := by cases s <;> rfl
theorem gen_sNdim_eq (s) : BellmanShapeGen.sNdim s = Bellman.sNdim s := by cases s <;> rfl

/-! ### laws of broadcasting used to normalise the generated expressions -/

theorem bdim_comm (a b : Nat) : bdim a b = bdim b a := by
  unfold bdim
  by_cases h : a = b
  · subst h; rfl
  · have h' : ¬ b = a := fun e => h e.symm
    by_cases ha : a = 1 <;> by_cases hb : b = 1 <;> simp_all

theorem bcastRev_nil_right : ∀ s : Shape, bcastRev s [] = some s
  | [] => rfl
  | _ :: _ => rfl

theorem bcastRev_comm : ∀ s t : Shape, bcastRev s t = bcastRev t s
  | [], t => by rw [bcastRev_nil_right]; rfl
  | a :: as, [] => by rw [bcastRev_nil_right]; rfl
  | a :: as, b :: bs => by
    simp only [bcastRev, bdim_comm a b, bcastRev_comm as bs]

theorem bcast_comm (s t : Option Shape) : bcast s t = bcast t s := by
  cases s <;> cases t <;> simp [bcast, bcastRev_comm]

theorem bcast_scalar_left (s : Option Shape) : bcast scalarS s = s := by
  cases s <;> simp [bcast, scalarS, bcastRev]

theorem bcast_scalar_right (s : Option Shape) : bcast s scalarS = s := by
  rw [bcast_comm, bcast_scalar_left]

/-! ### the generated shapes are the hand model's, for all input shapes -/

theorem gen_dqn_target_shape_eq (dbl : Bool) (action reward done on tg : Shape) :
    DQN.target_shape (self_double := dbl) (action := action) (reward := reward) (done := done)
      (actor_out := on) (actor_target_out := tg)
      = tdTargetShape (some reward) (some done)
          (if dbl then doubleNextShape (some on) (some tg) else maxNextShape (some tg)) := by
  cases dbl <;>
    simp only [DQN.target_shape, gen_bcast_eq, gen_scalarS_eq, gen_sGather_eq, gen_sUnsqueeze_eq, gen_sReduce_eq,
      bcast_scalar_left, bcast_scalar_right, tdTargetShape, doubleNextShape, maxNextShape, if_true, if_false,
      Bool.false_eq_true, bcast_comm]

theorem gen_cqn_target_shape_eq (dbl : Bool) (action reward done on tg : Shape) :
    CQN.target_shape (self_double := dbl) (action := action) (reward := reward) (done := done)
      (actor_out := on) (actor_target_out := tg)
      = tdTargetShape (some reward) (some done)
          (if dbl then doubleNextShape (some on) (some tg) else maxNextShape (some tg)) := by
  cases dbl <;>
    simp only [CQN.target_shape, gen_bcast_eq, gen_scalarS_eq, gen_sGather_eq, gen_sUnsqueeze_eq, gen_sReduce_eq,
      bcast_scalar_left, bcast_scalar_right, tdTargetShape, doubleNextShape, maxNextShape, if_true, if_false,
      Bool.false_eq_true, bcast_comm]

/-- DQN: `if actions.ndim == 1: actions = actions.unsqueeze(-1)` then `gather(1, ·)` -/
theorem gen_dqn_pred_shape_eq (dbl : Bool) (action reward done on tg : Shape) :
    DQN.pred_shape (self_double := dbl) (action := action) (reward := reward) (done := done)
      (actor_out := on) (actor_target_out := tg)
      = sGather 1 (some on) (if action.length = 1 then sUnsqueeze (-1) (some action) else some action) := by
  simp only [DQN.pred_shape, gen_sGather_eq, gen_sUnsqueeze_eq, gen_sNdim_eq, sNdim, decide_eq_true_eq]

theorem gen_cqn_pred_shape_eq (dbl : Bool) (action reward done on tg : Shape) :
    CQN.pred_shape (self_double := dbl) (action := action) (reward := reward) (done := done)
      (actor_out := on) (actor_target_out := tg) = sGather 1 (some on) (some action) := by
  simp only [CQN.pred_shape, gen_sGather_eq]

theorem gen_ddpg_shapes_eq (reward done q q' : Shape) :
    DDPG.target_shape (reward := reward) (done := done) (critic_out := q) (critic_target_out := q')
      = tdTargetShape (some reward) (some done) (some q') ∧
    DDPG.pred_shape (reward := reward) (done := done) (critic_out := q) (critic_target_out := q') = some q := by
  refine ⟨?_, rfl⟩
  simp only [DDPG.target_shape, gen_bcast_eq, gen_scalarS_eq, bcast_scalar_left, bcast_scalar_right, tdTargetShape,
    bcast_comm]

theorem gen_maddpg_shapes_eq (reward done q q' : Shape) :
    MADDPG.target_shape (reward := reward) (done := done) (critics_out := q) (critic_targets_out := q')
      = tdTargetShape (some reward) (some done) (some q') ∧
    MADDPG.pred_shape (reward := reward) (done := done) (critics_out := q) (critic_targets_out := q') = some q := by
  refine ⟨?_, rfl⟩
  simp only [MADDPG.target_shape, gen_bcast_eq, gen_scalarS_eq, bcast_scalar_left, bcast_scalar_right, tdTargetShape,
    bcast_comm]

theorem gen_td3_shapes_eq (reward done q1 q2 n1 n2 : Shape) :
    TD3.target_shape (reward := reward) (done := done) (critic_1_out := q1) (critic_target_1_out := n1)
        (critic_target_2_out := n2) = tdTargetShape (some reward) (some done) (bcast (some n1) (some n2)) ∧
    TD3.target1_shape (reward := reward) (done := done) (critic_2_out := q2) (critic_target_1_out := n1)
        (critic_target_2_out := n2) = tdTargetShape (some reward) (some done) (bcast (some n1) (some n2)) ∧
    TD3.pred_shape (reward := reward) (done := done) (critic_1_out := q1) (critic_target_1_out := n1)
        (critic_target_2_out := n2) = some q1 ∧
    TD3.pred1_shape (reward := reward) (done := done) (critic_2_out := q2) (critic_target_1_out := n1)
        (critic_target_2_out := n2) = some q2 := by
  refine ⟨?_, ?_, rfl, rfl⟩ <;>
  simp only [TD3.target_shape, TD3.target1_shape, gen_bcast_eq, gen_scalarS_eq, bcast_scalar_left, bcast_scalar_right,
    tdTargetShape, bcast_comm]

theorem gen_matd3_shapes_eq (reward done q1 q2 n1 n2 : Shape) :
    MATD3.target_shape (reward := reward) (done := done) (critics_1_out := q1) (critic_targets_1_out := n1)
        (critic_targets_2_out := n2) = tdTargetShape (some reward) (some done) (bcast (some n1) (some n2)) ∧
    MATD3.target1_shape (reward := reward) (done := done) (critics_2_out := q2) (critic_targets_1_out := n1)
        (critic_targets_2_out := n2) = tdTargetShape (some reward) (some done) (bcast (some n1) (some n2)) ∧
    MATD3.pred_shape (reward := reward) (done := done) (critics_1_out := q1) (critic_targets_1_out := n1)
        (critic_targets_2_out := n2) = some q1 ∧
    MATD3.pred1_shape (reward := reward) (done := done) (critics_2_out := q2) (critic_targets_1_out := n1)
        (critic_targets_2_out := n2) = some q2 := by
  refine ⟨?_, ?_, rfl, rfl⟩ <;>
  simp only [MATD3.target_shape, MATD3.target1_shape, gen_bcast_eq, gen_scalarS_eq, bcast_scalar_left,
    bcast_scalar_right, tdTargetShape, bcast_comm]

/-! ### shapes of columns -/

theorem bdim_self (a : Nat) : Bellman.bdim a a = some a := by simp [Bellman.bdim]
theorem bdim_one_right (a : Nat) : Bellman.bdim a 1 = some a := by
  unfold Bellman.bdim; split <;> simp_all
theorem bdim_one_left (a : Nat) : Bellman.bdim 1 a = some a := by
  rw [bdim_comm, bdim_one_right]

/-- a `(B, 1)` column against a `(B, 1)` column stays a `(B, 1)` column -/
theorem bcast_col_col (B : Nat) : Bellman.bcast (some [B, 1]) (some [B, 1]) = some [B, 1] := by
  simp [Bellman.bcast, Bellman.bcastRev, bdim_self]

/-- THE classic failure: a `(B, 1)` column against a flat `(B,)` vector is broadcast to `(B, B)`, without an error -/
theorem bcast_col_flat (B : Nat) : Bellman.bcast (some [B, 1]) (some [B]) = some [B, B] ∧
    Bellman.bcast (some [B]) (some [B, 1]) = some [B, B] := by
  simp [Bellman.bcast, Bellman.bcastRev, bdim_one_left, bdim_one_right]

theorem bcast_flat_flat (B : Nat) : Bellman.bcast (some [B]) (some [B]) = some [B] := by
  simp [Bellman.bcast, Bellman.bcastRev, bdim_self]

theorem bcast_sq_col (B : Nat) : Bellman.bcast (some [B, B]) (some [B, 1]) = some [B, B] ∧
    Bellman.bcast (some [B, 1]) (some [B, B]) = some [B, B] ∧ Bellman.bcast (some [B, B]) (some [B]) = some [B, B] ∧
    Bellman.bcast (some [B]) (some [B, B]) = some [B, B] ∧ Bellman.bcast (some [B, B]) (some [B, B]) = some [B, B] := by
  simp [Bellman.bcast, Bellman.bcastRev, bdim_one_left, bdim_one_right, bdim_self]

/-- `Q(s').max(dim=1)[0].unsqueeze(1)` and the double-Q gather of a `(B, A)` output are `(B, 1)` columns (A ≥ 1) -/
theorem next_shapes (B A : Nat) (hA : 1 ≤ A) :
    maxNextShape (some [B, A]) = some [B, 1] ∧ doubleNextShape (some [B, A]) (some [B, A]) = some [B, 1] := by
  have hA0 : A ≠ 0 := by omega
  simp [maxNextShape, doubleNextShape, Bellman.sReduce, Bellman.sUnsqueeze, Bellman.sGather, Bellman.normDim,
    Bellman.eraseAt, Bellman.insertAt, Bellman.gatherFits, hA0, hA]

theorem gather_col (B A : Nat) (hA : 1 ≤ A) : Bellman.sGather 1 (some [B, A]) (some [B, 1]) = some [B, 1] := by
  simp [Bellman.sGather, Bellman.normDim, Bellman.gatherFits, hA]


end Bellman
