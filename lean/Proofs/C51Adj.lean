import Mathlib.Tactic.Ring
import Mathlib.Tactic.Linarith
import Mathlib.Tactic.FieldSimp
import Mathlib.Algebra.Order.Field.Rat
import Mathlib.Data.Rat.Floor
import Model.C51

/-!
  Proofs/C51Adj.lean — the neighbour lemma: after the two sequential fix-ups the lower and upper
  atom indices are adjacent and in range; and the range of `t_z` / `b`.
-/
namespace C51

theorem ceil_eq (b : Rat) : b.ceil = if (b.floor : Rat) = b then b.floor else b.floor + 1 := by
  have h1 := Rat.floor_le b
  have h2 := Rat.lt_floor_add_one b
  rw [Rat.ceil_eq_neg_floor_neg]
  split
  · next h =>
    have : (-b).floor = -b.floor := by
      have : -b = ((-b.floor : Int) : Rat) := by push_cast; linarith
      rw [this, Rat.floor_intCast]
    omega
  · next h =>
    have hlt : (b.floor : Rat) < b := lt_of_le_of_ne h1 h
    have : (-b).floor = -b.floor - 1 := by
      apply le_antisymm
      · have : (-b).floor < -b.floor := by
          rw [Rat.floor_lt_iff]; push_cast; linarith
        omega
      · rw [Rat.le_floor_iff]; push_cast; push_cast at h2; linarith
    omega

theorem lowUp_adjacent (N : Nat) (hN : 2 ≤ N) (b : Rat) (h0 : 0 ≤ b) (h1 : b ≤ (N : Rat) - 1) :
    (lowUp N b).2 - (lowUp N b).1 = 1 ∧ 0 ≤ (lowUp N b).1 ∧ (lowUp N b).2 ≤ (N : Int) - 1 := by
  have hf := Rat.floor_le b
  have hf2 := Rat.lt_floor_add_one b
  have hfl0 : 0 ≤ b.floor := by rw [Rat.le_floor_iff]; simpa using h0
  have hflN : b.floor ≤ (N : Int) - 1 := by
    have : b.floor ≤ ((N : Int) - 1 : Int) := by
      have := Rat.floor_monotone h1
      have e : ((N : Rat) - 1) = (((N : Int) - 1 : Int) : Rat) := by push_cast; ring
      rw [e, Rat.floor_intCast] at this; exact this
    exact this
  unfold lowUp
  simp only
  rw [ceil_eq]
  by_cases hb : (b.floor : Rat) = b
  · simp only [hb, if_true]
    by_cases hpos : 0 < b.floor
    · simp [hpos]; omega
    · have hz : b.floor = 0 := by omega
      simp [hz]; omega
  · simp only [hb, if_false]
    have hlt : (b.floor : Rat) < b := lt_of_le_of_ne hf hb
    have : b.floor + 1 ≤ (N : Int) - 1 := by
      by_contra hc
      have : b.floor = (N : Int) - 1 := by omega
      have : (b.floor : Rat) = (N : Rat) - 1 := by rw [this]; push_cast; ring
      linarith
    have h2 : ¬ (b.floor = b.floor + 1) := by omega
    simp [h2]; omega

/-- the lower neighbour brackets `b`: `l ≤ b ≤ u` (so both interpolation weights are ≥ 0) -/
theorem lowUp_brackets (N : Nat) (hN : 2 ≤ N) (b : Rat) (h0 : 0 ≤ b) :
    ((lowUp N b).1 : Rat) ≤ b ∧ b ≤ ((lowUp N b).2 : Rat) := by
  have hf := Rat.floor_le b
  have hf2 := Rat.lt_floor_add_one b
  unfold lowUp
  simp only
  rw [ceil_eq]
  by_cases hb : (b.floor : Rat) = b
  · simp only [hb, if_true]
    by_cases hpos : 0 < b.floor
    · simp [hpos]; constructor <;> linarith
    · have hfl0 : 0 ≤ b.floor := by rw [Rat.le_floor_iff]; simpa using h0
      have hz : b.floor = 0 := by omega
      have h1N : 1 < N := by omega
      simp [hz, h1N]
      rw [hz] at hb; simp at hb; rw [← hb]; norm_num
  · simp only [hb, if_false]
    have h2 : ¬ (b.floor = b.floor + 1) := by omega
    simp [h2]
    constructor
    · exact hf
    · push_cast at hf2; linarith

theorem clamp_ge (lo hi x : Rat) (h : lo ≤ hi) : lo ≤ clamp lo hi x := by
  unfold clamp; exact le_min (le_max_right _ _) h

theorem clamp_le (lo hi x : Rat) : clamp lo hi x ≤ hi := by
  unfold clamp; exact min_le_right _ _

theorem clamp_id (lo hi x : Rat) (h1 : lo ≤ x) (h2 : x ≤ hi) : clamp lo hi x = x := by
  unfold clamp; rw [max_eq_left h1, min_eq_left h2]

theorem delta_pos (c : Cfg) (h : c.Valid) : 0 < c.delta := by
  obtain ⟨hN, hv⟩ := h
  unfold Cfg.delta
  have : (2 : Rat) ≤ (c.N : Rat) := by exact_mod_cast hN
  apply div_pos <;> linarith

theorem tz_range (c : Cfg) (h : c.Valid) (r d g : Rat) (j : Nat) :
    c.vmin ≤ tz c r d g j ∧ tz c r d g j ≤ c.vmax :=
  ⟨clamp_ge _ _ _ (le_of_lt h.2), clamp_le _ _ _⟩

/-- over the rationals the quotient already lies in `[0, N-1]`: the clamp on `b` changes nothing -/
theorem bpos_eq (c : Cfg) (h : c.Valid) (r d g : Rat) (j : Nat) :
    bpos c r d g j = (tz c r d g j - c.vmin) / c.delta := by
  have hd := delta_pos c h
  obtain ⟨t1, t2⟩ := tz_range c h r d g j
  have hN : (2 : Rat) ≤ (c.N : Rat) := by exact_mod_cast h.1
  unfold bpos
  apply clamp_id
  · apply div_nonneg <;> linarith
  · rw [div_le_iff₀ hd]
    have hN1 : (c.N : Rat) - 1 ≠ 0 := ne_of_gt (by linarith)
    have : ((c.N : Rat) - 1) * c.delta = c.vmax - c.vmin := by
      unfold Cfg.delta; field_simp
    linarith

theorem bpos_range (c : Cfg) (hN : 1 ≤ c.N) (r d g : Rat) (j : Nat) :
    0 ≤ bpos c r d g j ∧ bpos c r d g j ≤ (c.N : Rat) - 1 := by
  have : (1 : Rat) ≤ (c.N : Rat) := by exact_mod_cast hN
  exact ⟨clamp_ge _ _ _ (by linarith), clamp_le _ _ _⟩

/-- `Δ · b = t_z - v_min` -/
theorem delta_mul_bpos (c : Cfg) (h : c.Valid) (r d g : Rat) (j : Nat) :
    c.delta * bpos c r d g j = tz c r d g j - c.vmin := by
  rw [bpos_eq c h]
  have := ne_of_gt (delta_pos c h)
  field_simp

/-- the lower neighbour as a natural number -/
def lowNat (c : Cfg) (r d g : Rat) (j : Nat) : Nat := (lowUp c.N (bpos c r d g j)).1.toNat

theorem lowUp_nat (c : Cfg) (hN : 2 ≤ c.N) (r d g : Rat) (j : Nat) :
    (lowUp c.N (bpos c r d g j)).1 = (lowNat c r d g j : Int) ∧
    (lowUp c.N (bpos c r d g j)).2 = (lowNat c r d g j : Int) + 1 ∧
    lowNat c r d g j + 1 < c.N := by
  obtain ⟨b0, b1⟩ := bpos_range c (by omega) r d g j
  obtain ⟨a1, a2, a3⟩ := lowUp_adjacent c.N hN _ b0 b1
  unfold lowNat
  refine ⟨by omega, by omega, by omega⟩

end C51
