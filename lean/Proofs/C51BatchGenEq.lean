import Gen.C51BatchGen
import Proofs.C51GenEq

/-!
  Proofs/C51BatchGenEq.lean — the definitions `harness/py2lean_c51batch.py` generates from the batch-level stretch of
  `RainbowDQN.learn` (`Gen/C51BatchGen.lean`) are equal to the hand-written `Model/C51.lean`, for every batch,
  every per-row loss function `loss`, every weight column:

    learn_ret0 loss comb γ n ε one nst per = scalarLoss per (elemLoss ℓ comb γ n one nst) (one.map (·.weights))
    learn_ret1 …                           = retIdxs per nst.isSome (one.map (·.idxs))
    learn_ret2 …                           = newPriorities per ε (elemLoss ℓ comb γ n one nst)
    mean_arg_shape B per n_step comb       = some [B]       (for every B: no `(B, B)` broadcast)
    ret2_shape B true n_step comb          = some [B],  ret1_shape … = some [B] when indices are returned

  with `ℓ r γ = loss r.obs r.action r.reward r.next_obs r.done γ`.
-/
set_option linter.unusedSimpArgs false
set_option linter.unusedTactic false
set_option linter.unreachableTactic false
set_option linter.unusedVariables false

namespace C51
abbrev BRow (Obs : Type) := C51BatchGen.Row Obs

variable {Obs : Type}

/-- the per-row loss as a function of the row and the discount -/
def rowFn (loss : Obs → Nat → Rat → Obs → Rat → Rat → Rat) (r : BRow Obs) (g : Rat) : Rat :=
  loss r.obs r.action r.reward r.next_obs r.done g

theorem gen_batch_mean_eq (l : List Rat) : C51BatchGen.mean l = mean l := rfl

/-- closes `f l₁ = f l₂` / `some l₁ = some l₂` goals where the two lists agree entry by entry up to commutativity
    of `+` / `*` (a harmless rewrite of the source: `w * l` for `l * w`, `eps + l` for `l + eps`) -/
macro "list_entries" : tactic =>
  `(tactic| first
    | rfl
    | (intros; ring1)
    | (congr 1; apply List.ext_getElem <;> simp [Nat.min_comm] <;> (intros; ring1))
    | (apply List.ext_getElem <;> simp [Nat.min_comm] <;> (intros; ring1)))

theorem gen_learn_ret0_batch_eq (loss : Obs → Nat → Rat → Obs → Rat → Rat → Rat) (comb : Bool) (g : Rat) (n : Nat)
    (eps : Rat) (one : List (BRow Obs)) (nst : Option (List (BRow Obs))) (per : Bool) :
    C51BatchGen.learn_ret0 loss comb g n eps one nst per
      = scalarLoss per (elemLoss (rowFn loss) comb g n one nst) (one.map (·.weights)) := by
  unfold C51BatchGen.learn_ret0 scalarLoss elemLoss rowFn
  cases per <;> cases nst <;> cases comb <;> simp [gen_batch_mean_eq] <;> list_entries

theorem gen_learn_ret1_batch_eq (loss : Obs → Nat → Rat → Obs → Rat → Rat → Rat) (comb : Bool) (g : Rat) (n : Nat)
    (eps : Rat) (one : List (BRow Obs)) (nst : Option (List (BRow Obs))) (per : Bool) :
    C51BatchGen.learn_ret1 loss comb g n eps one nst per = retIdxs per nst.isSome (one.map (·.idxs)) := by
  unfold C51BatchGen.learn_ret1 retIdxs
  cases per <;> cases nst <;> simp

theorem gen_learn_ret2_batch_eq (loss : Obs → Nat → Rat → Obs → Rat → Rat → Rat) (comb : Bool) (g : Rat) (n : Nat)
    (eps : Rat) (one : List (BRow Obs)) (nst : Option (List (BRow Obs))) (per : Bool) :
    C51BatchGen.learn_ret2 loss comb g n eps one nst per
      = newPriorities per eps (elemLoss (rowFn loss) comb g n one nst) := by
  unfold C51BatchGen.learn_ret2 newPriorities elemLoss rowFn
  cases per <;> cases nst <;> cases comb <;> simp <;> list_entries

/-! ### shapes, for every batch size -/

theorem bcast_vec_vec (B : Nat) : C51BatchGen.bcast (some [B]) (some [B]) = some [B] := by
  simp [C51BatchGen.bcast, C51BatchGen.bcastRev, C51BatchGen.bdim]

theorem sFlat_col (B : Nat) : C51BatchGen.sFlat (some [B, 1]) = some [B] := by
  simp [C51BatchGen.sFlat]

theorem bcast_vec_scalar (B : Nat) : C51BatchGen.bcast (some [B]) C51BatchGen.scalarS = some [B] := by
  simp [C51BatchGen.bcast, C51BatchGen.scalarS, C51BatchGen.bcastRev]

theorem bcast_scalar_vec (B : Nat) : C51BatchGen.bcast C51BatchGen.scalarS (some [B]) = some [B] := by
  simp [C51BatchGen.bcast, C51BatchGen.scalarS, C51BatchGen.bcastRev]

/-- a `(B,)` vector against a `(B, 1)` column broadcasts to `(B, B)` -/
theorem bcast_vec_col (B : Nat) : C51BatchGen.bcast (some [B]) (some [B, 1]) = some [B, B] := by
  by_cases h : B = 1
  · subst h; simp [C51BatchGen.bcast, C51BatchGen.bcastRev, C51BatchGen.bdim]
  · have h' : ¬ (1 = B) := fun e => h e.symm
    simp [C51BatchGen.bcast, C51BatchGen.bcastRev, C51BatchGen.bdim, h, h']

theorem gen_mean_arg_shape_eq (B : Nat) (per ns comb : Bool) :
    C51BatchGen.mean_arg_shape B per ns comb = some [B] := by
  unfold C51BatchGen.mean_arg_shape
  cases per <;> cases ns <;> cases comb <;> simp [bcast_vec_vec, sFlat_col, bcast_vec_scalar, bcast_scalar_vec]

theorem gen_ret2_shape_eq (B : Nat) (per ns comb : Bool) :
    C51BatchGen.ret2_shape B per ns comb = if per then some [B] else none := by
  unfold C51BatchGen.ret2_shape
  cases per <;> cases ns <;> cases comb <;> simp [bcast_vec_vec, bcast_vec_scalar, bcast_scalar_vec]

theorem gen_ret1_shape_eq (B : Nat) (per ns comb : Bool) :
    C51BatchGen.ret1_shape B per ns comb = if per || ns then some [B] else none := by
  unfold C51BatchGen.ret1_shape
  cases per <;> cases ns <;> cases comb <;> simp

/-- the value of the `(B,) * (B, 1)` product the generated code would contain without the `reshape(-1)`:
    `bzip` over the broadcast shape is the model's `columnLoss` on a concrete batch (decided) -/
example : C51BatchGen.mean (C51BatchGen.bzip (fun x y => x * y) (some [2]) [1, 0] (some [2, 1]) [1, 0])
    = columnLoss [1, 0] [1, 0] := by decide +kernel

end C51
